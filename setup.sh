#!/bin/bash
# Offline setup after a fresh restore: regenerate Gen/*.v from /repo, full .vo build, OCaml driver.
set -e
cd "$(dirname "$0")"
export PYTHONPATH="$PWD:${VERIF_REPO:-/repo}" PYTHONHASHSEED=0
mkdir -p coq/Gen evidence replays
/venv/bin/python translate/gen.py
cd coq
coq_makefile -f _CoqProject -o Makefile >/dev/null
timeout 3000 make -j 14
./build_driver.sh
echo "setup ok"

#!/bin/bash
# runs every check of MANIFEST.json (quick tier by default) on the current /repo; prints one line per property
tier=${1:-quick}
cd /verif
rc=0
for p in C01 C02 C03 C04 C05 C06 C07 C08 C09 C10 C11 C12 C13 C14 C15 C16 C17 C18 C19 C20; do
  out=$(./check $p --tier $tier 2>&1); r=$?
  echo "$out" | grep -E "^VIOLATION|^KNOWN-FINDING" | cut -c1-200
  echo "$out" | grep -E "^$p " | tail -1
  [ $r -ne 0 ] && rc=1
done
exit $rc

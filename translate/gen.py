#!/venv/bin/python
"""Translator: re-reads /repo's current working tree and rewrites coq/Gen/*.v.

Usage: gen.py [--only NAME ...]
Writes a file only when its content changed.  Fail-closed: on anything the
translator does not understand it prints `TRANSLATE-ERROR <file>: <why>` and
exits 2; a file it could not produce is replaced by a stub without definitions
(so that a stale model is never proved against: everything that uses a
definition of that file stops compiling, and nothing else does).
"""
import importlib
import os
import sys
import traceback

HERE = os.path.dirname(os.path.abspath(__file__))
sys.path.insert(0, HERE)

from common import GEN_DIR, TranslateError, write_if_changed  # noqa: E402

MODULES = [
    ("TokTy", "gen_tokty"),
    ("ParserTables", "gen_parsertables"),
    ("LexRules", "gen_lexrules"),
    ("StreamTables", "gen_streamtables"),
    ("TokFmtTable", "gen_tokfmt"),
    ("Reps", "gen_reps"),
    ("FiltersPin", "gen_filters"),
    ("Blocks", "gen_blocks"),
    ("Facts", "gen_facts"),
    ("Schema", "gen_schema"),
    ("DeclPin", "gen_declpin"),
    ("TopLoop", "gen_toploop"),
    ("Dispatch", "gen_dispatch"),
    ("VisitorTable", "gen_visitor"),
    ("PinsC01", "gen_pins_c01"),
    ("PinsC02", "gen_pins_c02"),
    ("PinsC03", "gen_pins_c03"),
    ("PinsC12", "gen_pins_c12"),
]


STUB = "(* the translator could not produce this file from the live code: no definitions *)\nDefinition translate_failed : bool := true.\n"


def main(argv):
    only = None
    if "--only" in argv:
        only = set(argv[argv.index("--only") + 1:])
    rc = 0
    for name, modname in MODULES:
        if only and name not in only:
            continue
        path = os.path.join(GEN_DIR, name + ".v")
        try:
            if not os.path.exists(os.path.join(HERE, modname + ".py")):
                continue
            mod = importlib.import_module(modname)
            text = mod.generate()
            changed = write_if_changed(path, text)
            print("GEN %s %s" % (name, "changed" if changed else "same"))
        except TranslateError as e:
            print("TRANSLATE-ERROR %s: %s" % (name, e))
            write_if_changed(path, STUB)
            rc = 2
        except Exception as e:  # import errors of the mutated repo etc.
            print("TRANSLATE-ERROR %s: %s: %s" % (name, type(e).__name__, e))
            traceback.print_exc()
            write_if_changed(path, STUB)
            rc = 2
    return rc


if __name__ == "__main__":
    sys.exit(main(sys.argv[1:]))

"""Gen/PinsC12.v: AST-digest pins of the functions mirrored by the hand-written models behind C12 (see modelpins.py)."""
import modelpins

PINS = {
    "CxxParser._parse_namespace": "d191d71a92f922eea31bae10",
}


def generate():
    return modelpins.generate_for("C12", PINS)

"""Gen/PinsC12.v: AST-digest pins of the functions mirrored by the hand-written models behind C12 (see modelpins.py)."""
import modelpins

PINS = {
    "CxxParser._parse_namespace": "d191d71a92f922eea31bae10",
}


def generate():
    text, changed = modelpins.generate_for("C12", PINS)
    if changed:
        print("PIN-MISMATCH PinsC12: %s changed; the hand-written model of C12 mirrors the pinned text" % ", ".join(changed))
    return text

"""Gen/PinsC03.v: AST-digest pins of the functions mirrored by the hand-written models behind C03 (see modelpins.py)."""
import modelpins

PINS = {
    "CxxParser._parse_class_decl": "7389777b4a08cd7a4a82e7cd",
    "CxxParser._maybe_parse_class_enum_decl": "4e032bb90ebb09b12018a73b",
    "CxxParser._parse_decl": "c1738e4cc791a6362a5d23e6",
    "CxxParser._parse_class_decl_base_clause": "c2f037b6dcbdee0e01c7ecf3",
    "CxxParser._parse_method_end": "d44b03d1e9ba047189393fbe",
    "CxxParser._discard_ctor_initializer": "7734cf1f4e4fddb31f943567",
    "CxxParser._parse_field": "1185f75a2b4379ede0104654",
    "CxxParser._parse_bitfield": "461c4046fd501aa1c634151c",
}


def generate():
    text, changed = modelpins.generate_for("C03", PINS)
    if changed:
        print("PIN-MISMATCH PinsC03: %s changed; the hand-written model of C03 mirrors the pinned text" % ", ".join(changed))
    return text

"""Gen/PinsC03.v: AST-digest pins of the functions mirrored by the hand-written models behind C03 (see modelpins.py)."""
import modelpins

PINS = {
    "CxxParser._parse_class_decl": "b7a61b168afe7bb5caeac21d",
    "CxxParser._finish_class_or_enum": "99e950d072e8dec69dc81b45",
    "CxxParser._finish_class_decl": "1b1e28788e27a85609b79609",
    "CxxParser._maybe_parse_class_enum_decl": "0ef70070edf7ac5211a9e518",
    "CxxParser._parse_decl": "c1738e4cc791a6362a5d23e6",
    "CxxParser._parse_class_decl_base_clause": "c2f037b6dcbdee0e01c7ecf3",
    "CxxParser._parse_method_end": "a65cb08f7c5fef869eda739f",
    "CxxParser._discard_ctor_initializer": "7734cf1f4e4fddb31f943567",
    "CxxParser._parse_field": "1185f75a2b4379ede0104654",
    "CxxParser._parse_bitfield": "461c4046fd501aa1c634151c",
    "CxxParser._parse_declarations": "af253c9cb8607bfedc3d6df9",
    "CxxParser._parse_function": "9be2cc83cdcd42156746acb3",
    "CxxParser._parse_pqname_name_operator": "d16058bd347fce5958602a75",
    "CxxParser._parse_operator_conversion": "b016db67d23cd6ecf610e839",
}


def generate():
    text, changed = modelpins.generate_for("C03", PINS)
    if changed:
        print("PIN-MISMATCH PinsC03: %s changed; the hand-written model of C03 mirrors the pinned text" % ", ".join(changed))
    return text

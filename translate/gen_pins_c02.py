"""Gen/PinsC02.v: AST-digest pins of the functions mirrored by the hand-written models behind C02 (see modelpins.py)."""
import modelpins

PINS = {
    "CxxParser._parse_pqname": "9b86aa54a596b94cc2b61c3d",
    "CxxParser._parse_pqname_fundamental": "c43df300cc5e69034fa0430a",
    "CxxParser._parse_pqname_name": "57907dedd1f043a29a26b03a",
    "CxxParser._parse_template_specialization": "5a182492661bd74ea73fb235",
}


def generate():
    text, changed = modelpins.generate_for("C02", PINS)
    if changed:
        print("PIN-MISMATCH PinsC02: %s changed; the hand-written model of C02 mirrors the pinned text" % ", ".join(changed))
    return text

"""Gen/Blocks.v: ordered effect atoms of the state-manipulating methods of
CxxParser (parser.py) and of the state classes (parserstate.py), extracted
statement by statement against a closed vocabulary (fail closed)."""
import ast
import inspect
import textwrap

from common import TranslateError, coq_list

ATOMS = [
    # _setup_state
    ("SavePrior", "state._prior_visitor = self.visitor"),
    ("SetStateNew", "self.state = state"),
    # _pop_state
    ("LoadPrev", "prev_state = self.state"),
    ("Finish", "prev_state._finish(self.visitor)"),
    ("RestoreVisitor", "self.visitor = prev_state._prior_visitor"),
    ("LoadParent", "state = prev_state.parent"),
    ("RaiseIfRoot", "if state is None:\n    raise CxxParseError('INTERNAL ERROR: unbalanced state')"),
    ("SetNsIfNs", "if isinstance(state, NamespaceBlockState):\n    self.current_namespace = state.namespace"),
    ("ReturnPrev", "return prev_state"),
    # _on_block_end
    ("PopState", "old_state = self._pop_state()"),
    ("FinishClassIfClass", "if isinstance(old_state, ClassBlockState):\n    self._finish_class_decl(old_state)"),
    # start sites
    ("SetupState", "self._setup_state(state)"),
    ("SetCurrentNs", "self.current_namespace = state.namespace"),
    ("StartNs", "if self.visitor.on_namespace_start(state) is False:\n    self.visitor = null_visitor"),
    ("StartExtern", "if self.visitor.on_extern_block_start(state) is False:\n    self.visitor = null_visitor"),
    ("StartClass", "if self.visitor.on_class_start(state) is False:\n    self.visitor = null_visitor"),
    # access
    ("LoadState", "state = self.state"),
    ("RaiseIfNotClass", "if not isinstance(state, ClassBlockState):\n    raise self._parse_error(tok)"),
    ("SetAccess", "state._set_access(tok.value)"),
    ("ExpectColon", "self._next_token_must_be(':')"),
]
ATOM_BY_TEXT = {t: n for n, t in ATOMS}
ATOM_CODE = {n: i + 1 for i, (n, _) in enumerate(ATOMS)}


def _func(cls, name):
    src = textwrap.dedent(inspect.getsource(getattr(cls, name)))
    fn = ast.parse(src).body[0]
    body = fn.body
    if body and isinstance(body[0], ast.Expr) and isinstance(body[0].value, ast.Constant) and isinstance(body[0].value.value, str):
        body = body[1:]
    return body


def _atoms_all(cls, name):
    out = []
    for st in _func(cls, name):
        txt = ast.unparse(st)
        if txt not in ATOM_BY_TEXT:
            raise TranslateError("%s: statement outside the vocabulary: %r" % (name, txt[:100]))
        out.append(ATOM_BY_TEXT[txt])
    return out


def _tail_atoms(cls, name, start_text, n_expected_ctor):
    """statements of `name` from the statement that constructs the new state
    (`state = XBlockState(...)` / annotated form) to the end of that block."""
    fn_body = _func(cls, name)
    found = None
    for node in ast.walk(ast.Module(body=fn_body, type_ignores=[])):
        for fld in ("body", "orelse"):
            seq = getattr(node, fld, None)
            if not isinstance(seq, list):
                continue
            for i, st in enumerate(seq):
                val = None
                if isinstance(st, ast.Assign):
                    val = st.value
                elif isinstance(st, ast.AnnAssign):
                    val = st.value
                if isinstance(val, ast.Call) and isinstance(val.func, ast.Name) and val.func.id == start_text:
                    found = (seq, i, val)
    if found is None:
        raise TranslateError("%s: no %s(...) construction found" % (name, start_text))
    seq, i, call = found
    # constructor arguments: parent must be the current state
    a0 = ast.unparse(call.args[0])
    if a0 not in ("state", "self.state"):
        raise TranslateError("%s: parent of the new state is %r, expected the current state" % (name, a0))
    atoms = []
    for st in seq[i + 1:]:
        txt = ast.unparse(st)
        if txt == "return":
            break
        if txt not in ATOM_BY_TEXT:
            raise TranslateError("%s: statement after state construction outside the vocabulary: %r" % (name, txt[:100]))
        atoms.append(ATOM_BY_TEXT[txt])
    return atoms


def _finish_atom(cls, expect):
    body = _func(cls, "_finish")
    if len(body) != 1:
        raise TranslateError("%s._finish has %d statements" % (cls.__name__, len(body)))
    txt = ast.unparse(body[0])
    if txt != "visitor.%s(self)" % expect:
        raise TranslateError("%s._finish is %r" % (cls.__name__, txt))
    return True


def _null_returns_none():
    from cxxheaderparser import visitor as V
    for m in ("on_namespace_start", "on_extern_block_start", "on_class_start"):
        body = _func(V.NullVisitor, m)
        if len(body) != 1 or ast.unparse(body[0]) != "return None":
            raise TranslateError("NullVisitor.%s does not simply return None" % m)
    return True


def extract():
    from cxxheaderparser.parser import CxxParser
    from cxxheaderparser import parserstate as PS
    d = {}
    d["setup_state"] = _atoms_all(CxxParser, "_setup_state")
    d["pop_state"] = _atoms_all(CxxParser, "_pop_state")
    d["on_block_end"] = _atoms_all(CxxParser, "_on_block_end")
    d["open_ns"] = _tail_atoms(CxxParser, "_parse_namespace", "NamespaceBlockState", 3)
    d["open_extern"] = _tail_atoms(CxxParser, "_parse_extern", "ExternBlockState", 3)
    d["open_class"] = _tail_atoms(CxxParser, "_parse_class_decl", "ClassBlockState", 6)
    d["access"] = _atoms_all(CxxParser, "_process_access_specifier")
    _finish_atom(PS.NamespaceBlockState, "on_namespace_end")
    _finish_atom(PS.ExternBlockState, "on_extern_block_end")
    _finish_atom(PS.ClassBlockState, "on_class_end")
    _null_returns_none()
    body = _func(PS.ClassBlockState, "_set_access")
    if len(body) != 1 or ast.unparse(body[0]) != "self.access = access":
        raise TranslateError("ClassBlockState._set_access changed")
    # default access expression in _parse_class_decl
    src = inspect.getsource(CxxParser._parse_class_decl)
    if "default_access = \"private\" if typename.classkey == \"class\" else \"public\"" not in src:
        raise TranslateError("default_access computation changed")
    # ClassBlockState(self.state, location, clsdecl, default_access, typedef, mods): 4th arg is the access
    tree = ast.parse(textwrap.dedent(src))
    ok = False
    for node in ast.walk(tree):
        if isinstance(node, ast.Call) and isinstance(node.func, ast.Name) and node.func.id == "ClassBlockState":
            if len(node.args) >= 4 and ast.unparse(node.args[3]) == "default_access":
                ok = True
    if not ok:
        raise TranslateError("ClassBlockState is not constructed with default_access")
    return d


def generate():
    d = extract()
    out = ["(* GENERATED by translate/gen_blocks.py from the ASTs of CxxParser._setup_state, _pop_state,",
           "   _on_block_end, the three block-start sites, _process_access_specifier -- do not edit *)",
           "From Coq Require Import NArith List.", "Import ListNotations.", "Open Scope N_scope.", "",
           "Inductive atom : Type :="]
    for n, t in ATOMS:
        out.append("| A_%s (* %s *)" % (n, t.replace("\n", " ").replace("*)", "* )")))
    out[-1] += "."
    out.append("")
    for k in ("setup_state", "pop_state", "on_block_end", "open_ns", "open_extern", "open_class", "access"):
        out.append("Definition atoms_%s : list atom := %s." % (k, coq_list(["A_" + a for a in d[k]], per_line=4)))
    out.append("")
    return "\n".join(out)

"""Gen/PinsC01.v: AST-digest pins of the functions mirrored by the hand-written models behind C01 (see modelpins.py)."""
import modelpins

PINS = {
    "CxxParser._parse_type": "479fd876a38d253006e9daf2",
    "CxxParser._parse_enumerator_list": "85df09e027374eac870f2718",
    "CxxParser._parse_fn_end": "68a034fac27fde2a7dc38a86",
    "CxxParser._parse_fn_requires": "d7d48953efc4a35df5ae9600",
    "CxxParser._parse_template_decl": "f46e0092f86b7aa94d87a1c8",
    "CxxParser._parse_template_type_parameter": "e51bf6a8c1cac0e0240197dd",
    "ParsedTypeModifiers.validate": "8ec39aba017329b5f75b6f68",
    "CxxParser._parse_using": "b98d7e9db9a2a3acc517b93d",
    "CxxParser._parse_using_directive": "9e127026cb54be59b0167599",
    "CxxParser._parse_using_declaration": "02fd75051b83a579636938bf",
    "CxxParser._parse_using_typealias": "24a311bd98b144cb428f7211",
    "CxxParser._consume_attribute_specifier_seq": "99384e37275aa424cee9d8af",
    "CxxParser._parse_enum_decl": "f8fc7a84aca84217b3ce8d93",
    "CxxParser._finish_class_or_enum": "99e950d072e8dec69dc81b45",
    "CxxParser._parse_declarations": "af253c9cb8607bfedc3d6df9",
    "CxxParser._parse_decl": "c1738e4cc791a6362a5d23e6",
    "CxxParser._parse_function": "9be2cc83cdcd42156746acb3",
    "CxxParser._parse_field": "1185f75a2b4379ede0104654",
    "CxxParser._parse_template": "be0af5243218af844a21ffd8",
    "CxxParser._parse_concept": "0400b1ee52892a9ba78c885f",
    "CxxParser._parse_template_instantiation": "1db08717472a3155640f103e",
    "CxxParser._parse_requires": "defd516ad5a541785b7e5546",
    "CxxParser._parse_requires_segment": "8e88059e2486dfa53897a602",
}


def generate():
    text, changed = modelpins.generate_for("C01", PINS)
    if changed:
        print("PIN-MISMATCH PinsC01: %s changed; the hand-written model of C01 mirrors the pinned text" % ", ".join(changed))
    return text

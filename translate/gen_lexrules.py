"""Gen/LexRules.v: PLY's real rule order and regex ASTs (from the live master
regex via re._parser), the action of every t_* function (from its AST),
literals, ignore set, Unicode \\d table."""
import ast
import inspect
import re
import textwrap

import re._parser as sre_parse
import re._constants as C

from common import TranslateError, coq_list, coq_N, coq_str, ident_for, tt_code_map

MAXREPEAT = C.MAXREPEAT

_DIGITS = None


def digit_ranges():
    """code points matched by \\d in a str pattern (asked of the live re), as
    ranges; checked: each range is made of blocks of 10 with values 0..9"""
    global _DIGITS
    if _DIGITS is not None:
        return _DIGITS
    import unicodedata
    d = re.compile(r"\d")
    pts = [c for c in range(0x110000) if d.match(chr(c))]
    ranges = []
    for c in pts:
        if ranges and ranges[-1][1] == c - 1:
            ranges[-1][1] = c
        else:
            ranges.append([c, c])
    for lo, hi in ranges:
        if (hi - lo + 1) % 10:
            raise TranslateError("\\d range %x-%x is not a multiple of 10" % (lo, hi))
        for c in range(lo, hi + 1):
            if unicodedata.digit(chr(c)) != (c - lo) % 10 or int(chr(c)) != (c - lo) % 10:
                raise TranslateError("digit value of U+%04X is not positional" % c)
    _DIGITS = [tuple(r) for r in ranges]
    return _DIGITS


def rx_charset(neg, ranges):
    rs = coq_list(["(%s, %s)" % (coq_N(a), coq_N(b)) for a, b in ranges], per_line=6)
    return "(Chr %s %s)" % ("true" if neg else "false", rs)


def tr_in(items):
    if len(items) == 1 and items[0][0] is C.CATEGORY and items[0][1] is C.CATEGORY_DIGIT:
        return "(Chr false digit_ranges)"
    neg = False
    ranges = []
    for op, av in items:
        if op is C.NEGATE:
            neg = True
        elif op is C.LITERAL:
            ranges.append((av, av))
        elif op is C.RANGE:
            ranges.append((av[0], av[1]))
        elif op is C.CATEGORY:
            if av is C.CATEGORY_DIGIT:
                ranges.extend(digit_ranges())
            else:
                raise TranslateError("unsupported category %s in a token rule" % av)
        else:
            raise TranslateError("unsupported class item %s" % op)
    return rx_charset(neg, ranges)


def seq(items):
    if not items:
        return "Eps"
    out = items[-1]
    for it in reversed(items[:-1]):
        out = "(Cat %s %s)" % (it, out)
    return out


def tr_seq(sub, allow_begin=False):
    return seq([tr_item(op, av, allow_begin) for op, av in sub])


def tr_item(op, av, allow_begin=False):
    if op is C.LITERAL:
        return rx_charset(False, [(av, av)])
    if op is C.NOT_LITERAL:
        return rx_charset(True, [(av, av)])
    if op is C.ANY:
        return rx_charset(True, [(10, 10)])
    if op is C.IN:
        return tr_in(av)
    if op is C.SUBPATTERN:
        group, add_flags, del_flags, sub = av
        if add_flags or del_flags:
            raise TranslateError("inline flags in a sub-pattern")
        return tr_seq(sub, allow_begin)
    if op is C.BRANCH:
        _, alts = av
        parts = [tr_seq(a, allow_begin) for a in alts]
        out = parts[-1]
        for p in reversed(parts[:-1]):
            out = "(Alt %s %s)" % (p, out)
        return out
    if op is C.MAX_REPEAT:
        lo, hi, sub = av
        body = tr_seq(sub, allow_begin)
        if hi is MAXREPEAT:
            out = "(Star %s)" % body
            for _ in range(lo):
                out = "(Cat %s %s)" % (body, out)
            return out
        if hi > 8:
            raise TranslateError("bounded repeat above 8")
        out = "Eps"
        for _ in range(hi - lo):
            out = "(Alt (Cat %s %s) Eps)" % (body, out)
        for _ in range(lo):
            out = "(Cat %s %s)" % (body, out)
        return out
    if op is C.ASSERT_NOT:
        direction, sub = av
        if direction != 1:
            raise TranslateError("look-behind in a token rule")
        return "(NotAhead %s)" % tr_seq(sub, allow_begin)
    if op is C.AT:
        if av is C.AT_END:
            return "AtEnd"
        if av is C.AT_BEGINNING and allow_begin:
            return "Eps"
        raise TranslateError("anchor %s in a token rule" % av)
    raise TranslateError("unsupported regex opcode %s" % op)


# --- actions ---------------------------------------------------------------

def _body(fn):
    src = textwrap.dedent(inspect.getsource(fn))
    f = ast.parse(src).body[0]
    return [ast.unparse(s) for s in f.body]


PP_BODY = [
    "m = _line_re.match(t.value)",
    "if m:\n    self.filename = m.group(3)\n    self.line_offset = 1 + self.lex.lineno - int(m.group(2))\n    return None",
    "if t.value.startswith('#warning'):\n    return",
    "if 'define' in t.value:\n    msgtype = '#define'\nelse:\n    msgtype = 'preprocessor'",
    "self._error('cxxheaderparser does not support ' + msgtype + ' directives, please use a C++ preprocessor first', t)",
]

ERR_KINDS = {"Invalid octal constant": 1, "Unmatched '": 2, "Invalid char constant %s": 3,
             "String contains invalid escape code": 4}


def action_of(inst, name, codes):
    fn = getattr(type(inst), "t_" + name)
    body = _body(fn)
    ty = ident_for(name) if name in codes else None
    if body == ["return t"]:
        return "ARet %s" % ty
    if body == ["t.lexer.lineno += t.value.count('\\n')", "return t"]:
        return "ACountNl %s" % ty
    if body == ["t.lexer.lineno += len(t.value)", "return t"]:
        return "ALen %s" % ty
    if body == ["if t.value in self.keywords:\n    t.type = t.value", "return t"]:
        return "AKeyword %s" % ty
    if len(body) == 2 and body[1] == "self._error(msg, t)" and body[0].startswith("msg = "):
        m = re.match(r"msg = '(.*)'( % t\.value)?$|msg = \"(.*)\"( % t\.value)?$", body[0])
        if not m:
            raise TranslateError("t_%s: unrecognised message %r" % (name, body[0]))
        text = m.group(1) if m.group(1) is not None else m.group(3)
        text = text.replace("\\'", "'")
        if text not in ERR_KINDS:
            raise TranslateError("t_%s: unknown error message %r" % (name, text))
        return "AErr %d" % ERR_KINDS[text]
    if name == "PP_DIRECTIVE":
        if body != PP_BODY:
            raise TranslateError("t_PP_DIRECTIVE body changed: %r" % (body,))
        return "APP"
    raise TranslateError("t_%s: unsupported rule function body %r" % (name, body))


def generate():
    from cxxheaderparser import lexer as L
    codes = tt_code_map()
    inst = L.PlyLexer("f")
    lx = inst.lex
    if lx.lexreflags != re.VERBOSE:
        raise TranslateError("lexer flags are %r, expected re.VERBOSE" % lx.lexreflags)
    if len(lx.lexre) != 1:
        raise TranslateError("master regex was split into %d parts" % len(lx.lexre))
    if set(lx.lexstatere.keys()) != {"INITIAL"}:
        raise TranslateError("lexer has extra states")
    cre, findex = lx.lexre[0]
    tree = sre_parse.parse(lx.lexretext[0], lx.lexreflags)
    if len(tree) != 1 or tree[0][0] is not C.BRANCH:
        raise TranslateError("master regex is not one alternation")
    alts = tree[0][1][1]
    rules = []
    for alt in alts:
        if len(alt) != 1 or alt[0][0] is not C.SUBPATTERN:
            raise TranslateError("master alternative is not a named group")
        gidx = alt[0][1][0]
        func, tokname = findex[gidx]
        gname = [n for n, i in cre.groupindex.items() if i == gidx]
        if len(gname) != 1 or not gname[0].startswith("t_"):
            raise TranslateError("unnamed master group %d" % gidx)
        name = gname[0][2:]
        rx = tr_seq(alt[0][1][3])
        if func is None:
            if not tokname:
                raise TranslateError("ignored string rule %s" % name)
            if tokname not in codes:
                raise TranslateError("unknown token type %s" % tokname)
            act = "ARet %s" % ident_for(tokname)
        else:
            act = action_of(inst, name, codes)
        rules.append((name, rx, act))
    # the error function
    eb = _body(L.PlyLexer.t_error)
    if eb != ["self._error(f'Illegal character {t.value!r}', t)"]:
        raise TranslateError("t_error changed: %r" % eb)
    eb = _body(L.PlyLexer._error)
    if eb != ["tok.location = self.current_location()", "raise LexError(msg, tok)"]:
        raise TranslateError("_error changed: %r" % eb)
    cb = _body(L.PlyLexer.current_location)
    if cb != ["return Location(self.filename, self.lex.lineno - self.line_offset)"]:
        raise TranslateError("current_location changed: %r" % cb)
    if lx.lexerrorf is None or lx.lexeoff is not None:
        raise TranslateError("error/eof hooks changed")
    # helper regexes
    line_tree = sre_parse.parse(L._line_re.pattern, L._line_re.flags & ~re.UNICODE)
    if L._line_re.pattern != r'^\#[\t ]*(line)? (\d+) "(.*)"':
        raise TranslateError("_line_re changed: %r" % L._line_re.pattern)

    out = ["(* GENERATED by translate/gen_lexrules.py from the live PlyLexer (master regex via re._parser, t_* ASTs) -- do not edit *)",
           "From Coq Require Import NArith List.", "Import ListNotations.",
           "From CXV Require Import Gen.TokTy Base.Regex.", "Open Scope N_scope.", ""]
    out.append("Inductive action := ARet (ty : N) | ACountNl (ty : N) | ALen (ty : N) | AKeyword (ty : N) | AErr (kind : N) | APP.")
    out.append("")
    out.append("Definition digit_ranges : list (N * N) :=\n  %s." %
               coq_list(["(%s, %s)" % (coq_N(a), coq_N(b)) for a, b in digit_ranges()], per_line=6))
    for name, rx, act in rules:
        out.append("Definition rx_%s : rx :=\n  %s." % (name, rx))
    out.append("")
    out.append("Definition rules : list (rx * action) :=\n  %s." %
               coq_list(["(rx_%s, %s)" % (n, a) for n, _, a in rules], per_line=1))
    out.append("Definition rule_names : list (list N) :=\n  %s." % coq_list([coq_str(n) for n, _, _ in rules], per_line=1))
    out.append("Definition lexignore : list N := %s." % coq_list([coq_N(ord(c)) for c in lx.lexignore]))
    out.append("")
    return "\n".join(out)

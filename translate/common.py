"""Shared helpers for the translator (Python -> Coq text).

Everything here is deterministic: the same /repo tree gives byte-identical
Gen/*.v files, so `make` stays incremental.
"""
import os
import sys

REPO = os.environ.get("VERIF_REPO", "/repo")
if REPO not in sys.path:
    sys.path.insert(0, REPO)

GEN_DIR = os.path.join(os.path.dirname(os.path.dirname(os.path.abspath(__file__))), "coq", "Gen")


class TranslateError(Exception):
    """Raised when the source has a shape the translator does not understand
    (fail closed: never guess)."""


def write_if_changed(path, text):
    old = None
    if os.path.exists(path):
        with open(path, "r", encoding="utf-8") as fp:
            old = fp.read()
    if old != text:
        os.makedirs(os.path.dirname(path), exist_ok=True)
        with open(path + ".tmp", "w", encoding="utf-8") as fp:
            fp.write(text)
        os.replace(path + ".tmp", path)
        return True
    return False


def coq_N(n):
    return "%d%%N" % n


def coq_list(items, per_line=8):
    if not items:
        return "[]"
    out = []
    for i in range(0, len(items), per_line):
        out.append("; ".join(items[i:i + per_line]))
    return "[" + ";\n   ".join(out) + "]"


def coq_str(s):
    """Python str -> list N of code points."""
    return coq_list([coq_N(ord(c)) for c in s], per_line=16)


# ---------------------------------------------------------------------------
# token-type numbering, shared by translator and harness
# ---------------------------------------------------------------------------

def token_types():
    """Deterministic list of every token type name that can reach the parser
    or a Value: PlyLexer.tokens (incl. keywords), literals, UD_* and the
    PLACEHOLDER type.  Index in this list is the N code."""
    from cxxheaderparser.lexer import PlyLexer, LexerTokenStream, PhonyEnding
    names = []
    seen = set()

    def add(n):
        if n not in seen:
            seen.add(n)
            names.append(n)

    base = [t for t in PlyLexer.tokens if t not in PlyLexer.keywords]
    for t in base:
        add(t)
    for t in sorted(PlyLexer.keywords):
        add(t)
    for t in PlyLexer.literals:
        add(t)
    for t in sorted(LexerTokenStream._user_defined_literal_start):
        add("UD_" + t)
    add(PhonyEnding.type)
    add("error")
    return names


def tt_code_map():
    return {n: i for i, n in enumerate(token_types())}


def ident_for(name):
    ok = all(c.isalnum() or c == "_" for c in name)
    if ok:
        return "T_" + name
    return "T_LIT_" + "_".join(str(ord(c)) for c in name)

"""Gen/Facts.v: whole-module AST facts about parser.py / simple.py that the
client-parametric theorems rely on.  Each fact is a boolean computed by an AST
scan; the scan's findings (offending sites) are put in comments."""
import ast
import inspect

from common import TranslateError

STREAM_API = {"token", "token_eof_ok", "token_newline_eof_ok", "token_if", "token_if_in_set", "token_if_val",
              "token_if_not", "token_peek_if", "return_token", "return_tokens", "get_doxygen", "get_doxygen_after",
              "current_location"}


def scan_parser():
    from cxxheaderparser import parser as P
    tree = ast.parse(inspect.getsource(P))
    facts = {}
    bad_api = []
    bad_priv = []
    loc_stores = []
    tok_mut = []
    toknl_sites = []
    lex_assign = []
    for fn in ast.walk(tree):
        if not isinstance(fn, (ast.FunctionDef,)):
            continue
        for node in ast.walk(fn):
            # self.lex.<attr>
            if isinstance(node, ast.Attribute) and isinstance(node.value, ast.Attribute) and \
               isinstance(node.value.value, ast.Name) and node.value.value.id == "self" and node.value.attr == "lex":
                if node.attr not in STREAM_API:
                    bad_api.append("%s:%s" % (fn.name, node.attr))
                if node.attr == "token_newline_eof_ok":
                    toknl_sites.append(fn.name)
            # local alias `lex = self.lex` then lex.<attr>
            if isinstance(node, ast.Attribute) and isinstance(node.value, ast.Name) and node.value.id in ("lex", "tmp_lex", "old_lex"):
                if node.attr not in STREAM_API and node.attr != "has_tokens":
                    bad_api.append("%s:%s.%s" % (fn.name, node.value.id, node.attr))
            if isinstance(node, ast.Attribute) and node.attr in ("tokbuf", "lexpos", "lineno", "_lex", "lexmatch"):
                # .lineno only through `filename, lineno = tok.location` (a Name, not an Attribute)
                bad_priv.append("%s:.%s" % (fn.name, node.attr))
            # stores to attributes named location / type / value
            if isinstance(node, (ast.Assign, ast.AugAssign, ast.AnnAssign)):
                targets = node.targets if isinstance(node, ast.Assign) else [node.target]
                for t in targets:
                    for sub in ast.walk(t):
                        if isinstance(sub, ast.Attribute) and isinstance(sub.ctx, ast.Store):
                            if sub.attr == "location":
                                base = ast.unparse(sub.value)
                                if base not in ("self.state", "state", "class_state"):
                                    loc_stores.append("%s:%s.location" % (fn.name, base))
                            if sub.attr in ("type", "value") and "tok" in ast.unparse(sub.value):
                                tok_mut.append("%s:%s" % (fn.name, ast.unparse(sub)))
                            if sub.attr == "lex" and ast.unparse(sub.value) == "self":
                                lex_assign.append(fn.name)
    # branches on locations: any Compare/BoolOp/If test mentioning `.location` or `location`
    loc_branch = []
    for fn in ast.walk(tree):
        if not isinstance(fn, ast.FunctionDef):
            continue
        for node in ast.walk(fn):
            test = None
            if isinstance(node, (ast.If, ast.While, ast.IfExp)):
                test = node.test
            elif isinstance(node, ast.Assert):
                test = node.test
            if test is None:
                continue
            for sub in ast.walk(test):
                # inspecting a location: its fields, or comparing it with anything but None
                if isinstance(sub, ast.Attribute) and sub.attr in ("lineno", "filename") and "loc" in ast.unparse(sub.value):
                    loc_branch.append("%s:%s" % (fn.name, ast.unparse(sub)[:60]))
                if isinstance(sub, ast.Compare):
                    sides = [sub.left] + list(sub.comparators)
                    is_loc = any((isinstance(x, ast.Name) and x.id == "location") or
                                 (isinstance(x, ast.Attribute) and x.attr == "location") for x in sides)
                    none_test = all(isinstance(o, (ast.Is, ast.IsNot)) for o in sub.ops) and \
                        any(isinstance(x, ast.Constant) and x.value is None for x in sides)
                    if is_loc and not none_test:
                        loc_branch.append("%s:%s" % (fn.name, ast.unparse(sub)[:60]))
    facts["parser_uses_only_stream_api"] = (not bad_api, bad_api)
    facts["parser_never_touches_stream_internals"] = (not bad_priv, bad_priv)
    facts["location_only_stored_into_states"] = (not loc_stores, loc_stores)
    facts["parser_never_mutates_tokens"] = (not tok_mut, tok_mut)
    facts["parser_never_branches_on_location"] = (not loc_branch, loc_branch)
    facts["toknl_only_in_pragma_directive"] = (set(toknl_sites) <= {"_process_pragma_directive"} and len(toknl_sites) >= 1, toknl_sites)
    # the parser object's own state: which attributes of `self` are ever stored to, and where.  Everything a declaration
    # could leave behind for the next one has to go through one of these.
    KNOWN_STATE = {"anon_id", "current_namespace", "lex", "state", "visitor"}          # stored to while parsing
    KNOWN_INIT = KNOWN_STATE | {"debug_print", "filename", "options", "verbose"}        # stored to by __init__
    stray = []
    for cls in [n for n in tree.body if isinstance(n, ast.ClassDef) and n.name == "CxxParser"]:
        for fn in cls.body:
            if not isinstance(fn, ast.FunctionDef):
                continue
            for node in ast.walk(fn):
                if isinstance(node, ast.Attribute) and isinstance(node.ctx, (ast.Store, ast.Del)) and \
                   isinstance(node.value, ast.Name) and node.value.id == "self":
                    if node.attr not in (KNOWN_INIT if fn.name == "__init__" else KNOWN_STATE):
                        stray.append("%s:self.%s" % (fn.name, node.attr))
                if isinstance(node, ast.Call) and isinstance(node.func, ast.Name) and node.func.id in ("setattr", "delattr") and \
                   node.args and ast.unparse(node.args[0]) in ("self", "type(self)", "self.__class__", "CxxParser"):
                    stray.append("%s:%s" % (fn.name, ast.unparse(node)[:60]))
                if isinstance(node, ast.Attribute) and node.attr == "__dict__":
                    stray.append("%s:__dict__" % fn.name)
                if isinstance(node, (ast.Global, ast.Nonlocal)):
                    stray.append("%s:%s" % (fn.name, ast.unparse(node)))
                # stores through the class object (CxxParser.x = ..., type(self).x = ..., self.__class__.x = ...)
                if isinstance(node, ast.Attribute) and isinstance(node.ctx, (ast.Store, ast.Del)) and \
                   ast.unparse(node.value) in ("CxxParser", "type(self)", "self.__class__", "cls"):
                    stray.append("%s:%s" % (fn.name, ast.unparse(node)))
    facts["parser_instance_state_is_the_known_set"] = (not stray, stray)
    facts["lex_swapped_only_in_template_specialization"] = (set(lex_assign) <= {"__init__", "_parse_template_specialization"}, sorted(set(lex_assign)))
    return facts


def scan_parse_wrapper():
    """shape of CxxParser.parse's try/except (C06, C04) and verbose handling (C18)"""
    from cxxheaderparser.parser import CxxParser
    import textwrap
    src = textwrap.dedent(inspect.getsource(CxxParser.parse))
    fn = ast.parse(src).body[0]
    facts = {}
    trys = [n for n in fn.body if isinstance(n, ast.Try)]
    ok = len(trys) == 1
    covers = False
    chains = False
    catches_exception = False
    verbose_reraise = False
    if ok:
        t = trys[0]
        covers = len(t.body) == 1 and isinstance(t.body[0], ast.While) and ast.unparse(t.body[0].test) == "True" \
            and not t.finalbody and not t.orelse
        # nothing executable after the try
        after = fn.body[fn.body.index(t) + 1:]
        covers = covers and not after
        if len(t.handlers) == 1:
            h = t.handlers[0]
            catches_exception = isinstance(h.type, ast.Name) and h.type.id == "Exception" and h.name == "e"
            last = h.body[-1]
            chains = isinstance(last, ast.Raise) and last.cause is not None and ast.unparse(last.cause) == "e" \
                and ast.unparse(last.exc).startswith("CxxParseError(msg)")
            first = h.body[0]
            verbose_reraise = isinstance(first, ast.If) and ast.unparse(first.test) == "self.verbose" and \
                len(first.body) == 1 and isinstance(first.body[0], ast.Raise) and first.body[0].exc is None
            # the two message shapes
            txt = ast.unparse(h)
            chains = chains and "f\"{filename}:{lineno}: parse error evaluating '{tok.value}'{context}\"" in txt \
                and "f'{self.filename}: parse error{context}'" in txt
    facts["parse_try_covers_loop"] = (covers, [])
    facts["handler_catches_Exception_and_chains"] = (catches_exception and chains, [])
    facts["verbose_only_reraises"] = (verbose_reraise, [])
    return facts


def scan_verbose():
    """self.verbose / debug_print usage (C18)"""
    from cxxheaderparser import parser as P
    tree = ast.parse(inspect.getsource(P))
    sites = []
    for fn in ast.walk(tree):
        if not isinstance(fn, ast.FunctionDef):
            continue
        for node in ast.walk(fn):
            if isinstance(node, ast.Attribute) and node.attr == "verbose" and ast.unparse(node.value) == "self":
                sites.append(fn.name)
    ok = set(sites) <= {"__init__", "parse"}
    # every debug_print call is an expression statement (its value is never used)
    bad = []
    for fn in ast.walk(tree):
        if not isinstance(fn, ast.FunctionDef):
            continue
        for st in ast.walk(fn):
            for node in ast.iter_child_nodes(st):
                if isinstance(node, ast.Call) and ast.unparse(node.func) == "self.debug_print" and not isinstance(st, ast.Expr):
                    bad.append(fn.name)
            if isinstance(st, ast.Expr) and isinstance(st.value, ast.Call) and ast.unparse(st.value.func) == "self.debug_print":
                for a in st.value.args:
                    for sub in ast.walk(a):
                        if isinstance(sub, (ast.Call, ast.NamedExpr, ast.Await, ast.Yield)):
                            bad.append(fn.name + ":arg")
    # the format string of every debug_print call is a literal (the arguments are formatted by '%' inside debug_print)
    nonlit = []
    for fn in ast.walk(tree):
        if not isinstance(fn, ast.FunctionDef):
            continue
        for node in ast.walk(fn):
            if isinstance(node, ast.Call) and ast.unparse(node.func) == "self.debug_print":
                if not node.args or not (isinstance(node.args[0], ast.Constant) and isinstance(node.args[0].value, str)):
                    nonlit.append(fn.name)
                else:
                    # number of % directives == number of arguments
                    fmt = node.args[0].value
                    if fmt.count("%") - 2 * fmt.count("%%") != len(node.args) - 1:
                        nonlit.append(fn.name + ":arity")
    # convert_void_to_zero_params is read exactly once, in _parse_parameters, after the parameter loop
    reads = []
    for fn in ast.walk(tree):
        if not isinstance(fn, ast.FunctionDef):
            continue
        for node in ast.walk(fn):
            if isinstance(node, ast.Attribute) and node.attr == "convert_void_to_zero_params":
                reads.append(fn.name)
    void_ok = reads == ["_parse_parameters"]
    # every parameter list that reaches a dataclass comes from _parse_parameters
    ctor_bad = []
    for fn in ast.walk(tree):
        if not isinstance(fn, ast.FunctionDef):
            continue
        for node in ast.walk(fn):
            if isinstance(node, ast.Call) and isinstance(node.func, ast.Name) and node.func.id in ("FunctionType", "Function", "Method", "DeductionGuide"):
                arg = None
                if node.func.id == "DeductionGuide":
                    arg = [k.value for k in node.keywords if k.arg == "parameters"]
                    arg = arg[0] if arg else None
                elif len(node.args) >= (3 if node.func.id in ("Function", "Method") else 2):
                    arg = node.args[2 if node.func.id in ("Function", "Method") else 1]
                if arg is None or ast.unparse(arg) not in ("params", "fn_params", "fn.parameters"):
                    ctor_bad.append("%s:%s" % (fn.name, node.func.id))
    src = inspect.getsource(P.CxxParser._parse_parameters)
    conv = ("if self.options.convert_void_to_zero_params and len(params) == 1:\n            p0_type = params[0].type\n"
            "            if (\n                isinstance(p0_type, Type)\n                and len(p0_type.typename.segments) == 1\n"
            "                and getattr(p0_type.typename.segments[0], \"name\", None) == \"void\"\n            ):\n                params = []")
    void_ok = void_ok and conv in src
    return {"verbose_only_in_init_and_parse": (ok, sorted(set(sites))),
            "debug_print_args_pure": (not bad, bad),
            "debug_print_fmt_is_literal": (not nonlit, nonlit),
            "void_option_read_once_in_parse_parameters": (void_ok, reads),
            "param_lists_come_from_parse_parameters": (not ctor_bad, ctor_bad)}


def scan_entry():
    """argument flow of the entry points (C20, C18)"""
    import textwrap
    from cxxheaderparser import simple as S
    from cxxheaderparser.parser import CxxParser
    facts = {}
    pf = ast.parse(textwrap.dedent(inspect.getsource(S.parse_file))).body[0]
    calls = [n for n in ast.walk(pf) if isinstance(n, ast.Call) and ast.unparse(n.func) == "CxxParser"]
    ok = len(calls) == 1 and [ast.unparse(a) for a in calls[0].args] == ["filename", "content", "visitor", "options", "encoding"]
    facts["parse_file_passes_encoding"] = (ok, [ast.unparse(c) for c in calls])
    ps = ast.parse(textwrap.dedent(inspect.getsource(S.parse_string))).body[0]
    calls = [n for n in ast.walk(ps) if isinstance(n, ast.Call) and ast.unparse(n.func) == "CxxParser"]
    ok = len(calls) == 1 and [ast.unparse(a) for a in calls[0].args] == ["filename", "content", "visitor", "options"]
    tail = [ast.unparse(s) for s in ps.body[-4:]]
    ok = ok and tail == ["visitor = SimpleCxxVisitor()", "parser = CxxParser(filename, content, visitor, options)",
                         "parser.parse()", "return visitor.data"]
    facts["parse_string_is_parser_plus_simple_visitor"] = (ok, tail)
    init = ast.parse(textwrap.dedent(inspect.getsource(CxxParser.__init__))).body[0]
    pre = [n for n in ast.walk(init) if isinstance(n, ast.Call) and ast.unparse(n.func) == "options.preprocessor"]
    ok = len(pre) == 1 and [ast.unparse(a) for a in pre[0].args] == ["filename", "content"]
    # its result is assigned to content, before the stream is built
    txt = ast.unparse(init)
    ok = ok and "content = options.preprocessor(filename, content)" in txt and \
        txt.index("content = options.preprocessor(filename, content)") < txt.index("lexer.LexerTokenStream(filename, content)")
    # no loop in __init__
    ok = ok and not any(isinstance(n, (ast.For, ast.While)) for n in ast.walk(init))
    # `content` is assigned exactly twice: the hook's return value as it is (no fallback, no post-processing), and the
    # file's text when it is None
    assigns = sorted(ast.unparse(n) for n in ast.walk(init)
                     if isinstance(n, (ast.Assign, ast.AugAssign, ast.AnnAssign, ast.NamedExpr))
                     and any(isinstance(t, ast.Name) and t.id == "content"
                             for t in ast.walk(n.targets[0] if isinstance(n, ast.Assign) else n.target)))
    ok = ok and assigns == ["content = fp.read()", "content = options.preprocessor(filename, content)"]
    guards = [ast.unparse(n.test) for n in init.body if isinstance(n, ast.If)]
    ok = ok and guards[:2] == ["options and options.preprocessor is not None", "content is None"]
    facts["preprocessor_called_once"] = (ok, assigns + guards[:2])
    return facts


def scan_shared():
    """write footprint on objects shared between parses (C15): class-level / module-level mutable objects of
    lexer.py, parser.py, tokfmt.py, visitor.py must never be stored to, mutated through a method, or escape into
    results (where a later in-place update could reach them)"""
    import dataclasses
    from cxxheaderparser import parser as P, lexer as L, tokfmt as TF, visitor as V
    facts = {}
    problems = []
    MUT_METHODS = {"append", "extend", "add", "update", "clear", "pop", "remove", "insert", "setdefault", "discard", "popitem",
                   "appendleft", "extendleft", "sort", "reverse"}

    def mutable(v):
        return isinstance(v, (set, dict, list)) or dataclasses.is_dataclass(v) and not isinstance(v, type)

    def class_shared(cls):
        return {k for k, v in vars(cls).items() if not k.startswith("__") and mutable(v)}

    def check_class(mod, cls):
        shared = class_shared(cls)
        tree = ast.parse(inspect.getsource(mod))
        cdef = [n for n in tree.body if isinstance(n, ast.ClassDef) and n.name == cls.__name__][0]
        parents = {}
        for node in ast.walk(cdef):
            for ch in ast.iter_child_nodes(node):
                parents[ch] = node
        for fn in [n for n in cdef.body if isinstance(n, ast.FunctionDef)]:
            for node in ast.walk(fn):
                if not (isinstance(node, ast.Attribute) and node.attr in shared and isinstance(node.value, ast.Name)
                        and node.value.id in ("self", "cls", cls.__name__)):
                    continue
                par = parents.get(node)
                where = "%s.%s:%s" % (cls.__name__, fn.name, node.attr)
                if isinstance(node.ctx, (ast.Store, ast.Del)):
                    problems.append(where + ":store")
                elif isinstance(par, ast.Compare):
                    pass                      # x in self._set, y == self._const
                elif isinstance(par, ast.Attribute) and par.attr in ("get", "keys", "values", "items", "__contains__"):
                    pass
                elif isinstance(par, ast.Attribute) and par.attr in MUT_METHODS:
                    problems.append(where + ":mutating-call")
                elif isinstance(par, ast.Subscript) and isinstance(par.ctx, ast.Load) and par.value is node:
                    pass
                elif isinstance(par, ast.Subscript):
                    problems.append(where + ":subscript-store")
                elif isinstance(par, (ast.For, ast.comprehension)) and getattr(par, "iter", None) is node:
                    pass
                elif isinstance(par, ast.Starred):
                    pass                      # *self._set: unpacked into call arguments, elements are str
                elif isinstance(par, ast.Assign) and len(par.targets) == 1 and isinstance(par.targets[0], ast.Name) and \
                        isinstance(vars(cls)[node.attr], (set, dict)):
                    # local alias of a set/dict (`token_map = self._balanced_token_map`): the alias must only be read
                    alias = par.targets[0].id
                    for n2 in ast.walk(fn):
                        if isinstance(n2, ast.Attribute) and isinstance(n2.value, ast.Name) and n2.value.id == alias and n2.attr in MUT_METHODS:
                            problems.append(where + ":alias-mutated")
                        if isinstance(n2, ast.Subscript) and isinstance(n2.value, ast.Name) and n2.value.id == alias and not isinstance(n2.ctx, ast.Load):
                            problems.append(where + ":alias-subscript-store")
                elif isinstance(par, ast.Call) and node in par.args and isinstance(vars(cls)[node.attr], (set, dict)) and \
                        isinstance(par.func, ast.Attribute) and par.func.attr in ("token_if_in_set",):
                    pass
                elif isinstance(par, ast.BoolOp) or isinstance(par, ast.IfExp):
                    pass
                else:
                    problems.append(where + ":escapes(%s)" % type(par).__name__)

    check_class(P, P.CxxParser)
    check_class(L, L.TokenStream)
    check_class(L, L.LexerTokenStream)
    check_class(L, L.PlyLexer)
    # module-level shared objects: PhonyEnding, null_visitor, _want_spacing, PlyLexer._lexer
    for mod, names in ((P, {"PhonyEnding", "null_visitor"}), (L, {"PhonyEnding"}), (TF, {"_want_spacing", "_fuse_pairs"})):
        tree = ast.parse(inspect.getsource(mod))
        for fn in ast.walk(tree):
            if not isinstance(fn, ast.FunctionDef):
                continue
            for node in ast.walk(fn):
                if isinstance(node, ast.Attribute) and isinstance(node.value, ast.Name) and node.value.id in names:
                    if isinstance(node.ctx, (ast.Store, ast.Del)) or node.attr in MUT_METHODS:
                        problems.append("%s.%s:%s.%s" % (mod.__name__.split(".")[-1], fn.name, node.value.id, node.attr))
                if isinstance(node, ast.Subscript) and isinstance(node.value, ast.Name) and node.value.id in names and not isinstance(node.ctx, ast.Load):
                    problems.append("%s.%s:%s[...]" % (mod.__name__.split(".")[-1], fn.name, node.value.id))
                if isinstance(node, ast.Global):
                    problems.append("%s.%s:global" % (mod.__name__.split(".")[-1], fn.name))
    # the lexer prototype: built once in __new__, every instance works on a clone
    src = inspect.getsource(L.PlyLexer.__new__)
    proto_ok = ("if cls._lexer is None:\n            cls._lexer = lex.lex(module=inst)" in src and
                "inst.lex = cls._lexer.clone(inst)" in src)
    uses = []
    tree = ast.parse(inspect.getsource(L))
    for fn in ast.walk(tree):
        if isinstance(fn, ast.FunctionDef):
            for node in ast.walk(fn):
                if isinstance(node, ast.Attribute) and node.attr == "_lexer":
                    uses.append(fn.name)
    proto_ok = proto_ok and set(uses) <= {"__new__"}
    facts["shared_objects_never_stored_to"] = (not problems, problems)
    facts["lexer_prototype_only_cloned"] = (proto_ok, sorted(set(uses)))
    return facts


def generate():
    facts = {}
    facts.update(scan_shared())
    facts.update(scan_parser())
    facts.update(scan_parse_wrapper())
    facts.update(scan_verbose())
    facts.update(scan_entry())
    out = ["(* GENERATED by translate/gen_facts.py: AST facts about parser.py / simple.py -- do not edit *)",
           "From Coq Require Import Bool.", ""]
    for k in sorted(facts):
        v, why = facts[k]
        note = (" (* sites: %s *)" % ", ".join(str(w) for w in why)[:300].replace("*)", "* )").replace("\"", "'")) if why else ""
        out.append("Definition fact_%s : bool := %s.%s" % (k, "true" if v else "false", note))
    out.append("")
    return "\n".join(out)

"""Gen/Dispatch.v: the small keyword handlers of CxxParser (_parse_extern, _parse_inline, _parse_friend_decl,
_parse_typedef, _consume_static_assert) translated statement by statement from their ASTs into the command language of
Parse/DispatchLang.v.  A real translation (not a pin): the Coq theorems are about the program text the code has NOW.
Fail closed: a statement, condition or call shape outside the language raises TranslateError; a call of another parse
method must be in tail position (followed by `return` or the end of the function), so that nothing the handler does
behind it can be missed."""
import ast
import inspect
import textwrap

from common import TranslateError, ident_for, tt_code_map

FUNCS = ["_parse_extern", "_parse_inline", "_parse_friend_decl", "_parse_typedef", "_consume_static_assert",
         "_consume_attribute", "_consume_gcc_attribute", "_consume_declspec"]
CALLEES = {"_parse_declarations": "F_declarations", "_parse_template_instantiation": "F_template_instantiation",
           "_parse_namespace": "F_namespace", "_consume_gcc_attribute": "F_gcc_attribute", "_consume_declspec": "F_declspec",
           "_consume_attribute_specifier_seq": "F_attribute_specifier_seq"}
KWARGS = {"is_typedef": 1, "is_friend": 2, "inline": 3}
OPEN_EXTERN = ["state = ExternBlockState(state, tok.location, etok.value)", "self._setup_state(state)",
               "if self.visitor.on_extern_block_start(state) is False:\n    self.visitor = null_visitor"]


class Tr:
    def __init__(self, name, fn, codes):
        self.name = name
        self.codes = codes
        params = [a.arg for a in fn.args.args]
        if params[:2] != ["self", "tok"] or any(p not in ("self", "tok", "doxygen", "template") for p in params):
            raise TranslateError("%s: unexpected parameters %r" % (name, params))
        self.vars = {"tok": 0}
        self.state_alias = set()

    def var(self, name, define=False):
        if name not in self.vars:
            if not define:
                raise TranslateError("%s: use of unknown variable %r" % (self.name, name))
            self.vars[name] = len(self.vars)
        return self.vars[name]

    def types(self, args):
        out = []
        for a in args:
            if not (isinstance(a, ast.Constant) and isinstance(a.value, str)) or a.value not in self.codes:
                raise TranslateError("%s: token type argument %s" % (self.name, ast.unparse(a)))
            out.append(ident_for(a.value))
        return "[" + "; ".join(out) + "]"

    def is_lex_call(self, node, meth):
        return (isinstance(node, ast.Call) and isinstance(node.func, ast.Attribute) and node.func.attr == meth
                and ast.unparse(node.func.value) == "self.lex")

    def is_state(self, node):
        txt = ast.unparse(node)
        return txt == "self.state" or (isinstance(node, ast.Name) and node.id in self.state_alias)

    def cond(self, t):
        neg = False
        if isinstance(t, ast.UnaryOp) and isinstance(t.op, ast.Not):
            neg, t = True, t.operand
        if isinstance(t, ast.Name):
            return "(%s %d)" % ("CNotVar" if neg else "CVar", self.var(t.id))
        if (isinstance(t, ast.Call) and isinstance(t.func, ast.Name) and t.func.id == "isinstance" and len(t.args) == 2
                and self.is_state(t.args[0]) and ast.unparse(t.args[1]) == "ClassBlockState"):
            return "CNotInClass" if neg else "CInClass"
        if neg:
            raise TranslateError("%s: negated condition %s" % (self.name, ast.unparse(t)))
        if (isinstance(t, ast.Compare) and len(t.ops) == 1 and isinstance(t.ops[0], ast.Eq) and isinstance(t.left, ast.Attribute)
                and t.left.attr == "type" and isinstance(t.left.value, ast.Name)):
            return "(CTypeIs %d %s)" % (self.var(t.left.value.id), self.types(t.comparators)[1:-1])
        if (isinstance(t, ast.Compare) and len(t.ops) == 1 and isinstance(t.ops[0], ast.In) and isinstance(t.left, ast.Attribute)
                and t.left.attr == "type" and isinstance(t.left.value, ast.Name) and isinstance(t.comparators[0], ast.Attribute)
                and ast.unparse(t.comparators[0].value) == "self"):
            from cxxheaderparser.parser import CxxParser
            vals = getattr(CxxParser, t.comparators[0].attr)
            if not all(isinstance(x, str) and x in self.codes for x in vals):
                raise TranslateError("%s: set %s" % (self.name, ast.unparse(t.comparators[0])))
            return "(CTypeIn %d [%s])" % (self.var(t.left.value.id), "; ".join(ident_for(x) for x in sorted(vals, key=lambda x: self.codes[x])))
        if self.is_lex_call(t, "token_if"):
            return "(CTokenIf %s)" % self.types(t.args)
        raise TranslateError("%s: condition %s" % (self.name, ast.unparse(t)))

    def arg(self, a):
        if isinstance(a, ast.Name):
            if a.id == "doxygen":
                return "ADox"
            if a.id == "template":
                return "ATemplate"
            return "(AVar %d)" % self.var(a.id)
        if isinstance(a, ast.Constant) and isinstance(a.value, bool):
            return "(ABool %s)" % ("true" if a.value else "false")
        raise TranslateError("%s: call argument %s" % (self.name, ast.unparse(a)))

    def block(self, stmts, is_tail):
        out = []
        i = 0
        while i < len(stmts):
            st = stmts[i]
            last = i == len(stmts) - 1
            txt = ast.unparse(st)
            if isinstance(st, ast.Expr) and isinstance(st.value, ast.Constant) and isinstance(st.value.value, str):
                i += 1
                continue
            if [ast.unparse(x) for x in stmts[i:i + 3]] == OPEN_EXTERN:
                out.append("SOpenExtern %d" % self.var("etok"))
                i += 3
                continue
            if txt == "state = self.state":
                self.state_alias.add("state")
            elif isinstance(st, ast.Assign) and len(st.targets) == 1 and isinstance(st.targets[0], ast.Name):
                v = st.value
                if self.is_lex_call(v, "token_if"):
                    out.append("SAssign %d (ETokenIf %s)" % (self.var(st.targets[0].id, True), self.types(v.args)))
                elif self.is_lex_call(v, "token") and not v.args:
                    out.append("SAssign %d EToken" % self.var(st.targets[0].id, True))
                elif isinstance(v, ast.Call) and ast.unparse(v.func) == "self._next_token_must_be" and not v.keywords:
                    out.append("SAssign %d (EMustBe %s)" % (self.var(st.targets[0].id, True), self.types(v.args)))
                else:
                    raise TranslateError("%s: assignment %s" % (self.name, txt))
            elif txt == "self.state.location = tok.location":
                out.append("SSetLoc")
            elif isinstance(st, ast.If):
                tail = last and is_tail
                out.append("SIf %s [%s] [%s]" % (self.cond(st.test), "; ".join(self.block(st.body, tail)),
                                                 "; ".join(self.block(st.orelse, tail))))
            elif isinstance(st, ast.Raise):
                e = st.exc
                if txt == "raise CxxParseError('internal error')":
                    out.append("SRaiseInternal")
                elif (isinstance(e, ast.Call) and ast.unparse(e.func) == "self._parse_error" and len(e.args) == 1
                        and isinstance(e.args[0], ast.Name) and not e.keywords):
                    out.append("SRaise %d" % self.var(e.args[0].id))
                else:
                    raise TranslateError("%s: raise %s" % (self.name, txt))
            elif isinstance(st, ast.Return):
                if st.value is not None:
                    raise TranslateError("%s: return with a value" % self.name)
                out.append("SReturn")
            elif isinstance(st, ast.Expr) and isinstance(st.value, ast.Call):
                c = st.value
                f = ast.unparse(c.func)
                if self.is_lex_call(c, "return_token") and len(c.args) == 1 and isinstance(c.args[0], ast.Name):
                    out.append("SReturnTok %d" % self.var(c.args[0].id))
                elif f == "self._consume_balanced_tokens" and c.args and all(isinstance(a, ast.Name) for a in c.args) and not c.keywords:
                    out.append("SConsumeBalanced [%s]" % "; ".join(str(self.var(a.id)) for a in c.args))
                elif f == "self._next_token_must_be":
                    out.append("SMustBe %s" % self.types(c.args))
                elif f == "self._discard_contents" and len(c.args) == 2:
                    tys = self.types(c.args)[1:-1].split("; ")
                    out.append("SDiscard %s %s" % (tys[0], tys[1]))
                elif f.startswith("self.") and f[5:] in CALLEES:
                    nxt_is_return = (not last) and isinstance(stmts[i + 1], ast.Return) and stmts[i + 1].value is None
                    if not (nxt_is_return or (last and is_tail)):
                        raise TranslateError("%s: call of %s is not in tail position" % (self.name, f))
                    kws = []
                    for k in c.keywords:
                        if k.arg not in KWARGS:
                            raise TranslateError("%s: keyword argument %s" % (self.name, k.arg))
                        kws.append("(%d, %s)" % (KWARGS[k.arg], self.arg(k.value)))
                    out.append("SCall %s [%s] [%s]" % (CALLEES[f[5:]], "; ".join(self.arg(a) for a in c.args), "; ".join(kws)))
                else:
                    raise TranslateError("%s: call %s" % (self.name, txt))
            else:
                raise TranslateError("%s: statement outside the language: %r" % (self.name, txt[:100]))
            i += 1
        return out


def generate():
    from cxxheaderparser.parser import CxxParser
    codes = tt_code_map()
    out = ["(* GENERATED by translate/gen_dispatch.py from the ASTs of CxxParser.%s -- do not edit *)" % ", ".join(FUNCS),
           "From Coq Require Import NArith List.", "Import ListNotations.",
           "From CXV Require Import Gen.TokTy Parse.DispatchLang.", "Open Scope N_scope.", ""]
    for name in FUNCS:
        # a handler outside the language becomes the one-statement program [SUnknown] (running it answers code 9): the file and
        # the extracted driver still build, and exactly the theorems about THIS handler lose their proofs
        try:
            fn = ast.parse(textwrap.dedent(inspect.getsource(getattr(CxxParser, name)))).body[0]
            tr = Tr(name, fn, codes)
            body = tr.block(fn.body, True)
            out.append("(* variables: %s *)" % ", ".join("%d = %s" % (v, k) for k, v in sorted(tr.vars.items(), key=lambda kv: kv[1])))
            out.append("Definition prog%s : list stmt :=\n  [%s]." % (name, ";\n   ".join(body)))
        except (TranslateError, AttributeError, OSError, TypeError, IndexError) as e:
            print("UNTRANSLATED Dispatch: %s is outside the command language (%s); its theorems have no proof" % (name, e))
            out.append("(* NOT TRANSLATED: %s *)" % str(e).replace("*", "x").replace('"', "'"))
            out.append("Definition prog%s : list stmt := [SUnknown]." % name)
        out.append("")
    return "\n".join(out)

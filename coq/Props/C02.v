(* C02 -- Declarators decode to the C++ type they denote. *)
From Coq Require Import NArith List Bool.
Import ListNotations.
From CXV Require Import Gen.TokTy Parse.Balanced Parse.BalancedThms Parse.Declarator Parse.DeclSpec Parse.DeclThms Parse.DeclPins Parse.PQName Gen.ParserTables.
From CXV Require Gen.PinsC02.
From CXV Require Import Parse.TemplateArg.
Open Scope N_scope.

(* For every legal type tree t (wf: the C++ rules on pointers, references,
   arrays and functions; array sizes bracket-balanced; parameters legal
   objects) of a variable (obj_ty: not a function type, not plain void), the
   declarator printed inside-out around the name n -- grouping parentheses
   exactly where a suffix is attached to a prefixed declarator -- and followed
   by any token that can follow a declarator, parses (for every sufficiently
   large fuel) to exactly the name n, the tree t and the untouched rest. *)
Theorem declarator_decodes : forall t n rest,
  wf t -> obj_ty t -> follow_ok rest = true ->
  ev (fun f => parse_var f (decl_toks t (Some n) ++ rest)) (DOk (n, t, rest)).
Proof. exact var_roundtrip. Qed.

(* the same in parameter position, named or abstract *)
Theorem parameter_decodes : forall t nm rest,
  wf t -> kind_of t <> KFn -> follow_ok rest = true ->
  ev (fun f => param f (decl_toks t nm ++ rest)) (DOk ((t, nm), rest)).
Proof. exact param_roundtrip. Qed.

(* whole parameter lists: every parameter in order with its name, the vararg
   flag on the list it was written in, the closing parenthesis consumed *)
Theorem parameter_list_decodes : forall ps va rest,
  Forall (fun p => wf (fst p) /\ obj_ty (fst p)) ps ->
  ev (fun f => params f (params_toks ps va ++ ktok RP :: rest)) (DOk (ps, va, rest)).
Proof. exact params_roundtrip. Qed.

(* the printer that works from the outer constructor (the shape of types.py)
   and the one that works from the inner end (the order in which one reads a
   declarator) produce the same tokens *)
Theorem printer_views_agree : forall t core, D t core false = P (layers t) core.
Proof. exact D_is_P. Qed.

(* the pointer/cv/group loop on its own, for any accumulated type: the layers
   up to the last prefix operator are applied in reading order, the trailing
   suffixes are left for the caller *)
Theorem cv_ptr_or_fn_decodes : forall ls acc core rest,
  legalL (kind_of acc) ls = true -> Forall layer_ok ls -> SNk core ->
  stops (P (traill ls) core ++ rest) = true -> nolb rest = true ->
  ev (fun f => cvptr f acc (P ls core ++ rest))
     (DOk (wrap acc (mainl ls), P (traill ls) core ++ rest)).
Proof. intros ls. exact (cvptr_P (length ls) ls (le_n _)). Qed.

(* the type-id of an alias-declaration (abstract declarator, array suffix included) *)
Theorem alias_decodes : forall t rest,
  wf t -> kind_of t <> KFn -> follow_ok rest = true ->
  ev (fun f => alias_type f (decl_toks t None ++ rest)) (DOk (t, rest)).
Proof. exact alias_roundtrip. Qed.

(* base type names without template arguments: an optional `typename` or class
   key (struct / class / union / enum [class|struct]), an optional leading '::'
   and any number of '::'-separated identifiers; or a fundamental type, where
   the compound keywords (unsigned long int ...) are kept as one group in the
   order written.  The keyword sets are the regenerated ones. *)
Theorem qualified_name_decodes : forall p rest,
  pn2_ok p rest -> parse_pqname (pn2_toks p ++ rest) = DOk (pn2_out p, rest).
Proof. exact pqname_roundtrip. Qed.

(* the code the model mirrors is the pinned one, and the token sets it tests
   the stream for are the sets the model hard-codes (regenerated on every run) *)
Theorem declarator_code_is_the_modelled_one : decl_sets_ok = true.
Proof. exact decl_sets_ok_true. Qed.

(* Template arguments.  One argument's tokens, tried as a type-id the way
   _parse_template_specialization does (base type, the pointer loop with
   nonptr_fn set, an array suffix, nothing left before the end marker), decode
   to exactly the type written -- for EVERY legal type tree, plain function
   types `R(A, B)` included, any nesting. *)
Theorem template_argument_type_decodes : forall t,
  wf t -> ev (fun f => targ_type f (decl_toks t None)) (DOk (Some t)).
Proof. exact targ_type_decodes. Qed.

(* The argument list `< a1, a2..., a3 >`: every argument is reported once, in
   order, as the kind it was written as -- a type-id as that type, tokens that do
   not start like a type (any expression of the token-level grammar) as the raw
   value -- each with its own pack flag; what follows the '>' is untouched. *)
Theorem template_argument_list_decodes : forall args rest,
  args <> [] -> Forall warg_ok args ->
  ev (fun f => tspec (S (length args)) f [] (targs_toks args ++ ktok GT :: rest)) (DOk (map warg_out args, rest)).
Proof. exact template_arguments_roundtrip. Qed.

(* The pointer / cv / group loop for either value of nonptr_fn: whatever it
   does from the point where only suffix layers are left, it does from the
   start of the printed declarator (any layers, any accumulated type). *)
Theorem cv_ptr_or_fn_either_flag : forall nf ls acc core rest dE rE,
  legalL (kind_of acc) ls = true -> Forall layer_ok ls -> SNk core ->
  stops (P (traill ls) core ++ rest) = true -> nolb rest = true ->
  ev (fun f => cvptr_g nf f (wrap acc (mainl ls)) (P (traill ls) core ++ rest)) (DOk (dE, rE)) ->
  stops rE = true ->
  ev (fun f => cvptr_g nf f acc (P ls core ++ rest)) (DOk (dE, rE)).
Proof. intros nf ls. exact (cvptr_P_gen nf (length ls) ls (le_n _)). Qed.

(* the functions the hand-written models above mirror (_parse_pqname, _parse_pqname_fundamental, _parse_pqname_name and _parse_template_specialization) are, token for
   token of their syntax trees, the ones the models were written against: the
   translator recomputes the digests from the live code and produces Gen/PinsC02.v
   only when they match *)
Theorem modelled_functions_are_the_pinned_ones : PinsC02.model_code_pinned = true.
Proof. exact (eq_refl true). Qed.

Print Assumptions qualified_name_decodes.
Print Assumptions alias_decodes.
Print Assumptions declarator_code_is_the_modelled_one.
Print Assumptions declarator_decodes.
Print Assumptions parameter_decodes.
Print Assumptions parameter_list_decodes.
Print Assumptions printer_views_agree.
Print Assumptions cv_ptr_or_fn_decodes.

(* non-vacuity *)
Example c02_nonvacuous_hyps : wf ex_ty /\ obj_ty ex_ty /\ follow_ok [ktok SEMI] = true.
Proof. split; [exact (proj1 ex_wf)|split; [exact (proj2 ex_wf)|reflexivity]]. Qed.
Example c02_nonvacuous_run :
  parse_var 40 (decl_toks ex_ty (Some 1) ++ [ktok SEMI]) = DOk (1, ex_ty, [ktok SEMI]).
Proof. exact ex_runs. Qed.

Example c02_pqname_run :
  parse_pqname (pn2_toks (PNames false [T_enum; T_class] true 7 [8; 9]) ++ [ktok STAR])
  = DOk (mkPQ [T_enum; T_class] false [SRoot; SName 7; SName 8; SName 9], [ktok STAR])
  /\ parse_pqname (pn2_toks (PFund false [T_unsigned; T_long; T_int]) ++ [mkTk T_NAME 3])
  = DOk (mkPQ [] false [SFund [T_unsigned; T_long; T_int]], [mkTk T_NAME 3]).
Proof. vm_compute. split; reflexivity. Qed.
Print Assumptions template_argument_type_decodes.
Print Assumptions template_argument_list_decodes.
Print Assumptions cv_ptr_or_fn_either_flag.
Print Assumptions modelled_functions_are_the_pinned_ones.

(* C16 -- Formatted token values re-lex to the same tokens.
   Model: Fmt/TokFmt.v (hand-written mirror of tokfmt/_fuses, bodies pinned by
   text; spacing table and fuse pairs regenerated) composed with the lexer and
   stream models.  The statements below are over a FINITE alphabet (the
   representative table, regenerated and typed by the live lexer) and a stated
   length bound; they are decided by vm_compute, which is a proof for a finite
   domain.  Sequences of arbitrary length over arbitrary texts rest on the
   search of harness/props/c16.py (hence _partial). *)
From Coq Require Import NArith ZArith List.
Import ListNotations.
From CXV Require Import Gen.TokTy Gen.Reps Fmt.TokFmt Fmt.TokFmtThms.
Open Scope N_scope.

(* every representative alone, and every ordered pair of representatives (all
   keywords, all punctuators, several texts per literal/name class incl. the
   collision-prone ones): formatting then lexing gives back the same tokens *)
Theorem relex_pairs_partial :
  forall a b : vtok, In a reps -> In b reps -> relex [a; b] = [a; b].
Proof. exact relex_pairs_lemma. Qed.

Theorem relex_single :
  forall a : vtok, In a reps -> relex [a] = [a].
Proof. exact relex_single_lemma. Qed.

(* every sequence of length 3 over one representative per token class *)
Theorem relex_triples_partial :
  forall a b c : vtok, In a class_reps -> In b class_reps -> In c class_reps -> relex [a; b; c] = [a; b; c].
Proof. exact relex_triples_lemma. Qed.

(* for sequences of ANY length: the output is the values in order, each
   preceded by nothing or one blank - tokfmt never drops, reorders or splits *)
Theorem tokfmt_structure :
  forall (toks : list vtok) (last : N) (prev : list N),
    exists seps, length seps = length toks /\ tokfmt_go last prev toks = strip_layout seps toks.
Proof. exact tokfmt_structure_lemma. Qed.

Print Assumptions relex_pairs_partial.
Print Assumptions relex_single.
Print Assumptions relex_triples_partial.
Print Assumptions tokfmt_structure.

(* non-vacuity: the table is not empty and contains the collision-prone texts *)
Example c16_nonvacuous :
  (150 <=? N.of_nat (length reps)) = true /\ In (T_LIT_38, [38]) reps /\ In (T_DBL_AMP, [38; 38]) reps.
Proof. split; [vm_compute; reflexivity|]. split; vm_compute; tauto. Qed.

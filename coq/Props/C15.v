(* C15 -- Parses are isolated from one another. *)
From Coq Require Import NArith List Bool.
Import ListNotations.
From CXV Require Import Gen.Facts Misc.Shared.
Open Scope N_scope.

(* for every history (any interleaving of the steps of any number of parses:
   sequential, failed, nested from callbacks, concurrent) the state of parse i
   equals the state it reaches when its own events run alone - provided steps
   read the shared objects only (types of [init]/[step]) *)
Theorem isolation_partial :
  forall (Shared Priv Op : Type) (init : Shared -> N -> Priv) (step : Shared -> Priv -> Op -> Priv)
         (sh : Shared) (h : list (ev Op)) (i : N),
    run Shared Priv Op init step sh h i = run Shared Priv Op init step sh (filter (mine Op i) h) i.
Proof. exact isolation_lemma. Qed.

(* the premise, recomputed from the sources on every run: no statement of
   lexer.py / parser.py / tokfmt.py stores to, mutates through a method, or lets
   escape into results any class-level or module-level mutable object
   (PhonyEnding, null_visitor, the class-level sets/maps, _want_spacing), and the
   lexer prototype is only ever cloned *)
Theorem shared_state_is_read_only :
  fact_shared_objects_never_stored_to && fact_lexer_prototype_only_cloned = true.
Proof. exact (eq_refl true). Qed.

Theorem clone_is_fresh : forall proto, proto = fresh_lexer -> clone proto = fresh_lexer.
Proof. exact clone_is_fresh_lemma. Qed.

Print Assumptions isolation_partial.
Print Assumptions shared_state_is_read_only.
Print Assumptions clone_is_fresh.

(* non-vacuity: two interleaved counters *)
Example c15_nonvacuous :
  run unit N N (fun _ i => i) (fun _ p o => p + o) tt
      [Start N 1; Start N 2; Step N 1 5; Step N 2 7; Step N 1 1] 1 = Some 7.
Proof. vm_compute. reflexivity. Qed.

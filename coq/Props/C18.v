(* C18 -- Parser options change exactly what they document. *)
From Coq Require Import NArith List Bool.
Import ListNotations.
From CXV Require Import Gen.Facts Misc.VoidOpt.
Open Scope N_scope.

(* convert_void_to_zero_params: with the option off the parameter lists are
   kept as written; with it on the result is the off-result with exactly the
   lone-void parameter lists emptied, at every nesting level (functions,
   function pointers, typedefs, parameters of parameters) *)
Theorem void_option_off_is_identity : forall t, build false t = t.
Proof. exact build_false_id. Qed.

Theorem void_option_exact : forall t, build true t = zero_void (build false t).
Proof. exact void_option_exact_lemma. Qed.

(* the option is read in exactly one place, the conversion step of
   _parse_parameters (pinned by text), and every parameter list that reaches a
   FunctionType / Function / Method / DeductionGuide comes from that method *)
Theorem void_option_single_site :
  fact_void_option_read_once_in_parse_parameters && fact_param_lists_come_from_parse_parameters = true.
Proof. exact (eq_refl true). Qed.

(* verbose: self.verbose is read only in __init__ (to choose debug_print) and
   in parse()'s handler (re-raise); debug_print calls are expression statements
   with a literal format whose directives match the arguments and whose
   arguments are call-free expressions: the flag cannot influence parser state *)
Theorem verbose_is_inert :
  fact_verbose_only_in_init_and_parse && fact_verbose_only_reraises
  && fact_debug_print_args_pure && fact_debug_print_fmt_is_literal = true.
Proof. exact (eq_refl true). Qed.

(* the preprocessor hook is applied exactly once to (filename, content) and its
   result is what is lexed *)
Theorem preprocessor_once : fact_preprocessor_called_once = true.
Proof. exact (eq_refl true). Qed.

Print Assumptions void_option_off_is_identity.
Print Assumptions void_option_exact.
Print Assumptions void_option_single_site.
Print Assumptions verbose_is_inert.
Print Assumptions preprocessor_once.

(* non-vacuity: a function taking a callback that itself takes a lone void *)
Example c18_nonvacuous :
  build true (TFn (TName 1 0 false) [(TPtr (TFn (TName 1 5 false) [(TName 1 0 false, false)]), true)])
  = TFn (TName 1 0 false) [(TPtr (TFn (TName 1 5 false) []), true)].
Proof. vm_compute. reflexivity. Qed.

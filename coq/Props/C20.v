(* C20 -- Entry points and tools agree with one another. *)
From Coq Require Import NArith List Bool.
Import ListNotations.
From CXV Require Import Gen.Facts Misc.ReprModel Gen.Schema Misc.ReprThms.
Open Scope N_scope.

(* the test generator's compact repr, evaluated, reconstructs an equal value:
   for EVERY well-typed tree of dataclass values over the regenerated schema
   (any depth, any lists/dicts), evaluating nondefault_repr gives a value that
   is == to the original under the dataclasses' own equality (compare=False
   fields such as Token.type are ignored by both) *)
Theorem repr_eval_roundtrip :
  forall (n : nat) (v : val), wt schema n v ->
    exists v', eval schema n (nrepr schema n v) = Some v' /\ veq schema n v v' = true.
Proof. exact (repr_eval_roundtrip_lemma schema schema_ok_true). Qed.

(* entry points: parse_string is CxxParser + SimpleCxxVisitor; parse_file hands
   its encoding to CxxParser; the preprocessor hook is applied once to
   (filename, content) before the stream is built (AST facts, recomputed) *)
Theorem entry_equivalence :
  fact_parse_string_is_parser_plus_simple_visitor && fact_parse_file_passes_encoding && fact_preprocessor_called_once = true.
Proof. exact (eq_refl true). Qed.

Print Assumptions repr_eval_roundtrip.
Print Assumptions entry_equivalence.

(* non-vacuity: Token("x", type) inside a list inside a Value-like object *)
Example c20_nonvacuous : wt schema 3 (Lst [Obj 1 [Atom 7; Atom 9]]).
Proof.
  apply wt_lst. constructor; [|constructor].
  eapply wt_obj; [vm_compute; reflexivity|reflexivity|].
  repeat constructor.
Qed.

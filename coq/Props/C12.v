(* C12 -- Sibling declarations are independent and scopes compose.
   Model: Parse/Fold.v (SimpleCxxVisitor as a fold over the forest of blocks),
   tied to the code by folding recorded real callback streams and comparing
   with the data the real visitor built. *)
From Coq Require Import NArith List.
Import ListNotations.
From CXV Require Import Parse.Fold Parse.FoldThms.
From CXV Require Gen.PinsC12.
From CXV Require Import Gen.TopLoop Parse.Balanced Parse.TopLoop.
From CXV Require Gen.Facts.
From CXV Require Import Gen.TokTy Parse.Declarator Parse.DeclSpec Parse.EnumList Parse.NsHeader.
From CXV Require Import Parse.DeclThms Parse.Specs Parse.DeclStmt Parse.Bodies Parse.ClassDef Parse.ClassDefThms Parse.ClassDefElems Parse.PQName Parse.Using Parse.EnumDecl Parse.EnumList Parse.FinishClass.
Open Scope N_scope.

(* fold_compositional: the result of a concatenation of two declaration
   sequences is the scope-wise concatenation (merge) of their results: items
   and classes appended scope by scope, namespaces merged by name in order of
   first appearance - for all sequences, any nesting *)
Theorem fold_compositional :
  forall f1 f2 : list elem, fold_ns (f1 ++ f2) = merge (fold_ns f1) (fold_ns f2).
Proof. exact fold_compositional_lemma. Qed.

(* nothing but the result so far is carried from one sequence to the next *)
Theorem fold_continues :
  forall f1 f2 : list elem, fold_ns (f1 ++ f2) = fold_from (fold_ns f1) f2.
Proof. exact fold_app_lemma. Qed.

(* re-opening a namespace appends to the same scope *)
Theorem namespace_reopen :
  forall s names b1 b2,
    absorb (absorb s (ENs names b1)) (ENs names b2) = absorb s (ENs names (b1 ++ b2)).
Proof. exact namespace_reopen_lemma. Qed.

(* namespace a::b { } is equivalent to the nested blocks *)
Theorem nested_ns_equiv :
  forall s n r body, r <> [] -> absorb s (ENs (n :: r) body) = absorb s (ENs [n] [ENs r body]).
Proof. exact nested_ns_equiv_lemma. Qed.

(* extern "C" { } blocks are transparent *)
Theorem extern_transparent :
  forall s pre b post, fold_from s (pre ++ EExtern b :: post) = fold_from s (pre ++ b ++ post).
Proof. exact extern_transparent_lemma. Qed.

(* the names a namespace block contributes to the fold (ENs names) are the names
   written in its header: `namespace a::b::c {` (any length), `namespace {`;
   an alias keeps its target path, a leading '::' included; a nested
   definition cannot be inline *)
Theorem namespace_header_decodes : forall names rest,
  ns_header false (path_toks names ++ ktok LBRACE :: rest) = DOk (NsDef names, rest).
Proof. exact ns_definition_roundtrip. Qed.

Theorem namespace_alias_decodes : forall x (rooted : bool) n q rest,
  ns_header false (mkTk T_NAME x :: ktok EQ :: (if rooted then [ktok T_DBL_COLON] else []) ++ path_toks (n :: q) ++ ktok SEMI :: rest)
  = DOk (NsAlias x ((if rooted then [0] else []) ++ n :: q), rest).
Proof. exact ns_alias_roundtrip. Qed.

Theorem inline_nested_namespace_rejected : forall n m q rest,
  ns_header true (path_toks (n :: m :: q) ++ ktok LBRACE :: rest) = DErr 3.
Proof. exact inline_nested_rejected. Qed.

(* the functions the hand-written models above mirror (_parse_namespace) are, token for
   token of their syntax trees, the ones the models were written against: the
   translator recomputes the digests from the live code and produces Gen/PinsC12.v
   only when they match *)
Theorem modelled_functions_are_the_pinned_ones : PinsC12.model_code_pinned = true.
Proof. exact (eq_refl true). Qed.

(* no documentation text leaks from one declaration into the next: after any
   statement of the dispatch loop that is not a kept decoration the pending
   text is None, whatever was pending before and whatever the statement was;
   statements are dispatched one call each, in order *)
Theorem pending_doc_text_does_not_leak : forall (D : Type) p l (s : stmt D),
  kept D s = false -> pend D p (l ++ [s]) = None.
Proof. exact pending_reset. Qed.

Theorem statements_dispatched_once_in_order : forall (D : Type) p (l : list (stmt D)),
  map fst (run D p l) = map (fun s => dispatch (s_ty D s)) l.
Proof. exact calls_in_order. Qed.

(* the parser object has no other state a declaration could leave behind: the
   only attributes of `self` ever stored to outside __init__ are state, visitor,
   lex (swapped and restored inside one template argument list), anon_id and
   current_namespace; no setattr / __dict__ / class-object stores (regenerated
   from the AST of every method of CxxParser on every run) *)
Theorem parser_keeps_no_other_state : Facts.fact_parser_instance_state_is_the_known_set = true.
Proof. exact (eq_refl true). Qed.

(* "Parsing the concatenation of two complete declaration sequences yields exactly the concatenation of their individual
   results" on the PARSER side (the visitor side is fold_compositional): the statement loop over the regenerated dispatch
   table with the declaration models behind it.  For sequences A and B of declaration statements (each any statement the
   statement theorems of C01 cover -- abstractly: tokens that start with a token going to _parse_declarations and that the
   declaration models decode whatever follows), the items of A B are the items of A followed by the items of B: no
   specifier, template header, type or parser state of a statement reaches the next one. *)
Theorem declaration_sequences_concatenate_partial : forall n A B stop rest,
  Forall (fun p => ns_stmt_ok n (fst p) (snd p)) A -> Forall (fun p => ns_stmt_ok n (fst p) (snd p)) B -> stop_tok stop ->
  ev (fun f => ns_body (S (length (A ++ B))) n f (concat (map fst A) ++ concat (map fst B) ++ stop :: rest))
     (DOk (map snd A ++ map snd B, stop :: rest)).
Proof. exact ns_body_concatenation. Qed.

(* ... and the statements of declaration_statement_decodes_partial (C01) are such statements *)
Theorem declaration_statements_compose : forall pre post b items last le,
  forallb spec_kw pre = true -> forallb spec_kw post = true ->
  has T_explicit (pre ++ post) = false -> has T_virtual (pre ++ post) = false -> has T_mutable (pre ++ post) = false ->
  Forall ditem_ok items -> ditem_ok last -> last_ok last le ->
  is_decl_head (hd (nm_tok b) (kw_toks pre)) ->
  let m := apply_kws (pre ++ post) mods0 in
  let bt := TBase b (m_const m) (m_volatile m) in
  ns_stmt_ok (S (length items))
    (kw_toks pre ++ nm_tok b :: kw_toks post ++ items_toks items last le)
    (NDecls m (map (ditem_entry bt) items ++ [last_entry bt last le])).
Proof. exact decl_stmt_is_stmt. Qed.

(* "Scopes compose" on the PARSER side (Parse/ClassDef.v body: the statement loop over the regenerated dispatch table, with the
   header of _parse_namespace, the translated _parse_extern / _parse_inline, the class statement and the declaration models
   behind it, recursing into every block).  For a translation unit written as any tree of namespaces (any names, the anonymous
   namespace), linkage blocks, class definitions (trees of C03), forward declarations, empty statements and declaration
   statements (abstractly, as above), nested to any depth: every statement is reported once, in order, inside the block it
   is written in -- and the unit A B reads as the items of A followed by the items of B. *)
Theorem translation_unit_reads_back_partial : forall n dt (es : list nelem),
  nelems_ok n dt es ->
  ev (fun f => body (S (nssize es)) n f dt None 0 0 (flat_map nelem_toks es)) (DOk (flat_map nelem_spec es, 0, [])).
Proof. exact unit_tree. Qed.

Theorem translation_units_concatenate_partial : forall n dt (A B : list nelem),
  nelems_ok n dt A -> nelems_ok n dt B ->
  ev (fun f => body (S (nssize (A ++ B))) n f dt None 0 0 (flat_map nelem_toks A ++ flat_map nelem_toks B))
     (DOk (flat_map nelem_spec A ++ flat_map nelem_spec B, 0, [])).
Proof. exact unit_concatenation. Qed.

(* ... and the statements of declaration_statement_decodes_partial (C01) are such elements *)
Theorem declaration_statements_are_unit_elements : forall dt pre post b items last le,
  forallb spec_kw pre = true -> forallb spec_kw post = true ->
  has T_explicit (pre ++ post) = false -> has T_virtual (pre ++ post) = false -> has T_mutable (pre ++ post) = false ->
  Forall ditem_ok items -> ditem_ok last -> last_ok last le ->
  is_decl_head (hd (nm_tok b) (kw_toks pre)) ->
  let m := apply_kws (pre ++ post) mods0 in
  let bt := TBase b (m_const m) (m_volatile m) in
  nelem_ok (S (length items)) dt
    (NStmt (kw_toks pre ++ nm_tok b :: kw_toks post ++ items_toks items last le)
           (NDecls m (map (ditem_entry bt) items ++ [last_entry bt last le]))).
Proof. exact decl_stmt_is_nelem. Qed.

(* ... as are using-directives, using-declarations, alias-declarations and enum definitions ([NOne]) *)
Theorem using_directives_are_unit_elements : forall n dt root nm q,
  one_step_ns n dt (ktok T_using :: udir_toks root nm q ++ [ktok T_LIT_59]) (IUsing 0 (UDir root (nm :: q))).
Proof. exact using_directive_is_statement. Qed.

Theorem using_declarations_are_unit_elements : forall n dt (tn root : bool) nm q,
  (q = [] -> root = true \/ tn = true) ->
  one_step_ns n dt (ktok T_using :: pn2_toks (PNames tn [] root nm q) ++ [ktok T_LIT_59])
              (IUsing 0 (UDecl (pn2_out (PNames false [] root nm q)))).
Proof. exact using_declaration_is_statement. Qed.

Theorem aliases_are_unit_elements : forall n dt a t,
  DeclSpec.wf t -> kind_of t <> KFn ->
  one_step_ns n dt (ktok T_using :: mkTk T_NAME a :: ktok T_LIT_61 :: decl_toks t None ++ [ktok T_LIT_59]) (IUsing 0 (UAlias a t)).
Proof. exact using_alias_is_statement. Qed.

Theorem enum_definitions_are_unit_elements : forall n dt key name p items tc,
  enum_key key ->
  (forall X, match p with Some p => base_ok p (ktok T_LIT_123 :: enum_body_toks items tc ++ X) | None => True end) ->
  Forall wenum_ok items -> (items = [] -> tc = false) ->
  one_step_ns n dt (enum_toks key name p items tc ++ [ktok T_LIT_59])
              (IEnum 0 mods0 key name false false (option_map pn2_out p) (map strip_e items) FinNone).
Proof. exact enum_definition_is_statement. Qed.

Theorem opaque_enum_declarations_are_unit_elements : forall n dt key name p,
  enum_key key -> (forall X, base_ok p (ktok T_LIT_59 :: X)) ->
  one_step_ns n dt (map ktok key ++ mkTk T_NAME name :: ktok T_LIT_58 :: pn2_toks p ++ [ktok T_LIT_59]) (IEnumFwd 0 key name (pn2_out p)).
Proof. exact opaque_enum_is_statement. Qed.

Print Assumptions opaque_enum_declarations_are_unit_elements.
Print Assumptions using_directives_are_unit_elements.
Print Assumptions using_declarations_are_unit_elements.
Print Assumptions aliases_are_unit_elements.
Print Assumptions enum_definitions_are_unit_elements.
Print Assumptions translation_unit_reads_back_partial.
Print Assumptions translation_units_concatenate_partial.
Print Assumptions declaration_statements_are_unit_elements.
Print Assumptions declaration_sequences_concatenate_partial.
Print Assumptions declaration_statements_compose.
Print Assumptions namespace_header_decodes.
Print Assumptions namespace_alias_decodes.
Print Assumptions inline_nested_namespace_rejected.
Print Assumptions fold_compositional.
Print Assumptions fold_continues.
Print Assumptions namespace_reopen.
Print Assumptions nested_ns_equiv.
Print Assumptions extern_transparent.

Example c12_nonvacuous :
  fold_ns ([ENs [7] [EItem 1 1]; EItem 2 2] ++ [ENs [7; 8] [EItem 1 3]; EExtern [EItem 2 4]])
  = NS [(2, 2); (2, 4)] [] [(7, NS [(1, 1)] [] [(8, NS [(1, 3)] [] [])])].
Proof. vm_compute. reflexivity. Qed.
Print Assumptions modelled_functions_are_the_pinned_ones.
Print Assumptions pending_doc_text_does_not_leak.
Print Assumptions statements_dispatched_once_in_order.
Print Assumptions parser_keeps_no_other_state.

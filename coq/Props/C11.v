(* C11 -- Documentation comments attach to the declaration they adjoin, and only to it. *)
From Coq Require Import NArith ZArith List Sorting.Permutation.
Import ListNotations.
From CXV Require Import Gen.TokTy Gen.StreamTables Lex.PlyLoop Stream.TokBuf Stream.TokBufThms.
Open Scope N_scope.
From CXV Require Import Gen.TopLoop Parse.Balanced Parse.TopLoop.

(* get_doxygen: the answer is built from the comment tokens collected by [scan]
   over the layout run in front of the first significant token, filtered to
   the documentation styles; that run is consumed and nothing else.
   scan: a comment token is collected; a NEWLINE token that is a blank line
   forgets everything; a single newline right after a comment that did not
   include its own line end only ends that line *)
Theorem get_doxygen_spec :
  forall (st : ts) (o : option (list tok)) (st' : ts),
    get_doxygen st = SOk o st' ->
    o = (match fst (scan ([], false) (lay_prefix (logical st))) with [] => None | cs => extract (rev cs) end) /\
    logical st' = lay_rest (logical st).
Proof. exact get_doxygen_spec_lemma. Qed.

(* what scan returns: the comments, in order, of everything after some NEWLINE
   token of the layout run (or of the whole run): never a comment in front of a
   clearing NEWLINE, never anything else *)
Theorem scan_is_block_after_a_newline :
  forall (l : list tok) (s : sstate),
    exists l1 l2, l = l1 ++ l2 /\
      ((l1 = [] /\ fst (scan s l) = rev (filter is_comment l2) ++ fst s) \/
       ((exists l0 nl, l1 = l0 ++ [nl] /\ tty nl = T_NEWLINE) /\
        fst (scan s l) = rev (filter is_comment l2))).
Proof. exact scan_is_suffix_block. Qed.

(* which NEWLINE tokens clear: all except one single newline directly after a
   comment token that did not swallow its line end *)
Theorem blank_line_rule :
  forall (s : sstate) (t : tok), tty t = T_NEWLINE ->
    scan_step s t = ((if negb (snd s && list_eqb (ttext t) [10]) then [] else fst s), false).
Proof. exact step_nl. Qed.

(* get_doxygen_after: only comment tokens of the current buffered line are
   taken (in order), at most the line's NEWLINE token is dropped, later lines
   and all other tokens are untouched *)
Theorem get_doxygen_after_spec :
  forall (st : ts) (o : option (list tok)) (st' : ts),
    get_doxygen_after st = (o, st') ->
    raw st' = raw st /\ abs st' = abs st /\
    exists taken dropped,
      Permutation (buf st) (buf st' ++ taken ++ dropped) /\
      o = (match taken with [] => None | _ => extract taken end) /\
      Forall (fun t => is_comment t = true) taken /\
      Forall (fun t => tty t = T_NEWLINE) dropped.
Proof. exact get_doxygen_after_spec_lemma. Qed.

(* doc_linearity: a comment token that contributed to an answer is gone from
   the stream, so it can never be attributed to a second declaration *)
Theorem doc_linearity_after :
  forall (st : ts) (o : option (list tok)) (st' : ts) (off : N),
    NoDup (map toff (logical st)) ->
    get_doxygen_after st = (o, st') ->
    forall cs, o = Some cs -> In off (map toff cs) -> ~ In off (map toff (logical st')).
Proof. exact doxygen_after_linear. Qed.

Theorem doc_linearity :
  forall (st : ts) (o : option (list tok)) (st' : ts) (off : N),
    NoDup (map toff (logical st)) ->
    get_doxygen st = SOk o st' ->
    In off (map toff (lay_prefix (logical st))) -> ~ In off (map toff (logical st')).
Proof. exact doxygen_linear. Qed.

(* non-documentation comments contribute no text: extract keeps doc styles only *)
Theorem extract_doc_only :
  forall cs l, extract cs = Some l -> Forall (fun t => is_doc t = true) l.
Proof. exact extract_doc_only_lemma. Qed.

(* a documentation comment is never carried across the end of the enclosing
   block: when the first significant token left on the buffered line is the
   closing brace, nothing is taken and the stream is unchanged *)
Theorem doc_not_carried_across_block_end :
  forall (st : ts) (pre : list tok) (t : tok) (post : list tok),
    buf st = (pre ++ t :: post)%list ->
    Forall (fun x => tty x = T_WHITESPACE) pre ->
    tty t = T_LIT_125 ->
    get_doxygen_after st = (None, st).
Proof. exact doc_not_carried_across_block_end_lemma. Qed.

(* ... nor past the statement's own semicolon into a later statement on the
   same line: when a significant token follows the semicolon, nothing is taken *)
Theorem doc_not_carried_past_next_statement :
  forall (st : ts) (pre : list tok) (semi : tok) (mid : list tok) (t : tok) (post : list tok),
    buf st = (pre ++ semi :: mid ++ t :: post)%list ->
    Forall (fun x => tty x = T_WHITESPACE) pre ->
    Forall (fun x => tty x = T_WHITESPACE) mid ->
    tty semi = T_LIT_59 ->
    plain_sig t = true ->
    get_doxygen_after st = (None, st).
Proof. exact doc_not_carried_past_next_statement_lemma. Qed.

(* The hand-over of the documentation text in the dispatch loop of
   CxxParser.parse (the loop is the reference loop, its tables regenerated):
   the first statement, and every statement behind a declaration, an access
   specifier, a block boundary or anything else that is not a kept decoration,
   is handed exactly the block in front of it; after such a statement nothing
   is pending, so no text is carried across it; behind a decoration
   (attribute, alignas, __declspec) the text handed to the decoration is passed
   on, and only when there was none does the next block count. *)
Theorem doc_text_of_first_statement : forall (D : Type) (x : stmt D), handed_to D None [] x = s_blk D x.
Proof. exact handed_first. Qed.

Theorem doc_text_reset_after_every_declaration : forall (D : Type) p l (s : stmt D),
  kept D s = false -> pend D p (l ++ [s]) = None.
Proof. exact pending_reset. Qed.

Theorem doc_text_is_the_adjoining_block : forall (D : Type) p l (s x : stmt D),
  kept D s = false -> handed_to D p (l ++ [s]) x = s_blk D x.
Proof. exact handed_after_reset. Qed.

Theorem doc_text_passes_through_decorations : forall (D : Type) p l (s x : stmt D),
  kept D s = true ->
  handed_to D p (l ++ [s]) x = match handed_to D p l s with Some d => Some d | None => s_blk D x end.
Proof. exact handed_after_kept. Qed.

Theorem one_call_per_statement_in_order : forall (D : Type) p (l : list (stmt D)),
  map fst (run D p l) = map (fun s => dispatch (s_ty D s)) l.
Proof. exact calls_in_order. Qed.

(* which statements reset: everything handed to _parse_declarations, and the
   access specifiers, braces, ';' and declaration keywords of the table; the
   kept token types are handled by the three decoration consumers only *)
Theorem declarations_reset_doc_text : forall (D : Type) (s : stmt D),
  assocN (s_ty D s) tu_table = None -> kept D s = false.
Proof. exact declaration_resets. Qed.

Theorem boundaries_reset_doc_text : forall (D : Type) (s : stmt D),
  In (s_ty D s) boundary_types -> kept D s = false.
Proof. exact boundary_resets. Qed.

Theorem kept_types_are_decorations : keep_are_decorations = true.
Proof. exact keep_are_decorations_true. Qed.

Theorem dispatch_loop_is_the_modelled_one : toploop_is_reference = true.
Proof. exact toploop_reference. Qed.

Print Assumptions get_doxygen_spec.
Print Assumptions doc_not_carried_across_block_end.
Print Assumptions doc_not_carried_past_next_statement.
Print Assumptions scan_is_block_after_a_newline.
Print Assumptions blank_line_rule.
Print Assumptions get_doxygen_after_spec.
Print Assumptions doc_linearity_after.
Print Assumptions doc_linearity.
Print Assumptions extract_doc_only.

(* non-vacuity: "/// a NL NL /// b NL int" : only the block after the blank line *)
Example c11_nonvacuous :
  match get_doxygen (stream_of [102] [47;47;47;32;97;10; 10; 47;47;47;32;98;10; 105;110;116]) with
  | SOk (Some [t]) _ => ttext t = [47;47;47;32;98;10]
  | _ => False
  end.
Proof. vm_compute. reflexivity. Qed.
Print Assumptions doc_text_of_first_statement.
Print Assumptions doc_text_reset_after_every_declaration.
Print Assumptions doc_text_is_the_adjoining_block.
Print Assumptions doc_text_passes_through_decorations.
Print Assumptions one_call_per_statement_in_order.
Print Assumptions declarations_reset_doc_text.
Print Assumptions boundaries_reset_doc_text.
Print Assumptions kept_types_are_decorations.
Print Assumptions dispatch_loop_is_the_modelled_one.

(* C19 -- Preprocessor integration yields the main file's declarations only.
   Model: PP/Filters.v (hand-written mirror of the three line-marker filters,
   their bodies pinned by text on every run); spec: PP/Markers.v. *)
From Coq Require Import NArith List.
Import ListNotations.
From CXV Require Import Gen.FiltersPin Lex.PlyLoop PP.Filters PP.Markers.
Open Scope N_scope.

(* gcc: for EVERY marker stream (any include graph, any depth, any file names
   without a double quote - suffixes and prefixes of one another, directories,
   blanks included) whose content lines do not start with "# ", the filter
   keeps exactly the content written while the current file is the main file
   and the markers that switch back to it *)
Theorem gcc_filter_keeps_main :
  forall (main : list N) (s : list item) (keep : bool),
    Forall gcc_wf s ->
    filter_lines (gcc_keep main) keep (map render s)
    = map render (select (fun f => list_eqb f main) keep s).
Proof. exact gcc_filter_keeps_main_lemma. Qed.

(* the name written in a marker and the name compared are both escaped
   (backslashes doubled); escaping is injective, so equal escaped names mean
   the same file *)
Theorem escaped_names_identify_files :
  forall a b : list N, list_eqb (esc a) (esc b) = list_eqb a b.
Proof. exact esc_eqb. Qed.

(* pcpp ('#line N "file"' markers, ends-with test) *)
Theorem pcpp_filter_keeps_main :
  forall (main : list N), noq main -> forall (s : list item) (keep : bool),
    Forall hline_wf s ->
    filter_lines (pcpp_keep main) keep (map render s)
    = map render (select (fun f => list_eqb f main) keep s).
Proof. exact pcpp_filter_keeps_main_lemma. Qed.

(* msvc (main file = the file of the very first marker) *)
Theorem msvc_filter_keeps_main :
  forall (pre0 main : list N), noq pre0 -> noq main -> forall (s : list item),
    Forall hline_wf s ->
    msvc_filter (render (Marker pre0 main [10]) :: map render s)
    = map render (select (fun f => list_eqb f main) true s).
Proof. exact msvc_filter_keeps_main_lemma. Qed.

Print Assumptions gcc_filter_keeps_main.
Print Assumptions escaped_names_identify_files.
Print Assumptions pcpp_filter_keeps_main.
Print Assumptions msvc_filter_keeps_main.

(* non-vacuity and the F11 shape: main a.h, included ba.h *)
Example c19_nonvacuous :
  gcc_filter [97; 46; 104]
    [[35;32;49;32;34;97;46;104;34;10]; [105;110;116;32;109;59;10];
     [35;32;49;32;34;98;97;46;104;34;32;49;10]; [105;110;116;32;105;59;10];
     [35;32;50;32;34;97;46;104;34;32;50;10]; [105;110;116;32;110;59;10]]
  = [[35;32;49;32;34;97;46;104;34;10]; [105;110;116;32;109;59;10];
     [35;32;50;32;34;97;46;104;34;32;50;10]; [105;110;116;32;110;59;10]].
Proof. vm_compute. reflexivity. Qed.

(* C08 -- The lexer partitions the text: nothing lost, lines counted, literals whole.
   Model: Lex/PlyLoop.v (hand-written mirror of _ply/lex.py's token loop) over
   Gen/LexRules.v (PLY's real rule order, regex trees and t_* actions,
   regenerated from the live lexer on every run). *)
From Coq Require Import NArith ZArith List.
Import ListNotations.
From CXV Require Import Gen.TokTy Base.Regex Gen.LexRules Lex.PlyLoop Lex.LexThms.
Open Scope N_scope.

(* nothing lost: tokens, ignored characters (carriage returns) and dropped
   directives (#line, #warning) in order reproduce the input, for every input *)
Theorem lex_partition :
  forall (file s : list N) (ps : list piece),
    lex file s = (ps, Done) -> all_text ps = s.
Proof. exact LexThms.lex_partition. Qed.

(* ... and up to the offending text when lexing stops with an error *)
Theorem lex_partition_err :
  forall (file s : list N) (ps : list piece) (k : N) (loc : list N * Z) (t : list N),
    lex file s = (ps, Failed k loc t) -> exists rest, s = all_text ps ++ t ++ rest.
Proof. exact LexThms.lex_partition_err. Qed.

(* each token's line number is one plus the number of newlines before it *)
Theorem lex_lineno :
  forall (file s : list N) (ps : list piece) (o : outcome) (pre : list piece)
         (ty : N) (t : list N) (line : N) (loc : list N * Z) (post : list piece),
    lex file s = (ps, o) -> ps = pre ++ PTok ty t line loc :: post ->
    line = 1 + count_nl (all_text pre).
Proof. exact LexThms.lex_lineno. Qed.

(* keywords are never plain names *)
Theorem keywords_never_names :
  forall (st : lstate) (c : N) (s' t : list N) (line : N) (loc : list N * Z) (st' : lstate) (rest : list N),
    lex_step st c s' = SPiece (PTok T_NAME t line loc) st' rest ->
    assoc_str t keywords = None.
Proof. exact LexThms.keywords_never_names. Qed.

(* what is dropped is a directive match *)
Theorem dropped_are_directives :
  forall (st : lstate) (c : N) (s' t : list N) (st' : lstate) (rest : list N),
    lex_step st c s' = SPiece (PDrop t) st' rest ->
    exists r, In (r, APP) rules /\ match_prefix r (c :: s') = Some rest.
Proof. exact LexThms.dropped_are_directives. Qed.

Print Assumptions lex_partition.
Print Assumptions lex_partition_err.
Print Assumptions lex_lineno.
Print Assumptions keywords_never_names.
Print Assumptions dropped_are_directives.

(* non-vacuity: a small text lexes to Done *)
Example c08_nonvacuous :
  snd (lex [102] [105; 110; 116; 32; 120; 59; 10; 47; 42; 10; 42; 47; 48; 120; 49; 70]) = Done.
Proof. vm_compute. reflexivity. Qed.

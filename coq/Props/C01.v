(* C01 -- Namespace-scope declarations are extracted faithfully.  PARTIAL:
   two parts of the statement are proved for inputs of any size; the rest of
   the parser's dispatch is decided by the AST-first search (see DESIGN.md). *)
From Coq Require Import NArith List Bool.
Import ListNotations.
From CXV Require Import Gen.TokTy Parse.Balanced Parse.BalancedThms Parse.Declarator Parse.DeclSpec Parse.DeclThms Parse.DeclPins.
From CXV Require Gen.PinsC01.
From CXV Require Import Parse.PQName Parse.Using Parse.EnumDecl Parse.ParamsX Parse.DeclStmt Parse.TemplateStmt.
From CXV Require Import Parse.Members Parse.MethodTail Parse.MemberStmt Parse.OpName Parse.ConvOp Parse.OperatorMember Parse.OperatorFn Parse.MethodImpl Parse.TemplateArg Parse.TemplateInst.
From CXV Require Import Parse.DispatchLang Gen.Dispatch Parse.DispatchExternThms Parse.DispatchInlineThms.
From CXV Require Import Parse.EnumList Parse.Specs Parse.VarStmt Parse.FnTail Parse.Init Parse.Members Parse.Template.
From CXV Require Import Parse.Fold Parse.FoldThms Parse.FoldPlace.
Open Scope N_scope.

(* `T d1, d2, ..., dn;` -- one entry per declarator, in source order, each with
   its own name and its own type built on the shared base type T (b, c, v);
   nothing missing, nothing extra, the rest of the input untouched.  The
   declarators are arbitrary legal type trees (any nesting depth). *)
Theorem one_entry_per_declarator_partial : forall b c v (ts : list (ty * N)) rest,
  ts <> [] ->
  Forall (fun p => DeclSpec.wf (fst p) /\ obj_ty (fst p) /\ base_of (fst p) = (b, c, v)) ts ->
  ev (fun f => parse_decls (length ts) f
                 (base_toks3 b c v ++ join_comma (map (fun p => D (fst p) [mkTk T_NAME (snd p)] false) ts)
                  ++ ktok SEMI :: rest))
     (DOk (map (fun p => (snd p, fst p)) ts, rest)).
Proof. exact decls_roundtrip. Qed.

(* Specifiers: the flags reported for a declaration are exactly the keywords
   written around the type name -- before it, after it, in any order, repeated
   or not (const volatile constexpr extern inline static explicit virtual
   mutable; __inline and __forceinline count as inline). *)
Theorem specifiers_decode_partial : forall pre post n rest,
  forallb spec_kw pre = true -> forallb spec_kw post = true -> spec_stop rest = true ->
  parse_specs (kw_toks pre ++ nm_tok n :: kw_toks post ++ rest)
  = DOk (apply_kws post (apply_kws pre mods0), n, rest).
Proof. exact specs_decode_lemma. Qed.

Theorem specifier_sets_are_the_codes : spec_sets_ok = true.
Proof. exact spec_sets_ok_true. Qed.

Theorem specifier_order_irrelevant : forall ks ks',
  forallb spec_kw ks = true -> Permutation.Permutation ks ks' -> apply_kws ks mods0 = apply_kws ks' mods0.
Proof. exact specifier_order_irrelevant_lemma. Qed.

Theorem specifier_flags_are_memberships : forall ks m, forallb spec_kw ks = true ->
  m_const (apply_kws ks m) = (m_const m || has T_const ks) /\ m_volatile (apply_kws ks m) = (m_volatile m || has T_volatile ks) /\
  m_constexpr (apply_kws ks m) = (m_constexpr m || has T_constexpr ks) /\ m_extern (apply_kws ks m) = (m_extern m || has T_extern ks) /\
  m_inline (apply_kws ks m) = (m_inline m || (has T_inline ks || has T___inline ks || has T___forceinline ks)) /\
  m_static (apply_kws ks m) = (m_static m || has T_static ks) /\ m_explicit (apply_kws ks m) = (m_explicit m || has T_explicit ks) /\
  m_virtual (apply_kws ks m) = (m_virtual m || has T_virtual ks) /\ m_mutable (apply_kws ks m) = (m_mutable m || has T_mutable ks).
Proof. exact apply_kws_fields. Qed.

(* A whole variable statement `spec* T spec* d1, ..., dn;` at namespace scope:
   the flags of the keywords written, const / volatile on the base type of
   every declarator, one entry per declarator in source order. *)
Theorem variable_statement_decodes_partial : forall pre post b items rest,
  forallb spec_kw pre = true -> forallb spec_kw post = true ->
  has T_explicit (pre ++ post) = false -> has T_virtual (pre ++ post) = false -> has T_mutable (pre ++ post) = false ->
  items <> [] ->
  Forall (fun it => legalL KB (fst it) = true /\ Forall layer_ok (fst it) /\ kind_end KB (fst it) <> KFn) items ->
  ev (fun f => var_stmt (length items) f
                 (kw_toks pre ++ nm_tok b :: kw_toks post ++
                  join_comma (map (fun it => P (fst it) [mkTk T_NAME (snd it)]) items) ++ ktok SEMI :: rest))
     (DOk (apply_kws (pre ++ post) mods0,
           map (fun it => (snd it, wrap (TBase b (m_const (apply_kws (pre ++ post) mods0)) (m_volatile (apply_kws (pre ++ post) mods0))) (fst it))) items,
           rest)).
Proof. exact var_stmt_roundtrip. Qed.

(* ... and with initialisers: `= expr` reports exactly the tokens of expr (any
   token-level expression up to the ',' or ';' at depth 0), `{ ... }` the whole
   brace group; a declarator without one reports no value. *)
Theorem variable_statement_with_initialisers_decodes_partial : forall pre post b items rest,
  forallb spec_kw pre = true -> forallb spec_kw post = true ->
  has T_explicit (pre ++ post) = false -> has T_virtual (pre ++ post) = false -> has T_mutable (pre ++ post) = false ->
  items <> [] -> Forall item_ok items ->
  ev (fun f => var_stmt_i (length items) f
                 (kw_toks pre ++ nm_tok b :: kw_toks post ++ join_comma (map item_toks items) ++ ktok SEMI :: rest))
     (DOk (apply_kws (pre ++ post) mods0,
           map (fun it => (snd (fst it),
                           wrap (TBase b (m_const (apply_kws (pre ++ post) mods0)) (m_volatile (apply_kws (pre ++ post) mods0))) (fst (fst it)),
                           init_value (snd it))) items,
           rest)).
Proof. exact var_stmt_i_roundtrip. Qed.

(* typedef statements: one entry per declarator on the shared base type; only
   const / volatile may accompany the type, no bit-field, no initialiser *)
Theorem typedef_statement_decodes_partial : forall pre post b items rest,
  forallb (fun k => (k =? T_const) || (k =? T_volatile)) (pre ++ post) = true ->
  items <> [] -> Forall (mitem_ok false true) items ->
  let m := apply_kws (pre ++ post) mods0 in
  ev (fun f => typedef_stmt (length items) f
                 (kw_toks pre ++ nm_tok b :: kw_toks post ++ join_comma (map mitem_toks items) ++ ktok SEMI :: rest))
     (DOk (map (mitem_out (TBase b (m_const m) (m_volatile m))) items, rest)).
Proof. exact typedef_stmt_roundtrip. Qed.

(* A function declaration `R-declarator( name ( parameters ) )`: the reported
   return type, name, parameter list (types and names in order) and vararg
   flag are those written, for every legal function type (any nesting of the
   return type and of the parameter types); the tokens after the ')' are left. *)
Theorem function_declaration_decodes_partial : forall rt ps va n rest,
  DeclSpec.wf (TFn rt ps va) -> nolb rest = true ->
  ev (fun f => fn_decl f (decl_toks (TFn rt ps va) (Some n) ++ rest)) (DOk (n, rt, ps, va, rest)).
Proof. exact fn_roundtrip. Qed.

(* A whole function statement: the declaration head as above, then throw(...)
   or noexcept[(...)] with exactly the tokens written, then nothing, a body
   (skipped whatever brace-balanced tokens it holds) or `= delete`; the flags
   has_body / deleted are those written and parsing resumes right after. *)
Theorem function_statement_decodes_partial : forall rt ps va n th ne nep en rest,
  DeclSpec.wf (TFn rt ps va) -> tail_ok th ne nep en (after_tail en rest) ->
  ev (fun f => fn_stmt f (decl_toks (TFn rt ps va) (Some n) ++ spec_toks th ne nep ++ ending_toks en ++ after_tail en rest))
     (DOk (n, rt, ps, va, tail_of th ne en, rest)).
Proof. exact fn_stmt_roundtrip. Qed.

(* Template headers: `< p1, ..., pn >` reports every parameter once, in order,
   with its kind (type / template template / non-type), key (class or typename),
   pack flag, name, default (exactly the tokens written) and, for a template
   template parameter, its own parameter list -- to any nesting depth; the
   non-type parameters are declarators of any legal type. *)
Theorem template_parameters_decode_partial : forall l R,
  Forall tp_ok l -> ev (fun f => tdecl f (tlist_toks l ++ R)) (DOk (l, R)).
Proof. exact template_params_roundtrip. Qed.

(* An enumerator list `{ A, B [[attr]] alignas(8) = expr, C }` (a trailing ','
   allowed; any number of attribute groups behind a name, the first a [[ ]]
   group, each with any nested contents): every enumerator is reported once,
   in order, with exactly the tokens of its own value (any token-level
   expression: brackets nested, '<' '>' free) and none where none is written
   -- never a neighbour's -- for lists of any length; the attributes are
   dropped; what follows the '}' is untouched. *)
Theorem enumerators_reported_exactly_partial : forall items tc rest,
  Forall wenum_ok items -> (items = [] -> tc = false) ->
  enum_list (S (length items)) [] (enum_body_toks items tc ++ rest) = DOk (map strip_e items, rest).
Proof. exact enumerators_roundtrip. Qed.

(* The collecting visitor: the items found in the namespace reached by [path]
   are exactly the items written directly in that namespace -- through extern
   blocks, through `namespace a::b { }` headers, across re-openings -- in source
   order; for every forest of blocks, any nesting. *)
Theorem items_land_where_written : forall body path,
  items_of (lookup path (fold_ns body)) = flat_map (written path) body.
Proof. exact items_land_where_written_lemma. Qed.

(* the code the model mirrors is the pinned one, and the token sets it tests
   the stream for are the sets the model hard-codes (regenerated on every run) *)
Theorem declarator_code_is_the_modelled_one : decl_sets_ok = true.
Proof. exact decl_sets_ok_true. Qed.

(* using statements (after the keyword): `using namespace [::] a::b;` reports
   exactly the names written, in order, and the leading '::'; `using [typename]
   [::] a::b::c;` reports the qualified name as written (the typename keyword
   is not part of it); `using A = type-id;` reports the alias name and exactly
   the type written, for every legal type tree that is not a plain function
   type -- each followed by its ';', the rest untouched. *)
Theorem using_directive_decodes_partial : forall root n q fuel rest,
  using_stmt false false fuel (udir_toks root n q ++ ktok SEMI :: rest) = DOk (UDir root (n :: q), rest).
Proof. exact using_directive_roundtrip. Qed.

Theorem using_declaration_decodes_partial : forall (tn root : bool) n q in_class fuel rest,
  (q = [] -> root = true \/ tn = true) ->
  using_stmt in_class false fuel (pn2_toks (PNames tn [] root n q) ++ ktok SEMI :: rest)
  = DOk (UDecl (pn2_out (PNames false [] root n q)), rest).
Proof. exact using_declaration_roundtrip. Qed.

Theorem using_alias_decodes_partial : forall a t in_class has_template rest,
  DeclSpec.wf t -> kind_of t <> KFn ->
  ev (fun f => using_stmt in_class has_template f (mkTk T_NAME a :: ktok EQ :: decl_toks t None ++ ktok SEMI :: rest))
     (DOk (UAlias a t, rest)).
Proof. exact using_alias_roundtrip. Qed.

(* enum declarations behind the name: `enum E : base;` reports exactly the base
   written (a qualified name or a fundamental group in the order written);
   `enum E [: base] { ... };` reports the base (or none) and every enumerator
   once, in order, with its own value. *)
Theorem enum_forward_decodes_partial : forall p rest,
  base_ok p (ktok SEMI :: rest) ->
  enum_decl false (ktok COLON :: pn2_toks p ++ ktok SEMI :: rest) = DOk (EFwd (pn2_out p), rest).
Proof. exact enum_forward_roundtrip. Qed.

Theorem enum_definition_decodes_partial : forall p items tc rest,
  (match p with Some p => base_ok p (ktok LBRACE :: enum_body_toks items tc ++ ktok SEMI :: rest) | None => True end) ->
  Forall wenum_ok items -> (items = [] -> tc = false) ->
  enum_decl false (base_toks p ++ ktok LBRACE :: enum_body_toks items tc ++ ktok SEMI :: rest)
  = DOk (EDef (option_map pn2_out p) (map strip_e items), rest).
Proof. exact enum_definition_roundtrip. Qed.

(* The parameter list of a function declaration with default values:
   `( T1 a = v1, T2 b, ... )` reports every parameter once, in order, with
   exactly its type (any legal object type), its name and the tokens of its own
   default value (any expression of the token-level grammar, read up to the
   ',' or ')' that ends it), and the vararg flag. *)
Theorem parameters_with_defaults_decode_partial : forall ps va rest,
  Forall xp_ok ps ->
  ev (fun f => params_x f (xps_toks ps va ++ ktok RP :: rest)) (DOk (ps, va, rest)).
Proof. exact parameters_with_defaults_roundtrip. Qed.

(* How _parse_declarations / _parse_decl put one declaration statement together at
   namespace scope: `spec* T spec* d1, d2, ..., dn <end>` where every d is a
   variable declarator (any legal object type) with an optional initialiser, or
   a function declarator (any legal return type, any parameter list of the
   declarator grammar) with an optional throw / noexcept specification -- in
   any mixture and any order (`int a = 1, f(int) noexcept, *b{};`) -- and <end>
   is ';' or, behind a last function declarator, a body or `= delete ;`.
   The statement yields exactly one entry per declarator, in source order, each
   of its own kind (a declarator with a parameter list behind its name is a
   function, every other one a variable), built on the base type and the flags
   of the statement; values and exception specifications are the source tokens
   of their own declarator; the body is skipped exactly and the rest of the
   input is untouched. *)
Theorem declaration_statement_decodes_partial : forall pre post b items last le rest,
  forallb spec_kw pre = true -> forallb spec_kw post = true ->
  has T_explicit (pre ++ post) = false -> has T_virtual (pre ++ post) = false -> has T_mutable (pre ++ post) = false ->
  Forall ditem_ok items -> ditem_ok last -> last_ok last le ->
  let m := apply_kws (pre ++ post) mods0 in
  let bt := TBase b (m_const m) (m_volatile m) in
  ev (fun f => decl_stmt (S (length items)) f
                 (kw_toks pre ++ nm_tok b :: kw_toks post ++ items_toks items last le ++ rest))
     (DOk (m, map (ditem_entry bt) items ++ [last_entry bt last le], rest)).
Proof. exact decl_stmt_roundtrip. Qed.

(* ... and the kinds are never confused *)
Theorem declarator_kinds_follow_the_source : forall b items last le,
  map is_fn_entry (map (ditem_entry b) items ++ [last_entry b last le]) = map last_is_fn (items ++ [last]).
Proof. exact kinds_follow_declarators. Qed.

(* typedef statements through the same loop: `typedef cv* T cv* d1, ..., dn ;` where every d is an object declarator or a
   function declarator (with an optional exception specification), in any mixture: one typedef per declarator, in order,
   of the object type / of the function type built on the shared base type *)
Theorem typedef_statement_with_function_types_decodes_partial : forall pre post b items last rest,
  forallb (fun k => (k =? T_const) || (k =? T_volatile)) (pre ++ post) = true ->
  Forall td_item_ok items -> td_item_ok last ->
  let m := apply_kws (pre ++ post) mods0 in
  let bt := TBase b (m_const m) (m_volatile m) in
  ev (fun f => typedef_decl_stmt (S (length items)) f
                 (kw_toks pre ++ nm_tok b :: kw_toks post ++ items_toks items last LSemi ++ rest))
     (DOk (map (ditem_entry bt) items ++ [ditem_entry bt last], rest)).
Proof. exact typedef_decl_stmt_roundtrip. Qed.

(* The keyword handlers in front of a declaration, as TRANSLATED from the code that exists now
   (Gen/Dispatch.v, regenerated from the ASTs of _parse_extern / _parse_inline / _parse_typedef on every run;
   the interpreter of Parse/DispatchLang.v runs the translated text):
   `extern "C" {` opens an extern block with that linkage; `extern "C" <declaration>` pushes the string back
   and hands the whole statement, from the `extern` keyword on, to the declaration parser; `extern template`
   is an explicit instantiation flagged extern; any other `extern` is a declaration; `inline namespace` goes
   to the namespace parser flagged inline, any other `inline` is a declaration; `typedef` hands the tokens
   behind the keyword to the declaration parser flagged is_typedef. *)
Theorem extern_block_is_opened : forall kw str lb R,
  kty str = T_STRING_LITERAL -> kty lb = T_LIT_123 ->
  run prog_parse_extern false kw (str :: lb :: R) = OOpenExtern (Some str) R.
Proof. exact extern_block_opens. Qed.
Theorem extern_linkage_declaration_keeps_every_token : forall kw str x R,
  kty str = T_STRING_LITERAL -> kty x <> T_LIT_123 ->
  run prog_parse_extern false kw (str :: x :: R) = OCall F_declarations [RTok (Some kw); RDox] [] (str :: x :: R).
Proof. exact extern_linkage_declaration. Qed.
Theorem extern_template_is_an_instantiation : forall kw t R,
  kty t = T_template ->
  run prog_parse_extern false kw (t :: R) = OCall F_template_instantiation [RDox; RBool true] [] R.
Proof. exact extern_template_is_instantiation. Qed.
Theorem plain_extern_is_a_declaration : forall kw x R,
  kty x <> T_STRING_LITERAL -> kty x <> T_template ->
  run prog_parse_extern false kw (x :: R) = OCall F_declarations [RTok (Some kw); RDox] [] (x :: R).
Proof. exact extern_declaration. Qed.
Theorem inline_namespace_goes_to_the_namespace_parser : forall kw ns R,
  kty ns = T_namespace ->
  forall ic, run prog_parse_inline ic kw (ns :: R) = OCall F_namespace [RTok (Some ns); RDox] [(3, RBool true)] R.
Proof. exact inline_namespace_dispatch. Qed.
Theorem other_inline_is_a_declaration : forall kw x R ic,
  kty x <> T_namespace ->
  run prog_parse_inline ic kw (x :: R) = OCall F_declarations [RTok (Some kw); RDox] [] (x :: R).
Proof. exact inline_declaration_dispatch. Qed.
Theorem typedef_goes_to_the_declaration_parser : forall kw x R ic,
  run prog_parse_typedef ic kw (x :: R) = OCall F_declarations [RTok (Some x); RDox] [(1, RBool true)] R.
Proof. exact typedef_dispatch. Qed.

(* Operator functions at namespace scope: `spec* T spec* <pointer / reference operators> operator <op> ( params ) <tail>` is one
   function whose operator is exactly the tokens written behind `operator`, with return type, parameters, specifier flags,
   exception specification and ending (';', a body, `= delete`) as written *)
Theorem operator_function_decodes_partial : forall pre post b ls o ps va th ne nep en rest,
  forallb spec_kw pre = true -> forallb spec_kw post = true ->
  has T_explicit (pre ++ post) = false -> has T_virtual (pre ++ post) = false -> has T_mutable (pre ++ post) = false ->
  all_pfx ls = true -> legalL KB ls = true -> op_ok o ->
  layer_ok (LFn ps va) -> tail_ok th ne nep en (after_tail en rest) ->
  let m := apply_kws (pre ++ post) mods0 in
  let t := wrap (TBase b (m_const m) (m_volatile m)) ls in
  ev (fun f => op_fn_stmt f (kw_toks pre ++ nm_tok b :: kw_toks post ++ P ls [] ++ ktok T_operator :: op_toks o ++
                             ktok LP :: params_toks ps va ++ ktok RP :: spec_toks th ne nep ++ ending_toks en ++ after_tail en rest))
     (DOk (mkOpF m (op_toks o) t ps va (tail_of th ne en), rest)).
Proof. exact op_fn_roundtrip. Qed.

(* Method definitions outside their class: `spec* T spec* <pointer / reference operators> A::B::m ( params ) quals { body }` is one
   method definition with exactly the name segments written, the return type, parameters and qualifier set written, the body
   skipped exactly and the statement ended by it *)
Theorem out_of_class_method_definition_decodes_partial : forall pre post b ls n q ps va quals soup rest,
  forallb spec_kw pre = true -> forallb spec_kw post = true ->
  has T_explicit (pre ++ post) = false -> has T_virtual (pre ++ post) = false -> has T_mutable (pre ++ post) = false ->
  all_pfx ls = true -> legalL KB ls = true -> q <> [] ->
  layer_ok (LFn ps va) -> Forall mq_ok quals -> bal tk kty T_LIT_123 T_LIT_125 soup ->
  let m := apply_kws (pre ++ post) mods0 in
  let t := wrap (TBase b (m_const m) (m_volatile m)) ls in
  ev (fun f => method_impl_stmt f (kw_toks pre ++ nm_tok b :: kw_toks post ++ P ls [] ++ qual_toks n q ++
                                   ktok LP :: params_toks ps va ++ ktok RP :: flat_map mq_toks quals ++ mend_toks (MeBody soup) ++ rest))
     (DOk (mkMI m (SName n :: map SName q) t ps va (apply_end (MeBody soup) (quals_of quals)), rest)).
Proof. exact method_impl_roundtrip. Qed.

(* Explicit instantiations (behind `template` / `extern template`): `class|struct [::] A::B::X < args > ;` reports the name
   segments written and every template argument once, in order, as the kind it was written as (a type-id as that type,
   anything else as its raw tokens, with its own pack flag); what follows the ';' is untouched *)
Theorem explicit_instantiation_decodes_partial : forall (key : tk) (root : bool) q last args rest,
  is T_class key || is T_struct key = true -> args <> [] -> Forall warg_ok args ->
  ev (fun f => inst_stmt f (key :: (if root then [ktok T_DBL_COLON] else []) ++ qnames_toks q last ++ ktok T_LIT_60 :: targs_toks args ++
                            ktok T_LIT_62 :: ktok SEMI :: rest))
     (DOk (mkTI root (q ++ [last]) (map warg_out args), rest)).
Proof. exact inst_stmt_roundtrip. Qed.

(* What a `template` statement is handed on to (_parse_template): behind ONE header
   the next token selects the continuation -- `using`, `friend`, `concept`, a
   requires-clause, or (any other token) a declaration that starts with that
   token -- and the continuation receives exactly that header (any parameter list
   of the template-parameter grammar) and the tokens behind the selecting token;
   behind SEVERAL headers it is always a declaration and it receives all the
   headers, in source order; without a '<' the statement is an explicit
   instantiation and nothing has been consumed. *)
Theorem template_statement_one_header_partial : forall h k R n,
  Forall tp_ok h -> is T_template k = false ->
  ev (fun f => template_stmt n f (tlist_toks h ++ k :: R)) (DOk (kind_of_tok k, [h], R)).
Proof. exact template_stmt_one. Qed.

Theorem template_statement_many_headers_partial : forall h hs k R,
  Forall tp_ok h -> Forall (Forall tp_ok) hs -> hs <> [] -> is T_template k = false ->
  ev (fun f => template_stmt (length hs) f (tlist_toks h ++ headers_toks hs ++ k :: R)) (DOk (K_DECL, h :: hs, R)).
Proof. exact template_stmt_many. Qed.

Theorem explicit_instantiation_consumes_nothing : forall n f toks,
  match toks with t :: _ => is LT t = false | [] => True end ->
  template_stmt n f toks = DOk (K_INST, [], toks).
Proof. exact template_stmt_inst. Qed.

(* A concept definition `NAME = expr` reports its name and exactly the tokens of
   the constraint expression (any expression of the token-level grammar); the
   ',' or ';' that ends it is left in the stream; inside a class it is rejected. *)
Theorem concept_decodes_partial : forall n e s R,
  Expr tk kty concept_terms e -> (is COMMA s = true \/ is SEMI s = true) ->
  concept_stmt false (mkTk T_NAME n :: ktok EQ :: e ++ s :: R) = DOk (n, e, s :: R).
Proof. exact concept_roundtrip. Qed.

Theorem concept_in_class_is_rejected : forall toks x, concept_stmt true toks <> DOk x.
Proof. exact concept_in_class_rejected. Qed.

(* the functions the hand-written models above mirror (_parse_type, ParsedTypeModifiers.validate, _parse_enumerator_list, _consume_attribute_specifier_seq, _parse_enum_decl, _parse_fn_end, _parse_template_decl, _parse_template_type_parameter, _parse_using, _parse_using_directive, _parse_using_declaration, _parse_using_typealias, _finish_class_or_enum, _parse_declarations, _parse_decl, _parse_function, _parse_field, _parse_template and _parse_concept) are, token for
   token of their syntax trees, the ones the models were written against: the
   translator recomputes the digests from the live code and produces Gen/PinsC01.v
   only when they match *)
Theorem modelled_functions_are_the_pinned_ones : PinsC01.model_code_pinned = true.
Proof. exact (eq_refl true). Qed.

Print Assumptions declarator_code_is_the_modelled_one.
Print Assumptions one_entry_per_declarator_partial.
Print Assumptions specifiers_decode_partial.
Print Assumptions specifier_sets_are_the_codes.
Print Assumptions specifier_order_irrelevant.
Print Assumptions specifier_flags_are_memberships.
Print Assumptions variable_statement_decodes_partial.
Print Assumptions variable_statement_with_initialisers_decodes_partial.
Print Assumptions typedef_statement_decodes_partial.
Print Assumptions function_declaration_decodes_partial.
Print Assumptions function_statement_decodes_partial.
Print Assumptions template_parameters_decode_partial.
Print Assumptions enumerators_reported_exactly_partial.
Print Assumptions items_land_where_written.

(* non-vacuity *)
Example c01_decls_run :
  parse_decls 2 40
    (base_toks3 5 true false ++
     join_comma [D (TPtr (TBase 5 true false) false false) [mkTk T_NAME 1] false;
                 D (TArr (TBase 5 true false) [mkTk 3 9]) [mkTk T_NAME 2] false] ++ [ktok SEMI])
  = DOk ([(1, TPtr (TBase 5 true false) false false); (2, TArr (TBase 5 true false) [mkTk 3 9])], []).
Proof. vm_compute. reflexivity. Qed.

Example c01_place_run :
  items_of (lookup [7; 8] (fold_ns [ENs [7] [EItem 1 1; ENs [8] [EItem 1 2]]; EItem 2 3;
                                    ENs [7; 8] [EExtern [EItem 1 4]; EClass 9 [EItem 1 5]]]))
  = [(1, 2); (1, 4)].
Proof. vm_compute. reflexivity. Qed.

Example c01_enum_run :
  enum_list 3 [] (enum_body_toks [(1, [ABr [mkTk T_NAME 4]; AAl [mkTk 3 8]], None); (2, [], Some [mkTk 3 7; mkTk LP 0; mkTk 3 8; mkTk RP 0])] true ++ [ktok SEMI])
  = DOk ([(1, None); (2, Some [mkTk 3 7; mkTk LP 0; mkTk 3 8; mkTk RP 0])], [ktok SEMI]).
Proof. vm_compute. reflexivity. Qed.

Example c01_stmt_run :
  var_stmt 2 40 (kw_toks [T_static; T_const] ++ nm_tok 5 :: kw_toks [T_constexpr] ++
                 join_comma [P [LPtr true false] [mkTk T_NAME 1]; P [LArr [mkTk 3 9]] [mkTk T_NAME 2]] ++ [ktok SEMI])
  = DOk (mkMods true false true false false true false false false,
         [(1, TPtr (TBase 5 true false) true false); (2, TArr (TBase 5 true false) [mkTk 3 9])], []).
Proof. vm_compute. reflexivity. Qed.
Print Assumptions using_directive_decodes_partial.
Print Assumptions using_declaration_decodes_partial.
Print Assumptions using_alias_decodes_partial.
Print Assumptions enum_forward_decodes_partial.
Print Assumptions enum_definition_decodes_partial.
Print Assumptions parameters_with_defaults_decode_partial.
Print Assumptions declaration_statement_decodes_partial.
Print Assumptions declarator_kinds_follow_the_source.
Print Assumptions typedef_statement_with_function_types_decodes_partial.
Print Assumptions extern_block_is_opened.
Print Assumptions extern_linkage_declaration_keeps_every_token.
Print Assumptions extern_template_is_an_instantiation.
Print Assumptions plain_extern_is_a_declaration.
Print Assumptions inline_namespace_goes_to_the_namespace_parser.
Print Assumptions other_inline_is_a_declaration.
Print Assumptions typedef_goes_to_the_declaration_parser.
Print Assumptions operator_function_decodes_partial.
Print Assumptions out_of_class_method_definition_decodes_partial.
Print Assumptions explicit_instantiation_decodes_partial.
Print Assumptions template_statement_one_header_partial.
Print Assumptions template_statement_many_headers_partial.
Print Assumptions explicit_instantiation_consumes_nothing.
Print Assumptions concept_decodes_partial.
Print Assumptions concept_in_class_is_rejected.

Example c01_mixed_stmt_run :
  decl_stmt 3 60 (kw_toks [T_static] ++ nm_tok 5 :: kw_toks [T_const] ++
                  items_toks [IVar [LPtr false false] 1 (InitEq [mkTk 3 9]);
                              IFn [LRef] [(TBase 6 false false, Some 7)] false 2 None (Some []) false]
                             (IVar [LArr [mkTk 3 4]] 3 NoInit) LSemi ++ [ktok SEMI])
  = DOk (mkMods true false false false false true false false false,
         [EVar 1 (TPtr (TBase 5 true false) false false) (Some [mkTk 3 9]);
          EFn 2 (TRef (TBase 5 true false)) [(TBase 6 false false, Some 7)] false (mkTail None (Some []) false false);
          EVar 3 (TArr (TBase 5 true false) [mkTk 3 4]) None], [ktok SEMI]).
Proof. vm_compute. reflexivity. Qed.
Print Assumptions modelled_functions_are_the_pinned_ones.

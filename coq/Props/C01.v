(* C01 -- Namespace-scope declarations are extracted faithfully.  PARTIAL:
   two parts of the statement are proved for inputs of any size; the rest of
   the parser's dispatch is decided by the AST-first search (see DESIGN.md). *)
From Coq Require Import NArith List Bool.
Import ListNotations.
From CXV Require Import Gen.TokTy Parse.Balanced Parse.BalancedThms Parse.Declarator Parse.DeclSpec Parse.DeclThms Parse.DeclPins.
From CXV Require Import Parse.EnumList.
From CXV Require Import Parse.Fold Parse.FoldThms Parse.FoldPlace.
Open Scope N_scope.

(* `T d1, d2, ..., dn;` -- one entry per declarator, in source order, each with
   its own name and its own type built on the shared base type T (b, c, v);
   nothing missing, nothing extra, the rest of the input untouched.  The
   declarators are arbitrary legal type trees (any nesting depth). *)
Theorem one_entry_per_declarator_partial : forall b c v (ts : list (ty * N)) rest,
  ts <> [] ->
  Forall (fun p => DeclSpec.wf (fst p) /\ obj_ty (fst p) /\ base_of (fst p) = (b, c, v)) ts ->
  ev (fun f => parse_decls (length ts) f
                 (base_toks3 b c v ++ join_comma (map (fun p => D (fst p) [mkTk T_NAME (snd p)] false) ts)
                  ++ ktok SEMI :: rest))
     (DOk (map (fun p => (snd p, fst p)) ts, rest)).
Proof. exact decls_roundtrip. Qed.

(* A function declaration `R-declarator( name ( parameters ) )`: the reported
   return type, name, parameter list (types and names in order) and vararg
   flag are those written, for every legal function type (any nesting of the
   return type and of the parameter types); the tokens after the ')' are left. *)
Theorem function_declaration_decodes_partial : forall rt ps va n rest,
  DeclSpec.wf (TFn rt ps va) -> nolb rest = true ->
  ev (fun f => fn_decl f (decl_toks (TFn rt ps va) (Some n) ++ rest)) (DOk (n, rt, ps, va, rest)).
Proof. exact fn_roundtrip. Qed.

(* An enumerator list `{ A, B = expr, C }` (a trailing ',' allowed): every
   enumerator is reported once, in order, with exactly the tokens of its value
   (any token-level expression: brackets nested, '<' '>' free), for lists of any
   length; what follows the '}' is untouched. *)
Theorem enumerators_reported_exactly_partial : forall items tc rest,
  Forall value_ok items -> (items = [] -> tc = false) ->
  enum_list (S (length items)) [] (enum_body_toks items tc ++ rest) = DOk (items, rest).
Proof. exact enumerators_roundtrip. Qed.

(* The collecting visitor: the items found in the namespace reached by [path]
   are exactly the items written directly in that namespace -- through extern
   blocks, through `namespace a::b { }` headers, across re-openings -- in source
   order; for every forest of blocks, any nesting. *)
Theorem items_land_where_written : forall body path,
  items_of (lookup path (fold_ns body)) = flat_map (written path) body.
Proof. exact items_land_where_written_lemma. Qed.

(* the code the model mirrors is the pinned one, and the token sets it tests
   the stream for are the sets the model hard-codes (regenerated on every run) *)
Theorem declarator_code_is_the_modelled_one : decl_sets_ok = true.
Proof. exact decl_sets_ok_true. Qed.

Print Assumptions declarator_code_is_the_modelled_one.
Print Assumptions one_entry_per_declarator_partial.
Print Assumptions function_declaration_decodes_partial.
Print Assumptions enumerators_reported_exactly_partial.
Print Assumptions items_land_where_written.

(* non-vacuity *)
Example c01_decls_run :
  parse_decls 2 40
    (base_toks3 5 true false ++
     join_comma [D (TPtr (TBase 5 true false) false false) [mkTk T_NAME 1] false;
                 D (TArr (TBase 5 true false) [mkTk 3 9]) [mkTk T_NAME 2] false] ++ [ktok SEMI])
  = DOk ([(1, TPtr (TBase 5 true false) false false); (2, TArr (TBase 5 true false) [mkTk 3 9])], []).
Proof. vm_compute. reflexivity. Qed.

Example c01_place_run :
  items_of (lookup [7; 8] (fold_ns [ENs [7] [EItem 1 1; ENs [8] [EItem 1 2]]; EItem 2 3;
                                    ENs [7; 8] [EExtern [EItem 1 4]; EClass 9 [EItem 1 5]]]))
  = [(1, 2); (1, 4)].
Proof. vm_compute. reflexivity. Qed.

Example c01_enum_run :
  enum_list 3 [] (enum_body_toks [(1, None); (2, Some [mkTk 3 7; mkTk LP 0; mkTk 3 8; mkTk RP 0])] true ++ [ktok SEMI])
  = DOk ([(1, None); (2, Some [mkTk 3 7; mkTk LP 0; mkTk 3 8; mkTk RP 0])], [ktok SEMI]).
Proof. vm_compute. reflexivity. Qed.

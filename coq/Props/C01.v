(* C01 -- Namespace-scope declarations are extracted faithfully.  PARTIAL:
   two parts of the statement are proved for inputs of any size; the rest of
   the parser's dispatch is decided by the AST-first search (see DESIGN.md). *)
From Coq Require Import NArith List Bool.
Import ListNotations.
From CXV Require Import Gen.TokTy Parse.Balanced Parse.BalancedThms Parse.Declarator Parse.DeclSpec Parse.DeclThms.
From CXV Require Import Parse.Fold Parse.FoldThms Parse.FoldPlace.
Open Scope N_scope.

(* `T d1, d2, ..., dn;` -- one entry per declarator, in source order, each with
   its own name and its own type built on the shared base type T (b, c, v);
   nothing missing, nothing extra, the rest of the input untouched.  The
   declarators are arbitrary legal type trees (any nesting depth). *)
Theorem one_entry_per_declarator_partial : forall b c v (ts : list (ty * N)) rest,
  ts <> [] ->
  Forall (fun p => DeclSpec.wf (fst p) /\ obj_ty (fst p) /\ base_of (fst p) = (b, c, v)) ts ->
  ev (fun f => parse_decls (length ts) f
                 (base_toks3 b c v ++ join_comma (map (fun p => D (fst p) [mkTk T_NAME (snd p)] false) ts)
                  ++ ktok SEMI :: rest))
     (DOk (map (fun p => (snd p, fst p)) ts, rest)).
Proof. exact decls_roundtrip. Qed.

(* The collecting visitor: the items found in the namespace reached by [path]
   are exactly the items written directly in that namespace -- through extern
   blocks, through `namespace a::b { }` headers, across re-openings -- in source
   order; for every forest of blocks, any nesting. *)
Theorem items_land_where_written : forall body path,
  items_of (lookup path (fold_ns body)) = flat_map (written path) body.
Proof. exact items_land_where_written_lemma. Qed.

Print Assumptions one_entry_per_declarator_partial.
Print Assumptions items_land_where_written.

(* non-vacuity *)
Example c01_decls_run :
  parse_decls 2 40
    (base_toks3 5 true false ++
     join_comma [D (TPtr (TBase 5 true false) false false) [mkTk T_NAME 1] false;
                 D (TArr (TBase 5 true false) [mkTk 3 9]) [mkTk T_NAME 2] false] ++ [ktok SEMI])
  = DOk ([(1, TPtr (TBase 5 true false) false false); (2, TArr (TBase 5 true false) [mkTk 3 9])], []).
Proof. vm_compute. reflexivity. Qed.

Example c01_place_run :
  items_of (lookup [7; 8] (fold_ns [ENs [7] [EItem 1 1; ENs [8] [EItem 1 2]]; EItem 2 3;
                                    ENs [7; 8] [EExtern [EItem 1 4]; EClass 9 [EItem 1 5]]]))
  = [(1, 2); (1, 4)].
Proof. vm_compute. reflexivity. Qed.

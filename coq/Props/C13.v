(* C13 -- Skipped regions are skipped exactly.
   Only statements, each closed by [exact] of a lemma proved elsewhere,
   followed by Print Assumptions. Models: Parse/Balanced.v (hand-written
   mirror of _discard_contents / _consume_balanced_tokens, tables generated
   from the live CxxParser class), tied to the code by the differential run
   of harness/props/c13.py. *)
From Coq Require Import NArith List.
Import ListNotations.
From CXV Require Gen.TokTy Parse.Declarator Parse.BalancedThms Parse.DispatchLang Gen.Dispatch Parse.DispatchStaticAssertThms Parse.DispatchAttrThms.
From CXV Require Import Gen.TokTy Gen.ParserTables Parse.Balanced Parse.BalancedThms.
Open Scope N_scope.

Section C13.
  Variable T : Type.
  Variable ty : T -> N.

  (* function/method/ctor bodies, ctor-initializer arguments, static_assert:
     _discard_contents resumes exactly after the matching closer, whatever
     the soup contains, as long as the two counted bracket types nest *)
  Theorem discard_exact :
    forall (s e : N) (soup : list T) (b : T) (rest : list T),
      s <> e -> bal T ty s e soup -> ty b = e ->
      discard ty s e 1 (soup ++ b :: rest) = Ok rest.
  Proof. exact (BalancedThms.discard_exact T ty). Qed.

  (* attribute arguments ([[ ]], __attribute__, __declspec, alignas):
     _consume_balanced_tokens started after a strict opener returns exactly
     the group, for every strict-nested soup ('<' and '>' free) *)
  Theorem consume_balanced_exact :
    forall (a b : T) (c : N) (soup rest : list T),
      assocN (ty a) balanced_token_map = Some c -> c <> GT -> ty b = c ->
      SN T ty soup ->
      consume_balanced ty [a] (soup ++ b :: rest) = Ok (a :: soup ++ [b], rest).
  Proof. exact (BalancedThms.consume_balanced_exact T ty). Qed.

  (* the continuation handed back to the caller does not depend on the soup *)
  Theorem region_independence :
    forall (a b : T) (c : N) (soup1 soup2 rest : list T),
      assocN (ty a) balanced_token_map = Some c -> c <> GT -> ty b = c ->
      SN T ty soup1 -> SN T ty soup2 ->
      option_map snd (match consume_balanced ty [a] (soup1 ++ b :: rest) with Ok x => Some x | _ => None end)
      = option_map snd (match consume_balanced ty [a] (soup2 ++ b :: rest) with Ok x => Some x | _ => None end).
  Proof. exact (BalancedThms.region_independence T ty). Qed.

  (* nothing outside the region is ever consumed or invented *)
  Theorem consume_contiguous :
    forall (toks : list T) (stack : list N) (acc c r : list T),
      consume ty stack acc toks = Ok (c, r) -> rev acc ++ toks = c ++ r.
  Proof. exact (BalancedThms.consume_contiguous T ty). Qed.
End C13.

Print Assumptions discard_exact.
Print Assumptions consume_balanced_exact.
Print Assumptions region_independence.
Print Assumptions consume_contiguous.

(* static_assert, on the handler as translated from the code that exists now (Gen/Dispatch.v, _consume_static_assert):
   exactly the parenthesized group is consumed, whatever it contains (any soup in which parentheses nest), and parsing
   resumes at the token behind the matching ')' *)
Theorem static_assert_is_skipped_exactly : forall kw lp soup rp R ic,
  Declarator.kty lp = T_LIT_40 -> Declarator.kty rp = T_LIT_41 -> BalancedThms.bal Declarator.tk Declarator.kty T_LIT_40 T_LIT_41 soup ->
  DispatchLang.run Dispatch.prog_consume_static_assert ic kw (lp :: soup ++ rp :: R) = DispatchLang.ODone R.
Proof. exact DispatchStaticAssertThms.static_assert_skipped_exactly. Qed.
Print Assumptions static_assert_is_skipped_exactly.

(* vendor attributes, on the consumers as translated from the code that exists now: `__attribute__ (( soup ))` and
   `__declspec ( soup )` consume exactly their parenthesized group for every strict-nested soup, and the dispatcher hands
   every attribute introducer to its own consumer without consuming anything *)
Theorem gcc_attribute_is_skipped_exactly : forall kw a1 a2 b1 b2 soup R ic,
  Declarator.kty a1 = T_LIT_40 -> Declarator.kty a2 = T_LIT_40 -> Declarator.kty b1 = T_LIT_41 -> Declarator.kty b2 = T_LIT_41 ->
  BalancedThms.SN Declarator.tk Declarator.kty soup ->
  DispatchLang.run Dispatch.prog_consume_gcc_attribute ic kw (a1 :: a2 :: soup ++ b1 :: b2 :: R) = DispatchLang.ODone R.
Proof. exact DispatchAttrThms.gcc_attribute_skipped_exactly. Qed.
Theorem declspec_is_skipped_exactly : forall kw a b soup R ic,
  Declarator.kty a = T_LIT_40 -> Declarator.kty b = T_LIT_41 -> BalancedThms.SN Declarator.tk Declarator.kty soup ->
  DispatchLang.run Dispatch.prog_consume_declspec ic kw (a :: soup ++ b :: R) = DispatchLang.ODone R.
Proof. exact DispatchAttrThms.declspec_skipped_exactly. Qed.
Print Assumptions gcc_attribute_is_skipped_exactly.
Print Assumptions declspec_is_skipped_exactly.

(* non-vacuity: a concrete soup "( a < ( b > c ) [ ] )" meets the premises *)
Example c13_nonvacuous :
  consume_balanced (fun x : N => x) [T_LIT_40]
    [T_NAME; T_LIT_60; T_LIT_40; T_NAME; T_LIT_62; T_NAME; T_LIT_41; T_LIT_91; T_LIT_93; T_LIT_41; T_LIT_59]
  = Ok ([T_LIT_40; T_NAME; T_LIT_60; T_LIT_40; T_NAME; T_LIT_62; T_NAME; T_LIT_41; T_LIT_91; T_LIT_93; T_LIT_41], [T_LIT_59]).
Proof. vm_compute. reflexivity. Qed.

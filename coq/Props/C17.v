(* C17 -- Formatted types parse back to the same type. *)
From Coq Require Import NArith List Bool.
Import ListNotations.
From CXV Require Import Gen.TokTy Parse.Balanced Parse.BalancedThms Parse.Declarator Parse.DeclSpec Parse.DeclThms Parse.DeclPins.
Open Scope N_scope.

(* D / decl_toks / params_toks are the token-level mirror of types.py
   _format_declarator, format_decl(name), the format() of an argument object and the argument
   list of FunctionType (checked against the real formatters on every run:
   lexing the formatted string gives these tokens). *)

(* format_decl(name) parses back to the same name and an equal type *)
Theorem format_decl_parses_back : forall t n rest,
  wf t -> obj_ty t -> follow_ok rest = true ->
  ev (fun f => parse_var f (decl_toks t (Some n) ++ rest)) (DOk (n, t, rest)).
Proof. exact var_roundtrip. Qed.

(* format() -- the type-id, no name -- and the format() of an argument object parse back in
   parameter position *)
Theorem format_parses_back_as_parameter : forall t nm rest,
  wf t -> kind_of t <> KFn -> follow_ok rest = true ->
  ev (fun f => param f (decl_toks t nm ++ rest)) (DOk ((t, nm), rest)).
Proof. exact param_roundtrip. Qed.

(* the formatted parameter list of a function type parses back *)
Theorem format_parameters_parse_back : forall ps va rest,
  Forall (fun p => wf (fst p) /\ obj_ty (fst p)) ps ->
  ev (fun f => params f (params_toks ps va ++ ktok RP :: rest)) (DOk (ps, va, rest)).
Proof. exact params_roundtrip. Qed.

(* the formatter's parenthesisation rule, stated on its own: the text built
   around [core] for the type t is the reading-order text of t's layers *)
Theorem formatter_is_inside_out : forall t outer core,
  D t (P outer core) (starts_pfx outer) = P (layers t ++ outer) core.
Proof. exact DP_eq. Qed.

(* format() parses back in alias position (function types excepted: known finding F26b) *)
Theorem format_parses_back_as_alias : forall t rest,
  wf t -> kind_of t <> KFn -> follow_ok rest = true ->
  ev (fun f => alias_type f (decl_toks t None ++ rest)) (DOk (t, rest)).
Proof. exact alias_roundtrip. Qed.

(* the code the model mirrors is the pinned one, and the token sets it tests
   the stream for are the sets the model hard-codes (regenerated on every run) *)
Theorem parser_side_is_the_modelled_one : decl_sets_ok = true.
Proof. exact decl_sets_ok_true. Qed.

Print Assumptions format_parses_back_as_alias.
Print Assumptions parser_side_is_the_modelled_one.
Print Assumptions format_decl_parses_back.
Print Assumptions format_parses_back_as_parameter.
Print Assumptions format_parameters_parse_back.
Print Assumptions formatter_is_inside_out.

Example c17_nonvacuous :
  parse_var 40 (decl_toks ex_ty (Some 1) ++ [ktok SEMI]) = DOk (1, ex_ty, [ktok SEMI]).
Proof. exact ex_runs. Qed.

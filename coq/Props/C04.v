(* C04 -- The visitor callback stream is a well-formed, complete traversal. *)
From Coq Require Import NArith List.
Import ListNotations.
From CXV Require Import Gen.Blocks Parse.BlocksSM Parse.BlocksSpec Parse.BlocksThms.
From CXV Require Import Gen.VisitorTable Parse.VisitorThms.
Open Scope N_scope.

(* on_parse_start first and once; start/end properly nested; each end matches
   the most recent open start (id and kind); each start's parent is the
   innermost open block; every other callback carries the innermost open
   block's state; and the blocks still open in the stream are exactly the
   blocks still open in the source (every closed block was ended) *)
Theorem stream_wellformed :
  forall evs : list ev,
    st (run noskip evs) = Running ->
    exists tail, stream (run noskip evs) = CbParseStart 0 :: tail /\
      wf [(0, KNs)] tail = Some (map fk (cur (run noskip evs))).
Proof. exact stream_wellformed_run. Qed.

Print Assumptions stream_wellformed.

(* "the result of the simple API is exactly the fold of this stream: each payload stored once, in order, in the scope of its
   state" -- on the collecting visitor as translated from simple.py (Gen/VisitorTable.v, regenerated on every run): every
   payload-carrying callback of the protocol is implemented as exactly ONE append of its payload to a list of the scope of its
   state (file-level: of the parsed data), every callback of the protocol has such a row, and no two callbacks share a list *)
Theorem every_payload_is_appended_once_to_the_scope_of_its_state : all_translated = true.
Proof. exact all_translated_true. Qed.
Theorem collecting_visitor_covers_the_protocol : covers_protocol = true.
Proof. exact covers_protocol_true. Qed.
Theorem no_two_callbacks_share_a_list : item_fields_distinct = true.
Proof. exact item_fields_distinct_true. Qed.
Print Assumptions every_payload_is_appended_once_to_the_scope_of_its_state.
Print Assumptions collecting_visitor_covers_the_protocol.
Print Assumptions no_two_callbacks_share_a_list.

Example c04_nonvacuous :
  st (run noskip [EvOpen KNs 0; EvOpen KClass 1; EvItem 16; EvClose; EvItem 1; EvClose]) = Running.
Proof. vm_compute. reflexivity. Qed.

(* C04 -- The visitor callback stream is a well-formed, complete traversal. *)
From Coq Require Import NArith List.
Import ListNotations.
From CXV Require Import Gen.Blocks Parse.BlocksSM Parse.BlocksSpec Parse.BlocksThms.
Open Scope N_scope.

(* on_parse_start first and once; start/end properly nested; each end matches
   the most recent open start (id and kind); each start's parent is the
   innermost open block; every other callback carries the innermost open
   block's state; and the blocks still open in the stream are exactly the
   blocks still open in the source (every closed block was ended) *)
Theorem stream_wellformed :
  forall evs : list ev,
    st (run noskip evs) = Running ->
    exists tail, stream (run noskip evs) = CbParseStart 0 :: tail /\
      wf [(0, KNs)] tail = Some (map fk (cur (run noskip evs))).
Proof. exact stream_wellformed_run. Qed.

Print Assumptions stream_wellformed.

Example c04_nonvacuous :
  st (run noskip [EvOpen KNs 0; EvOpen KClass 1; EvItem 16; EvClose; EvItem 1; EvClose]) = Running.
Proof. vm_compute. reflexivity. Qed.

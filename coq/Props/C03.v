(* C03 -- Class bodies: member kinds, access levels and special members.
   Proved part: the access level attached to a member (access_in_force) and
   one-callback-per-member of the block skeleton; the remaining clauses
   (ctor/dtor recognition, method qualifiers, bases, anonymous ids) rest on
   the search of harness/props/c03.py. *)
From Coq Require Import NArith List.
Import ListNotations.
From CXV Require Import Gen.Blocks Parse.BlocksSM Parse.BlocksSpec Parse.BlocksThms.
Open Scope N_scope.

(* the access delivered with a member equals the backward-scan specification
   [bs]: class-key default until the first specifier of the same class body,
   then the most recent specifier of that body; nested classes before or
   around the member do not matter.  Any prefix, any nesting depth. *)
Theorem access_in_force_partial :
  forall (skip : N -> bool) (p : list ev) (c id acc : N),
    sst (sfinal skip sinit p) = Running ->
    svis (sfinal skip sinit p) = true ->
    sem skip (sfinal skip sinit p) [EvItem c] = [CbItem c id acc] ->
    acc = bs 0 (rev p).
Proof. exact access_in_force_sem. Qed.

Print Assumptions access_in_force_partial.

Example c03_nonvacuous :
  sem noskip (sfinal noskip sinit [EvOpen KClass 1; EvAccess 2; EvOpen KClass 2; EvAccess 3; EvClose]) [EvItem 16]
  = [CbItem 16 1 2] /\ bs 0 (rev [EvOpen KClass 1; EvAccess 2; EvOpen KClass 2; EvAccess 3; EvClose]) = 2.
Proof. vm_compute. split; reflexivity. Qed.

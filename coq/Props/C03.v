(* C03 -- Class bodies: member kinds, access levels and special members.
   Proved part: the access level attached to a member (access_in_force) and
   one-callback-per-member of the block skeleton; the remaining clauses
   (ctor/dtor recognition, method qualifiers, bases, anonymous ids) rest on
   the search of harness/props/c03.py. *)
From Coq Require Import NArith List Bool.
Import ListNotations.
From CXV Require Import Gen.Blocks Parse.BlocksSM Parse.BlocksSpec Parse.BlocksThms.
From CXV Require Gen.PinsC03.
From CXV Require Import Gen.ParserTables Parse.Balanced Parse.BalancedThms Parse.Specs Parse.ClassEnum Parse.CtorDtor.
From CXV Require Import Gen.TokTy Parse.Declarator Parse.DeclSpec Parse.DeclThms Parse.BaseClause Parse.EnumList Parse.Specs Parse.Init Parse.Members Parse.MethodTail Parse.DeclStmt Parse.MemberStmt Parse.OpName Parse.FinishClass Parse.ConvOp Parse.OperatorMember Parse.FriendStmt Gen.TopLoop Parse.Bodies Parse.ClassDef Parse.ClassDefThms Parse.ClassDefElems Parse.PQName Parse.Using Parse.EnumDecl Parse.Template Parse.TemplateStmt.
Open Scope N_scope.

(* the access delivered with a member equals the backward-scan specification
   [bs]: class-key default until the first specifier of the same class body,
   then the most recent specifier of that body; nested classes before or
   around the member do not matter.  Any prefix, any nesting depth. *)
Theorem access_in_force_partial :
  forall (skip : N -> bool) (p : list BlocksSM.ev) (c id acc : N),
    sst (sfinal skip sinit p) = Running ->
    svis (sfinal skip sinit p) = true ->
    sem skip (sfinal skip sinit p) [EvItem c] = [CbItem c id acc] ->
    acc = bs 0 (rev p).
Proof. exact access_in_force_sem. Qed.

(* base clauses (bases named by an identifier): every base is reported once,
   in order, with its virtual and pack flags; a base written without an access
   keyword has the class-key default whatever the bases before it said, a base
   written with one has that one; `virtual` may stand before or after the
   access keyword.  Lists of any length. *)
Theorem base_clause_decodes_partial : forall default ws rest,
  forallb access_ok ws = true -> ws <> [] -> after_bases_ok rest = true ->
  bases (length ws) default [] (join_comma (map wbase_toks ws) ++ rest) = DOk (map (resolve default) ws, rest).
Proof. exact base_clause_roundtrip. Qed.

(* field statements in a class body: the flags of the specifiers written
   (mutable, static, constexpr, inline; a field cannot be extern), one entry per
   declarator with its own type on the shared base type, its bit-field width
   and its initialiser (`= expr` or a brace group) exactly as written *)
Theorem field_statement_decodes_partial : forall pre post b items rest,
  forallb spec_kw pre = true -> forallb spec_kw post = true ->
  has T_extern (pre ++ post) = false ->
  items <> [] -> Forall (mitem_ok true false) items ->
  let m := apply_kws (pre ++ post) mods0 in
  DeclThms.ev (fun f => field_stmt (length items) f
                 (kw_toks pre ++ nm_tok b :: kw_toks post ++ join_comma (map mitem_toks items) ++ ktok SEMI :: rest))
     (DOk (m, map (mitem_out (TBase b (m_const m) (m_volatile m))) items, rest)).
Proof. exact field_stmt_roundtrip. Qed.

(* what follows a method's parameter list: the qualifiers written -- const,
   volatile, override, final, & / &&, throw(...), noexcept[(...)] -- in any order
   and number are the flags reported (a later throw / noexcept replaces an
   earlier one), then exactly one of: nothing, `= 0` (pure virtual), `= delete`,
   `= default`, a body (skipped whatever it holds), or a constructor
   initialiser list followed by a body (both skipped); parsing resumes right
   after.  Any number of qualifiers and initialisers. *)
Theorem method_tail_decodes_partial : forall items e rest,
  Forall mq_ok items -> mend_ok e rest ->
  parse_method_end (flat_map mq_toks items ++ mend_toks e ++ rest)
  = DOk (apply_end e (fold_left (fun q i => apply_mq i q) items mt0), rest).
Proof. exact parse_method_end_roundtrip. Qed.

(* the class head after the name: `final` / `explicit` in any order and number,
   an optional base clause as above, then the brace that opens the body *)
Theorem class_head_decodes_partial : forall default vs ws rest,
  forallb access_ok ws = true -> (match vs with f :: _ => f = true | [] => True end) ->
  class_head default (vs_toks vs ++ (match ws with [] => [] | _ => ktok T_LIT_58 :: join_comma (map wbase_toks ws) end) ++ ktok T_LIT_123 :: rest)
  = DOk (existsb (fun f => f) vs, existsb negb vs, map (resolve default) ws, rest).
Proof. exact class_head_roundtrip. Qed.

(* What follows an elaborated type (`struct S`, `enum class E`, ...) decides the
   kind of the member or declaration: ';' makes it a forward declaration (or,
   behind `friend`, a friend declaration -- plain `enum` included); one of
   ':' 'final' 'explicit' '{' starts a class or enum definition; anything else
   leaves the stream untouched for the variable / function parser.  The rules
   that reject: `enum E;`, a template header on an enum, `typedef struct S;`,
   `friend struct S { ... }`, and specifiers where they are not allowed. *)
Theorem forward_declaration_recognised : forall key m template rest,
  key <> [] -> validate false false m = true ->
  key_plain_enum key = false -> (template = true -> key_is_enum key = false) ->
  class_enum key m template false false (ktok SEMI :: rest) = DOk (CEForward, rest).
Proof. exact forward_decl_recognised. Qed.

Theorem friend_type_declaration_recognised : forall key m rest,
  key <> [] -> validate false false m = true ->
  class_enum key m false false true (ktok SEMI :: rest) = DOk (CEFriend, rest).
Proof. exact friend_type_recognised. Qed.

Theorem forward_declaration_rules : forall key m template is_typedef is_friend rest,
  (is_typedef = true \/ validate false false m = false \/ key = [] \/ (key_plain_enum key = true /\ is_friend = false)
   \/ (template = true /\ key_is_enum key = true)) ->
  exists e, class_enum key m template is_typedef is_friend (ktok SEMI :: rest) = DErr e.
Proof. exact forward_decl_rules. Qed.

Theorem definition_dispatched_by_class_key : forall key m template is_typedef s rest,
  is SEMI s = false -> memN (kty s) class_enum_stage2 = true ->
  validate (negb is_typedef) false m = true ->
  class_enum key m template is_typedef false (s :: rest) =
    if key_is_class key then DOk (CEClass s, rest) else if template then DErr 1 else DOk (CEEnum s, rest).
Proof. exact definition_dispatch. Qed.

Theorem definition_rules_enforced : forall key m template is_typedef is_friend s rest,
  is SEMI s = false -> memN (kty s) class_enum_stage2 = true ->
  (is_friend = true \/ validate (negb is_typedef) false m = false) ->
  exists e, class_enum key m template is_typedef is_friend (s :: rest) = DErr e.
Proof. exact definition_rules. Qed.

Theorem other_declarations_untouched : forall key m template is_typedef is_friend s rest,
  is SEMI s = false -> memN (kty s) class_enum_stage2 = false ->
  class_enum key m template is_typedef is_friend (s :: rest) = DOk (CENone, s :: rest).
Proof. exact otherwise_untouched. Qed.

(* Constructors and destructors are recognised by comparing the last segment
   of the name in front of the '(' with the name of the class it belongs to:
   inside class C, `C(` is a constructor and `~C(` a destructor whatever
   qualifies the name, and every other name is an ordinary member; outside a
   class `A::B::B(` / `A::B::~B(` are the definitions and an unqualified name
   never is; a friend declaration is compared with the befriended class; a
   decorated type (pointer, reference) in front of the '(' never is one. *)
Theorem constructor_in_class : forall c pre, c <> 0 -> ctor_dtor true false true (named c) (pre ++ [named c]) = CDCtor.
Proof. exact member_ctor. Qed.
Theorem destructor_in_class : forall c pre, c <> 0 -> ctor_dtor true false true (named c) (pre ++ [tilded c]) = CDDtor.
Proof. exact member_dtor. Qed.
Theorem other_member_is_neither : forall c pre (t : bool) r, (t, r) <> (false, c) -> (t = true -> r <> c) ->
  ctor_dtor true false true (named c) (pre ++ [Some (t, r)]) = CDNone.
Proof. exact member_other. Qed.
Theorem constructor_out_of_class : forall c pre, c <> 0 -> ctor_dtor false false true None (pre ++ [named c; named c]) = CDCtor.
Proof. exact out_of_class_ctor. Qed.
Theorem destructor_out_of_class : forall c pre, c <> 0 -> ctor_dtor false false true None (pre ++ [named c; tilded c]) = CDDtor.
Proof. exact out_of_class_dtor. Qed.
Theorem unqualified_name_outside_class_is_neither : forall x cls is_friend, ctor_dtor false is_friend true cls [x] = CDNone.
Proof. exact unqualified_outside_class. Qed.
Theorem decorated_type_is_neither : forall in_class is_friend cls dsegs, ctor_dtor in_class is_friend false cls dsegs = CDNone.
Proof. exact decorated_type_never. Qed.
Theorem friend_constructor_compares_with_befriended_class : forall h c pre, c <> 0 ->
  ctor_dtor true true true (named h) (pre ++ [named c; named c]) = CDCtor.
Proof. exact friend_ctor. Qed.

(* How one member declaration statement is put together inside a class body
   (_parse_declarations / _parse_decl / _parse_function / _parse_field):
   `spec* T spec* m1, m2, ..., mn <end>` where every m is a field declarator (any legal
   object type, optional bit-field width, optional initialiser) or a method declarator
   (any legal return type, any parameter list of the declarator grammar, qualifiers
   const / volatile / & / && / override / final / throw / noexcept in any order), in any
   mixture and order, and <end> is ';' or, behind a last method, `= 0 ;`, `= delete ;`,
   `= default ;` or a body: exactly one member per declarator, in source order, each of
   its own kind (a parameter list behind the name makes a method, anything else a
   field), with the specifier flags and base type of the statement, its own bits /
   value / qualifier set, the body skipped exactly, the rest of the class untouched. *)
Theorem member_statement_decodes_partial : forall cls dcls pre post b items last e rest,
  forallb spec_kw pre = true -> forallb spec_kw post = true -> has T_extern (pre ++ post) = false ->
  Forall mditem_ok items -> mditem_ok last -> mlast_ok last e ->
  let m := apply_kws (pre ++ post) mods0 in
  let bt := TBase b (m_const m) (m_volatile m) in
  ev (fun f => member_stmt (S (length items)) f cls dcls
                 (kw_toks pre ++ nm_tok b :: kw_toks post ++ mitems_toks items last e ++ rest))
     (DOk (m, map (mditem_entry bt) items ++ [mlast_entry bt last e], rest)).
Proof. exact member_stmt_roundtrip. Qed.

(* Constructors and destructors as whole statements: in class C, `spec* C ( params ) quals end`
   is one method flagged constructor and `spec* ~C ( params ) quals end` one flagged destructor,
   both without return type, with exactly the parameters written, the qualifier set written and
   the ending written (';', `= delete`, `= default`, `= 0`, a body, or -- constructors -- a member
   initialiser list with its body, skipped exactly). *)
Theorem special_member_statement_decodes_partial : forall cls dcls pre nm ps va quals e rest (ctor : bool),
  forallb spec_kw pre = true -> has T_extern pre = false ->
  cls <> 0 -> dcls <> 0 -> dcls <> cls -> nm = (if ctor then cls else dcls) ->
  layer_ok (LFn ps va) -> Forall mq_ok quals ->
  (match e with MeBody soup => bal tk kty T_LIT_123 T_LIT_125 soup | MeCtor _ _ => mend_ok e rest | _ => True end) ->
  ev (fun f => member_stmt 1 f cls dcls (kw_toks pre ++ special_toks nm ps va quals e ++ rest))
     (DOk (apply_kws pre mods0, [MMethod nm None ps va ctor (negb ctor) (apply_end e (quals_of quals))], rest)).
Proof. exact special_member_roundtrip. Qed.

(* Overloaded operator names (_parse_pqname_name_operator): `operator ( )` is the call operator and
   nothing more belongs to its name, whatever follows (a parameter list, template arguments of an
   explicit specialization, the ';' of a using-declaration); every other operator's name is exactly
   the tokens up to the parameter list or the ';' *)
Theorem call_operator_is_two_tokens : forall lp rp R,
  is LP lp = true -> is RP rp = true -> op_name (lp :: rp :: R) = DOk ([lp; rp], R).
Proof. exact call_operator_name. Qed.

Theorem operator_name_is_its_tokens : forall t parts s R,
  is LP t = false -> forallb (fun x => negb (op_stop x)) parts = true -> op_stop s = true ->
  op_name (t :: parts ++ s :: R) = DOk (t :: parts, s :: R).
Proof. exact operator_name_exact. Qed.

(* What follows the closing brace of a class / enum definition (_finish_class_or_enum):
   `};` declares nothing -- except that an anonymous struct / union that is a member becomes one
   implicit unnamed field; `} d1, ..., dn ;` (trailing declarators), `typedef struct {...} d1, ..., dn;`
   and the same inside a class body yield one entry per declarator, in order, of its own kind, and
   EVERY one of them is built on the one type of the definition -- its name or the anonymous id
   it was given, with the const / volatile written in front of the class key: an anonymous type
   shares its id with every declarator that uses it, and with nothing else the statement reports. *)
Theorem trailing_declarators_decode_partial : forall bn c v anon su m cls dcls items last le rest,
  m_mutable m = false ->
  Forall ditem_ok items -> ditem_ok last -> last_ok last le ->
  ev (fun f => finish_class (S (length items)) f false false anon su m cls dcls bn c v (items_toks items last le ++ rest))
     (DOk (FinDecls (map (ditem_entry (TBase bn c v)) items ++ [last_entry (TBase bn c v) last le]), rest)).
Proof. exact finish_declarators. Qed.

Theorem typedef_of_class_declarators_decode_partial : forall bn c v anon su m cls dcls items last rest,
  m_mutable m = false ->
  Forall td_item_ok items -> td_item_ok last ->
  ev (fun f => finish_class (S (length items)) f false true anon su m cls dcls bn c v (items_toks items last LSemi ++ rest))
     (DOk (FinDecls (map (ditem_entry (TBase bn c v)) items ++ [ditem_entry (TBase bn c v) last]), rest)).
Proof. exact finish_typedef_declarators. Qed.

Theorem trailing_member_declarators_decode_partial : forall bn c v anon su m cls dcls items last e rest,
  m_extern m = false ->
  Forall mditem_ok items -> mditem_ok last -> mlast_ok last e ->
  ev (fun f => finish_class (S (length items)) f true false anon su m cls dcls bn c v (mitems_toks items last e ++ rest))
     (DOk (FinMembers (map (mditem_entry (TBase bn c v)) items ++ [mlast_entry (TBase bn c v) last e]), rest)).
Proof. exact finish_member_declarators. Qed.

Theorem definition_closed_by_semicolon : forall n f in_class anon su m cls dcls bn c v semi rest,
  is SEMI semi = true ->
  finish_class n f in_class false anon su m cls dcls bn c v (semi :: rest)
  = DOk (if in_class && anon && su then FinImplicitField else FinNone, rest).
Proof. exact finish_semicolon. Qed.

Theorem anonymous_id_shared_by_its_declarators : forall bn c v items last le,
  Forall (fun e => base_of (entry_type e) = (bn, c, v))
         (map (ditem_entry (TBase bn c v)) items ++ [last_entry (TBase bn c v) last le]).
Proof. exact finish_declarators_share_the_type. Qed.

(* Conversion operators in a class body: `spec* operator cv* T cv* <pointer / reference operators> ( params ) quals <end>`
   is one method named `operator` whose return type is the conversion type (any pointer / reference nest over the named
   type), with the specifier flags written in front of `operator` (explicit, constexpr, virtual, inline ...), the
   qualifier set written behind the parameter list, and the ending written (';', `= 0` / `= delete` / `= default`, a body) *)
Theorem conversion_operator_decodes_partial : forall pre cpre cpost b ls ps va quals e rest,
  forallb spec_kw pre = true -> has T_extern pre = false ->
  forallb (fun k => (k =? T_const) || (k =? T_volatile)) (cpre ++ cpost) = true ->
  all_pfx ls = true -> legalL KB ls = true ->
  layer_ok (LFn ps va) -> Forall mq_ok quals ->
  (match e with MeBody soup => bal tk kty T_LIT_123 T_LIT_125 soup | MeCtor _ _ => False | _ => True end) ->
  let cm := apply_kws (cpre ++ cpost) mods0 in
  let t := wrap (TBase b (m_const cm) (m_volatile cm)) ls in
  ev (fun f => conv_stmt f (kw_toks pre ++ ktok T_operator :: kw_toks cpre ++ nm_tok b :: kw_toks cpost ++ P ls [] ++
                            ktok LP :: params_toks ps va ++ ktok RP :: flat_map mq_toks quals ++ mlast_toks e ++ rest))
     (DOk (mkConv (apply_kws pre mods0) t ps va (apply_end e (quals_of quals)), rest)).
Proof. exact conv_stmt_roundtrip. Qed.

(* Overloaded operators as members: `spec* T spec* <pointer / reference operators> operator <op> ( params ) quals <end>` is one
   method whose operator is exactly the tokens written behind `operator` (`( )` for the call operator), with the return
   type, parameters, specifier flags, qualifier set and ending written *)
Theorem operator_member_decodes_partial : forall pre post b ls o ps va quals e rest,
  forallb spec_kw pre = true -> forallb spec_kw post = true ->
  all_pfx ls = true -> legalL KB ls = true -> op_ok o ->
  layer_ok (LFn ps va) -> Forall mq_ok quals ->
  (match e with MeBody soup => bal tk kty T_LIT_123 T_LIT_125 soup | MeCtor _ _ => False | _ => True end) ->
  let m := apply_kws (pre ++ post) mods0 in
  let t := wrap (TBase b (m_const m) (m_volatile m)) ls in
  ev (fun f => op_member_stmt f (kw_toks pre ++ nm_tok b :: kw_toks post ++ P ls [] ++ ktok T_operator :: op_toks o ++
                                 ktok LP :: params_toks ps va ++ ktok RP :: flat_map mq_toks quals ++ mlast_toks e ++ rest))
     (DOk (mkOpM m (op_toks o) t ps va (apply_end e (quals_of quals)), rest)).
Proof. exact op_member_roundtrip. Qed.

(* Friend declarations (behind `friend`, in a class body): `spec* T spec* <pointer / reference operators> name ( params ) quals <end>`
   is one friend FUNCTION with the return type, name, parameters, qualifier set and ending written; `spec* T spec* ;` is one
   friend TYPE named T *)
Theorem friend_function_decodes_partial : forall pre post b ls n ps va quals e rest,
  forallb spec_kw pre = true -> forallb spec_kw post = true ->
  all_pfx ls = true -> legalL KB ls = true ->
  layer_ok (LFn ps va) -> Forall mq_ok quals ->
  (match e with MeBody soup => bal tk kty T_LIT_123 T_LIT_125 soup | MeCtor _ _ => False | _ => True end) ->
  let m := apply_kws (pre ++ post) mods0 in
  let t := wrap (TBase b (m_const m) (m_volatile m)) ls in
  ev (fun f => friend_stmt f (kw_toks pre ++ nm_tok b :: kw_toks post ++ P ls [] ++ mkTk T_NAME n ::
                              ktok LP :: params_toks ps va ++ ktok RP :: flat_map mq_toks quals ++ mlast_toks e ++ rest))
     (DOk (FrFn m n t ps va (apply_end e (quals_of quals)), rest)).
Proof. exact friend_function_roundtrip. Qed.

Theorem friend_type_decodes_partial : forall pre post b rest,
  forallb spec_kw pre = true -> forallb spec_kw post = true ->
  ev (fun f => friend_stmt f (kw_toks pre ++ nm_tok b :: kw_toks post ++ ktok SEMI :: rest))
     (DOk (FrType (apply_kws (pre ++ post) mods0) b, rest)).
Proof. exact friend_type_roundtrip. Qed.

(* WHOLE CLASS BODIES.  The statement loop dispatches on the first token of a statement through the regenerated table of
   CxxParser.parse; behind it stand the models above.  For a body written as any sequence of access specifiers, empty
   statements and member statements (each any statement the statement theorems cover -- abstractly: tokens that start with a
   token going to _parse_declarations and that the member models decode, whatever follows), closed by '}':
   every statement is reported once, in order, with the access in force where it is written -- the default until the first
   access specifier, then the most recent one -- and nothing of a statement reaches the next. *)
Theorem class_body_members_in_order_with_access_partial : forall n cls dcls (elems : list celem) acc stop rest,
  Forall (celem_ok n cls dcls) elems -> stop_tok stop ->
  ev (fun f => class_body (S (length elems)) n f cls dcls acc (concat (map celem_toks elems) ++ stop :: rest))
     (DOk (with_access acc elems, stop :: rest)).
Proof. exact class_body_sequence. Qed.

(* ... and the statements of member_statement_decodes_partial are such statements *)
Theorem member_statements_compose : forall cls dcls pre post b items last e,
  forallb spec_kw pre = true -> forallb spec_kw post = true -> has T_extern (pre ++ post) = false ->
  Forall mditem_ok items -> mditem_ok last -> mlast_ok last e ->
  is_decl_head (hd (nm_tok b) (kw_toks pre)) ->
  let m := apply_kws (pre ++ post) mods0 in
  let bt := TBase b (m_const m) (m_volatile m) in
  celem_ok (S (length items)) cls dcls
    (CEStmt (kw_toks pre ++ nm_tok b :: kw_toks post ++ mitems_toks items last e)
            (CMembers m (map (mditem_entry bt) items ++ [mlast_entry bt last e]))).
Proof. exact member_stmt_is_elem. Qed.

(* Whole class definitions, nested to any depth, on the PARSER side (Parse/ClassDef.v: the class statement -- class key, name,
   _maybe_parse_class_enum_decl, the head of _parse_class_decl -- the body as the statement loop under the class's own default
   access, the closing brace and _finish_class_or_enum, recursively).  For a definition written as any tree of access
   specifiers, empty statements, member statements (abstractly, as above), forward declarations and nested class
   definitions (any class key, final, any base clause): the tree is read back as written; every member, forward declaration
   and nested class carries the access in force in ITS OWN class at its position -- the class-key default of that class
   until its first access specifier, then its most recent one -- whatever nested classes stand before or around it. *)
Theorem nested_classes_keep_their_own_access_partial : forall n dt (w : wclass) rest,
  welem_ok n dt anon_base anon_base (WClass w) -> (match rest with [] => True | t :: _ => stop_tok t end) ->
  ev (fun f => body (S (S (esize (WClass w)))) n f dt None 0 0 (welem_toks (WClass w) ++ rest))
     (match wclass_spec 0 w with IClass a c => DOk ([IClass a c], 0, rest) | _ => DErr 3 end).
Proof. exact class_def_tree. Qed.

(* ... and the statements of member_statement_decodes_partial are such elements, in whichever class they stand *)
Theorem member_statements_are_tree_elements : forall dt cls dcls pre post b items last e,
  forallb spec_kw pre = true -> forallb spec_kw post = true -> has T_extern (pre ++ post) = false ->
  Forall mditem_ok items -> mditem_ok last -> mlast_ok last e ->
  is_decl_head (hd (nm_tok b) (kw_toks pre)) ->
  let m := apply_kws (pre ++ post) mods0 in
  let bt := TBase b (m_const m) (m_volatile m) in
  welem_ok (S (length items)) dt cls dcls
    (WStmt (kw_toks pre ++ nm_tok b :: kw_toks post ++ mitems_toks items last e)
           (CMembers m (map (mditem_entry bt) items ++ [mlast_entry bt last e]))).
Proof. exact member_stmt_is_welem. Qed.

(* further member kinds as tree elements ([WOne]: a statement the loop reads in one step, whatever follows): using-declarations,
   alias-declarations and enum definitions written as the printed forms of the using / enum theorems of C01 are reported once,
   as that kind, with the access in force *)
Theorem using_declaration_members_are_tree_elements : forall n dt cls dcls (tn root : bool) nm q,
  (q = [] -> root = true \/ tn = true) ->
  one_step n dt cls dcls (ktok T_using :: pn2_toks (PNames tn [] root nm q) ++ [ktok T_LIT_59])
           (fun acc => IUsing acc (UDecl (pn2_out (PNames false [] root nm q)))).
Proof. exact using_declaration_is_member. Qed.

Theorem alias_members_are_tree_elements : forall n dt cls dcls a t,
  DeclSpec.wf t -> kind_of t <> KFn ->
  one_step n dt cls dcls (ktok T_using :: mkTk T_NAME a :: ktok T_LIT_61 :: decl_toks t None ++ [ktok T_LIT_59]) (fun acc => IUsing acc (UAlias a t)).
Proof. exact using_alias_is_member. Qed.

Theorem enum_members_are_tree_elements : forall n dt cls dcls key name p items tc,
  enum_key key ->
  (forall X, match p with Some p => base_ok p (ktok T_LIT_123 :: enum_body_toks items tc ++ X) | None => True end) ->
  Forall wenum_ok items -> (items = [] -> tc = false) ->
  one_step n dt cls dcls (enum_toks key name p items tc ++ [ktok T_LIT_59])
           (fun acc => IEnum acc mods0 key name false false (option_map pn2_out p) (map strip_e items) FinNone).
Proof. exact enum_definition_is_member. Qed.

Theorem opaque_enum_members_are_tree_elements : forall n dt cls dcls key name p,
  enum_key key -> (forall X, base_ok p (ktok T_LIT_59 :: X)) ->
  one_step n dt cls dcls (map ktok key ++ mkTk T_NAME name :: ktok T_LIT_58 :: pn2_toks p ++ [ktok T_LIT_59])
           (fun acc => IEnumFwd acc key name (pn2_out p)).
Proof. exact opaque_enum_is_member. Qed.

(* class templates: a template header (any parameter list of C01's template theorem) in front of a class definition tree:
   the class is reported with exactly that header, and its members as in the untemplated case *)
Theorem class_templates_decode_partial : forall n dt h (w : wclass) T,
  Forall tp_ok h -> welem_ok n dt anon_base anon_base (WClass w) -> tail_ok T ->
  ev (fun f => body (S (S (esize (WClass w)))) n f dt None 0 0 (ktok T_template :: tlist_toks h ++ welem_toks (WClass w) ++ T))
     (DOk ([ITemplate [h] (wclass_spec 0 w)], 0, T)).
Proof. exact class_template_tree. Qed.

(* the functions the hand-written models above mirror (_parse_class_decl, _parse_class_decl_base_clause, _maybe_parse_class_enum_decl, _parse_decl, _parse_method_end, _discard_ctor_initializer, _parse_field, _parse_bitfield, _parse_declarations, _parse_function, _parse_pqname_name_operator, _parse_operator_conversion and _finish_class_or_enum) are, token for
   token of their syntax trees, the ones the models were written against: the
   translator recomputes the digests from the live code and produces Gen/PinsC03.v
   only when they match *)
Theorem modelled_functions_are_the_pinned_ones : PinsC03.model_code_pinned = true.
Proof. exact (eq_refl true). Qed.

Print Assumptions nested_classes_keep_their_own_access_partial.
Print Assumptions member_statements_are_tree_elements.
Print Assumptions using_declaration_members_are_tree_elements.
Print Assumptions alias_members_are_tree_elements.
Print Assumptions enum_members_are_tree_elements.
Print Assumptions class_templates_decode_partial.
Print Assumptions opaque_enum_members_are_tree_elements.
Print Assumptions class_head_decodes_partial.
Print Assumptions method_tail_decodes_partial.
Print Assumptions field_statement_decodes_partial.
Print Assumptions access_in_force_partial.
Print Assumptions base_clause_decodes_partial.

Example c03_nonvacuous :
  sem noskip (sfinal noskip sinit [EvOpen KClass 1; EvAccess 2; EvOpen KClass 2; EvAccess 3; EvClose]) [EvItem 16]
  = [CbItem 16 1 2] /\ bs 0 (rev [EvOpen KClass 1; EvAccess 2; EvOpen KClass 2; EvAccess 3; EvClose]) = 2.
Proof. vm_compute. split; reflexivity. Qed.

Example c03_bases_run :
  bases 3 T_private []
    (join_comma (map wbase_toks [mkW (Some T_public) 1 false false false; mkW None 2 true true false; mkW (Some T_protected) 3 true false true])
     ++ [ktok T_LIT_123])
  = DOk ([mkBase T_public 1 false false; mkBase T_private 2 true false; mkBase T_protected 3 true true], [ktok T_LIT_123]).
Proof. vm_compute. reflexivity. Qed.

Example c03_mtail_run :
  parse_method_end (flat_map mq_toks [MqConst; MqNoexcept None; MqOverride] ++
                    mend_toks (MeCtor [mkCI [mkTk T_NAME 7] false [mkTk 3 9] false; mkCI [mkTk T_NAME 8] true [] true] [mkTk T_NAME 5]) ++ [ktok SEMI])
  = DOk (mkMT true false true false 0 None (Some []) false false false true, [ktok SEMI]).
Proof. vm_compute. reflexivity. Qed.
Print Assumptions forward_declaration_recognised.
Print Assumptions friend_type_declaration_recognised.
Print Assumptions forward_declaration_rules.
Print Assumptions definition_dispatched_by_class_key.
Print Assumptions definition_rules_enforced.
Print Assumptions other_declarations_untouched.
Print Assumptions constructor_in_class.
Print Assumptions destructor_in_class.
Print Assumptions other_member_is_neither.
Print Assumptions constructor_out_of_class.
Print Assumptions destructor_out_of_class.
Print Assumptions unqualified_name_outside_class_is_neither.
Print Assumptions decorated_type_is_neither.
Print Assumptions friend_constructor_compares_with_befriended_class.
Print Assumptions modelled_functions_are_the_pinned_ones.
Print Assumptions member_statement_decodes_partial.
Print Assumptions special_member_statement_decodes_partial.
Print Assumptions call_operator_is_two_tokens.
Print Assumptions operator_name_is_its_tokens.
Print Assumptions trailing_declarators_decode_partial.
Print Assumptions typedef_of_class_declarators_decode_partial.
Print Assumptions trailing_member_declarators_decode_partial.
Print Assumptions definition_closed_by_semicolon.
Print Assumptions anonymous_id_shared_by_its_declarators.
Print Assumptions conversion_operator_decodes_partial.
Print Assumptions operator_member_decodes_partial.
Print Assumptions friend_function_decodes_partial.
Print Assumptions friend_type_decodes_partial.
Print Assumptions class_body_members_in_order_with_access_partial.
Print Assumptions member_statements_compose.

(* `static Foo * f1 : 3 = 1, & m2 ( Bar a ) const noexcept = 0 ;` and `explicit Cls ( ) : a ( 1 ) { }` in class Cls (ids 5 / 6) *)
Example c03_member_stmt_run :
  member_stmt 2 60 5 6 (kw_toks [T_static] ++ nm_tok 7 :: kw_toks [] ++
                        mitems_toks [MIField [LPtr false false] 1 (Some 3) (InitEq [mkTk 3 9])]
                                    (MIMethod [LRef] [(TBase 8 false false, Some 4)] false 2 [MqConst; MqNoexcept None]) MePure ++ [ktok T_LIT_125])
  = DOk (mkMods false false false false false true false false false,
         [MField (Some 1) (TPtr (TBase 7 false false) false false) (Some 3) (Some [mkTk 3 9]);
          MMethod 2 (Some (TRef (TBase 7 false false))) [(TBase 8 false false, Some 4)] false false false
                  (mkMT true false false false 0 None (Some []) true false false false)], [ktok T_LIT_125]).
Proof. vm_compute. reflexivity. Qed.

Example c03_ctor_stmt_run :
  member_stmt 1 60 5 6 (kw_toks [T_explicit] ++ special_toks 5 [] false [] (MeCtor [mkCI [mkTk T_NAME 7] false [mkTk 3 9] false] []) ++ [ktok T_LIT_125])
  = DOk (mkMods false false false false false false true false false,
         [MMethod 5 None [] false true false (mkMT false false false false 0 None None false false false true)], [ktok T_LIT_125]).
Proof. vm_compute. reflexivity. Qed.

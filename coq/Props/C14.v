(* C14 -- Unparsed values carry exactly the source tokens of their expression. *)
From Coq Require Import NArith List.
Import ListNotations.
From CXV Require Import Gen.TokTy Gen.ParserTables Parse.Balanced Parse.BalancedThms Parse.Positions.
Open Scope N_scope.

Section C14.
  Variable T : Type.
  Variable ty : T -> N.

  (* nothing dropped, duplicated, reordered, nothing taken from the surrounding
     declaration: the value and the remaining stream split the input *)
  Theorem value_is_contiguous :
    forall (terms : list N) (toks v r : list T),
      consume_value_until ty terms toks = Ok (v, r) -> toks = v ++ r.
  Proof. exact (BalancedThms.value_is_contiguous T ty). Qed.

  (* collection stops at end of input or in front of a terminator *)
  Theorem value_stops_at_terminator :
    forall (fuel : nat) (terms : list N) (acc toks v r : list T),
      value_until ty fuel terms acc toks = Ok (v, r) ->
      r = [] \/ exists t r', r = t :: r' /\ memN (ty t) terms = true.
  Proof. exact (BalancedThms.value_until_stops T ty). Qed.

  (* for every expression of the token-level grammar Expr (plain tokens,
     strict groups over strict-nested soups, angle groups closed by '>'),
     followed by a terminator, the value is the whole expression *)
  Theorem value_is_whole :
    forall (terms : list N) (e rest : list T),
      Expr T ty terms e -> stops_at T ty terms rest ->
      consume_value_until ty terms (e ++ rest) = Ok (e, rest).
  Proof. exact (BalancedThms.value_is_whole T ty). Qed.

  (* a balanced group used as a value (brace initialisers, and with [1:-1]
     throw/noexcept/decltype/array sizes) is exactly the group *)
  Theorem group_value_exact :
    forall (a b : T) (c : N) (soup rest : list T),
      assocN (ty a) balanced_token_map = Some c -> c <> GT -> ty b = c ->
      SN T ty soup ->
      consume_balanced ty [a] (soup ++ b :: rest) = Ok (a :: soup ++ [b], rest).
  Proof. exact (BalancedThms.consume_balanced_exact T ty). Qed.
End C14.

(* slice policy over the value positions regenerated from parser.py's AST *)
Theorem positions_policy :
  forall label tclass kind terms, In (label, tclass, kind, terms) value_positions ->
    (tclass <> 0 -> kind = K_INNER) /\ (tclass = 0 -> kind <> K_INNER).
Proof. exact positions_policy_lemma. Qed.

Print Assumptions value_is_contiguous.
Print Assumptions value_stops_at_terminator.
Print Assumptions value_is_whole.
Print Assumptions group_value_exact.
Print Assumptions positions_policy.

(* the full statement is false for a depth-0 '<' that is a comparison
   (F6, known finding): the model shows the same overrun as the code *)
Example lt_operator_refuted :
  consume_value_until (fun x : N => x) [T_LIT_44; T_LIT_59]
    [T_NAME; T_LIT_60; T_NAME; T_LIT_59; T_int; T_NAME; T_LIT_61; T_NAME; T_LIT_62; T_NAME; T_LIT_59]
  = Ok ([T_NAME; T_LIT_60; T_NAME; T_LIT_59; T_int; T_NAME; T_LIT_61; T_NAME; T_LIT_62; T_NAME], [T_LIT_59]).
Proof. vm_compute. reflexivity. Qed.

(* non-vacuity of value_is_whole: "f ( a , b ) + A < B , C > :: v" before ';' *)
Example c14_nonvacuous :
  consume_value_until (fun x : N => x) [T_LIT_44; T_LIT_59]
    [T_NAME; T_LIT_40; T_NAME; T_LIT_44; T_NAME; T_LIT_41; T_LIT_43; T_NAME; T_LIT_60; T_NAME; T_LIT_44; T_NAME; T_LIT_62; T_DBL_COLON; T_NAME; T_LIT_59; T_int]
  = Ok ([T_NAME; T_LIT_40; T_NAME; T_LIT_44; T_NAME; T_LIT_41; T_LIT_43; T_NAME; T_LIT_60; T_NAME; T_LIT_44; T_NAME; T_LIT_62; T_DBL_COLON; T_NAME], [T_LIT_59; T_int]).
Proof. vm_compute. reflexivity. Qed.

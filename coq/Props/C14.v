(* C14 -- Unparsed values carry exactly the source tokens of their expression. *)
From Coq Require Import NArith List.
Import ListNotations.
From CXV Require Import Gen.TokTy Gen.ParserTables Parse.Balanced Parse.BalancedThms Parse.Positions.
From CXV Require Import Parse.Declarator Parse.DeclSpec Parse.DeclThms Parse.EnumList Parse.Requires.
Open Scope N_scope.

Section C14.
  Variable T : Type.
  Variable ty : T -> N.

  (* nothing dropped, duplicated, reordered, nothing taken from the surrounding
     declaration: the value and the remaining stream split the input *)
  Theorem value_is_contiguous :
    forall (terms : list N) (toks v r : list T),
      consume_value_until ty terms toks = Ok (v, r) -> toks = v ++ r.
  Proof. exact (BalancedThms.value_is_contiguous T ty). Qed.

  (* collection stops at end of input or in front of a terminator *)
  Theorem value_stops_at_terminator :
    forall (fuel : nat) (terms : list N) (acc toks v r : list T),
      value_until ty fuel terms acc toks = Ok (v, r) ->
      r = [] \/ exists t r', r = t :: r' /\ memN (ty t) terms = true.
  Proof. exact (BalancedThms.value_until_stops T ty). Qed.

  (* for every expression of the token-level grammar Expr (plain tokens,
     strict groups over strict-nested soups, angle groups closed by '>'),
     followed by a terminator, the value is the whole expression *)
  Theorem value_is_whole :
    forall (terms : list N) (e rest : list T),
      Expr T ty terms e -> stops_at T ty terms rest ->
      consume_value_until ty terms (e ++ rest) = Ok (e, rest).
  Proof. exact (BalancedThms.value_is_whole T ty). Qed.

  (* a balanced group used as a value (brace initialisers, and with [1:-1]
     throw/noexcept/decltype/array sizes) is exactly the group *)
  Theorem group_value_exact :
    forall (a b : T) (c : N) (soup rest : list T),
      assocN (ty a) balanced_token_map = Some c -> c <> GT -> ty b = c ->
      SN T ty soup ->
      consume_balanced ty [a] (soup ++ b :: rest) = Ok (a :: soup ++ [b], rest).
  Proof. exact (BalancedThms.consume_balanced_exact T ty). Qed.
End C14.

(* slice policy over the value positions regenerated from parser.py's AST *)
Theorem positions_policy :
  forall label tclass kind terms, In (label, tclass, kind, terms) value_positions ->
    (tclass <> 0 -> kind = K_INNER) /\ (tclass = 0 -> kind <> K_INNER).
Proof. exact positions_policy_lemma. Qed.

(* requires-clauses (_parse_requires, a bespoke loop): a clause of primaries -- parenthesized
   expressions and possibly specialized names, decltype(...) pieces -- joined by one or
   two operator tokens, of any length, ended by any token that is not an operator or by
   a single '=' (`= delete`): the value is exactly the source tokens of the clause, in
   order, and the ending token with everything behind it stays in the stream.  For names
   written with '::' between their pieces the value lacks those '::' tokens (known finding
   F29; requires_clause_value_partial states what is reported). *)
Theorem requires_clause_exact_for_unqualified_names : forall pr ls x X f g,
  prim_ok pr -> links_ok pr ls -> follows (last_prim pr ls) x -> stop_ok x X ->
  unqualified pr -> Forall (fun l : link => unqualified (snd l)) ls ->
  (S (length ls) <= f)%nat -> (max_pieces pr ls <= g)%nat ->
  requires_clause f g (clause_toks pr ls ++ x :: X) = DOk (clause_toks pr ls, x :: X).
Proof. exact requires_clause_exact. Qed.

Theorem requires_clause_value_partial : forall pr ls x X f g,
  prim_ok pr -> links_ok pr ls -> follows (last_prim pr ls) x -> stop_ok x X ->
  (S (length ls) <= f)%nat -> (max_pieces pr ls <= g)%nat ->
  requires_clause f g (clause_toks pr ls ++ x :: X) = DOk (clause_val pr ls, x :: X).
Proof. exact requires_clause_roundtrip. Qed.

Theorem requires_expression_exact : forall ps body X f g,
  SNk ps -> SNk body ->
  requires_clause f g (ktok T_requires :: ktok LP :: ps ++ ktok RP :: ktok LBRACE :: body ++ ktok RBRACE :: X)
  = DOk (ktok T_requires :: (ktok LP :: ps ++ [ktok RP]) ++ (ktok LBRACE :: body ++ [ktok RBRACE]), X).
Proof. exact requires_requires_roundtrip. Qed.

(* F29 in the model: `std :: integral < T > void` reports std integral < T > *)
Example requires_qualified_name_refuted :
  requires_clause 3 3 [mkTk T_NAME 1; ktok T_DBL_COLON; mkTk T_NAME 2; ktok T_LIT_60; mkTk T_NAME 3; ktok T_LIT_62; ktok T_void]
  = DOk ([mkTk T_NAME 1; mkTk T_NAME 2; ktok T_LIT_60; mkTk T_NAME 3; ktok T_LIT_62], [ktok T_void]).
Proof. vm_compute. reflexivity. Qed.

(* non-vacuity: `( A < T > ) && B < T > || C == D = delete` *)
Example requires_clause_run :
  requires_clause 9 9 [ktok LP; mkTk T_NAME 1; ktok T_LIT_60; mkTk T_NAME 3; ktok T_LIT_62; ktok RP; ktok T_DBL_AMP;
                       mkTk T_NAME 2; ktok T_LIT_60; mkTk T_NAME 3; ktok T_LIT_62; ktok T_DBL_PIPE; mkTk T_NAME 4; ktok EQ; ktok EQ;
                       mkTk T_NAME 5; ktok EQ; ktok T_delete]
  = DOk ([ktok LP; mkTk T_NAME 1; ktok T_LIT_60; mkTk T_NAME 3; ktok T_LIT_62; ktok RP; ktok T_DBL_AMP;
          mkTk T_NAME 2; ktok T_LIT_60; mkTk T_NAME 3; ktok T_LIT_62; ktok T_DBL_PIPE; mkTk T_NAME 4; ktok EQ; ktok EQ; mkTk T_NAME 5],
         [ktok EQ; ktok T_delete]).
Proof. vm_compute. reflexivity. Qed.

Print Assumptions requires_clause_exact_for_unqualified_names.
Print Assumptions requires_clause_value_partial.
Print Assumptions requires_expression_exact.
Print Assumptions value_is_contiguous.
Print Assumptions value_stops_at_terminator.
Print Assumptions value_is_whole.
Print Assumptions group_value_exact.
Print Assumptions positions_policy.

(* the full statement is false for a depth-0 '<' that is a comparison
   (F6, known finding): the model shows the same overrun as the code *)
Example lt_operator_refuted :
  consume_value_until (fun x : N => x) [T_LIT_44; T_LIT_59]
    [T_NAME; T_LIT_60; T_NAME; T_LIT_59; T_int; T_NAME; T_LIT_61; T_NAME; T_LIT_62; T_NAME; T_LIT_59]
  = Ok ([T_NAME; T_LIT_60; T_NAME; T_LIT_59; T_int; T_NAME; T_LIT_61; T_NAME; T_LIT_62; T_NAME], [T_LIT_59]).
Proof. vm_compute. reflexivity. Qed.

(* non-vacuity of value_is_whole: "f ( a , b ) + A < B , C > :: v" before ';' *)
Example c14_nonvacuous :
  consume_value_until (fun x : N => x) [T_LIT_44; T_LIT_59]
    [T_NAME; T_LIT_40; T_NAME; T_LIT_44; T_NAME; T_LIT_41; T_LIT_43; T_NAME; T_LIT_60; T_NAME; T_LIT_44; T_NAME; T_LIT_62; T_DBL_COLON; T_NAME; T_LIT_59; T_int]
  = Ok ([T_NAME; T_LIT_40; T_NAME; T_LIT_44; T_NAME; T_LIT_41; T_LIT_43; T_NAME; T_LIT_60; T_NAME; T_LIT_44; T_NAME; T_LIT_62; T_DBL_COLON; T_NAME], [T_LIT_59; T_int]).
Proof. vm_compute. reflexivity. Qed.

(* C10 -- Reported line numbers and file names are the real ones. *)
From Coq Require Import NArith ZArith List.
Import ListNotations.
From CXV Require Import Gen.TokTy Base.Regex Gen.LexRules Lex.PlyLoop Lex.LexThms.
Open Scope N_scope.

(* full specification of stamping: the location of a token is (file name in
   force, line counter after the token minus the offset in force); only a
   line directive changes file name and offset, to (f, 1 + line - N) *)
Theorem stamping_spec :
  forall (fuel : nat) (st : lstate) (s : list N) (ps : list piece) (o : outcome),
    lex_loop fuel st s = (ps, o) -> locs_ok st ps.
Proof. exact LexThms.lex_locs. Qed.

(* the line counter is the physical line: 1 + newlines before the token *)
Theorem line_counter_is_physical :
  forall (file s : list N) (ps : list piece) (o : outcome) (pre : list piece)
         (ty : N) (t : list N) (line : N) (loc : list N * Z) (post : list piece),
    lex file s = (ps, o) -> ps = pre ++ PTok ty t line loc :: post ->
    line = 1 + count_nl (all_text pre).
Proof. exact LexThms.lex_lineno. Qed.

(* a lexical error is located at the state reached after the pieces before it *)
Theorem lex_error_location :
  forall (fuel : nat) (st : lstate) (s : list N) (ps : list piece) (k : N) (loc : list N * Z) (t : list N),
    lex_loop fuel st s = (ps, Failed k loc t) ->
    loc = loc_of (fold_left after_piece ps st).
Proof. exact LexThms.lex_error_location. Qed.

(* the lexer is independent of its line counter: starting k lines later shifts
   every stamped line (and error line) by exactly k when no line directive occurs *)
Theorem prepend_shift :
  forall (k : N) (fuel : nat) (st : lstate) (s : list N) (ps : list piece) (o : outcome),
    lex_loop fuel st s = (ps, o) -> no_rebase ps ->
    lex_loop fuel (shift_state k st) s =
      (map (shift_piece k) ps,
       match o with Failed kind loc t => Failed kind (shift_loc k loc) t | _ => o end).
Proof. exact LexThms.lex_shift. Qed.

(* ... and the run after any prefix of pieces is the run on the remaining text
   from the state reached, so prepended material only acts through that state *)
Theorem resume_after_prefix :
  forall (pre : list piece) (fuel : nat) (st : lstate) (s : list N) (ps : list piece) (o : outcome),
    lex_loop fuel st s = (pre ++ ps, o) -> (ps <> [] \/ o = Done) ->
    exists fuel' s', s = all_text pre ++ s' /\
      lex_loop fuel' (fold_left after_piece pre st) s' = (ps, o).
Proof. exact LexThms.lex_resume. Qed.

Print Assumptions stamping_spec.
Print Assumptions line_counter_is_physical.
Print Assumptions lex_error_location.
Print Assumptions prepend_shift.
Print Assumptions resume_after_prefix.

(* non-vacuity: x NL #line 7 "a" NL y  -> y is stamped (a, 7) *)
Example c10_nonvacuous :
  fst (lex [102] [120; 10; 35; 108; 105; 110; 101; 32; 55; 32; 34; 97; 34; 10; 121]) =
  [PTok T_NAME [120] 1 ([102], 1%Z); PTok T_NEWLINE [10] 1 ([102], 2%Z);
   PDrop [35; 108; 105; 110; 101; 32; 55; 32; 34; 97; 34];
   PTok T_NEWLINE [10] 2 ([97], 7%Z); PTok T_NAME [121] 3 ([97], 7%Z)].
Proof. vm_compute. reflexivity. Qed.

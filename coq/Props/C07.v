(* C07 -- Parsing time is polynomially bounded in input size.
   What is proved is about COST MODELS (iteration and step counts of the
   executable models); CPU time of the implementation is observed by the
   search, not proved. *)
From Coq Require Import NArith ZArith List.
Import ListNotations.
From CXV Require Import Gen.TokTy Gen.ParserTables Base.Regex Gen.LexRules Lex.PlyLoop Lex.LexThms
  Parse.Balanced Parse.BalancedCost.
Open Scope N_scope.

(* the token loop makes at most one iteration per input character, and each
   iteration tries each rule at most once *)
Theorem lexer_iterations_linear :
  forall fuel st s ps o, lex_loop fuel st s = (ps, o) -> (length ps <= length s)%nat.
Proof. exact LexThms.lex_pieces_linear. Qed.

(* balanced-token consumption (attribute arguments, initialisers, template
   arguments, pragma groups): token reads plus match-stack entries visited are
   bounded by a quadratic in the input; deep or unbalanced nesting cannot blow up *)
Theorem balanced_cost_polynomial_partial :
  forall (T : Type) (ty : T -> N) (toks : list T) (stack : list N),
    (consume_cost T ty stack toks <= length toks * (1 + length stack + length toks))%nat.
Proof. exact BalancedCost.consume_cost_bound. Qed.

(* body / initialiser skipping reads each token once *)
Theorem discard_cost_linear :
  forall (T : Type) (ty : T -> N) (s e : N) (toks : list T) (level : nat),
    (discard_cost T ty s e level toks <= length toks)%nat.
Proof. exact BalancedCost.discard_cost_linear. Qed.

Print Assumptions lexer_iterations_linear.
Print Assumptions balanced_cost_polynomial_partial.
Print Assumptions discard_cost_linear.

(* non-vacuity: an unterminated comment of 60 characters costs a few hundred
   steps in the step-counting model of the regenerated rules, not 2^60 *)
From CXV Require Import Base.Cost.
Example c07_nonvacuous :
  (lex_cost 1000000 (map fst rules) 62 (47 :: 42 :: repeat 10 60) 0 <? 5000) = true.
Proof. vm_compute. reflexivity. Qed.

(* C05 -- Returning False from a start callback prunes exactly that block.
   Model: Parse/BlocksSM.v interpreting the effect atoms of _setup_state,
   _pop_state, _on_block_end and the three `is False -> null_visitor` sites,
   regenerated from parser.py's AST on every run (Gen/Blocks.v). *)
From Coq Require Import NArith List.
Import ListNotations.
From CXV Require Import Gen.Blocks Parse.BlocksSM Parse.BlocksSpec Parse.BlocksThms.
Open Scope N_scope.

(* for every event list (any block tree, any nesting, unbalanced ones included)
   and every set of skipped blocks, the delivered stream is the unskipped
   stream with exactly those subtrees and their end callbacks removed *)
Theorem skip_is_prune :
  forall (skip : N -> bool) (evs : list ev),
    stream (run skip evs) = prune skip 0 (stream (run noskip evs)).
Proof. exact skip_is_prune_run. Qed.

(* the interpreted atoms are the closed-form machine the proofs are about *)
Theorem atoms_are_spec :
  forall (skip : N -> bool) (evs : list ev),
    stream (run skip evs) = CbParseStart 0 :: sem skip sinit evs /\
    obs (run skip evs) = sfinal skip sinit evs.
Proof. exact run_is_sem. Qed.

Print Assumptions skip_is_prune.
Print Assumptions atoms_are_spec.

(* non-vacuity: namespace { class(skipped) { item } item } item *)
Example c05_nonvacuous :
  stream (run (fun id => id =? 2) [EvOpen KNs 0; EvOpen KClass 1; EvItem 16; EvClose; EvItem 1; EvClose; EvItem 1])
  = [CbParseStart 0; CbStart KNs 1 0; CbStart KClass 2 1; CbItem 1 1 0; CbEnd KNs 1; CbItem 1 0 0].
Proof. vm_compute. reflexivity. Qed.

(* C06 -- Every input ends in a result or a CxxParseError that says where. *)
From Coq Require Import NArith ZArith List Bool.
Import ListNotations.
From CXV Require Import Gen.TokTy Gen.ParserTables Gen.Blocks Gen.Facts Base.Regex Base.RegexThms Gen.LexRules
  Lex.PlyLoop Lex.LexThms Parse.Balanced Parse.BalancedThms Parse.BlocksSM Parse.BlocksSpec Parse.BlocksThms.
From CXV Require Import Parse.Specs.
From CXV Require Parse.Declarator Parse.DispatchLang Gen.Dispatch Parse.DispatchExternThms Parse.DispatchFriendThms.
Open Scope N_scope.

(* the lexer never gets stuck: every code-point string yields tokens or a located error *)
Theorem lex_total : forall file s, snd (lex file s) <> OutOfFuel.
Proof. exact LexThms.lex_total. Qed.

(* a lexical error names the file and, when no #line re-bases it, a line that
   exists in the input: 1 + newlines of the text lexed before the offending text *)
Theorem lex_error_line_exists :
  forall file s ps k loc t,
    lex file s = (ps, Failed k loc t) -> no_rebase ps ->
    fst loc = file /\ exists rest, s = all_text ps ++ rest /\
      snd loc = Z.of_N (1 + count_nl (all_text ps)).
Proof. exact LexThms.lex_error_line_exists. Qed.

(* illegal characters: a character that starts no rule, is no literal and is
   not ignored is rejected at the current location whatever precedes or follows *)
Theorem illegal_char_rejected :
  forall st c s',
    forallb (fun ra => negb (firstc (fst ra) c)) rules = true ->
    assoc_chr c literal_chars = None ->
    in_ranges c (map (fun x => (x, x)) lexignore) = false ->
    lex_step st c s' = SFail 0 (loc_of st) (c :: s').
Proof. exact LexThms.illegal_char_rejected. Qed.

(* unprocessed preprocessor lines: a '#' is a #pragma / #include token, a
   dropped '#line N "f"' / '#warning', or an error - never anything else *)
Theorem hash_is_directive_or_error :
  forall st s',
    match lex_step st 35 s' with
    | SPiece (PTok ty _ _ _) _ _ => ty = T_PRAGMA_DIRECTIVE \/ ty = T_INCLUDE_DIRECTIVE
    | SPiece (PDrop t) _ _ => parse_line_directive t <> None \/ starts_with str_warning t = true
    | SPiece (PIgn _) _ _ => False
    | SFail k _ _ => True
    end.
Proof. exact LexThms.hash_is_directive_or_error. Qed.

(* mismatched brackets are rejected (outside the '<' '>' tolerance); end of
   input inside a group is an error *)
Theorem mismatch_rejected :
  forall (T : Type) (ty : T -> N) t r expected st acc,
    memN (ty t) end_balanced_tokens = true -> ty t <> expected -> ty t <> GT -> expected <> GT ->
    consume ty (expected :: st) acc (t :: r) = ErrUnexpected (ty t).
Proof. exact BalancedThms.mismatch_rejected. Qed.

(* a closing bracket at depth 0 of an unparsed value (initialiser, default
   argument, enumerator value, ...) that is neither one of the value's
   terminators nor the tolerant '>' is rejected *)
Theorem stray_closer_in_value_rejected :
  forall (T : Type) (ty : T -> N) terms f acc t r,
    memN (ty t) terms = false -> memN (ty t) end_balanced_tokens = true -> ty t <> GT ->
    assocN (ty t) balanced_token_map = None ->
    value_until ty (S f) terms acc (t :: r) = ErrUnexpected (ty t).
Proof. exact BalancedThms.stray_closer_in_value_rejected_lemma. Qed.

(* specifiers where they are not allowed: a declaration kind that takes no
   variable specifiers rejects mutable, one that takes no method specifiers
   rejects explicit / virtual, and one that takes neither (typedefs, parameters,
   aliases) rejects constexpr / extern / inline / static as well *)
Theorem misplaced_specifiers_rejected : forall var_ok meth_ok m,
  validate var_ok meth_ok m =
    (implb (m_mutable m) var_ok) && (implb (m_explicit m || m_virtual m) meth_ok)
    && (implb (m_constexpr m || m_extern m || m_inline m || m_static m) (var_ok || meth_ok)).
Proof. exact validate_spec. Qed.

(* a stray closing brace at the root and an access specifier outside a class
   stop the machine with an error, after which nothing is delivered *)
Theorem stray_close_rejected :
  forall skip s f, sst s = Running -> scur s = [f] -> sst (fst (sstep skip s EvClose)) = ErrRootPop.
Proof. exact BlocksThms.stray_close_rejected. Qed.

Theorem access_outside_class_rejected :
  forall skip s f rest a, sst s = Running -> scur s = f :: rest -> fkind f <> KClass ->
    sst (fst (sstep skip s (EvAccess a))) = ErrAccessOutsideClass.
Proof. exact BlocksThms.access_outside_class_rejected. Qed.

Theorem error_is_final :
  forall skip s evs, sst s <> Running -> sfinal skip s evs = s /\ sem skip s evs = [].
Proof. exact BlocksThms.error_is_final. Qed.

(* the wrapper of CxxParser.parse (AST facts recomputed on every run): the try
   covers the whole loop, `except Exception as e` re-raises only in verbose
   mode and otherwise raises CxxParseError(msg) from e with the two message
   shapes "file:line: parse error evaluating ..." / "file: parse error" *)
Theorem wrapper_total :
  fact_parse_try_covers_loop && fact_handler_catches_Exception_and_chains && fact_verbose_only_reraises = true.
Proof. exact (eq_refl true). Qed.

Print Assumptions lex_total.
Print Assumptions lex_error_line_exists.
Print Assumptions illegal_char_rejected.
Print Assumptions hash_is_directive_or_error.
Print Assumptions mismatch_rejected.
Print Assumptions stray_closer_in_value_rejected.
Print Assumptions misplaced_specifiers_rejected.
Print Assumptions stray_close_rejected.
Print Assumptions access_outside_class_rejected.
Print Assumptions error_is_final.
Print Assumptions wrapper_total.

(* class-only constructs outside a class, and what a class may not contain -- on the handlers as translated from the
   code that exists now (Gen/Dispatch.v): `friend` outside a class body is a parse error whatever follows it; a linkage
   specification (`extern "C" ...`) or an `extern template` inside a class body is a parse error *)
Theorem friend_outside_a_class_rejected : forall kw R,
  DispatchLang.run Dispatch.prog_parse_friend_decl false kw R = DispatchLang.OErr 1.
Proof. exact DispatchFriendThms.friend_outside_class_rejected. Qed.
Theorem linkage_specification_in_a_class_rejected : forall kw x R,
  Declarator.kty x = T_STRING_LITERAL \/ Declarator.kty x = T_template ->
  DispatchLang.run Dispatch.prog_parse_extern true kw (x :: R) = DispatchLang.OErr 1.
Proof. exact DispatchExternThms.extern_block_in_class_rejected. Qed.
Print Assumptions friend_outside_a_class_rejected.
Print Assumptions linkage_specification_in_a_class_rejected.

(* non-vacuity: '$', '@' and '`' meet the premises of illegal_char_rejected *)
Example c06_nonvacuous :
  forallb (fun c => forallb (fun ra => negb (firstc (fst ra) c)) rules
                    && match assoc_chr c literal_chars with None => true | _ => false end
                    && negb (in_ranges c (map (fun x => (x, x)) lexignore))) [36; 64; 96] = true.
Proof. vm_compute. reflexivity. Qed.

(* C09 -- Layout between tokens never changes the result.
   Model: Stream/TokBuf.v (hand-written mirror of TokenStream/LexerTokenStream;
   discard sets and UDL table regenerated), tied to the code by replaying the
   op trace of real parses (harness/streamcorr.py). *)
From Coq Require Import NArith ZArith List Bool.
Import ListNotations.
From CXV Require Import Gen.TokTy Gen.StreamTables Gen.Facts Stream.TokBuf Stream.TokBufThms.
Open Scope N_scope.

(* stream_refines_sig: EVERY client of the stream interface (any adaptive
   program over token / token_eof_ok, token_if*, token_peek_if, return_token(s)
   whose predicates see token type and text only) computes, on the concrete
   buffer machine with line-at-a-time fill, backslash-newline splicing, UDL
   fusion, discarding of layout tokens and push-back, exactly what it computes
   on the plain list of significant tokens. *)
Theorem stream_refines_sig :
  forall (R : Type) (c : client R) (st : ts) (r : R),
    run_c c st = Some r -> r = run_a c (abs st).
Proof. exact (@stream_refines_sig_lemma). Qed.

(* layout_invariance: inputs whose significant tokens agree in type and text
   (whatever spaces, tabs, newlines, CR, non-doc comments, spliced
   continuations lie between them) are indistinguishable to every client;
   the parser is one such client (Gen/Facts: it touches the text only
   through these methods) *)
Theorem layout_invariance_partial :
  forall (R : Type) (c : client R) (st1 st2 : ts) (r1 r2 : R),
    abs st1 = abs st2 -> run_c c st1 = Some r1 -> run_c c st2 = Some r2 -> r1 = r2.
Proof. exact (@layout_invariance_lemma). Qed.

(* the documentation-comment scans never change what the parser will read *)
Theorem doxygen_scans_preserve_tokens :
  forall (st : ts),
    (forall o st', get_doxygen st = SOk o st' -> abs st' = abs st) /\
    (forall o st', get_doxygen_after st = (o, st') -> abs st' = abs st).
Proof.
  intros st. split.
  - intros o st'. exact (get_doxygen_abs st o st').
  - intros o st' H. exact (proj1 (proj2 (get_doxygen_after_spec_lemma st o st' H))).
Qed.

(* the parser IS a client in the sense above: AST facts re-established on every
   run by translate/gen_facts.py (self.lex.<method> is its only access path to
   the text, it never touches tokbuf/lexpos/lineno, never mutates a token,
   never inspects a location, and reads NEWLINE tokens only in the pragma loop) *)
Theorem parser_is_a_client :
  fact_parser_uses_only_stream_api && fact_parser_never_touches_stream_internals
  && fact_parser_never_mutates_tokens && fact_parser_never_branches_on_location
  && fact_location_only_stored_into_states && fact_toknl_only_in_pragma_directive
  && fact_lex_swapped_only_in_template_specialization = true.
Proof. exact (eq_refl true). Qed.

Print Assumptions stream_refines_sig.
Print Assumptions parser_is_a_client.
Print Assumptions layout_invariance_partial.
Print Assumptions doxygen_scans_preserve_tokens.

(* non-vacuity: "int  x ; // c NL" and "int/**/x;" have the same abstraction *)
Example c09_nonvacuous :
  abs (stream_of [102] [105; 110; 116; 32; 32; 120; 32; 59; 32; 47; 47; 32; 99; 10])
  = abs (stream_of [102] [105; 110; 116; 47; 42; 42; 47; 120; 59])
  /\ abs (stream_of [102] [105; 110; 116; 47; 42; 42; 47; 120; 59]) = [(T_int, [105; 110; 116]); (T_NAME, [120]); (T_LIT_59, [59])].
Proof. vm_compute. split; reflexivity. Qed.

#!/bin/bash
# builds Extract/driver from the freshly extracted run.ml (only when changed)
set -e
cd "$(dirname "$0")"
if [ ! -f run.ml ]; then echo "no run.ml (extraction did not run)"; exit 1; fi
if [ ! -x Extract/driver ] || [ run.ml -nt Extract/driver ] || [ Extract/driver.ml -nt Extract/driver ]; then
  mkdir -p Extract/_build && cp run.ml run.mli Extract/driver.ml Extract/_build/
  (cd Extract/_build && ocamlfind ocamlopt -w -a -O3 -unboxed-types 2>/dev/null run.mli run.ml driver.ml -o ../driver || ocamlfind ocamlopt -w -a run.mli run.ml driver.ml -o ../driver)
fi

(* Theorems about Stream/TokBuf.v (C09 layout invariance, C11 doc comments, C08 fill). *)
From Coq Require Import NArith ZArith List Bool Lia PeanoNat.
Import ListNotations.
From CXV Require Import Gen.TokTy Gen.StreamTables Base.Regex Gen.LexRules Lex.PlyLoop Parse.Balanced Stream.TokBuf.
Open Scope N_scope.

(* ------------------------------------------------------------------ *)
(* _fill_tokbuf consumes at least one raw token *)

Lemma fill_go_len : forall n rw, (length rw <= n)%nat ->
  forall acc line rw' hit, fill_go acc rw = (line, rw', hit) ->
    (length rw' <= length rw)%nat /\ (rw <> [] -> (length rw' < length rw)%nat).
Proof.
  induction n as [|n IH]; intros rw Hn acc line rw' hit H.
  - destruct rw; [|cbn in Hn; lia]. cbn in H. inversion H; subst. split; [cbn; lia|congruence].
  - destruct rw as [|t r]; cbn [fill_go] in H.
    + inversion H; subst. split; [cbn; lia|congruence].
    + cbn [length] in Hn.
      assert (Hr : (length r <= n)%nat) by lia.
      destruct (tty t =? T_NEWLINE).
      * destruct acc as [|b acc'].
        -- inversion H; subst. cbn; split; [lia|intros; lia].
        -- destruct (tty b =? T_BACKSLASH).
           ++ destruct (IH r Hr _ _ _ _ H) as [L _]. cbn; split; [lia|intros; lia].
           ++ inversion H; subst. cbn; split; [lia|intros; lia].
      * destruct (memN (tty t) udl_start).
        -- destruct r as [|t2 r2]; [inversion H; subst; cbn; split; [lia|intros; lia]|].
           destruct ((tty t2 =? T_NAME) && starts_underscore t2).
           ++ assert (Hr2 : (length r2 <= n)%nat) by (cbn in Hr; lia).
              destruct (IH r2 Hr2 _ _ _ _ H) as [L _]. cbn; split; [lia|intros; lia].
           ++ destruct (IH (t2 :: r2) Hr _ _ _ _ H) as [L _]. cbn in *; split; [lia|intros; lia].
        -- destruct (IH r Hr _ _ _ _ H) as [L _]. cbn; split; [lia|intros; lia].
Qed.

Lemma fill_go_lt rw acc line rw' hit :
  rw <> [] -> fill_go acc rw = (line, rw', hit) -> (length rw' < length rw)%nat.
Proof. intros Hne H. exact (proj2 (fill_go_len (length rw) rw (le_n _) _ _ _ _ H) Hne). Qed.

(* the logical token stream: all lines the stream will ever buffer *)
Fixpoint fill_all (fuel : nat) (rw : list tok) : list tok :=
  match fuel with
  | O => []
  | S f =>
      match rw with
      | [] => []
      | _ => let '(line, rw', _) := fill_go [] rw in line ++ fill_all f rw'
      end
  end.

Lemma fill_all_fuel2 : forall f rw, (length rw <= f)%nat ->
  forall g, (length rw <= g)%nat -> fill_all f rw = fill_all g rw.
Proof.
  induction f as [|f IH]; intros rw Hf g Hg.
  - destruct rw; [destruct g; reflexivity|cbn in Hf; lia].
  - destruct rw as [|t r]; [destruct g; reflexivity|].
    destruct g as [|g]; [cbn in Hg; lia|].
    cbn [fill_all]. destruct (fill_go [] (t :: r)) as [[line rw'] hit] eqn:E.
    assert (L : (length rw' < length (t :: r))%nat) by (eapply fill_go_lt; [discriminate|exact E]).
    cbn [length] in L, Hf, Hg. f_equal. apply IH; lia.
Qed.

Lemma fill_all_fuel f rw : (length rw <= f)%nat -> fill_all f rw = fill_all (length rw) rw.
Proof. intros H. apply fill_all_fuel2; [exact H|lia]. Qed.

Definition logical_raw (rw : list tok) : list tok := fill_all (length rw) rw.
Definition logical (st : ts) : list tok := buf st ++ logical_raw (raw st).

Lemma logical_raw_unfold t r line rw' hit :
  fill_go [] (t :: r) = (line, rw', hit) -> logical_raw (t :: r) = line ++ logical_raw rw'.
Proof.
  intros E. unfold logical_raw. cbn [length fill_all]. rewrite E.
  assert (L : (length rw' < length (t :: r))%nat) by (eapply fill_go_lt; [discriminate|exact E]).
  cbn [length] in L. now rewrite (fill_all_fuel (length r) rw') by lia.
Qed.

(* ------------------------------------------------------------------ *)
(* significant-token abstraction *)

Definition sigs (l : list tok) : list tok := filter is_sig l.

Lemma pop_keep_some keep : forall b t b', pop_keep keep b = Some (t, b') ->
  keep t = true /\ filter keep b = t :: filter keep b'.
Proof.
  induction b as [|x r IH]; intros t b' H; cbn [pop_keep] in H; [discriminate|].
  cbn [filter]. destruct (keep x) eqn:E.
  - inversion H; subst. now rewrite E.
  - apply IH in H as [H1 H2]. now split.
Qed.

Lemma pop_keep_none keep : forall b, pop_keep keep b = None -> filter keep b = [].
Proof.
  induction b as [|x r IH]; intros H; cbn [pop_keep] in H; [reflexivity|].
  cbn [filter]. destruct (keep x); [discriminate|auto].
Qed.

Definition opt_list (o : option tok) : list tok := match o with Some t => [t] | None => [] end.

(* the generic read loop returns the first token of the logical stream that
   satisfies [keep] and leaves the rest; None exactly when there is none *)
Lemma next_tok_spec keep : forall fuel st o st',
  (length (raw st) < fuel)%nat ->
  next_tok fuel keep st = SOk o st' ->
  filter keep (logical st) = (opt_list o ++ filter keep (logical st'))%list /\
  (o = None -> filter keep (logical st') = []) /\
  (forall t, o = Some t -> keep t = true).
Proof.
  induction fuel as [|f IH]; intros st o st' Hf H; [lia|].
  cbn [next_tok] in H. unfold logical in *.
  destruct (pop_keep keep (buf st)) as [[t b']|] eqn:Ep.
  - inversion H; subst. cbn [buf raw opt_list].
    apply pop_keep_some in Ep as [Hk Ep]. rewrite !filter_app, Ep. cbn [app].
    repeat split; [discriminate|]. intros t0 E; inversion E; subst; exact Hk.
  - apply pop_keep_none in Ep.
    destruct (raw st) as [|t r] eqn:Er.
    + destruct (rfail st); [discriminate|]. inversion H; subst.
      cbn [buf raw opt_list app]. rewrite filter_app, Ep. unfold logical_raw. cbn.
      repeat split; auto. discriminate.
    + destruct (fill_go [] (t :: r)) as [[line rw'] hit] eqn:E.
      destruct (hit && rfail st); [discriminate|].
      assert (L : (length rw' < length (t :: r))%nat) by (eapply fill_go_lt; [discriminate|exact E]).
      specialize (IH (mkTs line rw' (rfail st)) o st').
      cbn [raw buf rfail] in IH. cbn [length] in Hf, L.
      assert (Hf' : (length rw' < f)%nat) by lia.
      specialize (IH Hf' H). cbn [buf raw] in IH.
      rewrite filter_app, Ep, (logical_raw_unfold _ _ _ _ _ E). cbn [app].
      exact IH.
Qed.

(* ------------------------------------------------------------------ *)
(* C09: every client of the stream interface sees only the significant tokens *)

Definition tokview : Type := N * list N.
Definition view (t : tok) : tokview := (tty t, ttext t).
Definition unview (v : tokview) : tok := mkTok (fst v) (snd v) 0 ([], 0%Z).
Definition vsig (v : tokview) : bool := negb (memN (fst v) discard_types).

(* a client: an arbitrary (adaptive) program over token / token_eof_ok,
   token_if / _in_set / _val / _not, token_peek_if, return_token(s).  Predicates
   and continuations see token type and text only (never a location). *)
Inductive client (R : Type) : Type :=
| CRet (r : R)
| CTok (k : option tokview -> client R)
| CIf (p : tokview -> bool) (k : option tokview -> client R)
| CPeek (p : tokview -> bool) (k : bool -> client R)
| CReturn (l : list tokview) (k : client R).
Arguments CRet {R} r. Arguments CTok {R} k. Arguments CIf {R} p k.
Arguments CPeek {R} p k. Arguments CReturn {R} l k.

(* against the concrete buffer machine (None: lexer error, or the client
   pushed back a token of a discard type, which the parser never does) *)
Fixpoint run_c {R} (c : client R) (st : ts) : option R :=
  match c with
  | CRet r => Some r
  | CTok k =>
      match token_eof_ok st with
      | SOk o st' => run_c (k (option_map view o)) st'
      | _ => None
      end
  | CIf p k =>
      match token_if_p (fun t => p (view t)) st with
      | SOk o st' => run_c (k (option_map view o)) st'
      | _ => None
      end
  | CPeek p k =>
      match token_peek_if (fun t => p (view t)) st with
      | SOk b st' => run_c (k b) st'
      | _ => None
      end
  | CReturn l k =>
      if forallb vsig l then run_c k (return_tokens (map unview l) st) else None
  end.

(* against the abstract stream: just the list of significant token views *)
Fixpoint run_a {R} (c : client R) (s : list tokview) : R :=
  match c with
  | CRet r => r
  | CTok k => match s with v :: s' => run_a (k (Some v)) s' | [] => run_a (k None) [] end
  | CIf p k =>
      match s with
      | v :: s' => if p v then run_a (k (Some v)) s' else run_a (k None) s
      | [] => run_a (k None) []
      end
  | CPeek p k => match s with v :: _ => run_a (k (p v)) s | [] => run_a (k false) [] end
  | CReturn l k => run_a k (l ++ s)
  end.

Definition abs (st : ts) : list tokview := map view (sigs (logical st)).

Lemma token_eof_ok_abs st o st' :
  token_eof_ok st = SOk o st' ->
  abs st = (match o with Some t => [view t] | None => [] end ++ abs st')%list /\
  (o = None -> abs st' = []) /\ (forall t, o = Some t -> is_sig t = true).
Proof.
  unfold token_eof_ok, fuel_of. intros H.
  apply next_tok_spec in H as (H1 & H2 & H3); [|lia].
  unfold abs, sigs. rewrite H1, map_app. split; [destruct o; reflexivity|].
  split; [|exact H3]. intros E. now rewrite (H2 E).
Qed.

Lemma abs_push_front t st : is_sig t = true -> abs (push_front t st) = view t :: abs st.
Proof.
  intros Hs. unfold abs, sigs, logical, push_front. cbn [buf raw app filter]. now rewrite Hs.
Qed.

Lemma vsig_unview v : vsig v = true -> is_sig (unview v) = true.
Proof. unfold vsig, is_sig, unview. cbn [tty]. auto. Qed.

Lemma view_unview v : view (unview v) = v.
Proof. destruct v; reflexivity. Qed.

Lemma abs_return l st : forallb vsig l = true -> abs (return_tokens (map unview l) st) = (l ++ abs st)%list.
Proof.
  intros H. unfold abs, sigs, logical, return_tokens. cbn [buf raw].
  rewrite <- app_assoc, filter_app, map_app. f_equal.
  induction l as [|v l IH]; [reflexivity|].
  cbn [forallb] in H. apply andb_prop in H as [Hv Hl].
  cbn [map filter]. rewrite (vsig_unview v Hv). cbn [map]. rewrite view_unview. f_equal. now apply IH.
Qed.

(* stream_refines_sig: whatever the client does, running it on the concrete
   machine (deque, line-at-a-time fill, splicing, UDL fusion, discard of
   layout tokens, push-back) gives the result of running it on the abstract
   list of significant tokens *)
Theorem stream_refines_sig_lemma {R} : forall (c : client R) st r,
  run_c c st = Some r -> r = run_a c (abs st).
Proof.
  induction c as [r0|k IH|p k IH|p k IH|l k IH]; intros st r H; cbn [run_c] in H.
  - inversion H; subst. reflexivity.
  - destruct (token_eof_ok st) as [o st'| | |] eqn:E; try discriminate.
    apply token_eof_ok_abs in E as (E1 & E2 & _). apply IH in H. rewrite H, E1.
    destruct o as [t|]; cbn [run_a app option_map]; [reflexivity|]. now rewrite (E2 eq_refl).
  - unfold token_if_p in H.
    destruct (token_eof_ok st) as [o st'| | |] eqn:E; try discriminate.
    apply token_eof_ok_abs in E as (E1 & E2 & E3). rewrite E1.
    destruct o as [t|].
    + cbn [app run_a]. destruct (p (view t)) eqn:Ep.
      * apply IH in H. exact H.
      * apply IH in H. rewrite H, (abs_push_front t st' (E3 t eq_refl)). reflexivity.
    + cbn [app]. apply IH in H. rewrite H, (E2 eq_refl). reflexivity.
  - unfold token_peek_if in H.
    destruct (token_eof_ok st) as [o st'| | |] eqn:E; try discriminate.
    apply token_eof_ok_abs in E as (E1 & E2 & E3). rewrite E1.
    destruct o as [t|].
    + cbn [app run_a]. apply IH in H. rewrite H, (abs_push_front t st' (E3 t eq_refl)). reflexivity.
    + cbn [app]. apply IH in H. rewrite H, (E2 eq_refl). reflexivity.
  - destruct (forallb vsig l) eqn:El; [|discriminate].
    apply IH in H. rewrite H, (abs_return l st El). reflexivity.
Qed.

(* layout_invariance: two inputs with the same significant tokens (same types
   and texts in the same order) are indistinguishable to every client *)
Theorem layout_invariance_lemma {R} (c : client R) st1 st2 r1 r2 :
  abs st1 = abs st2 -> run_c c st1 = Some r1 -> run_c c st2 = Some r2 -> r1 = r2.
Proof.
  intros Ha H1 H2. apply stream_refines_sig_lemma in H1, H2. congruence.
Qed.

(* ------------------------------------------------------------------ *)
(* C11 / C09: documentation-comment scans *)

Definition is_layout (t : tok) : bool :=
  (tty t =? T_NEWLINE) || (tty t =? T_WHITESPACE) || is_comment t.

(* the layout-token kinds are exactly the (regenerated) discard set *)
Lemma layout_code n :
  ((n =? T_NEWLINE) || (n =? T_WHITESPACE) || ((n =? T_COMMENT_SINGLELINE) || (n =? T_COMMENT_MULTILINE)))
  = memN n discard_types.
Proof.
  destruct (N.eqb_spec n T_NEWLINE) as [->|H1]; [vm_compute; reflexivity|].
  destruct (N.eqb_spec n T_WHITESPACE) as [->|H2]; [vm_compute; reflexivity|].
  destruct (N.eqb_spec n T_COMMENT_SINGLELINE) as [->|H3]; [vm_compute; reflexivity|].
  destruct (N.eqb_spec n T_COMMENT_MULTILINE) as [->|H4]; [vm_compute; reflexivity|].
  cbn [orb]. unfold discard_types. cbn [memN].
  repeat match goal with
         | |- context [n =? ?k] =>
             replace (n =? k) with false by (symmetry; apply N.eqb_neq; assumption)
         end.
  reflexivity.
Qed.

Lemma is_layout_not_sig t : is_layout t = negb (is_sig t).
Proof. unfold is_layout, is_sig, is_comment. rewrite negb_involutive. apply layout_code. Qed.

(* the layout run in front of the first significant token *)
Fixpoint lay_prefix (l : list tok) : list tok :=
  match l with t :: r => if is_sig t then [] else t :: lay_prefix r | [] => [] end.
Fixpoint lay_rest (l : list tok) : list tok :=
  match l with t :: r => if is_sig t then l else lay_rest r | [] => [] end.

Lemma lay_split l : l = (lay_prefix l ++ lay_rest l)%list.
Proof. induction l as [|t r IH]; cbn; [reflexivity|]. destruct (is_sig t); cbn; [reflexivity|now f_equal]. Qed.

(* SPEC of the comment block: scan the layout tokens; a NEWLINE token that is a
   blank line forgets what was collected, a NEWLINE that merely ends the line of
   a comment (one newline right after a comment that did not include it) does
   not; comment tokens are collected (most recent first) *)
Definition sstate : Type := (list tok * bool)%type.
Definition scan_step (s : sstate) (t : tok) : sstate :=
  if tty t =? T_NEWLINE then ((if nl_clears (snd s) t then [] else fst s), false)
  else if is_comment t then (t :: fst s, negb (ends_nl (ttext t)))
  else s.
Definition scan (s : sstate) (l : list tok) : sstate := fold_left scan_step l s.

Lemma step_nl s t : tty t = T_NEWLINE ->
  scan_step s t = ((if nl_clears (snd s) t then [] else fst s), false).
Proof. intros E. unfold scan_step. now rewrite E, N.eqb_refl. Qed.
Lemma step_comment s t : tty t <> T_NEWLINE -> is_comment t = true ->
  scan_step s t = (t :: fst s, negb (ends_nl (ttext t))).
Proof. intros E C. unfold scan_step. destruct (N.eqb_spec (tty t) T_NEWLINE); [contradiction|]. now rewrite C. Qed.
Lemma step_other s t : tty t <> T_NEWLINE -> is_comment t = false -> scan_step s t = s.
Proof. intros E C. unfold scan_step. destruct (N.eqb_spec (tty t) T_NEWLINE); [contradiction|]. now rewrite C. Qed.
Lemma scan_cons s t l : scan s (t :: l) = scan (scan_step s t) l.
Proof. reflexivity. Qed.

(* what the scan returns: the comments of a suffix of the layout run, namely
   of everything after the last clearing NEWLINE token (the whole run, on top
   of what was already collected, when none clears) *)
Lemma scan_is_suffix_block : forall l s,
  exists l1 l2, l = (l1 ++ l2)%list /\
    ((l1 = [] /\ fst (scan s l) = (rev (filter is_comment l2) ++ fst s)%list) \/
     ((exists l0 nl, l1 = (l0 ++ [nl])%list /\ tty nl = T_NEWLINE) /\
      fst (scan s l) = rev (filter is_comment l2))).
Proof.
  induction l as [|t r IH]; intros s.
  - exists [], []. split; [reflexivity|]. left. split; reflexivity.
  - rewrite scan_cons. destruct (IH (scan_step s t)) as (l1 & l2 & E & H).
    destruct H as [[E1 H]|[[l0 [nl [E1 Hn]]] H]].
    + subst l1. cbn [app] in E. subst l2.
      destruct (N.eqb_spec (tty t) T_NEWLINE) as [Et|Et].
      * rewrite (step_nl s t Et) in *. cbn [fst] in H.
        destruct (nl_clears (snd s) t).
        -- exists [t], r. split; [reflexivity|]. right. split; [exists [], t; split; [reflexivity|exact Et]|].
           now rewrite H, app_nil_r.
        -- exists [], (t :: r). split; [reflexivity|]. left. split; [reflexivity|].
           cbn [filter]. assert (Hc : is_comment t = false).
           { unfold is_comment. rewrite Et. reflexivity. }
           now rewrite Hc.
      * destruct (is_comment t) eqn:Ec.
        -- rewrite (step_comment s t Et Ec) in *. cbn [fst] in H.
           exists [], (t :: r). split; [reflexivity|]. left. split; [reflexivity|].
           cbn [filter]. rewrite Ec. cbn [rev]. now rewrite H, <- app_assoc.
        -- rewrite (step_other s t Et Ec) in *.
           exists [], (t :: r). split; [reflexivity|]. left. split; [reflexivity|].
           cbn [filter]. now rewrite Ec.
    + exists (t :: l1), l2. split; [cbn [app]; now rewrite E|]. right. split; [|exact H].
      exists (t :: l0), nl. split; [now rewrite E1|exact Hn].
Qed.

Lemma dox_scan_spec : forall b cs opn,
  dox_scan cs opn b =
    (fst (scan (cs, opn) (lay_prefix b)), snd (scan (cs, opn) (lay_prefix b)), lay_rest b,
     match lay_rest b with [] => false | _ => true end).
Proof.
  induction b as [|t r IH]; intros cs opn; cbn [dox_scan lay_prefix lay_rest]; [reflexivity|].
  pose proof (is_layout_not_sig t) as HL. unfold is_layout in HL.
  destruct (N.eqb_spec (tty t) T_NEWLINE) as [E|E].
  - cbn [orb] in HL. destruct (is_sig t); [discriminate|]. rewrite IH, scan_cons, (step_nl (cs, opn) t E). reflexivity.
  - destruct (N.eqb_spec (tty t) T_WHITESPACE) as [E2|E2].
    + cbn [orb] in HL. destruct (is_sig t); [discriminate|].
      assert (Hc : is_comment t = false) by (unfold is_comment; rewrite E2; reflexivity).
      rewrite IH, scan_cons, (step_other (cs, opn) t E Hc). reflexivity.
    + cbn [orb] in HL. destruct (is_comment t) eqn:Ec.
      * destruct (is_sig t); [discriminate|]. rewrite IH, scan_cons, (step_comment (cs, opn) t E Ec). reflexivity.
      * destruct (is_sig t); [|discriminate]. reflexivity.
Qed.

Lemma lay_prefix_app_layout : forall a b, sigs a = [] ->
  lay_prefix (a ++ b) = (a ++ lay_prefix b)%list /\ lay_rest (a ++ b) = lay_rest b.
Proof.
  induction a as [|t r IH]; intros b H; [split; reflexivity|].
  unfold sigs in H. cbn [filter] in H. cbn [app lay_prefix lay_rest].
  destruct (is_sig t); [discriminate|]. destruct (IH b H) as [I1 I2]. rewrite I1, I2. split; reflexivity.
Qed.

Lemma lay_rest_nil_sigs l : lay_rest l = [] -> sigs l = [].
Proof.
  induction l as [|t r IH]; [reflexivity|]. unfold sigs. cbn [lay_rest filter].
  destruct (is_sig t); [discriminate|]. exact IH.
Qed.

Lemma lay_rest_sigs l : sigs (lay_rest l) = sigs l.
Proof.
  induction l as [|t r IH]; [reflexivity|]. unfold sigs in *. cbn [lay_rest filter].
  destruct (is_sig t) eqn:E; [cbn [filter]; now rewrite E|exact IH].
Qed.

Lemma scan_app s a b : scan s (a ++ b) = scan (scan s a) b.
Proof. unfold scan. apply fold_left_app. Qed.

Lemma surj_pair_scan (s : sstate) : (fst s, snd s) = s.
Proof. destruct s; reflexivity. Qed.

Lemma dox_loop_spec : forall fuel cs opn st cs' st',
  (length (raw st) < fuel)%nat ->
  dox_loop fuel cs opn st = SOk cs' st' ->
  cs' = fst (scan (cs, opn) (lay_prefix (logical st))) /\ logical st' = lay_rest (logical st).
Proof.
  induction fuel as [|f IH]; intros cs opn st cs' st' Hf H; [lia|].
  cbn [dox_loop] in H. rewrite dox_scan_spec in H. unfold logical in *.
  destruct (lay_rest (buf st)) as [|x xs] eqn:Er.
  - (* buffer drained *)
    pose proof (lay_rest_nil_sigs _ Er) as Hs.
    assert (Hpre : lay_prefix (buf st) = buf st).
    { pose proof (lay_split (buf st)) as S. rewrite Er, app_nil_r in S. now symmetry. }
    destruct (lay_prefix_app_layout (buf st) (logical_raw (raw st)) Hs) as [P1 P2].
    rewrite P1, P2, Hpre in *. rewrite scan_app.
    destruct (raw st) as [|t r] eqn:Eraw.
    + destruct (rfail st); [discriminate|]. inversion H; subst. cbn [buf raw]. unfold logical_raw. cbn. split; reflexivity.
    + destruct (fill_go [] (t :: r)) as [[line rw'] hit] eqn:E.
      destruct (hit && rfail st); [discriminate|].
      assert (L : (length rw' < length (t :: r))%nat) by (eapply fill_go_lt; [discriminate|exact E]).
      cbn [length] in Hf, L.
      specialize (IH (fst (scan (cs, opn) (buf st))) (snd (scan (cs, opn) (buf st))) (mkTs line rw' (rfail st)) cs' st').
      cbn [raw buf] in IH. assert (Hf' : (length rw' < f)%nat) by lia.
      destruct (IH Hf' H) as [I1 I2]. rewrite (logical_raw_unfold _ _ _ _ _ E).
      rewrite surj_pair_scan in I1. split; [exact I1|exact I2].
  - (* stopped at a significant token *)
    inversion H; subst. cbn [buf raw].
    assert (G : forall b y ys rest, lay_rest b = y :: ys ->
                  lay_prefix (b ++ rest) = lay_prefix b /\ lay_rest (b ++ rest) = ((y :: ys) ++ rest)%list).
    { clear. induction b as [|t r IH]; intros y ys rest E; cbn [lay_rest] in E; [discriminate|].
      cbn [app lay_prefix lay_rest]. destruct (is_sig t).
      - inversion E; subst. split; reflexivity.
      - destruct (IH _ _ rest E) as [A B]. rewrite A, B. split; reflexivity. }
    destruct (G _ _ _ (logical_raw (raw st)) Er) as [G1 G2]. rewrite G1, G2. split; reflexivity.
Qed.

(* get_doxygen_spec: the answer is built from exactly the comment tokens after
   the last NEWLINE token in front of the first significant token; the layout
   run is consumed, nothing else *)
Theorem get_doxygen_spec_lemma st o st' :
  get_doxygen st = SOk o st' ->
  o = (match fst (scan ([], false) (lay_prefix (logical st))) with [] => None | cs => extract (rev cs) end) /\
  logical st' = lay_rest (logical st).
Proof.
  unfold get_doxygen. destruct (dox_loop (fuel_of st) [] false st) as [cs st1| | |] eqn:E; try discriminate.
  intros H; inversion H; subst. unfold fuel_of in E.
  apply dox_loop_spec in E as [E1 E2]; [|lia]. subst cs. split; [|exact E2].
  destruct (fst (scan ([], false) (lay_prefix (logical st)))); reflexivity.
Qed.

(* ... hence it never changes what the parser will read *)
Corollary get_doxygen_abs st o st' : get_doxygen st = SOk o st' -> abs st' = abs st.
Proof.
  intros H. apply get_doxygen_spec_lemma in H as [_ H]. unfold abs. now rewrite H, lay_rest_sigs.
Qed.

From Coq Require Import Permutation.

Lemma comment_not_sig t : is_comment t = true -> is_sig t = false.
Proof.
  intros H. pose proof (is_layout_not_sig t) as HL. unfold is_layout in HL.
  rewrite H, orb_true_r in HL. now destruct (is_sig t).
Qed.
Lemma nl_not_sig t : tty t = T_NEWLINE -> is_sig t = false.
Proof.
  intros H. pose proof (is_layout_not_sig t) as HL. unfold is_layout in HL.
  rewrite H, N.eqb_refl in HL. cbn [orb] in HL. now destruct (is_sig t).
Qed.

Lemma doxa_scan_spec : forall b depth ended cs newb cs' nb,
  doxa_scan depth ended cs newb b = (cs', nb) ->
  exists taken dropped,
    cs' = (rev taken ++ cs)%list /\
    Permutation (rev newb ++ b) (nb ++ taken ++ dropped) /\
    Forall (fun t => is_comment t = true) taken /\
    Forall (fun t => tty t = T_NEWLINE) dropped /\
    sigs nb = sigs (rev newb ++ b).
Proof.
  induction b as [|t r IH]; intros depth ended cs newb cs' nb H; cbn [doxa_scan] in H.
  - inversion H; subst. exists [], []. rewrite !app_nil_r. repeat split; auto.
  - assert (Hstop : forall cs1, (cs1, (rev (t :: newb) ++ r)%list) = (cs', nb) ->
              exists taken dropped, cs' = (rev taken ++ cs1)%list /\
                Permutation (rev newb ++ t :: r) (nb ++ taken ++ dropped) /\
                Forall (fun t => is_comment t = true) taken /\
                Forall (fun t => tty t = T_NEWLINE) dropped /\ sigs nb = sigs (rev newb ++ t :: r)).
    { intros cs1 Hx. inversion Hx; subst. exists [], []. cbn [rev app]. rewrite !app_nil_r.
      rewrite <- app_assoc. cbn [app]. repeat split; auto. }
    assert (Hgo : forall d e, doxa_scan d e cs (t :: newb) r = (cs', nb) ->
              exists taken dropped, cs' = (rev taken ++ cs)%list /\
                Permutation (rev newb ++ t :: r) (nb ++ taken ++ dropped) /\
                Forall (fun t => is_comment t = true) taken /\
                Forall (fun t => tty t = T_NEWLINE) dropped /\ sigs nb = sigs (rev newb ++ t :: r)).
    { intros d e Hx. apply IH in Hx as (taken & dropped & H1 & H2 & H3 & H4 & H5).
      exists taken, dropped. cbn [rev] in H2, H5. rewrite <- app_assoc in H2, H5. cbn [app] in H2, H5.
      repeat split; auto. }
    destruct (N.eqb_spec (tty t) T_NEWLINE) as [E|E].
    + inversion H; subst. exists [], [t]. cbn [rev app]. repeat split; auto.
      * rewrite <- app_assoc. apply Permutation_app_head. cbn [app].
        change (t :: r) with ([t] ++ r)%list. apply Permutation_app_comm.
      * unfold sigs. rewrite !filter_app. cbn [filter]. now rewrite (nl_not_sig t E).
    + destruct (N.eqb_spec (tty t) T_WHITESPACE) as [E2|E2].
      * exact (Hgo _ _ H).
      * destruct (is_comment t) eqn:Ec; [destruct (is_doc t) eqn:Ed|].
        -- apply IH in H as (taken & dropped & H1 & H2 & H3 & H4 & H5).
           exists (t :: taken), dropped. cbn [rev]. rewrite <- app_assoc. cbn [app].
           repeat split; auto.
           ++ etransitivity; [apply Permutation_sym, Permutation_middle|].
              etransitivity; [apply perm_skip; exact H2|]. cbn [app]. apply Permutation_middle.
           ++ rewrite H5. unfold sigs. rewrite !filter_app. cbn [filter]. now rewrite (comment_not_sig t Ec).
        -- (* plain comment *)
           destruct cs as [|c0 cs0].
           ++ destruct (ends_nl (ttext t)); [exact (Hstop [] H)|]. exact (Hgo _ _ H).
           ++ exact (Hstop (c0 :: cs0) H).
        -- destruct cs as [|c0 cs0].
           ++ destruct (ended || ((tty t =? T_LIT_125) && (depth =? 0)%nat)); [exact (Hstop [] H)|].
              destruct (tty t =? T_LIT_123); [exact (Hgo _ _ H)|].
              destruct (tty t =? T_LIT_125); [exact (Hgo _ _ H)|].
              destruct ((tty t =? T_LIT_59) && (depth =? 0)%nat); exact (Hgo _ _ H).
           ++ exact (Hstop (c0 :: cs0) H).
Qed.

(* a documentation comment behind the '}' that ends the enclosing block, or
   behind a later statement on the same line, is left where it is *)
Definition plain_sig (t : tok) : bool :=
  negb (tty t =? T_NEWLINE) && negb (tty t =? T_WHITESPACE) && negb (is_comment t).

Lemma doxa_scan_stops_at_block_end : forall pre depth ended newb t post,
  Forall (fun x => tty x = T_WHITESPACE) pre ->
  plain_sig t = true ->
  (ended = true \/ (tty t = T_LIT_125 /\ depth = O)) ->
  doxa_scan depth ended [] newb (pre ++ t :: post) = ([], rev newb ++ pre ++ t :: post).
Proof.
  induction pre as [|w pre IH]; intros depth ended newb t post Hpre Ht Hstop.
  - cbn [app doxa_scan]. unfold plain_sig in Ht.
    apply andb_prop in Ht as [Ht Hc]. apply andb_prop in Ht as [Hn Hw].
    apply negb_true_iff in Hn, Hw, Hc. rewrite Hn, Hw, Hc.
    replace (ended || ((tty t =? T_LIT_125) && (depth =? 0)%nat)) with true.
    + cbn [rev]. now rewrite <- app_assoc.
    + destruct Hstop as [->|[E ->]]; [reflexivity|]. rewrite E. cbn. now rewrite orb_true_r.
  - inversion Hpre as [|? ? Hw Hpre']; subst. cbn [app doxa_scan].
    replace (tty w =? T_NEWLINE) with false by (rewrite Hw; reflexivity).
    replace (tty w =? T_WHITESPACE) with true by (rewrite Hw; reflexivity).
    rewrite (IH depth ended (w :: newb) t post Hpre' Ht Hstop). cbn [rev]. now rewrite <- app_assoc.
Qed.

Lemma doxa_scan_ws : forall pre depth ended newb rest,
  Forall (fun x => tty x = T_WHITESPACE) pre ->
  doxa_scan depth ended [] newb (pre ++ rest) = doxa_scan depth ended [] (rev pre ++ newb) rest.
Proof.
  induction pre as [|w pre IH]; intros depth ended newb rest Hpre; [reflexivity|].
  inversion Hpre as [|? ? Hw Hpre']; subst. cbn [app doxa_scan].
  replace (tty w =? T_NEWLINE) with false by (rewrite Hw; reflexivity).
  replace (tty w =? T_WHITESPACE) with true by (rewrite Hw; reflexivity).
  rewrite IH by assumption. cbn [rev]. now rewrite <- app_assoc.
Qed.

Lemma ts_eta st : mkTs (buf st) (raw st) (rfail st) = st.
Proof. now destruct st. Qed.

Theorem doc_not_carried_across_block_end_lemma st pre t post :
  buf st = (pre ++ t :: post)%list ->
  Forall (fun x => tty x = T_WHITESPACE) pre ->
  tty t = T_LIT_125 ->
  get_doxygen_after st = (None, st).
Proof.
  intros Hb Hpre Ht. unfold get_doxygen_after. rewrite Hb.
  destruct (pre ++ t :: post)%list as [|x xs] eqn:E; [destruct pre; discriminate|]. rewrite <- E.
  rewrite (doxa_scan_stops_at_block_end pre 0 false [] t post Hpre).
  - cbn [rev app]. rewrite E, <- Hb. now rewrite ts_eta.
  - unfold plain_sig, is_comment. rewrite Ht. reflexivity.
  - right. split; [exact Ht|reflexivity].
Qed.

Theorem doc_not_carried_past_next_statement_lemma st pre semi mid t post :
  buf st = (pre ++ semi :: mid ++ t :: post)%list ->
  Forall (fun x => tty x = T_WHITESPACE) pre ->
  Forall (fun x => tty x = T_WHITESPACE) mid ->
  tty semi = T_LIT_59 ->
  plain_sig t = true ->
  get_doxygen_after st = (None, st).
Proof.
  intros Hb Hpre Hmid Hs Ht. unfold get_doxygen_after. rewrite Hb.
  destruct (pre ++ semi :: mid ++ t :: post)%list as [|x xs] eqn:E; [destruct pre; discriminate|]. rewrite <- E.
  rewrite (doxa_scan_ws pre 0 false [] _ Hpre).
  cbn [doxa_scan]. unfold is_comment. rewrite Hs.
  change (T_LIT_59 =? T_NEWLINE) with false. change (T_LIT_59 =? T_WHITESPACE) with false.
  change (T_LIT_59 =? T_COMMENT_SINGLELINE) with false. change (T_LIT_59 =? T_COMMENT_MULTILINE) with false.
  cbn [orb andb]. change (T_LIT_59 =? T_LIT_125) with false. change (T_LIT_59 =? T_LIT_123) with false.
  change (T_LIT_59 =? T_LIT_59) with true. cbn [orb andb Nat.eqb].
  rewrite (doxa_scan_stops_at_block_end mid 0 true _ t post Hmid Ht (or_introl eq_refl)).
  cbn [rev]. rewrite app_nil_r, rev_involutive, <- app_assoc. cbn [app]. rewrite E, <- Hb. now rewrite ts_eta.
Qed.

(* get_doxygen_after only moves comment tokens of the current line out of the
   buffer (and may drop the line's NEWLINE token); it never changes what the
   parser will read, and never touches later lines *)
Theorem get_doxygen_after_spec_lemma st o st' :
  get_doxygen_after st = (o, st') ->
  raw st' = raw st /\ abs st' = abs st /\
  exists taken dropped,
    Permutation (buf st) (buf st' ++ taken ++ dropped) /\
    o = (match taken with [] => None | _ => extract taken end) /\
    Forall (fun t => is_comment t = true) taken /\
    Forall (fun t => tty t = T_NEWLINE) dropped.
Proof.
  unfold get_doxygen_after. destruct (buf st) as [|b0 b] eqn:Eb.
  - intros H; inversion H; subst. repeat split; auto. exists [], []. rewrite Eb. cbn. repeat split; auto.
  - destruct (doxa_scan 0 false [] [] (b0 :: b)) as [cs nb] eqn:E.
    intros H; inversion H; subst. cbn [raw buf].
    apply doxa_scan_spec in E as (taken & dropped & H1 & H2 & H3 & H4 & H5).
    cbn [rev app] in H2, H5. rewrite app_nil_r in H1. subst cs.
    split; [reflexivity|]. split.
    + unfold abs, sigs, logical in *. cbn [buf raw]. rewrite Eb, !filter_app, H5. reflexivity.
    + exists taken, dropped. repeat split; auto.
      rewrite rev_involutive. destruct taken as [|x xs]; [reflexivity|].
      destruct (rev (x :: xs)) eqn:Er; [|reflexivity].
      apply (f_equal (@length tok)) in Er. rewrite rev_length in Er. discriminate.
Qed.

(* linearity: a comment token handed to the parser by get_doxygen_after is gone *)
Theorem doxygen_after_linear st o st' taken_off :
  NoDup (map toff (logical st)) ->
  get_doxygen_after st = (o, st') ->
  forall cs, o = Some cs -> In taken_off (map toff cs) -> ~ In taken_off (map toff (logical st')).
Proof.
  intros Hnd H cs Ho Hin.
  apply get_doxygen_after_spec_lemma in H as (Hr & _ & taken & dropped & Hp & Ho' & _ & _).
  subst o. destruct taken as [|x xs]; [discriminate|].
  unfold extract in Ho. destruct (filter is_doc (x :: xs)) as [|d ds] eqn:Ef; [discriminate|].
  inversion Ho; subst cs. clear Ho.
  assert (Hin2 : In taken_off (map toff (x :: xs))).
  { rewrite <- Ef in Hin. apply in_map_iff in Hin as (t & Et & Ht). apply filter_In in Ht as [Ht _].
    apply in_map_iff. now exists t. }
  unfold logical in *. rewrite Hr.
  assert (Hperm : Permutation (map toff (buf st ++ logical_raw (raw st)))
                              (map toff ((x :: xs) ++ (buf st' ++ logical_raw (raw st)) ++ dropped))).
  { apply Permutation_map. rewrite (Permutation_app_tail (logical_raw (raw st)) Hp).
    rewrite <- !app_assoc.
    etransitivity; [apply Permutation_app_swap_app|].
    apply Permutation_app_head. apply Permutation_app_head. apply Permutation_app_comm. }
  pose proof (Permutation_NoDup Hperm Hnd) as Hnd2.
  rewrite map_app in Hnd2. intros Hbad.
  clear - Hnd2 Hin2 Hbad.
  induction (map toff (x :: xs)) as [|a l IH]; [contradiction|].
  cbn [app] in Hnd2. inversion Hnd2 as [|a0 l0 Hna Hnd3]; subst.
  destruct Hin2 as [->|Hin2].
  - apply Hna. apply in_or_app. right. rewrite map_app. apply in_or_app. now left.
  - now apply IH.
Qed.

(* ... and likewise for get_doxygen: everything it looked at is consumed *)
Theorem doxygen_linear st o st' off :
  NoDup (map toff (logical st)) ->
  get_doxygen st = SOk o st' ->
  In off (map toff (lay_prefix (logical st))) -> ~ In off (map toff (logical st')).
Proof.
  intros Hnd H Hin. apply get_doxygen_spec_lemma in H as [_ H]. rewrite H.
  rewrite (lay_split (logical st)), map_app in Hnd. intros Hbad.
  clear - Hnd Hin Hbad.
  induction (map toff (lay_prefix (logical st))) as [|a l IH]; [contradiction|].
  cbn [app] in Hnd. inversion Hnd as [|a0 l0 Hna Hnd3]; subst.
  destruct Hin as [->|Hin].
  - apply Hna. apply in_or_app. now right.
  - now apply IH.
Qed.

(* non-documentation comments contribute no text: extract keeps doc styles only *)
Lemma extract_doc_only_lemma cs l : extract cs = Some l -> Forall (fun t => is_doc t = true) l.
Proof.
  intros H. unfold extract in H. destruct (filter is_doc cs) eqn:E; [discriminate|].
  inversion H; subst. rewrite <- E. apply Forall_forall. intros x Hx. now apply filter_In in Hx.
Qed.

(* Hand-written mirror of cxxheaderparser/lexer.py: TokenStream and
   LexerTokenStream (_fill_tokbuf with line splicing and user-defined-literal
   fusion, token*, token_if*, token_peek_if, return_token(s), get_doxygen,
   get_doxygen_after).  Discard sets and the UDL table are regenerated
   (Gen/StreamTables.v).  Tied to the code by the op-trace correspondence. *)
From Coq Require Import NArith ZArith List Bool.
Import ListNotations.
From CXV Require Import Gen.TokTy Gen.StreamTables Base.Regex Gen.LexRules Lex.PlyLoop Parse.Balanced.
Open Scope N_scope.

Record tok := mkTok { tty : N; ttext : list N; toff : N; tloc : list N * Z }.

(* raw PLY tokens of a lexer run, with their offsets *)
Fixpoint raw_of_pieces (off : N) (ps : list piece) : list tok :=
  match ps with
  | [] => []
  | PTok ty t _ loc :: r => mkTok ty t off loc :: raw_of_pieces (off + N.of_nat (length t)) r
  | PIgn _ :: r => raw_of_pieces (off + 1) r
  | PDrop t :: r => raw_of_pieces (off + N.of_nat (length t)) r
  end.

Record ts := mkTs { buf : list tok; raw : list tok; rfail : bool }.

Definition T_BACKSLASH := T_LIT_92.

Definition starts_underscore (t : tok) : bool :=
  match ttext t with c :: _ => c =? 95 | [] => false end.

Definition fuse (a b : tok) : tok :=
  mkTok (match assocN (tty a) udl_type with Some u => u | None => tty a end)
        (ttext a ++ ttext b) (toff a) (tloc a).

(* _fill_tokbuf from an empty buffer: [acc] is the buffer so far (most recent
   first).  Returns (line, remaining raw, reached-end-of-raw-by-get_token). *)
Fixpoint fill_go (acc : list tok) (rw : list tok) : list tok * list tok * bool :=
  match rw with
  | [] => (rev acc, [], true)
  | t :: r =>
      if tty t =? T_NEWLINE then
        match acc with
        | b :: acc' => if tty b =? T_BACKSLASH then fill_go acc' r      (* splice: pop both *)
                       else (rev (t :: acc), r, false)
        | [] => (rev [t], r, false)
        end
      else if memN (tty t) udl_start then
        match r with
        | [] => (rev (t :: acc), [], true)
        | t2 :: r2 =>
            if (tty t2 =? T_NAME) && starts_underscore t2
            then fill_go (fuse t t2 :: acc) r2
            else fill_go (t :: acc) r
        end
      else fill_go (t :: acc) r
  end.

Inductive sres (A : Type) :=
| SOk (a : A) (st : ts)
| SEof             (* EOFError *)
| SLexErr          (* LexError raised by the underlying lexer *)
| SStuck.
Arguments SOk {A} a st. Arguments SEof {A}. Arguments SLexErr {A}. Arguments SStuck {A}.

(* first token of the buffer satisfying [keep]; everything before it is dropped *)
Fixpoint pop_keep (keep : tok -> bool) (b : list tok) : option (tok * list tok) :=
  match b with
  | [] => None
  | t :: r => if keep t then Some (t, r) else pop_keep keep r
  end.

(* the common loop of token / token_eof_ok / token_newline_eof_ok;
   None = end of input.  Fuel: one unit per refill. *)
Fixpoint next_tok (fuel : nat) (keep : tok -> bool) (st : ts) : sres (option tok) :=
  match pop_keep keep (buf st) with
  | Some (t, b') => SOk (Some t) (mkTs b' (raw st) (rfail st))
  | None =>
      match fuel with
      | O => SStuck
      | S f =>
          match raw st with
          | [] => if rfail st then SLexErr else SOk None (mkTs [] [] false)
          | _ =>
              let '(line, rw', hit) := fill_go [] (raw st) in
              if hit && rfail st then SLexErr
              else next_tok f keep (mkTs line rw' (rfail st))
          end
      end
  end.

Definition is_sig (t : tok) : bool := negb (memN (tty t) discard_types).

Fixpoint ends_nl (l : list N) : bool :=
  match l with [] => false | [c] => c =? 10 | _ :: r => ends_nl r end.

Definition is_sig_nl (t : tok) : bool :=
  negb (memN (tty t) discard_types_except_newline)
  || (negb (tty t =? T_WHITESPACE) && ends_nl (ttext t)).

Definition fuel_of (st : ts) : nat := S (length (raw st)).

Definition token_eof_ok (st : ts) : sres (option tok) := next_tok (fuel_of st) is_sig st.
Definition token_newline_eof_ok (st : ts) : sres (option tok) := next_tok (fuel_of st) is_sig_nl st.

Definition token (st : ts) : sres tok :=
  match token_eof_ok st with
  | SOk (Some t) st' => SOk t st'
  | SOk None _ => SEof
  | SEof => SEof | SLexErr => SLexErr | SStuck => SStuck
  end.

Definition push_front (t : tok) (st : ts) : ts := mkTs (t :: buf st) (raw st) (rfail st).

(* token_if / token_if_in_set / token_if_val / token_if_not share this shape *)
Definition token_if_p (p : tok -> bool) (st : ts) : sres (option tok) :=
  match token_eof_ok st with
  | SOk (Some t) st' => if p t then SOk (Some t) st' else SOk None (push_front t st')
  | r => r
  end.

Definition token_peek_if (p : tok -> bool) (st : ts) : sres bool :=
  match token_eof_ok st with
  | SOk (Some t) st' => SOk (p t) (push_front t st')
  | SOk None st' => SOk false st'
  | SEof => SEof | SLexErr => SLexErr | SStuck => SStuck
  end.

Definition return_tokens (l : list tok) (st : ts) : ts := mkTs (l ++ buf st) (raw st) (rfail st).

Definition current_location (st : ts) (lexer_loc : list N * Z) : list N * Z :=
  match buf st with t :: _ => tloc t | [] => lexer_loc end.

(* ---- documentation comments ---- *)
Definition is_comment (t : tok) : bool :=
  (tty t =? T_COMMENT_SINGLELINE) || (tty t =? T_COMMENT_MULTILINE).

Definition is_doc (t : tok) : bool :=
  if tty t =? T_COMMENT_SINGLELINE then
    starts_with [47; 47; 47] (ttext t) || starts_with [47; 47; 33] (ttext t)
  else if tty t =? T_COMMENT_MULTILINE then
    starts_with [47; 42; 42] (ttext t) || starts_with [47; 42; 33] (ttext t)
  else false.

(* _extract_comments: which tokens contribute text (None when nothing does) *)
Definition extract (cs : list tok) : option (list tok) :=
  match filter is_doc cs with [] => None | l => Some l end.

(* inner loop of get_doxygen over the buffer.  State: comments so far (most
   recent first) and [opn]: the last comment did not include the newline ending
   its line, so the next single-newline NEWLINE token only ends that line.
   Result: (comments, opn, remaining buffer, stopped at a significant token?) *)
Definition nl_clears (opn : bool) (t : tok) : bool := negb (opn && list_eqb (ttext t) [10]).

Fixpoint dox_scan (cs : list tok) (opn : bool) (b : list tok) : list tok * bool * list tok * bool :=
  match b with
  | [] => (cs, opn, [], false)
  | t :: r =>
      if tty t =? T_NEWLINE then dox_scan (if nl_clears opn t then [] else cs) false r
      else if tty t =? T_WHITESPACE then dox_scan cs opn r
      else if is_comment t then dox_scan (t :: cs) (negb (ends_nl (ttext t))) r
      else (cs, opn, b, true)
  end.

Fixpoint dox_loop (fuel : nat) (cs : list tok) (opn : bool) (st : ts) : sres (list tok) :=
  let '(cs', opn', b', stop) := dox_scan cs opn (buf st) in
  if stop then SOk cs' (mkTs b' (raw st) (rfail st))
  else
    match fuel with
    | O => SStuck
    | S f =>
        match raw st with
        | [] => if rfail st then SLexErr else SOk cs' (mkTs [] [] false)
        | _ =>
            let '(line, rw', hit) := fill_go [] (raw st) in
            if hit && rfail st then SLexErr
            else dox_loop f cs' opn' (mkTs line rw' (rfail st))
        end
    end.

Definition get_doxygen (st : ts) : sres (option (list tok)) :=
  (* `if not tokbuf and not self._fill_tokbuf(tokbuf): return None` is the first
     iteration of the loop with an empty comment list *)
  match dox_loop (fuel_of st) [] false st with
  | SOk cs st' => SOk (match cs with [] => None | _ => extract (rev cs) end) st'
  | SEof => SEof | SLexErr => SLexErr | SStuck => SStuck
  end.

(* get_doxygen_after: only the current buffer is looked at *)
Fixpoint doxa_scan (depth : nat) (ended : bool) (cs newb : list tok) (b : list tok) : list tok * list tok :=
  (* returns (comments most recent first, new buffer); depth = braces opened
     behind the declaration, ended = its ';' has been passed *)
  match b with
  | [] => (cs, rev newb)
  | t :: r =>
      if tty t =? T_NEWLINE then (cs, rev newb ++ r)
      else if tty t =? T_WHITESPACE then doxa_scan depth ended cs (t :: newb) r
      else if is_comment t then
        if is_doc t then doxa_scan depth ended (t :: cs) newb r
        else
          (* a plain comment is layout, but it ends the doc block and, when it
             runs to the end of the line, the line *)
          match cs with
          | [] => if ends_nl (ttext t) then (cs, rev (t :: newb) ++ r)
                  else doxa_scan depth ended cs (t :: newb) r
          | _ => (cs, rev (t :: newb) ++ r)
          end
      else match cs with
           | [] =>
               (* what lies behind the statement's ';' or behind the '}' of the
                  enclosing block does not trail the declaration *)
               if ended || ((tty t =? T_LIT_125) && (depth =? 0)%nat) then (cs, rev (t :: newb) ++ r)
               else if tty t =? T_LIT_123 then doxa_scan (S depth) ended cs (t :: newb) r
               else if tty t =? T_LIT_125 then doxa_scan (pred depth) ended cs (t :: newb) r
               else if (tty t =? T_LIT_59) && (depth =? 0)%nat then doxa_scan depth true cs (t :: newb) r
               else doxa_scan depth ended cs (t :: newb) r
           | _ => (cs, rev (t :: newb) ++ r)
           end
  end.

Definition get_doxygen_after (st : ts) : option (list tok) * ts :=
  match buf st with
  | [] => (None, st)
  | b =>
      let '(cs, nb) := doxa_scan 0 false [] [] b in
      (match cs with [] => None | _ => extract (rev cs) end, mkTs nb (raw st) (rfail st))
  end.

(* the stream for a source text *)
Definition stream_of (file text : list N) : ts :=
  let '(ps, o) := lex file text in
  mkTs [] (raw_of_pieces 0 ps) (match o with Done => false | _ => true end).

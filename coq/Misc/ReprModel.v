(* Model of gentest.nondefault_repr and of evaluating its output (C20), at the
   level of expression trees: dataclass values, the schema (fields with repr /
   compare flags and defaults, regenerated: Gen/Schema.v), the compact repr
   that omits default-valued and non-compared fields, and the constructor call
   semantics that fills omitted fields with their defaults. *)
From Coq Require Import NArith List Bool.
Import ListNotations.
Open Scope N_scope.

Inductive val :=
| Atom (a : N)                        (* None, bools, ints, strings: compared by identity of their repr *)
| Lst (l : list val)
| Dct (l : list (N * val))
| Obj (cls : N) (fs : list val).

Record finfo := mkF { f_repr : bool; f_cmp : bool; f_def : option val }.

Inductive expr :=
| EAtom (a : N)
| ELst (l : list expr)
| EDct (l : list (N * expr))
| ECall (cls : N) (kw : list (nat * expr)).   (* keyword arguments by field index *)

Fixpoint lookup {A} (k : N) (l : list (N * A)) : option A :=
  match l with [] => None | (x, v) :: r => if k =? x then Some v else lookup k r end.

(* helpers parameterised by the recursive functions *)
Fixpoint eq_list (r : val -> val -> bool) (la lb : list val) : bool :=
  match la, lb with
  | [], [] => true
  | x :: la', y :: lb' => r x y && eq_list r la' lb'
  | _, _ => false
  end.

Fixpoint eq_dict (r : val -> val -> bool) (la lb : list (N * val)) : bool :=
  match la, lb with
  | [], [] => true
  | (k1, x) :: la', (k2, y) :: lb' => (k1 =? k2) && r x y && eq_dict r la' lb'
  | _, _ => false
  end.

Fixpoint eq_fields (r : val -> val -> bool) (infos : list finfo) (f1 f2 : list val) : bool :=
  match infos, f1, f2 with
  | [], [], [] => true
  | i :: infos', x :: f1', y :: f2' => (if f_cmp i then r x y else true) && eq_fields r infos' f1' f2'
  | _, _, _ => false
  end.

Fixpoint repr_fields (eqd : val -> val -> bool) (rp : val -> expr) (i : nat) (infos : list finfo) (fs : list val)
  : list (nat * expr) :=
  match infos, fs with
  | inf :: infos', x :: fs' =>
      let rest := repr_fields eqd rp (S i) infos' fs' in
      if f_repr inf && f_cmp inf then
        match f_def inf with
        | Some d => if eqd x d then rest else (i, rp x) :: rest
        | None => (i, rp x) :: rest
        end
      else rest
  | _, _ => []
  end.

Fixpoint kw_get (i : nat) (kw : list (nat * expr)) : option expr :=
  match kw with [] => None | (j, e) :: r => if Nat.eqb i j then Some e else kw_get i r end.

Fixpoint eval_list (ev : expr -> option val) (l : list expr) : option (list val) :=
  match l with
  | [] => Some []
  | x :: r => match ev x, eval_list ev r with Some v, Some vs => Some (v :: vs) | _, _ => None end
  end.

Fixpoint eval_dict (ev : expr -> option val) (l : list (N * expr)) : option (list (N * val)) :=
  match l with
  | [] => Some []
  | (k, x) :: r => match ev x, eval_dict ev r with Some v, Some vs => Some ((k, v) :: vs) | _, _ => None end
  end.

Fixpoint eval_fields (ev : expr -> option val) (kw : list (nat * expr)) (i : nat) (infos : list finfo) : option (list val) :=
  match infos with
  | [] => Some []
  | inf :: infos' =>
      let here := match kw_get i kw with
                  | Some x => ev x
                  | None => f_def inf          (* missing required argument: TypeError *)
                  end in
      match here, eval_fields ev kw (S i) infos' with Some v, Some vs => Some (v :: vs) | _, _ => None end
  end.

Section WithSchema.
  Variable schema : list (N * list finfo).

  (* dataclass __eq__: same class, compare=True fields equal; lists/dicts pointwise *)
  Fixpoint veq (fuel : nat) (a b : val) : bool :=
    match fuel with
    | O => false
    | S f =>
        match a, b with
        | Atom x, Atom y => x =? y
        | Lst la, Lst lb => eq_list (veq f) la lb
        | Dct la, Dct lb => eq_dict (veq f) la lb
        | Obj c1 f1, Obj c2 f2 =>
            (c1 =? c2) &&
            match lookup c1 schema with
            | None => false
            | Some infos => eq_fields (veq f) infos f1 f2
            end
        | _, _ => false
        end
    end.

  (* nondefault_repr: fields with repr and compare whose value differs from the default *)
  Fixpoint nrepr (fuel : nat) (v : val) : expr :=
    match fuel with
    | O => EAtom 0
    | S f =>
        match v with
        | Atom a => EAtom a
        | Lst l => ELst (map (nrepr f) l)
        | Dct l => EDct (map (fun kv => (fst kv, nrepr f (snd kv))) l)
        | Obj c fs =>
            match lookup c schema with
            | None => EAtom 0
            | Some infos => ECall c (repr_fields (veq f) (nrepr f) O infos fs)
            end
        end
    end.

  (* evaluating the expression: a constructor call fills omitted fields with defaults *)
  Fixpoint eval (fuel : nat) (e : expr) : option val :=
    match fuel with
    | O => None
    | S f =>
        match e with
        | EAtom a => Some (Atom a)
        | ELst l => option_map Lst (eval_list (eval f) l)
        | EDct l => option_map Dct (eval_dict (eval f) l)
        | ECall c kw =>
            match lookup c schema with
            | None => None
            | Some infos => option_map (Obj c) (eval_fields (eval f) kw O infos)
            end
        end
    end.
End WithSchema.

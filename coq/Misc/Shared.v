(* C15: parses are isolated.  A history is an arbitrary interleaving of steps
   of many parses (sequential, nested from callbacks, concurrent).  The model
   records WHERE each step may read and write: its own private state and,
   read-only, the state shared by all parses (lexer prototype, PhonyEnding,
   class-level tables, null_visitor).  That no step writes the shared state is
   not assumed silently: it is the recomputed AST fact
   fact_shared_objects_never_stored_to, cross-checked at run time by snapshots. *)
From Coq Require Import NArith List Bool.
Import ListNotations.
Open Scope N_scope.

Section Isolation.
  Variables Shared Priv Op : Type.
  Variable init : Shared -> N -> Priv.               (* CxxParser(...) for parse number i: clones the prototype *)
  Variable step : Shared -> Priv -> Op -> Priv.      (* one step of one parse *)

  Definition world : Type := N -> option Priv.

  Definition upd (w : world) (i : N) (p : Priv) : world := fun j => if j =? i then Some p else w j.

  (* events: parse i starts; parse i takes a step *)
  Inductive ev := Start (i : N) | Step (i : N) (o : Op).

  Definition apply (sh : Shared) (w : world) (e : ev) : world :=
    match e with
    | Start i => upd w i (init sh i)
    | Step i o => match w i with Some p => upd w i (step sh p o) | None => w end
    end.

  Definition run (sh : Shared) (h : list ev) : world := fold_left (apply sh) h (fun _ => None).

  (* the events of parse i, in order *)
  Definition mine (i : N) (e : ev) : bool :=
    match e with Start j => j =? i | Step j _ => j =? i end.

  Lemma apply_other sh w e i : mine i e = false -> apply sh w e i = w i.
  Proof.
    destruct e as [j|j o]; cbn [mine apply]; intros H.
    - unfold upd. rewrite N.eqb_sym in H. now rewrite H.
    - destruct (w j); [|reflexivity]. unfold upd. rewrite N.eqb_sym in H. now rewrite H.
  Qed.

  Lemma apply_mine sh w w' e i : mine i e = true -> w i = w' i -> apply sh w e i = apply sh w' e i.
  Proof.
    destruct e as [j|j o]; cbn [mine apply]; intros H E; apply N.eqb_eq in H; subst j.
    - unfold upd. now rewrite N.eqb_refl.
    - rewrite <- E. destruct (w i) eqn:Ew; [|now rewrite <- E]. unfold upd. now rewrite N.eqb_refl.
  Qed.

  (* isolation: whatever else happens in the history - earlier parses,
     failed ones, parses nested in callbacks, interleaved threads - the state
     of parse i is the state it reaches when run alone *)
  Theorem isolation_lemma sh : forall (h : list ev) (i : N),
    run sh h i = run sh (filter (mine i) h) i.
  Proof.
    intros h i. unfold run.
    assert (G : forall h w w', w i = w' i ->
              fold_left (apply sh) h w i = fold_left (apply sh) (filter (mine i) h) w' i).
    { clear h. induction h as [|e h IH]; intros w w' E; [exact E|].
      cbn [fold_left filter]. destruct (mine i e) eqn:M.
      - cbn [fold_left]. apply IH. now apply apply_mine.
      - apply IH. rewrite (apply_other sh w e i M). exact E. }
    now apply G.
  Qed.
End Isolation.

(* the lexer prototype: every PlyLexer works on a clone of the prototype built
   once; a clone of a never-advanced prototype is a fresh lexer *)
Record lexrec := mkLex { lx_pos : N; lx_line : N; lx_data : option (list N) }.
Definition fresh_lexer : lexrec := mkLex 0 1 None.
Definition clone (proto : lexrec) : lexrec := mkLex (lx_pos proto) (lx_line proto) (lx_data proto).

Lemma clone_is_fresh_lemma proto : proto = fresh_lexer -> clone proto = fresh_lexer.
Proof. intros ->. reflexivity. Qed.

(* C18: convert_void_to_zero_params.  Source-level type trees carry the
   parameter lists as written; [build opt] is what _parse_parameters makes of
   them bottom-up (its conversion step is pinned by text in gen_facts.py and is
   the only reader of the option); [zero_void] is the documented effect. *)
From Coq Require Import NArith List Bool.
Import ListNotations.
Open Scope N_scope.

Inductive ty :=
| TName (segments : nat) (name : N) (cv : bool)   (* Type(PQName); name 0 = void *)
| TPtr (t : ty)
| TRef (t : ty)
| TArr (t : ty)
| TFn (ret : ty) (params : list (ty * bool)).       (* parameter type, has a name? *)

(* isinstance(p0_type, Type) and one segment and its name == "void" *)
Definition is_void (t : ty) : bool :=
  match t with TName 1 0 _ => true | _ => false end.

Definition convert (opt : bool) (ps : list (ty * bool)) : list (ty * bool) :=
  match ps with
  | [(t, _)] => if opt && is_void t then [] else ps
  | _ => ps
  end.

Fixpoint build (opt : bool) (t : ty) : ty :=
  match t with
  | TName s n c => TName s n c
  | TPtr t' => TPtr (build opt t')
  | TRef t' => TRef (build opt t')
  | TArr t' => TArr (build opt t')
  | TFn r ps => TFn (build opt r) (convert opt (map (fun p => (build opt (fst p), snd p)) ps))
  end.

(* the documented effect: every parameter list that is a lone void becomes empty *)
Fixpoint zero_void (t : ty) : ty :=
  match t with
  | TName s n c => TName s n c
  | TPtr t' => TPtr (zero_void t')
  | TRef t' => TRef (zero_void t')
  | TArr t' => TArr (zero_void t')
  | TFn r ps => TFn (zero_void r) (convert true (map (fun p => (zero_void (fst p), snd p)) ps))
  end.

Section Ind.
  Variable P : ty -> Prop.
  Hypothesis HN : forall s n c, P (TName s n c).
  Hypothesis HP : forall t, P t -> P (TPtr t).
  Hypothesis HR : forall t, P t -> P (TRef t).
  Hypothesis HA : forall t, P t -> P (TArr t).
  Hypothesis HF : forall r ps, P r -> Forall (fun p => P (fst p)) ps -> P (TFn r ps).

  Fixpoint ty_ind' (t : ty) : P t :=
    match t with
    | TName s n c => HN s n c
    | TPtr t' => HP t' (ty_ind' t')
    | TRef t' => HR t' (ty_ind' t')
    | TArr t' => HA t' (ty_ind' t')
    | TFn r ps =>
        HF r ps (ty_ind' r)
           ((fix go (l : list (ty * bool)) : Forall (fun p => P (fst p)) l :=
               match l with
               | [] => Forall_nil _
               | p :: l' => Forall_cons p (ty_ind' (fst p)) (go l')
               end) ps)
    end.
End Ind.

Lemma build_false_id : forall t, build false t = t.
Proof.
  induction t using ty_ind'; cbn [build]; try congruence.
  rewrite IHt. f_equal. unfold convert.
  assert (E : map (fun p => (build false (fst p), snd p)) ps = ps).
  { induction H as [|[a b] l Ha _ IHl]; [reflexivity|]. cbn [map fst snd] in *. now rewrite Ha, IHl. }
  rewrite E. destruct ps as [|[a b] [|q l]]; reflexivity.
Qed.

Lemma is_void_build opt t : is_void (build opt t) = is_void t.
Proof. destruct t; reflexivity. Qed.

(* void_option_exact: enabling the option changes the result exactly by
   emptying lone-void parameter lists, at every nesting level *)
Theorem void_option_exact_lemma : forall t, build true t = zero_void (build false t).
Proof.
  intros t. rewrite build_false_id.
  induction t using ty_ind'; cbn [build zero_void]; try congruence.
  rewrite IHt. f_equal. f_equal.
  induction H as [|[a b] l Ha _ IHl]; [reflexivity|]. cbn [map fst snd] in *. now rewrite Ha, IHl.
Qed.

(* C20: evaluating the compact repr reconstructs an equal value. *)
From Coq Require Import NArith List Bool Lia PeanoNat.
Import ListNotations.
From CXV Require Import Misc.ReprModel Gen.Schema.
Open Scope N_scope.

(* schema side conditions (checked on the regenerated schema): a compared
   field is printed, and a field that is never printed has a default *)
Definition finfo_ok (i : finfo) : bool :=
  (negb (f_cmp i) || f_repr i) &&
  ((f_repr i && f_cmp i) || match f_def i with Some _ => true | None => false end).

Definition schema_ok (s : list (N * list finfo)) : bool :=
  forallb (fun ci => forallb finfo_ok (snd ci)) s.

Lemma schema_ok_true : schema_ok schema = true.
Proof. vm_compute. reflexivity. Qed.

Section Thms.
  Variable sch : list (N * list finfo).
  Hypothesis Hok : schema_ok sch = true.

  Lemma lookup_in {A} k (l : list (N * A)) v : lookup k l = Some v -> In (k, v) l.
  Proof.
    induction l as [|[x y] l IH]; cbn [lookup]; [discriminate|].
    destruct (N.eqb_spec k x) as [->|]; intros H; [inversion H; subst; now left|right; auto].
  Qed.

  Lemma infos_ok c infos : lookup c sch = Some infos -> forallb finfo_ok infos = true.
  Proof.
    intros H. apply lookup_in in H. unfold schema_ok in Hok. rewrite forallb_forall in Hok.
    exact (Hok _ H).
  Qed.

  (* well-typed values of depth at most n *)
  Inductive wt : nat -> val -> Prop :=
  | wt_atom n a : wt (S n) (Atom a)
  | wt_lst n l : Forall (wt n) l -> wt (S n) (Lst l)
  | wt_dct n l : Forall (fun kv => wt n (snd kv)) l -> wt (S n) (Dct l)
  | wt_obj n c fs infos : lookup c sch = Some infos -> length fs = length infos ->
      Forall (wt n) fs -> wt (S n) (Obj c fs).

  Definition good (f : nat) (x : val) : Prop :=
    exists x', eval sch f (nrepr sch f x) = Some x' /\ veq sch f x x' = true.

  Lemma list_good f l : Forall (good f) l ->
    exists l', eval_list (eval sch f) (map (nrepr sch f) l) = Some l' /\ eq_list (veq sch f) l l' = true.
  Proof.
    induction 1 as [|x l [x' [E V]] _ [l' [El Vl]]]; [exists []; split; reflexivity|].
    exists (x' :: l'). cbn [map eval_list eq_list]. rewrite E, El, V, Vl. split; reflexivity.
  Qed.

  Lemma dict_good f l : Forall (fun kv => good f (snd kv)) l ->
    exists l', eval_dict (eval sch f) (map (fun kv => (fst kv, nrepr sch f (snd kv))) l) = Some l' /\
               eq_dict (veq sch f) l l' = true.
  Proof.
    induction 1 as [|[k x] l [x' [E V]] _ [l' [El Vl]]]; [exists []; split; reflexivity|].
    exists ((k, x') :: l'). cbn [map eval_dict eq_dict fst snd] in *. rewrite E, El, V, Vl, N.eqb_refl. split; reflexivity.
  Qed.

  Lemma repr_fields_ge eqd rp : forall infos fs i j e,
    In (j, e) (repr_fields eqd rp i infos fs) -> (i <= j)%nat.
  Proof.
    induction infos as [|inf infos IH]; intros fs i j e H; [destruct fs; contradiction|].
    destruct fs as [|x fs]; [contradiction|]. cbn [repr_fields] in H.
    assert (Hrest : In (j, e) (repr_fields eqd rp (S i) infos fs) -> (i <= j)%nat).
    { intros H'. apply IH in H'. lia. }
    destruct (f_repr inf && f_cmp inf); [|auto].
    destruct (f_def inf) as [d|].
    - destruct (eqd x d); [auto|]. destruct H as [H|H]; [inversion H; lia|auto].
    - destruct H as [H|H]; [inversion H; lia|auto].
  Qed.

  Lemma kw_get_none i kw : (forall j e, In (j, e) kw -> (S i <= j)%nat) -> kw_get i kw = None.
  Proof.
    induction kw as [|[j e] kw IH]; intros H; [reflexivity|]. cbn [kw_get].
    assert (Hj : (S i <= j)%nat) by (apply (H j e); now left).
    destruct (Nat.eqb_spec i j); [lia|]. apply IH. intros j' e' Hin. apply (H j' e'). now right.
  Qed.

  Lemma eval_fields_skip ev i e kw : forall infos j, (i < j)%nat ->
    eval_fields ev ((i, e) :: kw) j infos = eval_fields ev kw j infos.
  Proof.
    induction infos as [|inf infos IH]; intros j Hj; [reflexivity|]. cbn [eval_fields kw_get].
    destruct (Nat.eqb_spec j i); [lia|]. rewrite IH by lia. reflexivity.
  Qed.

  Lemma fields_good f : forall infos fs i,
    forallb finfo_ok infos = true -> length fs = length infos -> Forall (good f) fs ->
    exists fs', eval_fields (eval sch f) (repr_fields (veq sch f) (nrepr sch f) i infos fs) i infos = Some fs' /\
                eq_fields (veq sch f) infos fs fs' = true.
  Proof.
    induction infos as [|inf infos IH]; intros fs i Hf Hl Hg.
    - destruct fs; [|discriminate]. exists []. split; reflexivity.
    - destruct fs as [|x fs]; [discriminate|]. cbn [length] in Hl. injection Hl as Hl.
      cbn [forallb] in Hf. apply andb_prop in Hf as [Hinf Hf].
      inversion Hg as [|? ? [x' [Ex Vx]] Hg']; subst.
      destruct (IH fs (S i) Hf Hl Hg') as [fs' [Efs Vfs]].
      unfold finfo_ok in Hinf. apply andb_prop in Hinf as [H1 H2].
      cbn [repr_fields eval_fields eq_fields].
      set (rest := repr_fields (veq sch f) (nrepr sch f) (S i) infos fs) in *.
      assert (Hnone : kw_get i rest = None).
      { apply kw_get_none. intros j e Hin. exact (repr_fields_ge _ _ _ _ _ _ _ Hin). }
      destruct (f_repr inf && f_cmp inf) eqn:Erc.
      + (* printable field *)
        apply andb_prop in Erc as [Er Ec]. rewrite Ec.
        destruct (f_def inf) as [d|] eqn:Ed.
        * destruct (veq sch f x d) eqn:Exd.
          -- (* omitted: the default is filled in *)
             rewrite Hnone, Efs. exists (d :: fs'). rewrite Exd, Vfs. split; reflexivity.
          -- cbn [kw_get]. rewrite Nat.eqb_refl, Ex, (eval_fields_skip _ _ _ _ _ _ (Nat.lt_succ_diag_r i)), Efs.
             exists (x' :: fs'). rewrite Vx, Vfs. split; reflexivity.
        * cbn [kw_get]. rewrite Nat.eqb_refl, Ex, (eval_fields_skip _ _ _ _ _ _ (Nat.lt_succ_diag_r i)), Efs.
          exists (x' :: fs'). rewrite Vx, Vfs. split; reflexivity.
      + (* never printed: has a default and is not compared *)
        cbn [orb] in H2. destruct (f_def inf) as [d|]; [|discriminate].
        rewrite Hnone, Efs. exists (d :: fs').
        assert (Ec : f_cmp inf = false).
        { destruct (f_cmp inf) eqn:E; [|reflexivity]. cbn [negb orb] in H1. rewrite H1 in Erc. discriminate. }
        rewrite Ec, Vfs. split; reflexivity.
  Qed.

  (* repr_eval_roundtrip: for every well-typed value of any depth *)
  Theorem repr_eval_roundtrip_lemma : forall n v, wt n v -> good n v.
  Proof.
    induction n as [|n IH]; intros v H; [inversion H|].
    inversion H as [? a|? l Hl|? l Hl|? c fs infos Hc Hlen Hfs]; subst; unfold good; cbn [nrepr eval veq].
    - exists (Atom a). split; [reflexivity|apply N.eqb_refl].
    - destruct (list_good n l) as [l' [E V]].
      { eapply Forall_impl; [|exact Hl]. intros x Hx. now apply IH. }
      exists (Lst l'). rewrite E. split; [reflexivity|exact V].
    - destruct (dict_good n l) as [l' [E V]].
      { eapply Forall_impl; [|exact Hl]. intros x Hx. now apply IH. }
      exists (Dct l'). rewrite E. split; [reflexivity|exact V].
    - rewrite Hc. cbn [eval]. rewrite Hc.
      destruct (fields_good n infos fs O (infos_ok c infos Hc) Hlen) as [fs' [E V]].
      { eapply Forall_impl; [|exact Hfs]. intros x Hx. now apply IH. }
      exists (Obj c fs'). rewrite E. split; [reflexivity|]. now rewrite N.eqb_refl, V.
  Qed.
End Thms.

(* Single entry point of the extracted model: numbers in, numbers out.
   All encoding/decoding of cases lives here (Coq) and in harness/*.py;
   the OCaml driver only converts ints <-> N and prints. *)
From Coq Require Import NArith List Bool.
Import ListNotations.
From Coq Require Import ZArith.
From CXV Require Import Gen.TokTy Gen.ParserTables Parse.Balanced Gen.Blocks Parse.BlocksSM.
From CXV Require Import Base.Regex Gen.LexRules Lex.PlyLoop.
Open Scope N_scope.

Definition nlen {A} (l : list A) : N := N.of_nat (length l).

Fixpoint take {A} (n : nat) (l : list A) : list A :=
  match n, l with O, _ => [] | _, [] => [] | S k, x :: r => x :: take k r end.
Fixpoint drop {A} (n : nat) (l : list A) : list A :=
  match n, l with O, _ => l | _, [] => [] | S k, _ :: r => drop k r end.

Definition idN (x : N) : N := x.

Definition enc_res (r : res (list N * list N)) : list N :=
  match r with
  | Ok (c, rest) => [0; nlen c; nlen rest]
  | ErrEOF => [1]
  | ErrUnexpected t => [2; t]
  | ErrInternal => [3]
  end.

Definition kind_of (n : N) : kind := match n with 0 => KNs | 1 => KExtern | _ => KClass end.
Definition kind_code (k : kind) : N := match k with KNs => 0 | KExtern => 1 | KClass => 2 end.

Fixpoint dec_evs (fuel : nat) (l : list N) : list ev :=
  match fuel with
  | O => []
  | S f =>
      match l with
      | 1 :: k :: a :: r => EvOpen (kind_of k) a :: dec_evs f r
      | 2 :: r => EvClose :: dec_evs f r
      | 3 :: c :: r => EvItem c :: dec_evs f r
      | 4 :: a :: r => EvAccess a :: dec_evs f r
      | _ => []
      end
  end.

Fixpoint enc_cbs (l : list cb) : list N :=
  match l with
  | [] => []
  | CbParseStart id :: r => 0 :: id :: enc_cbs r
  | CbStart k id par :: r => 1 :: kind_code k :: id :: par :: enc_cbs r
  | CbEnd k id :: r => 2 :: kind_code k :: id :: enc_cbs r
  | CbItem c id a :: r => 3 :: c :: id :: a :: enc_cbs r
  end.

Definition status_code (s : status) : N :=
  match s with Running => 0 | ErrRootPop => 1 | ErrAccessOutsideClass => 2 | ErrStuck => 3 end.

Definition run_blocks (args : list N) : list N :=
  match args with
  | n :: r =>
      let k := N.to_nat n in
      let skips := take k r in
      let evs := dec_evs (length r) (drop k r) in
      let m := run (fun id => memN id skips) evs in
      enc_cbs (stream m) ++ [9; status_code (st m)]
  | [] => [99]
  end.

Definition sumN (l : list N) : N := fold_left N.add l 0.
Definition enc_Z (z : Z) : list N := match z with Z0 => [0; 0] | Zpos p => [0; Npos p] | Zneg p => [1; Npos p] end.
Definition enc_loc (l : list N * Z) : list N := enc_Z (snd l) ++ [nlen (fst l); sumN (fst l)].

Fixpoint enc_pieces (off : N) (ps : list piece) : list N :=
  match ps with
  | [] => []
  | PTok ty t line loc :: r => (1 :: ty :: off :: nlen t :: line :: enc_loc loc) ++ enc_pieces (off + nlen t) r
  | PIgn _ :: r => enc_pieces (off + 1) r
  | PDrop t :: r => enc_pieces (off + nlen t) r
  end.

Definition run_lex (args : list N) : list N :=
  match args with
  | n :: r =>
      let k := N.to_nat n in
      let '(ps, o) := lex (take k r) (drop k r) in
      enc_pieces 0 ps ++
      match o with
      | Done => [8]
      | Failed kind loc t => 9 :: kind :: nlen t :: enc_loc loc
      | OutOfFuel => [7]
      end
  | [] => [99]
  end.

Definition run_case (cmd : N) (args : list N) : list N :=
  match cmd, args with
  | 20, _ => run_lex args
  | 10, _ => run_blocks args
  | 1, s :: e :: toks =>
      match discard idN s e 1 toks with
      | Ok rest => [0; nlen rest]
      | ErrEOF => [1] | ErrUnexpected t => [2; t] | ErrInternal => [3]
      end
  | 2, n :: r =>
      let k := N.to_nat n in
      enc_res (consume_balanced idN (take k r) (drop k r))
  | 3, n :: r =>
      let k := N.to_nat n in
      enc_res (consume_value_until idN (take k r) (drop k r))
  | _, _ => [99]
  end.

(* Single entry point of the extracted model: numbers in, numbers out.
   All encoding/decoding of cases lives here (Coq) and in harness/*.py;
   the OCaml driver only converts ints <-> N and prints. *)
From Coq Require Import NArith List Bool.
Import ListNotations.
From CXV Require Import Gen.TokTy Gen.ParserTables Parse.Balanced.
Open Scope N_scope.

Definition nlen {A} (l : list A) : N := N.of_nat (length l).

Fixpoint take {A} (n : nat) (l : list A) : list A :=
  match n, l with O, _ => [] | _, [] => [] | S k, x :: r => x :: take k r end.
Fixpoint drop {A} (n : nat) (l : list A) : list A :=
  match n, l with O, _ => l | _, [] => [] | S k, _ :: r => drop k r end.

Definition idN (x : N) : N := x.

Definition enc_res (r : res (list N * list N)) : list N :=
  match r with
  | Ok (c, rest) => [0; nlen c; nlen rest]
  | ErrEOF => [1]
  | ErrUnexpected t => [2; t]
  | ErrInternal => [3]
  end.

Definition run_case (cmd : N) (args : list N) : list N :=
  match cmd, args with
  | 1, s :: e :: toks =>
      match discard idN s e 1 toks with
      | Ok rest => [0; nlen rest]
      | ErrEOF => [1] | ErrUnexpected t => [2; t] | ErrInternal => [3]
      end
  | 2, n :: r =>
      let k := N.to_nat n in
      enc_res (consume_balanced idN (take k r) (drop k r))
  | 3, n :: r =>
      let k := N.to_nat n in
      enc_res (consume_value_until idN (take k r) (drop k r))
  | _, _ => [99]
  end.

(* Single entry point of the extracted model: numbers in, numbers out.
   All encoding/decoding of cases lives here (Coq) and in harness/*.py;
   the OCaml driver only converts ints <-> N and prints. *)
From Coq Require Import NArith List Bool.
Import ListNotations.
From Coq Require Import ZArith.
From CXV Require Import Gen.TokTy Gen.ParserTables Parse.Balanced Gen.Blocks Parse.BlocksSM.
From CXV Require Import Base.Regex Base.Cost Gen.LexRules Lex.PlyLoop Gen.StreamTables Stream.TokBuf Fmt.TokFmt PP.Filters Misc.ReprModel Gen.Schema Parse.Fold Parse.Declarator Parse.DeclSpec Parse.EnumList Parse.BaseClause Parse.NsHeader Parse.Specs Parse.VarStmt Parse.FnTail Parse.Init Parse.Members Parse.MethodTail Parse.Template Parse.PQName Parse.Using Parse.EnumDecl Parse.ClassEnum Parse.TemplateArg Parse.CtorDtor Parse.ParamsX Parse.DeclStmt Parse.TemplateStmt Parse.MemberStmt Parse.OpName.
From CXV Require Parse.DispatchLang Gen.Dispatch Parse.FinishClass Parse.ConvOp Parse.OperatorMember Parse.OperatorFn Parse.MethodImpl Parse.TemplateInst Parse.FriendStmt Parse.Bodies Parse.ClassDef.
From CXV Require Parse.Requires.
Open Scope N_scope.

Definition nlen {A} (l : list A) : N := N.of_nat (length l).

Fixpoint take {A} (n : nat) (l : list A) : list A :=
  match n, l with O, _ => [] | _, [] => [] | S k, x :: r => x :: take k r end.
Fixpoint drop {A} (n : nat) (l : list A) : list A :=
  match n, l with O, _ => l | _, [] => [] | S k, _ :: r => drop k r end.

Definition idN (x : N) : N := x.

Definition enc_res (r : res (list N * list N)) : list N :=
  match r with
  | Ok (c, rest) => [0; nlen c; nlen rest]
  | ErrEOF => [1]
  | ErrUnexpected t => [2; t]
  | ErrInternal => [3]
  end.

Definition kind_of (n : N) : kind := match n with 0 => KNs | 1 => KExtern | _ => KClass end.
Definition kind_code (k : kind) : N := match k with KNs => 0 | KExtern => 1 | KClass => 2 end.

Fixpoint dec_evs (fuel : nat) (l : list N) : list ev :=
  match fuel with
  | O => []
  | S f =>
      match l with
      | 1 :: k :: a :: r => EvOpen (kind_of k) a :: dec_evs f r
      | 2 :: r => EvClose :: dec_evs f r
      | 3 :: c :: r => EvItem c :: dec_evs f r
      | 4 :: a :: r => EvAccess a :: dec_evs f r
      | _ => []
      end
  end.

Fixpoint enc_cbs (l : list cb) : list N :=
  match l with
  | [] => []
  | CbParseStart id :: r => 0 :: id :: enc_cbs r
  | CbStart k id par :: r => 1 :: kind_code k :: id :: par :: enc_cbs r
  | CbEnd k id :: r => 2 :: kind_code k :: id :: enc_cbs r
  | CbItem c id a :: r => 3 :: c :: id :: a :: enc_cbs r
  end.

Definition status_code (s : status) : N :=
  match s with Running => 0 | ErrRootPop => 1 | ErrAccessOutsideClass => 2 | ErrStuck => 3 end.

Definition run_blocks (args : list N) : list N :=
  match args with
  | n :: r =>
      let k := N.to_nat n in
      let skips := take k r in
      let evs := dec_evs (length r) (drop k r) in
      let m := run (fun id => memN id skips) evs in
      enc_cbs (stream m) ++ [9; status_code (st m)]
  | [] => [99]
  end.

Definition sumN (l : list N) : N := fold_left N.add l 0.
Definition enc_Z (z : Z) : list N := match z with Z0 => [0; 0] | Zpos p => [0; Npos p] | Zneg p => [1; Npos p] end.
Definition enc_loc (l : list N * Z) : list N := enc_Z (snd l) ++ [nlen (fst l); sumN (fst l)].

Fixpoint enc_pieces (off : N) (ps : list piece) : list N :=
  match ps with
  | [] => []
  | PTok ty t line loc :: r => (1 :: ty :: off :: nlen t :: line :: enc_loc loc) ++ enc_pieces (off + nlen t) r
  | PIgn _ :: r => enc_pieces (off + 1) r
  | PDrop t :: r => enc_pieces (off + nlen t) r
  end.

Definition run_lex (args : list N) : list N :=
  match args with
  | n :: r =>
      let k := N.to_nat n in
      let '(ps, o) := lex (take k r) (drop k r) in
      enc_pieces 0 ps ++
      match o with
      | Done => [8]
      | Failed kind loc t => 9 :: kind :: nlen t :: enc_loc loc
      | OutOfFuel => [7]
      end
  | [] => [99]
  end.

(* ---- op traces over the token stream ---- *)
Record ist := mkI { i_ts : ts; i_seen : list tok; i_loc : list N * Z }.

Fixpoint find_off (o : N) (l : list tok) : option tok :=
  match l with [] => None | t :: r => if toff t =? o then Some t else find_off o r end.

Fixpoint lastloc (d : list N * Z) (l : list tok) : list N * Z :=
  match l with [] => d | t :: r => lastloc (tloc t) r end.

Definition upd (i : ist) (st' : ts) (newtok : option tok) : ist :=
  let consumed := take (length (raw (i_ts i)) - length (raw st')) (raw (i_ts i)) in
  mkI st' (match newtok with Some t => t :: i_seen i | None => i_seen i end) (lastloc (i_loc i) consumed).

(* lists are length-prefixed *)
Definition split_n (l : list N) : list N * list N :=
  match l with n :: r => (take (N.to_nat n) r, drop (N.to_nat n) r) | [] => ([], []) end.

Fixpoint split_strs (k : nat) (l : list N) : list (list N) * list N :=
  match k with
  | O => ([], l)
  | S k' => let '(x, r) := split_n l in let '(xs, r') := split_strs k' r in (x :: xs, r')
  end.

Fixpoint mem_str (w : list N) (l : list (list N)) : bool :=
  match l with [] => false | x :: r => if list_eqb w x then true else mem_str w r end.

Definition enc_optres (r : sres (option tok)) (i : ist) : list N * ist :=
  match r with
  | SOk (Some t) st' => ([1; toff t; tty t], upd i st' (Some t))
  | SOk None st' => ([0], upd i st' None)
  | SEof => ([2], i) | SLexErr => ([3], i) | SStuck => ([4], i)
  end.

Definition enc_dox (o : option (list tok)) : list N :=
  match o with None => [0] | Some l => 1 :: nlen l :: map toff l end.

(* one op: returns (response, new state, remaining op encoding) *)
Definition do_op (i : ist) (l : list N) : list N * ist * list N :=
  match l with
  | 1 :: r =>
      match token (i_ts i) with
      | SOk t st' => ([1; toff t; tty t], upd i st' (Some t), r)
      | SEof => ([2], i, r) | SLexErr => ([3], i, r) | SStuck => ([4], i, r)
      end
  | 2 :: r => let '(o, i') := enc_optres (token_eof_ok (i_ts i)) i in (o, i', r)
  | 3 :: r => let '(o, i') := enc_optres (token_newline_eof_ok (i_ts i)) i in (o, i', r)
  | 4 :: r => let '(tys, r') := split_n r in
              let '(o, i') := enc_optres (token_if_p (fun t => memN (tty t) tys) (i_ts i)) i in (o, i', r')
  | 5 :: n :: r => let '(vals, r') := split_strs (N.to_nat n) r in
              let '(o, i') := enc_optres (token_if_p (fun t => mem_str (ttext t) vals) (i_ts i)) i in (o, i', r')
  | 6 :: r => let '(tys, r') := split_n r in
              let '(o, i') := enc_optres (token_if_p (fun t => negb (memN (tty t) tys)) (i_ts i)) i in (o, i', r')
  | 7 :: r => let '(tys, r') := split_n r in
              match token_peek_if (fun t => memN (tty t) tys) (i_ts i) with
              | SOk b st' => ([if b then 1 else 0], upd i st' None, r')
              | SEof => ([2], i, r') | SLexErr => ([3], i, r') | SStuck => ([4], i, r')
              end
  | 8 :: r => let '(offs, r') := split_n r in
              let toks := flat_map (fun o => match find_off o (i_seen i) with Some t => [t] | None => [] end) offs in
              if Nat.eqb (length toks) (length offs)
              then ([0], mkI (return_tokens toks (i_ts i)) (i_seen i) (i_loc i), r')
              else ([5], i, r')
  | 9 :: r =>
      match get_doxygen (i_ts i) with
      | SOk o st' => (enc_dox o, upd i st' None, r)
      | SEof => ([2], i, r) | SLexErr => ([3], i, r) | SStuck => ([4], i, r)
      end
  | 10 :: r => let '(o, st') := get_doxygen_after (i_ts i) in (enc_dox o, upd i st' None, r)
  | 11 :: r => (enc_loc (current_location (i_ts i) (i_loc i)), i, r)
  | _ => ([98], i, [])
  end.

Fixpoint do_ops (fuel : nat) (i : ist) (l : list N) : list N :=
  match fuel with
  | O => []
  | S f =>
      match l with
      | [] => []
      | _ => let '(o, i', r) := do_op i l in (77 :: o) ++ do_ops f i' r
      end
  end.

(* args: file (len-prefixed), text (len-prefixed), ops *)
Definition run_stream (args : list N) : list N :=
  let '(file, r) := split_n args in
  let '(text, ops) := split_n r in
  let st := stream_of file text in
  do_ops (length ops) (mkI st [] (file, 1%Z)) ops.

(* args: cap, text -> [steps] (capped) *)
Definition run_lexcost (args : list N) : list N :=
  match args with
  | cap :: text => [lex_cost cap (map fst rules) (length text) text 0]
  | [] => [99]
  end.

(* tokfmt: args = n, then n times (type, len-prefixed text) -> formatted text *)
Fixpoint dec_vtoks (k : nat) (l : list N) : list vtok :=
  match k with
  | O => []
  | S k' => match l with
            | ty :: r => let '(txt, r') := split_n r in (ty, txt) :: dec_vtoks k' r'
            | [] => []
            end
  end.

Definition run_tokfmt (args : list N) : list N :=
  match args with n :: r => tokfmt (dec_vtoks (N.to_nat n) r) | [] => [99] end.

(* filters: args = kind (1 gcc, 2 pcpp, 3 msvc), fname (len-prefixed), nlines, lines (len-prefixed each)
   -> kept lines, len-prefixed *)
Fixpoint enc_lines (l : list (list N)) : list N :=
  match l with [] => [] | x :: r => (nlen x :: x) ++ enc_lines r end.

Definition run_filter (args : list N) : list N :=
  match args with
  | kind :: r =>
      let '(fname, r1) := split_n r in
      match r1 with
      | n :: r2 =>
          let '(lines, _) := split_strs (N.to_nat n) r2 in
          let out := match kind with
                     | 1 => gcc_filter fname lines
                     | 2 => pcpp_filter fname lines
                     | _ => msvc_filter lines
                     end in
          nlen out :: enc_lines out
      | [] => [99]
      end
  | [] => [99]
  end.

(* nondefault_repr: prefix-encoded value -> prefix-encoded expression *)
Fixpoint dec_val (fuel : nat) (l : list N) : val * list N :=
  match fuel with
  | O => (Atom 0, [])
  | S f =>
      match l with
      | 0 :: a :: r => (Atom a, r)
      | 1 :: n :: r =>
          let '(items, r') := (fix go (k : nat) (r : list N) : list val * list N :=
                                 match k with O => ([], r) | S k' => let '(v, r1) := dec_val f r in let '(vs, r2) := go k' r1 in (v :: vs, r2) end)
                                (N.to_nat n) r in (Lst items, r')
      | 2 :: n :: r =>
          let '(items, r') := (fix go (k : nat) (r : list N) : list (N * val) * list N :=
                                 match k with
                                 | O => ([], r)
                                 | S k' => match r with
                                           | key :: r0 => let '(v, r1) := dec_val f r0 in let '(vs, r2) := go k' r1 in ((key, v) :: vs, r2)
                                           | [] => ([], [])
                                           end
                                 end) (N.to_nat n) r in (Dct items, r')
      | 3 :: c :: n :: r =>
          let '(items, r') := (fix go (k : nat) (r : list N) : list val * list N :=
                                 match k with O => ([], r) | S k' => let '(v, r1) := dec_val f r in let '(vs, r2) := go k' r1 in (v :: vs, r2) end)
                                (N.to_nat n) r in (Obj c items, r')
      | _ => (Atom 0, [])
      end
  end.

Fixpoint enc_expr (fuel : nat) (e : expr) : list N :=
  match fuel with
  | O => []
  | S f =>
      match e with
      | EAtom a => [0; a]
      | ELst l => 1 :: nlen l :: flat_map (enc_expr f) l
      | EDct l => 2 :: nlen l :: flat_map (fun kv => fst kv :: enc_expr f (snd kv)) l
      | ECall c kw => 3 :: c :: nlen kw :: flat_map (fun ie => N.of_nat (fst ie) :: enc_expr f (snd ie)) kw
      end
  end.

Definition run_nrepr (args : list N) : list N :=
  let fuel := length args in
  let '(v, _) := dec_val fuel args in
  enc_expr fuel (nrepr schema fuel v).

(* fold: prefix-encoded forest -> prefix-encoded scope tree *)
Fixpoint dec_elems (fuel : nat) (k : nat) (l : list N) : list elem * list N :=
  match fuel with
  | O => ([], [])
  | S f =>
      match k with
      | O => ([], l)
      | S k' =>
          let '(e, r) :=
            match l with
            | 1 :: kd :: p :: r => (EItem kd p, r)
            | 2 :: nn :: r =>
                let names := take (N.to_nat nn) r in
                match drop (N.to_nat nn) r with
                | nb :: r2 => let '(b, r3) := dec_elems f (N.to_nat nb) r2 in (ENs names b, r3)
                | [] => (EItem 0 0, [])
                end
            | 3 :: nb :: r => let '(b, r3) := dec_elems f (N.to_nat nb) r in (EExtern b, r3)
            | 4 :: d :: nb :: r => let '(b, r3) := dec_elems f (N.to_nat nb) r in (EClass d b, r3)
            | _ => (EItem 0 0, [])
            end in
          let '(es, r') := dec_elems f k' r in (e :: es, r')
      end
  end.

Fixpoint enc_cs (c : cscope) : list N :=
  match c with
  | CS d items classes =>
      d :: nlen items :: flat_map (fun kp => [fst kp; snd kp]) items ++ nlen classes :: flat_map enc_cs classes
  end.

Fixpoint enc_ns (s : nscope) : list N :=
  match s with
  | NS items classes children =>
      nlen items :: flat_map (fun kp => [fst kp; snd kp]) items ++ nlen classes :: flat_map enc_cs classes
      ++ nlen children :: flat_map (fun ks => fst ks :: enc_ns (snd ks)) children
  end.

Definition run_fold (args : list N) : list N :=
  match args with
  | n :: r => let '(f, _) := dec_elems (length r) (N.to_nat n) r in enc_ns (fold_ns f)
  | [] => [99]
  end.

(* ---- declarators (commands 80, 81) ---- *)
Fixpoint dec_tks (l : list N) : list tk :=
  match l with a :: b :: r => mkTk a b :: dec_tks r | _ => [] end.
Fixpoint enc_tks (l : list tk) : list N :=
  match l with [] => [] | t :: r => kty t :: kval t :: enc_tks r end.
Definition bN (b : bool) : N := if b then 1 else 0.
Definition Nb (n : N) : bool := negb (n =? 0).

Fixpoint enc_ty (t : ty) : list N :=
  match t with
  | TBase b c v => [1; b; bN c; bN v]
  | TPtr t c v => 2 :: bN c :: bN v :: enc_ty t
  | TRef t => 3 :: enc_ty t
  | TRRef t => 4 :: enc_ty t
  | TArr t s => 5 :: nlen s :: enc_tks s ++ enc_ty t
  | TFn r ps va =>
      6 :: bN va :: nlen ps ::
        (fix go (ps : list (ty * option N)) : list N :=
           match ps with
           | [] => []
           | (t, nm) :: q => (match nm with Some n => n + 1 | None => 0 end) :: enc_ty t ++ go q
           end) ps ++ enc_ty r
  end.

Fixpoint dec_ty (fuel : nat) (l : list N) : option (ty * list N) :=
  match fuel with
  | O => None
  | S f =>
      match l with
      | 1 :: b :: c :: v :: r => Some (TBase b (Nb c) (Nb v), r)
      | 2 :: c :: v :: r => match dec_ty f r with Some (t, r') => Some (TPtr t (Nb c) (Nb v), r') | None => None end
      | 3 :: r => match dec_ty f r with Some (t, r') => Some (TRef t, r') | None => None end
      | 4 :: r => match dec_ty f r with Some (t, r') => Some (TRRef t, r') | None => None end
      | 5 :: n :: r =>
          let k := (2 * N.to_nat n)%nat in
          match dec_ty f (drop k r) with
          | Some (t, r') => Some (TArr t (dec_tks (take k r)), r')
          | None => None
          end
      | 6 :: va :: n :: r =>
          match (fix go (k : nat) (l : list N) : option (list (ty * option N) * list N) :=
                   match k with
                   | O => Some ([], l)
                   | S k' =>
                       match l with
                       | nm :: l1 =>
                           match dec_ty f l1 with
                           | Some (t, l2) =>
                               match go k' l2 with
                               | Some (ps, l3) => Some ((t, if nm =? 0 then None else Some (nm - 1)) :: ps, l3)
                               | None => None
                               end
                           | None => None
                           end
                       | [] => None
                       end
                   end) (N.to_nat n) r with
          | Some (ps, r1) =>
              match dec_ty f r1 with
              | Some (t, r2) => Some (TFn t ps (Nb va), r2)
              | None => None
              end
          | None => None
          end
      | _ => None
      end
  end.

(* 80: parse_var over a token list *)
Definition run_parse_var (args : list N) : list N :=
  let toks := dec_tks args in
  match parse_var (4 * length toks + 8) toks with
  | DOk (nm, t, rest) => 0 :: nm :: nlen rest :: enc_ty t
  | DErr e => [1; e]
  end.

(* 81: format_decl / format of an encoded type: name code, then the type *)
Definition run_print_decl (args : list N) : list N :=
  match args with
  | nm :: r =>
      match dec_ty (length r) r with
      | Some (t, _) => 0 :: enc_tks (decl_toks t (if nm =? 0 then None else Some (nm - 1)))
      | None => [1]
      end
  | [] => [1]
  end.


(* 82: the variable-declaration loop: n, then tokens *)
Definition run_parse_decls (args : list N) : list N :=
  match args with
  | n :: r =>
      let toks := dec_tks r in
      match parse_decls (N.to_nat n) (4 * length toks + 8) toks with
      | DOk (l, rest) =>
          0 :: nlen rest :: nlen l ::
            flat_map (fun p => let e := enc_ty (snd p) in fst p :: nlen e :: e) l
      | DErr e => [1; e]
      end
  | [] => [1; 0]
  end.

(* 83: a function declaration up to the ')' of its parameter list *)
Definition run_fn_decl (args : list N) : list N :=
  let toks := dec_tks args in
  match fn_decl (4 * length toks + 8) toks with
  | DOk (nm, rt, ps, va, rest) => 0 :: nm :: nlen rest :: enc_ty (TFn rt ps va)
  | DErr e => [1; e]
  end.

(* 84: an enumerator list (after the '{'): n (budget), then tokens.
   Output: 0, rest length, count, then per enumerator: name, 0 | 1 + value length + value tokens *)
Definition run_enum_list (args : list N) : list N :=
  match args with
  | n :: r =>
      match enum_list (N.to_nat n) [] (dec_tks r) with
      | DOk (l, rest) =>
          0 :: nlen rest :: nlen l ::
            flat_map (fun e => fst e :: match snd e with
                                        | Some v => 1 :: nlen v :: enc_tks v
                                        | None => [0]
                                        end) l
      | DErr e => [1; e]
      end
  | [] => [1; 0]
  end.

(* 85: a base clause (after the ':'): budget, default access (token type), then tokens.
   Output: 0, rest length, count, then per base: access, name, virtual, pack *)
Definition run_bases (args : list N) : list N :=
  match args with
  | n :: d :: r =>
      match bases (N.to_nat n) d [] (dec_tks r) with
      | DOk (l, rest) =>
          0 :: nlen rest :: nlen l ::
            flat_map (fun b => [b_access b; b_name b; bN (b_virtual b); bN (b_pack b)]) l
      | DErr e => [1; e]
      end
  | _ => [1; 0]
  end.

(* 86: the type-id of an alias-declaration *)
Definition run_alias (args : list N) : list N :=
  let toks := dec_tks args in
  match alias_type (4 * length toks + 8) toks with
  | DOk (t, rest) => 0 :: 0 :: nlen rest :: enc_ty t
  | DErr e => [1; e]
  end.

(* 87: a namespace header (after `namespace`): inline flag, then tokens.
   Output: 0, rest length, kind (0 definition / 1 alias), alias, count, names *)
Definition run_ns_header (args : list N) : list N :=
  match args with
  | i :: r =>
      match ns_header (Nb i) (dec_tks r) with
      | DOk (NsDef names, rest) => 0 :: nlen rest :: 0 :: 0 :: nlen names :: names
      | DOk (NsAlias a names, rest) => 0 :: nlen rest :: 1 :: a :: nlen names :: names
      | DErr e => [1; e]
      end
  | [] => [1; 0]
  end.

(* 88: the specifier loop of _parse_type.  Output: 0, rest length, name, then the nine flags *)
Definition enc_mods (m : mods) : list N :=
  [bN (m_const m); bN (m_volatile m); bN (m_constexpr m); bN (m_extern m); bN (m_inline m); bN (m_static m);
   bN (m_explicit m); bN (m_virtual m); bN (m_mutable m)].
Definition run_specs (args : list N) : list N :=
  match parse_specs (dec_tks args) with
  | DOk (m, n, rest) => 0 :: nlen rest :: n :: enc_mods m
  | DErr e => [1; e]
  end.

(* 89: a whole variable statement: declarator budget, then tokens *)
Definition run_var_stmt (args : list N) : list N :=
  match args with
  | n :: r =>
      let toks := dec_tks r in
      match var_stmt (N.to_nat n) (4 * length toks + 8) toks with
      | DOk (m, l, rest) =>
          0 :: nlen rest :: nlen l :: enc_mods m ++
            flat_map (fun p => let e := enc_ty (snd p) in fst p :: nlen e :: e) l
      | DErr e => [1; e]
      end
  | [] => [1; 0]
  end.

(* 90: a whole function statement.  Output: 0, name, rest length, then the type (as a function type), then
   throw (0 | 1 len tokens), noexcept (0 | 1 len tokens), body flag, deleted flag *)
Definition enc_opt_tks (o : option (list tk)) : list N :=
  match o with Some v => 1 :: nlen v :: enc_tks v | None => [0] end.
Definition run_fn_stmt (args : list N) : list N :=
  let toks := dec_tks args in
  match fn_stmt (4 * length toks + 8) toks with
  | DOk (nm, rt, ps, va, tl, rest) =>
      let e := enc_ty (TFn rt ps va) in
      0 :: nm :: nlen rest :: nlen e :: e ++ enc_opt_tks (t_throw tl) ++ enc_opt_tks (t_noexcept tl) ++ [bN (t_body tl); bN (t_deleted tl)]
  | DErr e => [1; e]
  end.

(* 91: a variable statement with initialisers: declarator budget, then tokens.
   Output: 0, rest length, count, nine flags, then per declarator: name, type length, type, value (0 | 1 len tokens) *)
Definition run_var_stmt_i (args : list N) : list N :=
  match args with
  | n :: r =>
      let toks := dec_tks r in
      match var_stmt_i (N.to_nat n) (4 * length toks + 8) toks with
      | DOk (m, l, rest) =>
          0 :: nlen rest :: nlen l :: enc_mods m ++
            flat_map (fun p => let e := enc_ty (snd (fst p)) in fst (fst p) :: nlen e :: e ++ enc_opt_tks (snd p)) l
      | DErr e => [1; e]
      end
  | [] => [1; 0]
  end.

(* 92 / 93: a field statement in a class / a typedef statement: declarator budget, then tokens.
   Output: 0, rest length, count, nine flags (zeros for typedefs), then per declarator:
   name, type length, type, bits (0 | 1 k), value (0 | 1 len tokens) *)
Definition enc_members (l : list member) : list N :=
  flat_map (fun p => let '(nm, t, bits, iv) := p in
                     let e := enc_ty t in
                     nm :: nlen e :: e ++ (match bits with Some k => [1; k] | None => [0] end) ++ enc_opt_tks iv) l.
Definition run_field_stmt (args : list N) : list N :=
  match args with
  | n :: r =>
      let toks := dec_tks r in
      match field_stmt (N.to_nat n) (4 * length toks + 8) toks with
      | DOk (m, l, rest) => 0 :: nlen rest :: nlen l :: enc_mods m ++ enc_members l
      | DErr e => [1; e]
      end
  | [] => [1; 0]
  end.
Definition run_typedef_stmt (args : list N) : list N :=
  match args with
  | n :: r =>
      let toks := dec_tks r in
      match typedef_stmt (N.to_nat n) (4 * length toks + 8) toks with
      | DOk (l, rest) => 0 :: nlen rest :: nlen l :: enc_mods mods0 ++ enc_members l
      | DErr e => [1; e]
      end
  | [] => [1; 0]
  end.

(* 94: what follows a method's parameter list.  Output: 0, rest length, const, volatile, override, final, ref (0/1/2),
   throw (0 | 1 len tokens), noexcept (0 | 1 len tokens), pure, deleted, default, body *)
Definition run_method_end (args : list N) : list N :=
  match parse_method_end (dec_tks args) with
  | DOk (q, rest) =>
      0 :: nlen rest :: bN (q_const q) :: bN (q_volatile q) :: bN (q_override q) :: bN (q_final q) :: q_ref q ::
        enc_opt_tks (q_throw q) ++ enc_opt_tks (q_noexcept q) ++ [bN (q_pure q); bN (q_deleted q); bN (q_default q); bN (q_body q)]
  | DErr e => [1; e]
  end.

(* 95: a class head after the class name: default access (token type), then tokens.
   Output: 0, rest length, final, explicit, count, then per base: access, name, virtual, pack *)
Definition run_class_head (args : list N) : list N :=
  match args with
  | d :: r =>
      match class_head d (dec_tks r) with
      | DOk (fi, ex, l, rest) =>
          0 :: nlen rest :: bN fi :: bN ex :: nlen l ::
            flat_map (fun b => [b_access b; b_name b; bN (b_virtual b); bN (b_pack b)]) l
      | DErr e => [1; e]
      end
  | [] => [1; 0]
  end.

(* 96: a template parameter list (starting at '<').  Output: 0, rest length, count, then the parameters:
   type parameter: 1, key, pack, name (0 | n+1), default (0 | 1 len tokens), inner (0 | 1 count params...)
   non-type parameter: 2, name (0 | n+1), type length, type *)
Fixpoint enc_tparam (p : tparam) : list N :=
  match p with
  | TPType key pack name default inner =>
      1 :: key :: bN pack :: (match name with Some n => n + 1 | None => 0 end) :: enc_opt_tks default ++
        match inner with
        | Some l => 1 :: nlen l :: (fix go (l : list tparam) : list N := match l with [] => [] | x :: r => enc_tparam x ++ go r end) l
        | None => [0]
        end
  | TPNonType t nm => let e := enc_ty t in 2 :: (match nm with Some n => n + 1 | None => 0 end) :: nlen e :: e
  end.
Definition run_tdecl (args : list N) : list N :=
  let toks := dec_tks args in
  match tdecl (4 * length toks + 8) toks with
  | DOk (l, rest) => 0 :: nlen rest :: nlen l :: flat_map enc_tparam l
  | DErr e => [1; e]
  end.

(* 97: a possibly qualified name.  Output: 0, rest length, typename flag, key length, key words, segment count, then
   per segment: 0 (root) | 1 name | 2 count words *)
Definition enc_seg (s : seg) : list N :=
  match s with SRoot => [0] | SName n => [1; n] | SFund ws => 2 :: nlen ws :: ws end.
Definition run_pqname (args : list N) : list N :=
  match parse_pqname (dec_tks args) with
  | DOk (q, rest) => 0 :: nlen rest :: bN (pq_typename q) :: nlen (pq_key q) :: pq_key q ++ nlen (pq_segs q) :: flat_map enc_seg (pq_segs q)
  | DErr e => [1; e]
  end.

(* 98: a using statement (after the `using` keyword): in_class, has_template, then tokens.
   Output: 0, rest length, then 1 root count names | 2 <pq as in 97> | 3 name <type> *)
Definition run_using (args : list N) : list N :=
  match args with
  | ic :: ht :: r =>
      let toks := dec_tks r in
      match using_stmt (negb (ic =? 0)) (negb (ht =? 0)) (4 * length toks + 8) toks with
      | DOk (UDir root ns, rest) => 0 :: nlen rest :: 1 :: bN root :: nlen ns :: ns
      | DOk (UDecl q, rest) => 0 :: nlen rest :: 2 :: bN (pq_typename q) :: nlen (pq_key q) :: pq_key q ++ nlen (pq_segs q) :: flat_map enc_seg (pq_segs q)
      | DOk (UAlias a t, rest) => 0 :: nlen rest :: 3 :: a :: enc_ty t
      | DErr e => [1; e]
      end
  | _ => [1; 0]
  end.

(* 99: an enum declaration behind its name (':' or '{' first): is_typedef, then tokens.
   Output: 0, rest length, then 1 <pq> | 2 has_base [<pq>] count, per enumerator as in 84 *)
Definition enc_pq (q : pq) : list N :=
  bN (pq_typename q) :: nlen (pq_key q) :: pq_key q ++ nlen (pq_segs q) :: flat_map enc_seg (pq_segs q).
Definition enc_enumerators (l : list enumerator) : list N :=
  nlen l :: flat_map (fun e => fst e :: match snd e with
                                        | Some v => 1 :: nlen v :: enc_tks v
                                        | None => [0]
                                        end) l.
Definition run_enum_decl (args : list N) : list N :=
  match args with
  | td :: r =>
      match enum_decl (negb (td =? 0)) (dec_tks r) with
      | DOk (EFwd q, rest) => 0 :: nlen rest :: 1 :: enc_pq q
      | DOk (EDef (Some q) items, rest) => 0 :: nlen rest :: 2 :: 1 :: enc_pq q ++ enc_enumerators items
      | DOk (EDef None items, rest) => 0 :: nlen rest :: 2 :: 0 :: enc_enumerators items
      | DErr e => [1; e]
      end
  | _ => [1; 0]
  end.

(* 100: the class / enum dispatch behind an elaborated type: template, is_typedef, is_friend, nine specifier flags
   (const volatile constexpr extern inline static explicit virtual mutable), key length, key, then tokens.
   Output: 0, rest length, 0 forward | 1 friend | 2 class | 3 enum | 4 none *)
Definition run_class_enum (args : list N) : list N :=
  match args with
  | tp :: td :: fr :: c :: v :: ce :: ex :: il :: st :: xp :: vi :: mu :: kl :: r =>
      let b x := negb (x =? 0) in
      let key := firstn (N.to_nat kl) r in
      let toks := dec_tks (skipn (N.to_nat kl) r) in
      match class_enum key (mkMods (b c) (b v) (b ce) (b ex) (b il) (b st) (b xp) (b vi) (b mu)) (b tp) (b td) (b fr) toks with
      | DOk (o, rest) => [0; nlen rest; match o with CEForward => 0 | CEFriend => 1 | CEClass _ => 2 | CEEnum _ => 3 | CENone => 4 end]
      | DErr e => [1; e]
      end
  | _ => [1; 0]
  end.

(* 101: a template argument list (after the '<').
   Output: 0, rest length, count, per argument: 1 pack <type> | 2 pack length tokens *)
Definition run_tspec (args : list N) : list N :=
  let toks := dec_tks args in
  match tspec (S (length toks)) (4 * length toks + 8) [] toks with
  | DOk (l, rest) =>
      0 :: nlen rest :: nlen l ::
        flat_map (fun a => match a with
                           | AType t p => 1 :: bN p :: enc_ty t
                           | AVal v p => 2 :: bN p :: nlen v :: enc_tks v
                           end) l
  | DErr e => [1; e]
  end.

(* 102: constructor / destructor detection: in_class, is_friend, is_type, class name, segment count, segments;
   a name is 0 (no name attribute) | 1 tilde id.  Output: 0, 0 none | 1 constructor | 2 destructor *)
Fixpoint dec_snames (n : nat) (l : list N) : list seg_name * list N :=
  match n with
  | O => ([], l)
  | S n' =>
      match l with
      | 0 :: r => let '(q, r') := dec_snames n' r in (None :: q, r')
      | _ :: t :: i :: r => let '(q, r') := dec_snames n' r in (Some (negb (t =? 0), i) :: q, r')
      | _ => ([], l)
      end
  end.
Definition run_ctor_dtor (args : list N) : list N :=
  match args with
  | ic :: fr :: ty :: r =>
      let b x := negb (x =? 0) in
      let '(cls, r1) := dec_snames 1 r in
      match r1 with
      | n :: r2 =>
          let '(segs, _) := dec_snames (N.to_nat n) r2 in
          [0; match ctor_dtor (b ic) (b fr) (b ty) (hd None cls) segs with CDNone => 0 | CDCtor => 1 | CDDtor => 2 end]
      | [] => [1; 0]
      end
  | _ => [1; 0]
  end.

(* 103: a parameter list with defaults and packs (after the '(').
   Output: 0, rest length, vararg, count, per parameter: pack, 0 | 1 name, <type>, 0 | 1 length tokens *)
Definition run_params_x (args : list N) : list N :=
  let toks := dec_tks args in
  match params_x (4 * length toks + 8) toks with
  | DOk (ps, va, rest) =>
      0 :: nlen rest :: bN va :: nlen ps ::
        flat_map (fun p => bN (xp_pack p) :: (match xp_name p with Some n => [1; n] | None => [0] end)
                           ++ enc_ty (xp_ty p)
                           ++ match xp_default p with Some v => 1 :: nlen v :: enc_tks v | None => [0] end) ps
  | DErr e => [1; e]
  end.

(* 104: what a `template` statement is handed on to (tokens behind the `template` keyword).
   Output: 0, rest length, continuation (0 inst, 1 using, 2 friend, 3 concept, 4 requires, 5 declaration), header count,
   then per header: parameter count, parameters (as for 96) *)
Definition run_template_stmt (args : list N) : list N :=
  let toks := dec_tks args in
  match template_stmt (S (length toks)) (4 * length toks + 8) toks with
  | DOk (k, hs, rest) => 0 :: nlen rest :: k :: nlen hs :: flat_map (fun h => nlen h :: flat_map enc_tparam h) hs
  | DErr e => [1; e]
  end.

(* 105: a concept definition behind the `concept` keyword: in-class flag, then tokens.
   Output: 0, rest length, name, value length, value tokens *)
Definition run_concept (args : list N) : list N :=
  match args with
  | ic :: r =>
      match concept_stmt (negb (ic =? 0)) (dec_tks r) with
      | DOk (nm, v, rest) => 0 :: nlen rest :: nm :: nlen v :: enc_tks v
      | DErr e => [1; e]
      end
  | [] => [1; 0]
  end.

(* 106: a whole declaration statement at namespace scope (variables and function declarators mixed): declarator budget,
   then tokens.  Output: 0, rest length, count, nine flags, then per entry
     0 name <type length> <type> value (0 | 1 len tokens)                                             -- variable
     1 name <type length> <function type> throw (0 | 1 len tokens) noexcept (0 | 1 len tokens) body deleted   -- function *)
Definition enc_entry (e : entry) : list N :=
  match e with
  | EVar nm t iv => let x := enc_ty t in 0 :: nm :: nlen x :: x ++ enc_opt_tks iv
  | EFn nm rt ps va tl =>
      let x := enc_ty (TFn rt ps va) in
      1 :: nm :: nlen x :: x ++ enc_opt_tks (t_throw tl) ++ enc_opt_tks (t_noexcept tl) ++ [bN (t_body tl); bN (t_deleted tl)]
  end.
Definition run_decl_stmt (args : list N) : list N :=
  match args with
  | n :: r =>
      let toks := dec_tks r in
      match decl_stmt (N.to_nat n) (4 * length toks + 8) toks with
      | DOk (m, l, rest) => 0 :: nlen rest :: nlen l :: enc_mods m ++ flat_map enc_entry l
      | DErr e => [1; e]
      end
  | [] => [1; 0]
  end.

(* 107: a requires-clause behind the `requires` keyword.  Output: 0, rest length, value length, value tokens *)
Definition run_requires (args : list N) : list N :=
  let toks := dec_tks args in
  match Requires.requires_clause (S (length toks)) (S (length toks)) toks with
  | DOk (v, rest) => 0 :: nlen rest :: nlen v :: enc_tks v
  | DErr e => [1; e]
  end.

(* 108: a member declaration statement in a class body: declarator budget, class-name id, '~'+class-name id, then tokens.
   Output: 0, rest length, count, nine flags, then per entry
     0 name (0 | n+1) <type length> <type> bits (0 | 1 k) value (0 | 1 len tokens)                      -- field
     1 name ctor dtor has-return-type <type length> <function type (return type void when there is none)>
       const volatile override final ref throw noexcept pure deleted default body                       -- method *)
Definition enc_mentry (e : mentry) : list N :=
  match e with
  | MField nm t bits iv =>
      let x := enc_ty t in
      0 :: (match nm with Some n => n + 1 | None => 0 end) :: nlen x :: x ++ (match bits with Some k => [1; k] | None => [0] end) ++ enc_opt_tks iv
  | MMethod nm rt ps va ctor dtor q =>
      let x := enc_ty (TFn (match rt with Some t => t | None => TBase 0 false false end) ps va) in
      1 :: nm :: bN ctor :: bN dtor :: (match rt with Some _ => 1 | None => 0 end) :: nlen x :: x ++
        bN (q_const q) :: bN (q_volatile q) :: bN (q_override q) :: bN (q_final q) :: q_ref q ::
        enc_opt_tks (q_throw q) ++ enc_opt_tks (q_noexcept q) ++ [bN (q_pure q); bN (q_deleted q); bN (q_default q); bN (q_body q)]
  end.
Definition run_member_stmt (args : list N) : list N :=
  match args with
  | n :: cls :: dcls :: r =>
      let toks := dec_tks r in
      match member_stmt (N.to_nat n) (4 * length toks + 8) cls dcls toks with
      | DOk (m, l, rest) => 0 :: nlen rest :: nlen l :: enc_mods m ++ flat_map enc_mentry l
      | DErr e => [1; e]
      end
  | _ => [1; 0]
  end.

(* 109: a typedef statement behind the `typedef` keyword, through the declaration loop: declarator budget, then tokens.
   Output: 0, rest length, count, then the entries as for 106 *)
Definition run_typedef_decl_stmt (args : list N) : list N :=
  match args with
  | n :: r =>
      let toks := dec_tks r in
      match typedef_decl_stmt (N.to_nat n) (4 * length toks + 8) toks with
      | DOk (l, rest) => 0 :: nlen rest :: nlen l :: flat_map enc_entry l
      | DErr e => [1; e]
      end
  | [] => [1; 0]
  end.

(* 110: an operator name behind the `operator` keyword.  Output: 0, rest length, name length, name tokens *)
Definition run_op_name (args : list N) : list N :=
  match op_name (dec_tks args) with
  | DOk (v, rest) => 0 :: nlen rest :: nlen v :: enc_tks v
  | DErr e => [1; e]
  end.

(* 111: a keyword handler as translated from the code (Gen/Dispatch.v), run by the interpreter of Parse/DispatchLang.v:
   handler (0 extern, 1 inline, 2 friend, 3 typedef, 4 static_assert, 5 attribute dispatcher, 6 __attribute__, 7 __declspec), in-class flag, the keyword token (type, value), tokens.
   Output: 0 callee rest-length npos <rarg>* nkw (name <rarg>)*  |  1 rest-length <tok option>  |  2 rest-length  |  3 code
   rarg: 0 (no token) | 1 type value | 2 (doxygen) | 3 (template) | 4 (True) | 5 (False) *)
Definition enc_rarg (a : DispatchLang.rarg) : list N :=
  match a with
  | DispatchLang.RTok None => [0] | DispatchLang.RTok (Some t) => [1; kty t; kval t] | DispatchLang.RDox => [2] | DispatchLang.RTemplate => [3]
  | DispatchLang.RBool true => [4] | DispatchLang.RBool false => [5]
  end.
Definition callee_code (f : DispatchLang.callee) : N := match f with DispatchLang.F_declarations => 0 | DispatchLang.F_template_instantiation => 1 | DispatchLang.F_namespace => 2
  | DispatchLang.F_gcc_attribute => 3 | DispatchLang.F_declspec => 4 | DispatchLang.F_attribute_specifier_seq => 5 end.
Definition run_dispatch (args : list N) : list N :=
  match args with
  | h :: ic :: kt :: kv :: r =>
      let prog := if h =? 0 then Dispatch.prog_parse_extern else if h =? 1 then Dispatch.prog_parse_inline else if h =? 2 then Dispatch.prog_parse_friend_decl
                  else if h =? 3 then Dispatch.prog_parse_typedef else if h =? 4 then Dispatch.prog_consume_static_assert
                  else if h =? 5 then Dispatch.prog_consume_attribute else if h =? 6 then Dispatch.prog_consume_gcc_attribute
                  else Dispatch.prog_consume_declspec in
      match DispatchLang.run prog (negb (ic =? 0)) (mkTk kt kv) (dec_tks r) with
      | DispatchLang.OCall f pos kw rest =>
          0 :: callee_code f :: nlen rest :: nlen pos :: flat_map enc_rarg pos ++ nlen kw :: flat_map (fun p => fst p :: enc_rarg (snd p)) kw
      | DispatchLang.OOpenExtern l rest => 1 :: nlen rest :: enc_rarg (DispatchLang.RTok l)
      | DispatchLang.ODone rest => [2; nlen rest]
      | DispatchLang.OErr c => [3; c]
      end
  | _ => [3; 0]
  end.

(* 112: what follows the closing brace of a class / enum definition (_finish_class_or_enum): declarator budget, in-class, typedef,
   anonymous, struct-or-union flags, enclosing class id, '~' id, the id of the definition's name, const, volatile, nine specifier
   flags, then tokens.  Output: 0, rest length, kind (0 nothing, 1 implicit field, 2 declarations, 3 members), count, entries as
   for 106 / 108 *)
Definition run_finish_class (args : list N) : list N :=
  match args with
  | n :: ic :: td :: an :: su :: cls :: dcls :: bn :: c :: v :: f1 :: f2 :: f3 :: f4 :: f5 :: f6 :: f7 :: f8 :: f9 :: r =>
      let toks := dec_tks r in
      let b x := negb (x =? 0) in
      let m := mkMods (b f1) (b f2) (b f3) (b f4) (b f5) (b f6) (b f7) (b f8) (b f9) in
      match FinishClass.finish_class (N.to_nat n) (4 * length toks + 8) (b ic) (b td) (b an) (b su) m cls dcls bn (b c) (b v) toks with
      | DOk (FinishClass.FinNone, rest) => [0; nlen rest; 0; 0]
      | DOk (FinishClass.FinImplicitField, rest) => [0; nlen rest; 1; 0]
      | DOk (FinishClass.FinDecls l, rest) => 0 :: nlen rest :: 2 :: nlen l :: flat_map enc_entry l
      | DOk (FinishClass.FinMembers l, rest) => 0 :: nlen rest :: 3 :: nlen l :: flat_map enc_mentry l
      | DErr e => [1; e]
      end
  | _ => [1; 0]
  end.

(* 113: a conversion-operator statement in a class body.  Output: 0, rest length, nine specifier flags, type length,
   function type (conversion type as return type), then the method tail as for 94 *)
Definition run_conv_stmt (args : list N) : list N :=
  let toks := dec_tks args in
  match ConvOp.conv_stmt (4 * length toks + 8) toks with
  | DOk (cv, rest) =>
      let q := ConvOp.cv_tail cv in
      let x := enc_ty (TFn (ConvOp.cv_type cv) (ConvOp.cv_params cv) (ConvOp.cv_vararg cv)) in
      0 :: nlen rest :: enc_mods (ConvOp.cv_mods cv) ++ nlen x :: x ++
        bN (q_const q) :: bN (q_volatile q) :: bN (q_override q) :: bN (q_final q) :: q_ref q ::
        enc_opt_tks (q_throw q) ++ enc_opt_tks (q_noexcept q) ++ [bN (q_pure q); bN (q_deleted q); bN (q_default q); bN (q_body q)]
  | DErr e => [1; e]
  end.

(* 114: an overloaded-operator member statement in a class body.  Output: 0, rest length, nine specifier flags, operator
   token count, operator tokens, type length, function type, then the method tail as for 94 *)
Definition run_op_member (args : list N) : list N :=
  let toks := dec_tks args in
  match OperatorMember.op_member_stmt (4 * length toks + 8) toks with
  | DOk (om, rest) =>
      let q := OperatorMember.om_tail om in
      let x := enc_ty (TFn (OperatorMember.om_ret om) (OperatorMember.om_params om) (OperatorMember.om_vararg om)) in
      0 :: nlen rest :: enc_mods (OperatorMember.om_mods om) ++ nlen (OperatorMember.om_op om) :: enc_tks (OperatorMember.om_op om) ++ nlen x :: x ++
        bN (q_const q) :: bN (q_volatile q) :: bN (q_override q) :: bN (q_final q) :: q_ref q ::
        enc_opt_tks (q_throw q) ++ enc_opt_tks (q_noexcept q) ++ [bN (q_pure q); bN (q_deleted q); bN (q_default q); bN (q_body q)]
  | DErr e => [1; e]
  end.

(* 115: an overloaded-operator function statement at namespace scope.  Output: 0, rest length, nine specifier flags, operator
   token count, operator tokens, type length, function type, throw, noexcept, body, deleted *)
Definition run_op_fn (args : list N) : list N :=
  let toks := dec_tks args in
  match OperatorFn.op_fn_stmt (4 * length toks + 8) toks with
  | DOk (om, rest) =>
      let tl := OperatorFn.of_tail om in
      let x := enc_ty (TFn (OperatorFn.of_ret om) (OperatorFn.of_params om) (OperatorFn.of_vararg om)) in
      0 :: nlen rest :: enc_mods (OperatorFn.of_mods om) ++ nlen (OperatorFn.of_op om) :: enc_tks (OperatorFn.of_op om) ++ nlen x :: x ++
        enc_opt_tks (t_throw tl) ++ enc_opt_tks (t_noexcept tl) ++ [bN (t_body tl); bN (t_deleted tl)]
  | DErr e => [1; e]
  end.

(* 116: a method definition outside its class (qualified name).  Output: 0, rest length, nine specifier flags, segment count,
   segment name ids, type length, function type, then the method tail as for 94 *)
Definition run_method_impl (args : list N) : list N :=
  let toks := dec_tks args in
  match MethodImpl.method_impl_stmt (4 * length toks + 8) toks with
  | DOk (mi, rest) =>
      let q := MethodImpl.mi_tail mi in
      let x := enc_ty (TFn (MethodImpl.mi_ret mi) (MethodImpl.mi_params mi) (MethodImpl.mi_vararg mi)) in
      let names := flat_map (fun s => match s with SName n => [n] | _ => [0] end) (MethodImpl.mi_segs mi) in
      0 :: nlen rest :: enc_mods (MethodImpl.mi_mods mi) ++ nlen names :: names ++ nlen x :: x ++
        bN (q_const q) :: bN (q_volatile q) :: bN (q_override q) :: bN (q_final q) :: q_ref q ::
        enc_opt_tks (q_throw q) ++ enc_opt_tks (q_noexcept q) ++ [bN (q_pure q); bN (q_deleted q); bN (q_default q); bN (q_body q)]
  | DErr e => [1; e]
  end.

(* 117: an explicit instantiation behind `template` / `extern template`.  Output: 0, rest length, root flag, name count, name
   ids, argument count, arguments as for 101 *)
Definition run_template_inst (args : list N) : list N :=
  let toks := dec_tks args in
  match TemplateInst.inst_stmt (4 * length toks + 8) toks with
  | DOk (ti, rest) =>
      0 :: nlen rest :: bN (TemplateInst.ti_root ti) :: nlen (TemplateInst.ti_names ti) :: TemplateInst.ti_names ti ++
        nlen (TemplateInst.ti_args ti) ::
        flat_map (fun a => match a with
                           | AType t p => 1 :: bN p :: enc_ty t
                           | AVal v p => 2 :: bN p :: nlen v :: enc_tks v
                           end) (TemplateInst.ti_args ti)
  | DErr e => [1; e]
  end.

(* 118: a friend declaration in a class body, behind `friend`.  Output: 0, rest length, nine specifier flags, then
   0 base-name id  (a friend type)  |  1 name, type length, function type, method tail as for 94  (a friend function) *)
Definition run_friend_stmt (args : list N) : list N :=
  let toks := dec_tks args in
  match FriendStmt.friend_stmt (4 * length toks + 8) toks with
  | DOk (FriendStmt.FrType m b, rest) => 0 :: nlen rest :: enc_mods m ++ [0; b]
  | DOk (FriendStmt.FrFn m nm rt ps va q, rest) =>
      let x := enc_ty (TFn rt ps va) in
      0 :: nlen rest :: enc_mods m ++ 1 :: nm :: nlen x :: x ++
        bN (q_const q) :: bN (q_volatile q) :: bN (q_override q) :: bN (q_final q) :: q_ref q ::
        enc_opt_tks (q_throw q) ++ enc_opt_tks (q_noexcept q) ++ [bN (q_pure q); bN (q_deleted q); bN (q_default q); bN (q_body q)]
  | DErr e => [1; e]
  end.

(* 119 / 120: whole bodies (Parse/Bodies.v).
   119: a class body up to its closing brace: statement budget, declarator budget, class id, '~' id, default access (token type),
        tokens.  Output: 0, rest length, item count, per item: access, kind (0 members | 1 conversion | 2 operator | 3 friend), then
        0: nine flags, count, entries as for 108;  1: as 113 behind its rest length;  2: as 114;  3: as 118
   120: a namespace body: statement budget, declarator budget, tokens.  Output: 0, rest length, item count, per item: kind
        (0 declarations: nine flags, count, entries as 106 | 1 operator function as 115 | 2 method definition as 116 | 3 typedefs: count, entries) *)
Definition enc_mtail (q : mtail) : list N :=
  bN (q_const q) :: bN (q_volatile q) :: bN (q_override q) :: bN (q_final q) :: q_ref q ::
    enc_opt_tks (q_throw q) ++ enc_opt_tks (q_noexcept q) ++ [bN (q_pure q); bN (q_deleted q); bN (q_default q); bN (q_body q)].
Definition enc_fnty (rt : ty) (ps : list (ty * option N)) (va : bool) : list N := let x := enc_ty (TFn rt ps va) in nlen x :: x.
Definition enc_citem (it : Bodies.citem) : list N :=
  match it with
  | Bodies.CMembers m l => 0 :: enc_mods m ++ nlen l :: flat_map enc_mentry l
  | Bodies.CConv cv => 1 :: enc_mods (ConvOp.cv_mods cv) ++ enc_fnty (ConvOp.cv_type cv) (ConvOp.cv_params cv) (ConvOp.cv_vararg cv) ++ enc_mtail (ConvOp.cv_tail cv)
  | Bodies.COp om => 2 :: enc_mods (OperatorMember.om_mods om) ++ nlen (OperatorMember.om_op om) :: enc_tks (OperatorMember.om_op om) ++
                     enc_fnty (OperatorMember.om_ret om) (OperatorMember.om_params om) (OperatorMember.om_vararg om) ++ enc_mtail (OperatorMember.om_tail om)
  | Bodies.CFriend (FriendStmt.FrType m b) => 3 :: enc_mods m ++ [0; b]
  | Bodies.CFriend (FriendStmt.FrFn m nm rt ps va q) => 3 :: enc_mods m ++ 1 :: nm :: enc_fnty rt ps va ++ enc_mtail q
  end.
Definition run_class_body (args : list N) : list N :=
  match args with
  | k :: n :: cls :: dcls :: acc :: r =>
      let toks := dec_tks r in
      match Bodies.class_body (N.to_nat k) (N.to_nat n) (4 * length toks + 8) cls dcls acc toks with
      | DOk (l, rest) => 0 :: nlen rest :: nlen l :: flat_map (fun p => fst p :: enc_citem (snd p)) l
      | DErr e => [1; e]
      end
  | _ => [1; 0]
  end.
Definition enc_nitem (it : Bodies.nitem) : list N :=
  match it with
  | Bodies.NDecls m l => 0 :: enc_mods m ++ nlen l :: flat_map enc_entry l
  | Bodies.NOpFn om =>
      let tl := OperatorFn.of_tail om in
      1 :: enc_mods (OperatorFn.of_mods om) ++ nlen (OperatorFn.of_op om) :: enc_tks (OperatorFn.of_op om) ++
        enc_fnty (OperatorFn.of_ret om) (OperatorFn.of_params om) (OperatorFn.of_vararg om) ++
        enc_opt_tks (t_throw tl) ++ enc_opt_tks (t_noexcept tl) ++ [bN (t_body tl); bN (t_deleted tl)]
  | Bodies.NMethodImpl mi =>
      let names := flat_map (fun s => match s with SName n => [n] | _ => [0] end) (MethodImpl.mi_segs mi) in
      2 :: enc_mods (MethodImpl.mi_mods mi) ++ nlen names :: names ++
        enc_fnty (MethodImpl.mi_ret mi) (MethodImpl.mi_params mi) (MethodImpl.mi_vararg mi) ++ enc_mtail (MethodImpl.mi_tail mi)
  | Bodies.NTypedefs l => 3 :: nlen l :: flat_map enc_entry l
  end.
Definition run_ns_body (args : list N) : list N :=
  match args with
  | k :: n :: r =>
      let toks := dec_tks r in
      match Bodies.ns_body (N.to_nat k) (N.to_nat n) (4 * length toks + 8) toks with
      | DOk (l, rest) => 0 :: nlen rest :: nlen l :: flat_map enc_nitem l
      | DErr e => [1; e]
      end
  | _ => [1; 0]
  end.

(* 121: whole class definitions, nested (Parse/ClassDef.v body): statement budget, declarator budget, in-class flag, class id, '~' id,
   access in force (token type), the number of (name, '~' name) pairs and the pairs, tokens.  Output: 0, rest length, the anonymous-name
   counter, item count, items: 0 access citem (as 119) | 1 nitem (as 120) | 2 access key-length key name (forward declaration) |
   7 access key name <pq> (enum with a base, declared only) | 8 access, nine flags, key, name id, anonymous, typedef, has-base [<pq>],
   enumerators as 99, what follows as 112 | 9 access, using as 98 | 10 header count, per header: count, parameters as 96; then the item |
   3 access, nine flags, key, name id, anonymous, typedef, final, explicit, base count, bases as 85, member count, members,
     what follows the brace as 112 (kind, count, entries) |
   4 inline, name count, names, member count, members (namespace) | 5 alias, name count, names | 6 linkage string id, member count, members *)
Definition enc_fin (f : FinishClass.fin_result) : list N :=
  match f with
  | FinishClass.FinNone => [0; 0]
  | FinishClass.FinImplicitField => [1; 0]
  | FinishClass.FinDecls l => 2 :: nlen l :: flat_map enc_entry l
  | FinishClass.FinMembers l => 3 :: nlen l :: flat_map enc_mentry l
  end.
Fixpoint enc_item (it : ClassDef.item) : list N :=
  match it with
  | ClassDef.IC acc c => 0 :: acc :: enc_citem c
  | ClassDef.INs x => 1 :: enc_nitem x
  | ClassDef.IFwd acc key nm => 2 :: acc :: nlen key :: key ++ [nm]
  | ClassDef.IEnumFwd acc key nm q => 7 :: acc :: nlen key :: key ++ nm :: enc_pq q
  | ClassDef.IEnum acc m key nm anon td b items fin =>
      8 :: acc :: enc_mods m ++ nlen key :: key ++ nm :: bN anon :: bN td ::
        match b with Some q => 1 :: enc_pq q | None => [0] end ++ enc_enumerators items ++ enc_fin fin
  | ClassDef.IUsing acc (UDir root ns) => 9 :: acc :: 1 :: bN root :: nlen ns :: ns
  | ClassDef.IUsing acc (UDecl q) => 9 :: acc :: 2 :: enc_pq q
  | ClassDef.IUsing acc (UAlias a t) => 9 :: acc :: 3 :: a :: (let x := enc_ty t in nlen x :: x)
  | ClassDef.IClass acc (ClassDef.mkCD m key bn anon td fi ex bs members fin) =>
      3 :: acc :: enc_mods m ++ nlen key :: key ++ bn :: bN anon :: bN td :: bN fi :: bN ex :: nlen bs ::
        flat_map (fun b => [b_access b; b_name b; bN (b_virtual b); bN (b_pack b)]) bs ++
        nlen members :: flat_map enc_item members ++ enc_fin fin
  | ClassDef.INamespace il names members => 4 :: bN il :: nlen names :: names ++ nlen members :: flat_map enc_item members
  | ClassDef.IAlias al names => 5 :: al :: nlen names :: names
  | ClassDef.IExtern l members => 6 :: l :: nlen members :: flat_map enc_item members
  | ClassDef.ITemplate hs it => 10 :: nlen hs :: flat_map (fun h => nlen h :: flat_map enc_tparam h) hs ++ enc_item it
  end.
Fixpoint dec_pairs (n : nat) (l : list N) : list (N * N) * list N :=
  match n, l with
  | S n', a :: b :: r => let '(ps, rest) := dec_pairs n' r in ((a, b) :: ps, rest)
  | _, _ => ([], l)
  end.
Definition run_body (args : list N) : list N :=
  match args with
  | k :: n :: ic :: cls :: dcls :: acc :: np :: r =>
      let '(dt, r') := dec_pairs (N.to_nat np) r in
      let toks := dec_tks r' in
      match ClassDef.body (N.to_nat k) (N.to_nat n) (4 * length toks + 8) dt (if ic =? 0 then None else Some (cls, dcls)) acc 0 toks with
      | DOk (l, aid, rest) => 0 :: nlen rest :: aid :: nlen l :: flat_map enc_item l
      | DErr e => [1; e]
      end
  | _ => [1; 0]
  end.

Definition run_case (cmd : N) (args : list N) : list N :=
  match cmd, args with
  | 121, _ => run_body args
  | 120, _ => run_ns_body args
  | 119, _ => run_class_body args
  | 118, _ => run_friend_stmt args
  | 117, _ => run_template_inst args
  | 116, _ => run_method_impl args
  | 115, _ => run_op_fn args
  | 114, _ => run_op_member args
  | 113, _ => run_conv_stmt args
  | 112, _ => run_finish_class args
  | 111, _ => run_dispatch args
  | 110, _ => run_op_name args
  | 109, _ => run_typedef_decl_stmt args
  | 108, _ => run_member_stmt args
  | 107, _ => run_requires args
  | 106, _ => run_decl_stmt args
  | 105, _ => run_concept args
  | 104, _ => run_template_stmt args
  | 103, _ => run_params_x args
  | 102, _ => run_ctor_dtor args
  | 101, _ => run_tspec args
  | 100, _ => run_class_enum args
  | 99, _ => run_enum_decl args
  | 98, _ => run_using args
  | 97, _ => run_pqname args
  | 96, _ => run_tdecl args
  | 95, _ => run_class_head args
  | 94, _ => run_method_end args
  | 93, _ => run_typedef_stmt args
  | 92, _ => run_field_stmt args
  | 91, _ => run_var_stmt_i args
  | 90, _ => run_fn_stmt args
  | 89, _ => run_var_stmt args
  | 88, _ => run_specs args
  | 87, _ => run_ns_header args
  | 86, _ => run_alias args
  | 85, _ => run_bases args
  | 84, _ => run_enum_list args
  | 83, _ => run_fn_decl args
  | 82, _ => run_parse_decls args
  | 81, _ => run_print_decl args
  | 80, _ => run_parse_var args
  | 70, _ => run_fold args
  | 60, _ => run_nrepr args
  | 50, _ => run_filter args
  | 40, _ => run_tokfmt args
  | 21, _ => run_lexcost args
  | 30, _ => run_stream args
  | 20, _ => run_lex args
  | 10, _ => run_blocks args
  | 1, s :: e :: toks =>
      match discard idN s e 1 toks with
      | Ok rest => [0; nlen rest]
      | ErrEOF => [1] | ErrUnexpected t => [2; t] | ErrInternal => [3]
      end
  | 2, n :: r =>
      let k := N.to_nat n in
      enc_res (consume_balanced idN (take k r) (drop k r))
  | 3, n :: r =>
      let k := N.to_nat n in
      enc_res (consume_value_until idN (take k r) (drop k r))
  | _, _ => [99]
  end.

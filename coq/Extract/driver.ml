(* line-oriented driver: "<cmd> n1 n2 ..." -> "m1 m2 ..." ; no logic here *)
open Run
let rec pos_of_int (i : int) : positive =
  if i = 1 then XH
  else if i land 1 = 0 then XO (pos_of_int (i lsr 1))
  else XI (pos_of_int (i lsr 1))
let n_of_int (i : int) : n = if i = 0 then N0 else Npos (pos_of_int i)
let rec int_of_pos (p : positive) : int =
  match p with XH -> 1 | XO q -> 2 * int_of_pos q | XI q -> 2 * int_of_pos q + 1
let int_of_n (x : n) : int = match x with N0 -> 0 | Npos p -> int_of_pos p
let () =
  try
    while true do
      let line = input_line stdin in
      let parts = List.filter (fun s -> s <> "") (String.split_on_char ' ' line) in
      match parts with
      | [] -> print_newline ()
      | c :: args ->
        let out = run_case (n_of_int (int_of_string c)) (List.map (fun s -> n_of_int (int_of_string s)) args) in
        print_string (String.concat " " (List.map (fun x -> string_of_int (int_of_n x)) out));
        print_newline ()
    done
  with End_of_file -> ()

From Coq Require Extraction.
From Coq Require Import ExtrOcamlBasic.
From CXV Require Import Extract.Run.
Extraction Language OCaml.
Extraction "run.ml" run_case.

(* Hand-written mirror of how an overloaded-operator member is read inside a
   class body: specifiers and return type (_parse_type, validate), the pointer /
   reference part (_parse_cv_ptr), the name `operator <tokens>` (_parse_pqname
   -> _parse_pqname_name_operator, Parse/OpName.v), '(' and then _parse_function
   as for any method (parameters, _parse_method_end); without a body the
   statement must end with ';'.  One declarator per statement in this model.
   Tied to the code by the differential run of harness/props/c03.py. *)
From Coq Require Import NArith List Bool Lia.
Import ListNotations.
From CXV Require Import Gen.TokTy Gen.ParserTables Parse.Balanced Parse.BalancedThms Parse.Declarator Parse.DeclSpec Parse.DeclThms
  Parse.EnumList Parse.Specs Parse.VarStmt Parse.FnTail Parse.Init Parse.Members Parse.MethodTail Parse.DeclStmt Parse.MemberStmt Parse.OpName Parse.ConvOp.
Open Scope N_scope.

Record opmember := mkOpM { om_mods : mods; om_op : list tk; om_ret : ty; om_params : list (ty * option N); om_vararg : bool; om_tail : mtail }.

Definition op_member_stmt (fuel : nat) (toks : list tk) : dres (opmember * list tk) :=
  match parse_specs toks with
  | DErr e => DErr e
  | DOk (m, b, r) =>
      if auto_next r then DErr 4
      else if negb (validate true true m) then DErr 3
      else
        match cvptr fuel (TBase b (m_const m) (m_volatile m)) r with
        | DErr e => DErr e
        | DOk (d, r1) =>
            if is_fn d then DErr 3
            else
              match r1 with
              | o :: r2 =>
                  if is T_operator o then
                    match op_name r2 with
                    | DErr e => DErr e
                    | DOk (parts, r3) =>
                        match r3 with
                        | lp :: r4 =>
                            if is LP lp then
                              match params fuel r4 with
                              | DErr e => DErr e
                              | DOk (ps, va, r5) =>
                                  match parse_method_end r5 with
                                  | DErr e => DErr e
                                  | DOk (q, r6) =>
                                      if q_body q then DOk (mkOpM m parts d ps va q, r6)
                                      else match r6 with
                                           | s :: r7 => if is SEMI s then DOk (mkOpM m parts d ps va q, r7) else DErr 1
                                           | [] => DErr 2
                                           end
                                  end
                              end
                            else DErr 1                       (* an operator name that is not followed by a parameter list *)
                        | [] => DErr 1
                        end
                    end
                  else DErr 4
              | [] => DErr 4
              end
        end
  end.

(* ------------------------------------------------------------------ *)

(* the written operator: `( )`, or a first token that is not '(' followed by tokens free of '(' and ';' *)
Inductive opspelling := OpCall | OpOther (t : tk) (parts : list tk).
Definition op_toks (o : opspelling) : list tk := match o with OpCall => [ktok LP; ktok RP] | OpOther t parts => t :: parts end.
Definition op_ok (o : opspelling) : Prop :=
  match o with
  | OpCall => True
  | OpOther t parts => is LP t = false /\ forallb (fun x => negb (op_stop x)) parts = true
  end.

Lemma op_name_rt o R : op_ok o -> op_name (op_toks o ++ ktok LP :: R) = DOk (op_toks o, ktok LP :: R).
Proof.
  destruct o as [|t parts]; cbn [op_toks op_ok app].
  - intros _. reflexivity.
  - intros [Ht Hp]. apply operator_name_exact; [exact Ht|exact Hp|reflexivity].
Qed.

Theorem op_member_roundtrip pre post b ls o ps va quals e rest :
  forallb spec_kw pre = true -> forallb spec_kw post = true ->
  all_pfx ls = true -> legalL KB ls = true -> op_ok o ->
  layer_ok (LFn ps va) -> Forall mq_ok quals ->
  (match e with MeBody soup => bal tk kty LBRACE RBRACE soup | MeCtor _ _ => False | _ => True end) ->
  let m := apply_kws (pre ++ post) mods0 in
  let t := wrap (TBase b (m_const m) (m_volatile m)) ls in
  ev (fun f => op_member_stmt f (kw_toks pre ++ nm_tok b :: kw_toks post ++ P ls [] ++ ktok T_operator :: op_toks o ++
                                 ktok LP :: params_toks ps va ++ ktok RP :: flat_map mq_toks quals ++ mlast_toks e ++ rest))
     (DOk (mkOpM m (op_toks o) t ps va (apply_end e (quals_of quals)), rest)).
Proof.
  intros Hpre Hpost Hpf Hleg Hop [_ Hprm] Hq He m t.
  set (TAIL := match e with MeBody _ | MeCtor _ _ => rest | _ => ktok SEMI :: rest end).
  assert (Emid : flat_map mq_toks quals ++ mlast_toks e ++ rest = flat_map mq_toks quals ++ mend_toks e ++ TAIL).
  { unfold TAIL. destruct e; cbn [mlast_toks]; rewrite <- ?app_assoc; reflexivity. }
  assert (Hend : mend_ok e TAIL).
  { unfold TAIL. destruct e; cbn [mend_ok] in *; try exact I; try exact He; try contradiction. reflexivity. }
  set (Y := flat_map mq_toks quals ++ mend_toks e ++ TAIL).
  set (X := ktok T_operator :: op_toks o ++ ktok LP :: params_toks ps va ++ ktok RP :: Y).
  assert (Hst : stops X = true) by reflexivity.
  destruct (all_pfx_main ls Hpf) as [Em Et].
  assert (Hcore : SNk []) by constructor.
  assert (Hok : Forall layer_ok ls).
  { apply Forall_forall. intros l Hl. unfold all_pfx in Hpf. rewrite forallb_forall in Hpf. specialize (Hpf l Hl).
    destruct l; try exact I; discriminate Hpf. }
  pose proof (cvptr_P _ ls (le_n _) (TBase b (m_const m) (m_volatile m)) [] X Hleg Hok Hcore) as Hcv'.
  rewrite Et, Em in Hcv'. cbn [P app] in Hcv'. specialize (Hcv' Hst eq_refl). destruct Hcv' as [f1 H1].
  destruct (Hprm Y) as [f2 H2].
  pose proof (parse_method_end_roundtrip quals e TAIL Hq Hend) as Htl. fold Y in Htl.
  assert (Hnf : is_fn t = false).
  { unfold t. clear - Hpf. destruct ls as [|l r] using rev_ind; [reflexivity|].
    unfold wrap. rewrite fold_left_app. cbn [fold_left]. unfold all_pfx in Hpf. rewrite forallb_app in Hpf.
    apply andb_prop in Hpf as [_ Hl]. cbn [forallb] in Hl. destruct l; try reflexivity; discriminate Hl. }
  assert (Hstop : spec_stop (P ls [] ++ X) = true).
  { destruct ls as [|l r]; [reflexivity|]. cbn [all_pfx forallb] in Hpf. apply andb_prop in Hpf as [Hl _].
    destruct l; try discriminate Hl; reflexivity. }
  assert (Hna : auto_next (P ls [] ++ X) = false).
  { destruct ls as [|l r]; [reflexivity|]. cbn [all_pfx forallb] in Hpf. apply andb_prop in Hpf as [Hl _].
    destruct l; try discriminate Hl; reflexivity. }
  exists (Nat.max f1 f2). intros f Hge. unfold op_member_stmt.
  replace (kw_toks pre ++ nm_tok b :: kw_toks post ++ P ls [] ++ ktok T_operator :: op_toks o ++ ktok LP :: params_toks ps va ++ ktok RP :: flat_map mq_toks quals ++ mlast_toks e ++ rest)
    with (kw_toks pre ++ nm_tok b :: kw_toks post ++ (P ls [] ++ X)).
  2:{ unfold X, Y. rewrite <- Emid. reflexivity. }
  rewrite (specs_decode_lemma pre post b _ Hpre Hpost Hstop). rewrite apply_kws_app. fold m.
  rewrite Hna. rewrite validate_tt. cbn [negb]. rewrite H1 by lia. fold t. rewrite Hnf.
  unfold X at 1. change (is T_operator (ktok T_operator)) with true. cbn iota.
  rewrite (op_name_rt o _ Hop). change (is LP (ktok LP)) with true. cbn iota.
  rewrite H2 by lia. rewrite Htl.
  fold (quals_of quals). rewrite (q_body_apply_end e _ (quals_no_body quals)).
  unfold TAIL. destruct e; cbn iota; isc; try reflexivity.
Qed.

(* Hand-written mirror of CxxParser._finish_class_or_enum: what follows the
   closing brace of a class / enum definition (or an opaque enum / forward
   form that reaches it).  A GNU attribute behind the brace is outside the
   model (code 4).  Without `typedef`, a ';' ends the statement -- and inside a
   class body an anonymous struct / union then becomes an implicit unnamed
   field.  Otherwise the declarators behind the brace are read by the loop of
   _parse_decl, every one of them on the SAME type object: the class name, or
   the anonymous id the definition was given, with the const / volatile written
   in front of the class key (F34).  So the models of Parse/DeclStmt.v (namespace
   scope, with the typedef flag) and Parse/MemberStmt.v (class scope) are reused;
   a typedef of a class inside a class body is outside the model.
   Tied to the code by the differential run of harness/props/c03.py (the real
   _finish_class_or_enum on the same token lists with a recording visitor). *)
From Coq Require Import NArith List Bool Lia.
Import ListNotations.
From CXV Require Import Gen.TokTy Gen.ParserTables Parse.Balanced Parse.BalancedThms Parse.Declarator Parse.DeclSpec Parse.DeclThms
  Parse.EnumList Parse.Specs Parse.VarStmt Parse.FnTail Parse.Init Parse.Members Parse.MethodTail Parse.DeclStmt Parse.MemberStmt.
Open Scope N_scope.

Definition head_is (c : N) (toks : list tk) : bool := match toks with t :: _ => is c t | [] => false end.

Inductive fin_result :=
| FinNone                                   (* `};` *)
| FinImplicitField                          (* `};` of an anonymous struct / union inside a class: an unnamed field of that type *)
| FinDecls (l : list entry)                 (* namespace scope: variables / functions / typedefs *)
| FinMembers (l : list mentry).             (* class scope: fields / methods *)

(* [bn]: the id of the class name or of the anonymous name; [c] [v]: const / volatile written in front of the class key;
   [anon]: the name is anonymous; [su]: the class key is struct or union; [cls] [dcls]: the enclosing class (for member
   declarators that look like its constructor) *)
Definition finish_class (n fuel : nat) (in_class td anon su : bool) (m : mods) (cls dcls bn : N) (c v : bool) (toks : list tk)
  : dres (fin_result * list tk) :=
  let b := TBase bn c v in
  let body :=
    if in_class then
      if td then DErr 4
      else match member_items n fuel (m_extern m) cls dcls bn b toks with
           | DOk (l, r) => DOk (FinMembers l, r)
           | DErr e => DErr e
           end
    else match decl_items n fuel td (m_mutable m) b toks with
         | DOk (l, r) => DOk (FinDecls l, r)
         | DErr e => DErr e
         end in
  if head_is T___attribute__ toks then DErr 4
  else if negb td && head_is SEMI toks then DOk (if in_class && anon && su then FinImplicitField else FinNone, tl toks)
  else body.

(* ------------------------------------------------------------------ *)

Lemma base_of_wrap : forall ls t, base_of (wrap t ls) = base_of t.
Proof.
  induction ls as [|l r IH]; intros t; [reflexivity|].
  unfold wrap in *. cbn [fold_left]. rewrite IH. destruct l; reflexivity.
Qed.

Definition entry_type (e : entry) : ty := match e with EVar _ t _ => t | EFn _ rt _ _ _ => rt end.

Lemma ditem_entry_base b c v it : base_of (entry_type (ditem_entry (TBase b c v) it)) = (b, c, v).
Proof. destruct it; cbn [ditem_entry entry_type]; now rewrite base_of_wrap. Qed.

Lemma last_entry_base b c v it le : base_of (entry_type (last_entry (TBase b c v) it le)) = (b, c, v).
Proof. destruct it, le; cbn [last_entry ditem_entry entry_type]; now rewrite base_of_wrap. Qed.

Lemma P_head_plain : forall ls n Y, head_is T___attribute__ (P ls [mkTk T_NAME n] ++ Y) = false /\ head_is SEMI (P ls [mkTk T_NAME n] ++ Y) = false.
Proof.
  induction ls as [|l r IH]; intros n Y; [split; reflexivity|].
  destruct l as [c v| | |s|ps va]; try (split; reflexivity); cbn [P].
  - destruct (starts_pfx r); [split; reflexivity|]. cbn [paren]. rewrite <- app_assoc. apply IH.
  - destruct (starts_pfx r); [split; reflexivity|]. cbn [paren]. rewrite <- app_assoc. apply IH.
Qed.

Lemma items_head_plain items last le rest :
  head_is T___attribute__ (items_toks items last le ++ rest) = false /\ head_is SEMI (items_toks items last le ++ rest) = false.
Proof.
  assert (G : forall it Y, head_is T___attribute__ (ditem_toks it ++ Y) = false /\ head_is SEMI (ditem_toks it ++ Y) = false).
  { intros [ls n i|ls ps va n th ne nep] Y; cbn [ditem_toks]; rewrite <- app_assoc; apply P_head_plain. }
  destruct items as [|it q]; cbn [items_toks]; rewrite <- app_assoc; apply G.
Qed.

Lemma mitems_head_plain items last e rest :
  head_is T___attribute__ (mitems_toks items last e ++ rest) = false /\ head_is SEMI (mitems_toks items last e ++ rest) = false.
Proof.
  assert (G : forall it Y, head_is T___attribute__ (mditem_toks it ++ Y) = false /\ head_is SEMI (mditem_toks it ++ Y) = false).
  { intros [ls n bits i|ls ps va n quals] Y; cbn [mditem_toks]; rewrite <- app_assoc; apply P_head_plain. }
  destruct items as [|it q]; cbn [mitems_toks]; rewrite <- app_assoc; apply G.
Qed.

(* `} d1, ..., dn ;` at namespace scope: one entry per declarator, in order, every one on the type of the definition *)
Theorem finish_declarators bn c v anon su m cls dcls items last le rest :
  m_mutable m = false ->
  Forall ditem_ok items -> ditem_ok last -> last_ok last le ->
  ev (fun f => finish_class (S (length items)) f false false anon su m cls dcls bn c v (items_toks items last le ++ rest))
     (DOk (FinDecls (map (ditem_entry (TBase bn c v)) items ++ [last_entry (TBase bn c v) last le]), rest)).
Proof.
  intros Hmu Hall Hlast Hle.
  destruct (decl_items_rt bn c v items last le rest Hall Hlast Hle) as [f1 H1].
  exists f1. intros f Hge. unfold finish_class. rewrite Hmu.
  destruct (items_head_plain items last le rest) as [A1 A2]. rewrite A1, A2. cbn [negb andb].
  rewrite H1 by exact Hge. reflexivity.
Qed.

(* `typedef struct { ... } d1, ..., dn ;` *)
Theorem finish_typedef_declarators bn c v anon su m cls dcls items last rest :
  m_mutable m = false ->
  Forall td_item_ok items -> td_item_ok last ->
  ev (fun f => finish_class (S (length items)) f false true anon su m cls dcls bn c v (items_toks items last LSemi ++ rest))
     (DOk (FinDecls (map (ditem_entry (TBase bn c v)) items ++ [ditem_entry (TBase bn c v) last]), rest)).
Proof.
  intros Hmu Hall Hlast.
  destruct (decl_items_td_rt bn c v items last rest Hall Hlast) as [f1 H1].
  exists f1. intros f Hge. unfold finish_class. rewrite Hmu.
  destruct (items_head_plain items last LSemi rest) as [A1 A2]. rewrite A1. cbn [negb andb].
  rewrite H1 by exact Hge. reflexivity.
Qed.

(* the same inside a class body: `struct { ... } a, *b;` as members *)
Theorem finish_member_declarators bn c v anon su m cls dcls items last e rest :
  m_extern m = false ->
  Forall mditem_ok items -> mditem_ok last -> mlast_ok last e ->
  ev (fun f => finish_class (S (length items)) f true false anon su m cls dcls bn c v (mitems_toks items last e ++ rest))
     (DOk (FinMembers (map (mditem_entry (TBase bn c v)) items ++ [mlast_entry (TBase bn c v) last e]), rest)).
Proof.
  intros Hex Hall Hlast Hle.
  destruct (member_items_rt cls dcls bn bn c v items last e rest Hall Hlast Hle) as [f1 H1].
  exists f1. intros f Hge. unfold finish_class. rewrite Hex.
  destruct (mitems_head_plain items last e rest) as [A1 A2]. rewrite A1, A2. cbn [negb andb].
  rewrite H1 by exact Hge. reflexivity.
Qed.

(* the statement ends right behind the brace: nothing is declared, except the implicit field of an anonymous struct /
   union that is a member *)
Theorem finish_semicolon n f in_class anon su m cls dcls bn c v semi rest :
  is SEMI semi = true ->
  finish_class n f in_class false anon su m cls dcls bn c v (semi :: rest)
  = DOk (if in_class && anon && su then FinImplicitField else FinNone, rest).
Proof.
  intros H. unfold finish_class. cbn [head_is tl].
  assert (Ha : is T___attribute__ semi = false).
  { unfold is in *. apply N.eqb_eq in H. rewrite H. reflexivity. }
  rewrite Ha, H. reflexivity.
Qed.

(* every declarator behind the brace is built on the one type of the definition (its name or its anonymous id, with the
   cv-qualifiers written in front of the class key) -- and so an anonymous id is shared by exactly these declarators *)
Corollary finish_declarators_share_the_type bn c v items last le :
  Forall (fun e => base_of (entry_type e) = (bn, c, v))
         (map (ditem_entry (TBase bn c v)) items ++ [last_entry (TBase bn c v) last le]).
Proof.
  apply Forall_app. split.
  - apply Forall_forall. intros e He. apply in_map_iff in He as (it & <- & _). apply ditem_entry_base.
  - constructor; [apply last_entry_base|constructor].
Qed.

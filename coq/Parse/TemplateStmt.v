(* Hand-written mirror of CxxParser._parse_template (what a `template`
   statement is handed on to) and of CxxParser._parse_concept.

   _parse_template, entered after the `template` keyword:
     - no '<' next: an explicit instantiation (nothing consumed);
     - one header `< ... >` (Parse/Template.v tdecl), then one token:
         `template`  -> further headers, each followed by one token, until a
                        token that is not `template`: a declaration with the
                        list of all headers;
         `using` / `friend` / `concept` -> that statement with the one header;
         `requires`  -> a requires-clause, then a declaration;
         anything else -> a declaration that starts with that token.
   The model returns which continuation is taken, the headers it receives and
   the tokens left when it is entered.

   _parse_concept, entered after `concept`: NAME '=' value up to ',' or ';'
   (not consumed); rejected inside a class.
   Tied to the code by the differential run of harness/props/c01.py (the real
   methods with their continuations recorded). *)
From Coq Require Import NArith List Bool Lia.
Import ListNotations.
From CXV Require Import Gen.TokTy Gen.ParserTables Parse.Balanced Parse.BalancedThms Parse.Declarator Parse.DeclSpec Parse.DeclThms
  Parse.EnumList Parse.Template.
Open Scope N_scope.

(* continuation codes: 0 instantiation, 1 using, 2 friend, 3 concept, 4 requires, 5 declaration *)
Definition K_INST : N := 0. Definition K_USING : N := 1. Definition K_FRIEND : N := 2.
Definition K_CONCEPT : N := 3. Definition K_REQUIRES : N := 4. Definition K_DECL : N := 5.

(* `while tok.type == "template": templates.append(self._parse_template_decl()); tok = self.lex.token()`,
   entered after a `template` token; [n] bounds the number of headers *)
Fixpoint more_headers (n f : nat) (acc : list (list tparam)) (toks : list tk) : dres (N * list (list tparam) * list tk) :=
  match n with
  | O => DErr 9
  | S n' =>
      match tdecl f toks with
      | DErr e => DErr e
      | DOk (h, r) =>
          match r with
          | k :: r1 => if is T_template k then more_headers n' f (h :: acc) r1 else DOk (K_DECL, rev (h :: acc), r1)
          | [] => DErr 2
          end
      end
  end.

Definition template_stmt (n f : nat) (toks : list tk) : dres (N * list (list tparam) * list tk) :=
  match toks with
  | t :: _ =>
      if is LT t then
        match tdecl f toks with
        | DErr e => DErr e
        | DOk (h, r) =>
            match r with
            | k :: r1 =>
                if is T_template k then more_headers n f [h] r1
                else if is T_using k then DOk (K_USING, [h], r1)
                else if is T_friend k then DOk (K_FRIEND, [h], r1)
                else if is T_concept k then DOk (K_CONCEPT, [h], r1)
                else if is T_requires k then DOk (K_REQUIRES, [h], r1)
                else DOk (K_DECL, [h], r1)
            | [] => DErr 2
            end
        end
      else DOk (K_INST, [], toks)
  | [] => DOk (K_INST, [], toks)
  end.

Definition concept_terms : list N := [COMMA; SEMI].

Definition concept_stmt (in_class : bool) (toks : list tk) : dres (N * list tk * list tk) :=
  match toks with
  | n :: r =>
      if is T_NAME n then
        match r with
        | e :: r1 =>
            if is EQ e then
              match consume_value_until kty concept_terms r1 with
              | Ok (v, r2) => if in_class then DErr 3 else DOk (kval n, v, r2)
              | ErrEOF => DErr 2 | ErrUnexpected _ => DErr 1 | ErrInternal => DErr 3
              end
            else DErr 1
        | [] => DErr 2
        end
      else DErr 1
  | [] => DErr 2
  end.

(* ------------------------------------------------------------------ *)
(* printed template statements: headers h1 .. hn (n >= 1), each but the first introduced by `template`, then a token k *)

Fixpoint headers_toks (hs : list (list tparam)) : list tk :=
  match hs with
  | [] => []
  | h :: q => ktok T_template :: tlist_toks h ++ headers_toks q
  end.

Definition kind_of_tok (k : tk) : N :=
  if is T_using k then K_USING else if is T_friend k then K_FRIEND else if is T_concept k then K_CONCEPT
  else if is T_requires k then K_REQUIRES else K_DECL.

Lemma more_headers_rt : forall hs acc k R,
  Forall (Forall tp_ok) hs -> is T_template k = false -> hs <> [] ->
  ev (fun f => more_headers (length hs) f acc (tl (headers_toks hs) ++ k :: R))
     (DOk (K_DECL, rev acc ++ hs, R)).
Proof.
  induction hs as [|h q IH]; intros acc k R Hall Hk Hne; [contradiction|].
  inversion Hall as [|? ? Hh Hq]; subst.
  cbn [headers_toks tl]. rewrite <- app_assoc.
  destruct (template_params_roundtrip h (headers_toks q ++ k :: R) Hh) as [f1 H1].
  destruct q as [|h2 q'].
  - exists f1. intros f Hge. cbn [length more_headers headers_toks app]. cbn [headers_toks app] in H1.
    rewrite H1 by exact Hge. rewrite Hk. cbn [rev]. reflexivity.
  - destruct (IH (h :: acc) k R Hq Hk ltac:(discriminate)) as [f2 H2].
    exists (Nat.max f1 f2). intros f Hge.
    change (length (h :: h2 :: q')) with (S (length (h2 :: q'))). cbn [more_headers].
    rewrite H1 by lia. cbn [headers_toks app]. change (is T_template (ktok T_template)) with true. cbn iota.
    cbn [headers_toks tl] in H2. rewrite H2 by lia. cbn [rev]. rewrite <- app_assoc. reflexivity.
Qed.

(* one header: the token behind it selects the continuation, which receives exactly that header and the tokens behind the
   selecting token *)
Theorem template_stmt_one h k R n :
  Forall tp_ok h -> is T_template k = false ->
  ev (fun f => template_stmt n f (tlist_toks h ++ k :: R)) (DOk (kind_of_tok k, [h], R)).
Proof.
  intros Hh Hk.
  destruct (template_params_roundtrip h (k :: R) Hh) as [f1 H1].
  exists f1. intros f Hge. unfold template_stmt, tlist_toks. cbn [app].
  change (is LT (ktok LT)) with true. cbn iota.
  change (ktok LT :: (join_comma (map tp_toks h) ++ [ktok GTk]) ++ k :: R) with (tlist_toks h ++ k :: R).
  rewrite H1 by exact Hge. rewrite Hk. unfold kind_of_tok.
  destruct (is T_using k); [reflexivity|]. destruct (is T_friend k); [reflexivity|].
  destruct (is T_concept k); [reflexivity|]. destruct (is T_requires k); reflexivity.
Qed.

(* several headers: always a declaration, which receives all of them in source order *)
Theorem template_stmt_many h hs k R :
  Forall tp_ok h -> Forall (Forall tp_ok) hs -> hs <> [] -> is T_template k = false ->
  ev (fun f => template_stmt (length hs) f (tlist_toks h ++ headers_toks hs ++ k :: R)) (DOk (K_DECL, h :: hs, R)).
Proof.
  intros Hh Hhs Hne Hk.
  destruct (template_params_roundtrip h (headers_toks hs ++ k :: R) Hh) as [f1 H1].
  destruct (more_headers_rt hs [h] k R Hhs Hk Hne) as [f2 H2].
  exists (Nat.max f1 f2). intros f Hge. unfold template_stmt, tlist_toks. cbn [app].
  change (is LT (ktok LT)) with true. cbn iota.
  change (ktok LT :: (join_comma (map tp_toks h) ++ [ktok GTk]) ++ headers_toks hs ++ k :: R)
    with (tlist_toks h ++ headers_toks hs ++ k :: R).
  rewrite H1 by lia.
  destruct hs as [|h2 q]; [contradiction|]. cbn [headers_toks app].
  change (is T_template (ktok T_template)) with true. cbn iota.
  cbn [headers_toks tl] in H2. rewrite <- app_assoc in H2. rewrite <- app_assoc. rewrite H2 by lia. reflexivity.
Qed.

(* no '<': an explicit instantiation, nothing consumed *)
Theorem template_stmt_inst n f toks :
  match toks with t :: _ => is LT t = false | [] => True end ->
  template_stmt n f toks = DOk (K_INST, [], toks).
Proof. destruct toks as [|t r]; [reflexivity|]. intros H. cbn [template_stmt]. now rewrite H. Qed.

(* a concept definition: its name and exactly the tokens of its constraint expression; the terminator is left *)
Theorem concept_roundtrip n e s R :
  Expr tk kty concept_terms e -> (is COMMA s = true \/ is SEMI s = true) ->
  concept_stmt false (mkTk T_NAME n :: ktok EQ :: e ++ s :: R) = DOk (n, e, s :: R).
Proof.
  intros He Hs.
  assert (Hstop : stops_at tk kty concept_terms (s :: R)).
  { cbn [stops_at concept_terms memN]. unfold is in Hs. destruct Hs as [H|H]; apply N.eqb_eq in H; rewrite H; reflexivity. }
  cbn [concept_stmt]. change (is T_NAME (mkTk T_NAME n)) with true. cbn iota.
  change (is EQ (ktok EQ)) with true. cbn iota.
  now rewrite (value_is_whole tk kty concept_terms e (s :: R) He Hstop).
Qed.

Theorem concept_in_class_rejected toks : forall x, concept_stmt true toks <> DOk x.
Proof.
  intros x. unfold concept_stmt.
  destruct toks as [|n r]; [discriminate|]. destruct (is T_NAME n); [|discriminate].
  destruct r as [|e r1]; [discriminate|]. destruct (is EQ e); [|discriminate].
  destruct (consume_value_until kty concept_terms r1) as [[v r2]| | |]; discriminate.
Qed.

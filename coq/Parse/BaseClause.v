(* Hand-written mirror of CxxParser._parse_class_decl_base_clause (entered
   after the ':'), for bases named by a single identifier: each base starts
   from the class-key default access, `virtual` and an access keyword may come
   in either order, an ellipsis marks a pack, ',' continues the list.
   Attributes and qualified / templated base names are outside this model.
   Tied to the code by the differential run of harness/props/c03.py. *)
From Coq Require Import NArith List Bool.
Import ListNotations.
From CXV Require Import Gen.TokTy Parse.Declarator Parse.DeclSpec.
Open Scope N_scope.

Record base := mkBase { b_access : N; b_name : N; b_virtual : bool; b_pack : bool }.

Definition is_access (t : tk) : bool := is T_public t || is T_private t || is T_protected t.

(* the inner `while tok_type in self._base_access_virtual` loop; fuel = tokens left *)
Fixpoint base_mods (access : N) (virt : bool) (toks : list tk) : N * bool * list tk :=
  match toks with
  | t :: r =>
      if is T_virtual t then base_mods access true r
      else if is_access t then base_mods (kty t) virt r
      else (access, virt, toks)
  | [] => (access, virt, toks)
  end.

Fixpoint bases (n : nat) (default : N) (acc : list base) (toks : list tk) {struct n}
  : dres (list base * list tk) :=
  match n with
  | O => DErr 9
  | S n' =>
      let '(a, v, r) := base_mods default false toks in      (* access = default_access for EVERY base *)
      match r with
      | t :: r1 =>
          if is T_NAME t then
            let '(pack, r2) := match r1 with
                               | e :: r2 => if is T_ELLIPSIS e then (true, r2) else (false, r1)
                               | [] => (false, r1)
                               end in
            let b := mkBase a (kval t) v pack in
            match r2 with
            | c :: r3 => if is COMMA c then bases n' default (b :: acc) r3 else DOk (rev (b :: acc), r2)
            | [] => DOk (rev (b :: acc), r2)
            end
          else DErr 4
      | [] => DErr 2
      end
  end.

(* a base as written: explicit access or none, virtual before or after it *)
Record wbase := mkW { w_access : option N; w_name : N; w_virtual : bool; w_virtual_first : bool; w_pack : bool }.

Definition access_ok (w : wbase) : bool :=
  match w_access w with
  | Some a => (a =? T_public) || (a =? T_private) || (a =? T_protected)
  | None => true
  end.

Definition wbase_toks (w : wbase) : list tk :=
  let a := match w_access w with Some a => [ktok a] | None => [] end in
  let v := if w_virtual w then [ktok T_virtual] else [] in
  (if w_virtual_first w then v ++ a else a ++ v) ++ [mkTk T_NAME (w_name w)] ++ (if w_pack w then [ktok T_ELLIPSIS] else []).

Definition resolve (default : N) (w : wbase) : base :=
  mkBase (match w_access w with Some a => a | None => default end) (w_name w) (w_virtual w) (w_pack w).

(* what may follow a base clause: the class body *)
Definition after_bases_ok (rest : list tk) : bool :=
  match rest with t :: _ => negb (is COMMA t) && negb (is T_ELLIPSIS t) | [] => true end.

Lemma base_mods_written (default : N) (w : wbase) (X : list tk) :
  access_ok w = true ->
  base_mods default false (wbase_toks w ++ X) =
    (b_access (resolve default w), w_virtual w,
     mkTk T_NAME (w_name w) :: (if w_pack w then [ktok T_ELLIPSIS] else []) ++ X).
Proof.
  destruct w as [a nm v vf p]. unfold access_ok, wbase_toks, resolve. cbn [w_access w_name w_virtual w_virtual_first w_pack b_access].
  intros Ha.
  assert (Hacc : forall a0, (a0 =? T_public) || (a0 =? T_private) || (a0 =? T_protected) = true ->
            is T_virtual (ktok a0) = false /\ is_access (ktok a0) = true).
  { intros a0 H. unfold is_access, is. cbn [kty ktok].
    apply orb_prop in H as [H|H]; [apply orb_prop in H as [H|H]|]; apply N.eqb_eq in H; subst a0; split; reflexivity. }
  destruct a as [a|]; destruct v, vf; cbn [app base_mods];
    try (destruct (Hacc a Ha) as [E1 E2]; rewrite ?E1, ?E2);
    repeat (change (is T_virtual (ktok T_virtual)) with true; cbn iota);
    try (destruct (Hacc a Ha) as [E1' E2']; cbn [base_mods]; rewrite ?E1', ?E2');
    cbn [base_mods kty ktok];
    change (is T_virtual (mkTk T_NAME nm)) with false; change (is_access (mkTk T_NAME nm)) with false; cbn iota;
    reflexivity.
Qed.

Lemma bases_rt default : forall ws acc rest,
  forallb access_ok ws = true -> ws <> [] -> after_bases_ok rest = true ->
  bases (length ws) default acc (join_comma (map wbase_toks ws) ++ rest)
  = DOk (rev acc ++ map (resolve default) ws, rest).
Proof.
  induction ws as [|w q IH]; intros acc rest Hok Hne Hrest; [contradiction|].
  cbn [forallb] in Hok. apply andb_prop in Hok as [Hw Hq].
  cbn [length bases].
  destruct q as [|w2 q'].
  - cbn [map join_comma]. rewrite (base_mods_written default w rest Hw).
    change (is T_NAME (mkTk T_NAME (w_name w))) with true. cbn iota.
    destruct (w_pack w) eqn:Ep; cbn [app].
    + change (is T_ELLIPSIS (ktok T_ELLIPSIS)) with true. cbn iota.
      assert (Eb : mkBase (b_access (resolve default w)) (kval (mkTk T_NAME (w_name w))) (w_virtual w) true = resolve default w).
      { unfold resolve. cbn [b_access kval]. now rewrite Ep. }
      rewrite Eb. destruct rest as [|t r]; [cbn [rev map app]; rewrite <- ?app_assoc; reflexivity|].
      cbn [after_bases_ok] in Hrest. apply andb_prop in Hrest as [Hc _]. apply negb_true_iff in Hc. rewrite Hc.
      cbn [rev map app]; rewrite <- ?app_assoc; reflexivity.
    + assert (Eb : mkBase (b_access (resolve default w)) (kval (mkTk T_NAME (w_name w))) (w_virtual w) false = resolve default w).
      { unfold resolve. cbn [b_access kval]. now rewrite Ep. }
      destruct rest as [|t r]; [rewrite Eb; cbn [rev map app]; rewrite <- ?app_assoc; reflexivity|].
      cbn [after_bases_ok] in Hrest. apply andb_prop in Hrest as [Hc He].
      apply negb_true_iff in Hc. apply negb_true_iff in He. rewrite He, Eb, Hc.
      cbn [rev map app]; rewrite <- ?app_assoc; reflexivity.
  - change (map wbase_toks (w :: w2 :: q')) with (wbase_toks w :: wbase_toks w2 :: map wbase_toks q').
    assert (Ej : forall x y l, join_comma (x :: y :: l) = x ++ ktok COMMA :: join_comma (y :: l)) by reflexivity.
    rewrite Ej. rewrite <- app_assoc. cbn [app].
    rewrite (base_mods_written default w _ Hw).
    change (is T_NAME (mkTk T_NAME (w_name w))) with true. cbn iota.
    change (wbase_toks w2 :: map wbase_toks q') with (map wbase_toks (w2 :: q')).
    pose proof (IH (resolve default w :: acc) rest Hq ltac:(discriminate) Hrest) as HI.
    destruct (w_pack w) eqn:Ep; cbn [app].
    + change (is T_ELLIPSIS (ktok T_ELLIPSIS)) with true. cbn iota.
      change (is COMMA (ktok COMMA)) with true. cbn iota.
      assert (Eb : mkBase (b_access (resolve default w)) (kval (mkTk T_NAME (w_name w))) (w_virtual w) true = resolve default w).
      { unfold resolve. cbn [b_access kval]. now rewrite Ep. }
      rewrite Eb, HI. cbn [rev map app]; rewrite <- ?app_assoc; reflexivity.
    + change (is T_ELLIPSIS (ktok COMMA)) with false. cbn iota.
      change (is COMMA (ktok COMMA)) with true. cbn iota.
      assert (Eb : mkBase (b_access (resolve default w)) (kval (mkTk T_NAME (w_name w))) (w_virtual w) false = resolve default w).
      { unfold resolve. cbn [b_access kval]. now rewrite Ep. }
      rewrite Eb, HI. cbn [rev map app]; rewrite <- ?app_assoc; reflexivity.
Qed.

(* every base is reported once, in order; a base without an access keyword has
   the class-key default, whatever the bases before it said *)
Theorem base_clause_roundtrip default ws rest :
  forallb access_ok ws = true -> ws <> [] -> after_bases_ok rest = true ->
  bases (length ws) default [] (join_comma (map wbase_toks ws) ++ rest) = DOk (map (resolve default) ws, rest).
Proof. intros H1 H2 H3. exact (bases_rt default ws [] rest H1 H2 H3). Qed.

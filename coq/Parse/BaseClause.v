(* Hand-written mirror of CxxParser._parse_class_decl_base_clause (entered
   after the ':'), for bases named by a single identifier: each base starts
   from the class-key default access, `virtual` and an access keyword may come
   in either order, an ellipsis marks a pack, ',' continues the list.
   Attributes and qualified / templated base names are outside this model.
   Tied to the code by the differential run of harness/props/c03.py. *)
From Coq Require Import NArith List Bool Lia.
Import ListNotations.
From CXV Require Import Gen.TokTy Parse.Declarator Parse.DeclSpec.
Open Scope N_scope.

Record base := mkBase { b_access : N; b_name : N; b_virtual : bool; b_pack : bool }.

Definition is_access (t : tk) : bool := is T_public t || is T_private t || is T_protected t.

(* the inner `while tok_type in self._base_access_virtual` loop; fuel = tokens left *)
Fixpoint base_mods (access : N) (virt : bool) (toks : list tk) : N * bool * list tk :=
  match toks with
  | t :: r =>
      if is T_virtual t then base_mods access true r
      else if is_access t then base_mods (kty t) virt r
      else (access, virt, toks)
  | [] => (access, virt, toks)
  end.

Fixpoint bases (n : nat) (default : N) (acc : list base) (toks : list tk) {struct n}
  : dres (list base * list tk) :=
  match n with
  | O => DErr 9
  | S n' =>
      let '(a, v, r) := base_mods default false toks in      (* access = default_access for EVERY base *)
      match r with
      | t :: r1 =>
          if is T_NAME t then
            let '(pack, r2) := match r1 with
                               | e :: r2 => if is T_ELLIPSIS e then (true, r2) else (false, r1)
                               | [] => (false, r1)
                               end in
            let b := mkBase a (kval t) v pack in
            match r2 with
            | c :: r3 => if is COMMA c then bases n' default (b :: acc) r3 else DOk (rev (b :: acc), r2)
            | [] => DOk (rev (b :: acc), r2)
            end
          else DErr 4
      | [] => DErr 2
      end
  end.

(* a base as written: explicit access or none, virtual before or after it *)
Record wbase := mkW { w_access : option N; w_name : N; w_virtual : bool; w_virtual_first : bool; w_pack : bool }.

Definition access_ok (w : wbase) : bool :=
  match w_access w with
  | Some a => (a =? T_public) || (a =? T_private) || (a =? T_protected)
  | None => true
  end.

Definition wbase_toks (w : wbase) : list tk :=
  let a := match w_access w with Some a => [ktok a] | None => [] end in
  let v := if w_virtual w then [ktok T_virtual] else [] in
  (if w_virtual_first w then v ++ a else a ++ v) ++ [mkTk T_NAME (w_name w)] ++ (if w_pack w then [ktok T_ELLIPSIS] else []).

Definition resolve (default : N) (w : wbase) : base :=
  mkBase (match w_access w with Some a => a | None => default end) (w_name w) (w_virtual w) (w_pack w).

(* what may follow a base clause: the class body *)
Definition after_bases_ok (rest : list tk) : bool :=
  match rest with t :: _ => negb (is COMMA t) && negb (is T_ELLIPSIS t) | [] => true end.

Lemma base_mods_written (default : N) (w : wbase) (X : list tk) :
  access_ok w = true ->
  base_mods default false (wbase_toks w ++ X) =
    (b_access (resolve default w), w_virtual w,
     mkTk T_NAME (w_name w) :: (if w_pack w then [ktok T_ELLIPSIS] else []) ++ X).
Proof.
  destruct w as [a nm v vf p]. unfold access_ok, wbase_toks, resolve. cbn [w_access w_name w_virtual w_virtual_first w_pack b_access].
  intros Ha.
  assert (Hacc : forall a0, (a0 =? T_public) || (a0 =? T_private) || (a0 =? T_protected) = true ->
            is T_virtual (ktok a0) = false /\ is_access (ktok a0) = true).
  { intros a0 H. unfold is_access, is. cbn [kty ktok].
    apply orb_prop in H as [H|H]; [apply orb_prop in H as [H|H]|]; apply N.eqb_eq in H; subst a0; split; reflexivity. }
  destruct a as [a|]; destruct v, vf; cbn [app base_mods];
    try (destruct (Hacc a Ha) as [E1 E2]; rewrite ?E1, ?E2);
    repeat (change (is T_virtual (ktok T_virtual)) with true; cbn iota);
    try (destruct (Hacc a Ha) as [E1' E2']; cbn [base_mods]; rewrite ?E1', ?E2');
    cbn [base_mods kty ktok];
    change (is T_virtual (mkTk T_NAME nm)) with false; change (is_access (mkTk T_NAME nm)) with false; cbn iota;
    reflexivity.
Qed.

Lemma bases_rt default : forall ws acc rest n,
  forallb access_ok ws = true -> ws <> [] -> after_bases_ok rest = true -> (length ws <= n)%nat ->
  bases n default acc (join_comma (map wbase_toks ws) ++ rest)
  = DOk (rev acc ++ map (resolve default) ws, rest).
Proof.
  induction ws as [|w q IH]; intros acc rest n Hok Hne Hrest Hn; [contradiction|].
  cbn [forallb] in Hok. apply andb_prop in Hok as [Hw Hq].
  destruct n as [|n]; [cbn [length] in Hn; lia|]. cbn [length] in Hn.
  cbn [bases].
  destruct q as [|w2 q'].
  - cbn [map join_comma]. rewrite (base_mods_written default w rest Hw).
    change (is T_NAME (mkTk T_NAME (w_name w))) with true. cbn iota.
    destruct (w_pack w) eqn:Ep; cbn [app].
    + change (is T_ELLIPSIS (ktok T_ELLIPSIS)) with true. cbn iota.
      assert (Eb : mkBase (b_access (resolve default w)) (kval (mkTk T_NAME (w_name w))) (w_virtual w) true = resolve default w).
      { unfold resolve. cbn [b_access kval]. now rewrite Ep. }
      rewrite Eb. destruct rest as [|t r]; [cbn [rev map app]; rewrite <- ?app_assoc; reflexivity|].
      cbn [after_bases_ok] in Hrest. apply andb_prop in Hrest as [Hc _]. apply negb_true_iff in Hc. rewrite Hc.
      cbn [rev map app]; rewrite <- ?app_assoc; reflexivity.
    + assert (Eb : mkBase (b_access (resolve default w)) (kval (mkTk T_NAME (w_name w))) (w_virtual w) false = resolve default w).
      { unfold resolve. cbn [b_access kval]. now rewrite Ep. }
      destruct rest as [|t r]; [rewrite Eb; cbn [rev map app]; rewrite <- ?app_assoc; reflexivity|].
      cbn [after_bases_ok] in Hrest. apply andb_prop in Hrest as [Hc He].
      apply negb_true_iff in Hc. apply negb_true_iff in He. rewrite He, Eb, Hc.
      cbn [rev map app]; rewrite <- ?app_assoc; reflexivity.
  - change (map wbase_toks (w :: w2 :: q')) with (wbase_toks w :: wbase_toks w2 :: map wbase_toks q').
    assert (Ej : forall x y l, join_comma (x :: y :: l) = x ++ ktok COMMA :: join_comma (y :: l)) by reflexivity.
    rewrite Ej. rewrite <- app_assoc. cbn [app].
    rewrite (base_mods_written default w _ Hw).
    change (is T_NAME (mkTk T_NAME (w_name w))) with true. cbn iota.
    change (wbase_toks w2 :: map wbase_toks q') with (map wbase_toks (w2 :: q')).
    pose proof (IH (resolve default w :: acc) rest n Hq ltac:(discriminate) Hrest ltac:(lia)) as HI.
    destruct (w_pack w) eqn:Ep; cbn [app].
    + change (is T_ELLIPSIS (ktok T_ELLIPSIS)) with true. cbn iota.
      change (is COMMA (ktok COMMA)) with true. cbn iota.
      assert (Eb : mkBase (b_access (resolve default w)) (kval (mkTk T_NAME (w_name w))) (w_virtual w) true = resolve default w).
      { unfold resolve. cbn [b_access kval]. now rewrite Ep. }
      rewrite Eb, HI. cbn [rev map app]; rewrite <- ?app_assoc; reflexivity.
    + change (is T_ELLIPSIS (ktok COMMA)) with false. cbn iota.
      change (is COMMA (ktok COMMA)) with true. cbn iota.
      assert (Eb : mkBase (b_access (resolve default w)) (kval (mkTk T_NAME (w_name w))) (w_virtual w) false = resolve default w).
      { unfold resolve. cbn [b_access kval]. now rewrite Ep. }
      rewrite Eb, HI. cbn [rev map app]; rewrite <- ?app_assoc; reflexivity.
Qed.

(* every base is reported once, in order; a base without an access keyword has
   the class-key default, whatever the bases before it said *)
Theorem base_clause_roundtrip default ws rest :
  forallb access_ok ws = true -> ws <> [] -> after_bases_ok rest = true ->
  bases (length ws) default [] (join_comma (map wbase_toks ws) ++ rest) = DOk (map (resolve default) ws, rest).
Proof. intros H1 H2 H3. exact (bases_rt default ws [] rest (length ws) H1 H2 H3 (le_n _)). Qed.

(* ------------------------------------------------------------------ *)
(* the class head after the class name (CxxParser._parse_class_decl):
   class-virt-specifiers `final` / `explicit` in any order, an optional base
   clause, then the '{' that opens the body *)
From CXV Require Import Parse.EnumList.

Fixpoint virt_specs (final explicit : bool) (toks : list tk) : bool * bool * list tk :=
  match toks with
  | t :: r =>
      if is T_final t then virt_specs true explicit r
      else if is T_explicit t then virt_specs final true r
      else (final, explicit, toks)
  | [] => (final, explicit, toks)
  end.

Definition first_explicit (toks : list tk) : bool := match toks with t :: _ => is T_explicit t | [] => false end.

Definition class_head (default : N) (toks : list tk) : dres (bool * bool * list base * list tk) :=
  (* an `explicit` directly after the class name never gets here: the specifier loop of _parse_type takes it
     (and the declaration is then rejected); only `final ... explicit` reaches this code *)
  if first_explicit toks then DErr 4 else
  let '(fi, ex, r) := virt_specs false false toks in
  match r with
  | t :: r1 =>
      if is T_LIT_58 t then
        match bases (length r1) default [] r1 with
        | DOk (bs, r2) =>
            match r2 with
            | b :: r3 => if is LBRACE b then DOk (fi, ex, bs, r3) else DErr 1
            | [] => DErr 2
            end
        | DErr e => DErr e
        end
      else if is LBRACE t then DOk (fi, ex, [], r1)
      else DErr 1
  | [] => DErr 2
  end.

Definition vs_toks (vs : list bool) : list tk := map (fun f : bool => ktok (if f then T_final else T_explicit)) vs.

Lemma virt_specs_rt : forall vs fi ex X,
  (match X with t :: _ => is T_final t = false /\ is T_explicit t = false | [] => True end) ->
  virt_specs fi ex (vs_toks vs ++ X) = (fi || existsb (fun f => f) vs, ex || existsb negb vs, X).
Proof.
  induction vs as [|f q IH]; intros fi ex X HX.
  - cbn [vs_toks map app existsb]. rewrite !orb_false_r. destruct X as [|t r]; [reflexivity|].
    destruct HX as [H1 H2]. cbn [virt_specs]. now rewrite H1, H2.
  - cbn [vs_toks map app virt_specs existsb]. destruct f.
    + change (is T_final (ktok T_final)) with true. cbn iota. fold (vs_toks q). rewrite IH by exact HX.
      cbn [negb]. destruct fi, ex, (existsb (fun f => f) q), (existsb negb q); reflexivity.
    + change (is T_final (ktok T_explicit)) with false. change (is T_explicit (ktok T_explicit)) with true. cbn iota.
      fold (vs_toks q). rewrite IH by exact HX. cbn [negb]. destruct fi, ex, (existsb (fun f => f) q), (existsb negb q); reflexivity.
Qed.

(* `Name [final|explicit]* [: bases] {` *)
Theorem class_head_roundtrip default vs ws rest :
  forallb access_ok ws = true -> (match vs with f :: _ => f = true | [] => True end) ->
  class_head default (vs_toks vs ++ (match ws with [] => [] | _ => ktok T_LIT_58 :: join_comma (map wbase_toks ws) end) ++ ktok LBRACE :: rest)
  = DOk (existsb (fun f => f) vs, existsb negb vs, map (resolve default) ws, rest).
Proof.
  intros Hok Hfirst. unfold class_head.
  assert (Hfe : first_explicit (vs_toks vs ++ (match ws with [] => [] | _ => ktok T_LIT_58 :: join_comma (map wbase_toks ws) end) ++ ktok LBRACE :: rest) = false).
  { destruct vs as [|f q]; [destruct ws; reflexivity|]. rewrite Hfirst. reflexivity. }
  rewrite Hfe.
  rewrite virt_specs_rt.
  - cbn [orb]. destruct ws as [|w q].
    + cbn [app map]. change (is T_LIT_58 (ktok LBRACE)) with false. change (is LBRACE (ktok LBRACE)) with true. cbn iota. reflexivity.
    + cbn [app]. change (is T_LIT_58 (ktok T_LIT_58)) with true. cbn iota.
      rewrite (bases_rt default (w :: q) [] (ktok LBRACE :: rest) _ Hok ltac:(discriminate) eq_refl).
      * cbn [rev app]. change (is LBRACE (ktok LBRACE)) with true. cbn iota. reflexivity.
      * rewrite app_length.
        assert (L : forall l : list wbase, (length l <= length (join_comma (map wbase_toks l)) + 1)%nat).
        { clear. induction l as [|x l IH]; [cbn; lia|].
          destruct l as [|y l']; [cbn [map join_comma length]; lia|].
          change (map wbase_toks (x :: y :: l')) with (wbase_toks x :: map wbase_toks (y :: l')).
          change (join_comma (wbase_toks x :: map wbase_toks (y :: l'))) with (wbase_toks x ++ ktok COMMA :: join_comma (map wbase_toks (y :: l'))).
          rewrite app_length. cbn [length] in *. lia. }
        specialize (L (w :: q)). cbn [length] in *. lia.
  - destruct ws; split; reflexivity.
Qed.

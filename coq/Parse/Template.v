(* Hand-written mirror of CxxParser._parse_template_decl and
   _parse_template_type_parameter: the parameter list of a template header --
   type parameters (class / typename, pack, name, default), template template
   parameters (a nested header, any depth) and non-type parameters (read by
   _parse_parameter, Parse/Declarator.v param).  A `typename` that introduces a
   dependent type name and defaults of non-type parameters are outside this
   model (code 4).
   Tied to the code by the differential run of harness/props/c01.py. *)
From Coq Require Import NArith List Bool Lia.
Import ListNotations.
From CXV Require Import Gen.TokTy Gen.ParserTables Parse.Balanced Parse.BalancedThms Parse.Declarator Parse.DeclSpec Parse.DeclThms Parse.EnumList.
Open Scope N_scope.

Definition LT := T_LIT_60.
Definition GTk := T_LIT_62.
Definition tmpl_terms : list N := [COMMA; GTk].

Inductive tparam :=
| TPType (key : N) (pack : bool) (name : option N) (default : option (list tk)) (inner : option (list tparam))
| TPNonType (t : ty) (name : option N).

(* _parse_template_type_parameter, entered after the class / typename keyword *)
Definition type_param (key : N) (inner : option (list tparam)) (toks : list tk) : dres (tparam * list tk) :=
  let '(pack, r1) := match toks with e :: r => if is T_ELLIPSIS e then (true, r) else (false, toks) | [] => (false, toks) end in
  let '(name, r2) := match r1 with n :: r => if is T_NAME n then (Some (kval n), r) else (None, r1) | [] => (None, r1) end in
  match r2 with
  | e :: r =>
      if is EQ e then
        match consume_value_until kty tmpl_terms r with
        | Ok (v, r3) => DOk (TPType key pack name (Some v) inner, r3)
        | ErrEOF => DErr 2 | ErrUnexpected _ => DErr 1 | ErrInternal => DErr 3
        end
      else DOk (TPType key pack name None inner, r2)
  | [] => DOk (TPType key pack name None inner, r2)
  end.

(* is the token after `typename` the start of a type parameter? *)
Definition typename_is_type_param (toks : list tk) : bool :=
  match toks with
  | p :: r =>
      is T_ELLIPSIS p || is EQ p || is COMMA p || is GTk p ||
      (is T_NAME p && match r with q :: _ => is EQ q || is COMMA q || is GTk q | [] => false end)
  | [] => false
  end.

Fixpoint tdecl (f : nat) (toks : list tk) {struct f} : dres (list tparam * list tk) :=
  match f with
  | O => DErr 9
  | S f' =>
      match toks with
      | lt :: r =>
          if is LT lt then
            match r with
            | g :: r1 => if is GTk g then DOk ([], r1) else tloop f' [] r
            | [] => DErr 2
            end
          else DErr 1
      | [] => DErr 2
      end
  end
with tloop (f : nat) (acc : list tparam) (toks : list tk) {struct f} : dres (list tparam * list tk) :=
  match f with
  | O => DErr 9
  | S f' =>
      let cont (p : tparam) (r1 : list tk) :=
        match r1 with
        | s :: r2 =>
            if is COMMA s then tloop f' (p :: acc) r2
            else if is GTk s then DOk (rev (p :: acc), r2)
            else DErr 1
        | [] => DErr 2
        end in
      match toks with
      | t :: r =>
          if is T_template t then
            match tdecl f' r with
            | DOk (inner, r1) =>
                match r1 with
                | k :: r2 =>
                    if is T_class k || is T_typename k then
                      match type_param (kty k) (Some inner) r2 with
                      | DOk (p, r3) => cont p r3
                      | DErr e => DErr e
                      end
                    else DErr 1
                | [] => DErr 2
                end
            | DErr e => DErr e
            end
          else if is T_class t then
            match type_param T_class None r with DOk (p, r3) => cont p r3 | DErr e => DErr e end
          else if is T_typename t then
            if typename_is_type_param r then
              match type_param T_typename None r with DOk (p, r3) => cont p r3 | DErr e => DErr e end
            else DErr 4
          else
            match param f' toks with
            | DOk ((ty0, nm), r1) => cont (TPNonType ty0 nm) r1
            | DErr e => DErr e
            end
      | [] => DErr 2
      end
  end.

(* ------------------------------------------------------------------ *)
(* printed parameter lists *)

Fixpoint tp_toks (p : tparam) : list tk :=
  match p with
  | TPType key pack name default inner =>
      (match inner with
       | Some l => ktok T_template :: ktok LT ::
                     join_comma ((fix go (l : list tparam) : list (list tk) :=
                                    match l with [] => [] | x :: r => tp_toks x :: go r end) l) ++ [ktok GTk]
       | None => []
       end)
      ++ ktok key :: (if pack then [ktok T_ELLIPSIS] else []) ++ name_toks name
      ++ (match default with Some e => ktok EQ :: e | None => [] end)
  | TPNonType t nm => decl_toks t nm
  end.

Definition tlist_toks (l : list tparam) : list tk := ktok LT :: join_comma (map tp_toks l) ++ [ktok GTk].

Lemma tp_toks_type key pack name default inner :
  tp_toks (TPType key pack name default inner) =
    (match inner with Some l => ktok T_template :: tlist_toks l | None => [] end)
    ++ ktok key :: (if pack then [ktok T_ELLIPSIS] else []) ++ name_toks name
    ++ (match default with Some e => ktok EQ :: e | None => [] end).
Proof.
  cbn [tp_toks]. destruct inner as [l|]; [|reflexivity]. unfold tlist_toks.
  match goal with |- context [join_comma (?g l)] => assert (E : g l = map tp_toks l) end.
  { induction l as [|x r IH]; [reflexivity|]. cbn [map]. now rewrite IH. }
  now rewrite E.
Qed.

Fixpoint tp_ok (p : tparam) : Prop :=
  match p with
  | TPType key pack name default inner =>
      (key = T_class \/ key = T_typename) /\
      (match default with Some e => Expr tk kty tmpl_terms e | None => True end) /\
      (match inner with
       | Some l => (fix all (l : list tparam) : Prop := match l with [] => True | x :: r => tp_ok x /\ all r end) l
       | None => True
       end)
  | TPNonType t nm => wf t /\ kind_of t <> KFn
  end.

Lemma tp_ok_inner key pack name default l :
  tp_ok (TPType key pack name default (Some l)) -> Forall tp_ok l.
Proof.
  cbn [tp_ok]. intros (_ & _ & H). induction l as [|x r IH]; [constructor|]. destruct H as [Hx Hr]. constructor; [exact Hx|now apply IH].
Qed.

Lemma tparam_ind' (Q : tparam -> Prop) :
  (forall key pack name default, Q (TPType key pack name default None)) ->
  (forall key pack name default l, Forall Q l -> Q (TPType key pack name default (Some l))) ->
  (forall t nm, Q (TPNonType t nm)) ->
  forall p, Q p.
Proof.
  intros H1 H2 H3. fix IH 1. intros p. destruct p as [key pack name default inner|t nm]; [destruct inner as [l|]|].
  - apply H2. induction l as [|x r IHl]; constructor; [apply IH|exact IHl].
  - apply H1.
  - apply H3.
Qed.

(* a separator: ',' or '>' *)
Definition sep_tok (comma : bool) : tk := ktok (if comma then COMMA else GTk).

Lemma type_param_rt (key : N) (inner : option (list tparam)) (pack : bool) (name : option N) (default : option (list tk)) (comma : bool) (R : list tk) :
  (match default with Some e => Expr tk kty tmpl_terms e | None => True end) ->
  type_param key inner ((if pack then [ktok T_ELLIPSIS] else []) ++ name_toks name
                        ++ (match default with Some e => ktok EQ :: e | None => [] end) ++ sep_tok comma :: R)
  = DOk (TPType key pack name default inner, sep_tok comma :: R).
Proof.
  intros Hd. unfold type_param.
  assert (Hstop : stops_at tk kty tmpl_terms (sep_tok comma :: R)) by (destruct comma; reflexivity).
  assert (S1 : is T_ELLIPSIS (sep_tok comma) = false) by (destruct comma; reflexivity).
  assert (S2 : is T_NAME (sep_tok comma) = false) by (destruct comma; reflexivity).
  assert (S3 : is EQ (sep_tok comma) = false) by (destruct comma; reflexivity).
  destruct pack, name as [n|], default as [e|]; cbn [app name_toks];
    repeat (progress (
      repeat match goal with
      | |- context [is ?a (ktok ?b)] => let v := eval vm_compute in (is a (ktok b)) in change (is a (ktok b)) with v
      | |- context [is ?a (mkTk T_NAME ?n)] => let v := eval vm_compute in (is a (mkTk T_NAME n)) in change (is a (mkTk T_NAME n)) with v
      end; cbn iota beta; cbn [kval]; rewrite ?S1, ?S2, ?S3));
    try rewrite (value_is_whole tk kty tmpl_terms e (sep_tok comma :: R) Hd Hstop); reflexivity.
Qed.

(* ------------------------------------------------------------------ *)
(* one-step unfoldings *)

Definition tcont (f : nat) (acc : list tparam) (p : tparam) (r1 : list tk) : dres (list tparam * list tk) :=
  match r1 with
  | s :: r2 =>
      if is COMMA s then tloop f (p :: acc) r2
      else if is GTk s then DOk (rev (p :: acc), r2)
      else DErr 1
  | [] => DErr 2
  end.

Lemma tloop_S f acc toks : tloop (S f) acc toks =
  match toks with
  | t :: r =>
      if is T_template t then
        match tdecl f r with
        | DOk (inner, r1) =>
            match r1 with
            | k :: r2 =>
                if is T_class k || is T_typename k then
                  match type_param (kty k) (Some inner) r2 with
                  | DOk (p, r3) => tcont f acc p r3
                  | DErr e => DErr e
                  end
                else DErr 1
            | [] => DErr 2
            end
        | DErr e => DErr e
        end
      else if is T_class t then
        match type_param T_class None r with DOk (p, r3) => tcont f acc p r3 | DErr e => DErr e end
      else if is T_typename t then
        if typename_is_type_param r then
          match type_param T_typename None r with DOk (p, r3) => tcont f acc p r3 | DErr e => DErr e end
        else DErr 4
      else
        match param f toks with
        | DOk ((ty0, nm), r1) => tcont f acc (TPNonType ty0 nm) r1
        | DErr e => DErr e
        end
  | [] => DErr 2
  end.
Proof. reflexivity. Qed.

Lemma tdecl_S f toks : tdecl (S f) toks =
  match toks with
  | lt :: r =>
      if is LT lt then
        match r with
        | g :: r1 => if is GTk g then DOk ([], r1) else tloop f [] r
        | [] => DErr 2
        end
      else DErr 1
  | [] => DErr 2
  end.
Proof. reflexivity. Qed.

Definition cont_val (comma : bool) (p : tparam) (acc : list tparam) (R : list tk) (f : nat) : dres (list tparam * list tk) :=
  if comma then tloop f (p :: acc) R else DOk (rev (p :: acc), R).

Lemma tcont_sep f acc p comma R : tcont f acc p (sep_tok comma :: R) = cont_val comma p acc R f.
Proof. destruct comma; reflexivity. Qed.

(* the step property of one parameter *)
Definition Pstep (p : tparam) : Prop :=
  forall comma acc R, exists f0, forall f, (f0 <= f)%nat ->
    tloop (S f) acc (tp_toks p ++ sep_tok comma :: R) = cont_val comma p acc R f.

Lemma tloop_list : forall l, l <> [] -> Forall Pstep l -> forall acc R,
  ev (fun f => tloop f acc (join_comma (map tp_toks l) ++ ktok GTk :: R)) (DOk (rev acc ++ l, R)).
Proof.
  induction l as [|p q IH]; intros Hne Hall acc R; [contradiction|].
  inversion Hall as [|? ? Hp Hq]; subst.
  destruct q as [|p2 q'].
  - cbn [map join_comma]. destruct (Hp false acc R) as [f0 H0].
    exists (S f0). intros f Hf. destruct f as [|f]; [lia|].
    change (ktok GTk) with (sep_tok false). rewrite H0 by lia. cbn [cont_val rev]. reflexivity.
  - change (map tp_toks (p :: p2 :: q')) with (tp_toks p :: map tp_toks (p2 :: q')).
    change (join_comma (tp_toks p :: map tp_toks (p2 :: q'))) with (tp_toks p ++ ktok COMMA :: join_comma (map tp_toks (p2 :: q'))).
    rewrite <- app_assoc. cbn [app].
    destruct (Hp true acc (join_comma (map tp_toks (p2 :: q')) ++ ktok GTk :: R)) as [f0 H0].
    destruct (IH ltac:(discriminate) Hq (p :: acc) R) as [f1 H1].
    exists (S (Nat.max f0 f1)). intros f Hf. destruct f as [|f]; [lia|].
    change (ktok COMMA) with (sep_tok true). rewrite H0 by lia. cbn [cont_val].
    rewrite H1 by lia. cbn [rev]. now rewrite <- app_assoc.
Qed.

Lemma tp_head p : tp_ok p -> exists t r, tp_toks p = t :: r /\ is GTk t = false.
Proof.
  destruct p as [key pack name default inner|t nm]; intros Hok.
  - rewrite tp_toks_type. destruct inner as [l|].
    + eexists; eexists; split; [reflexivity|reflexivity].
    + cbn [app]. destruct Hok as ([-> | ->] & _); eexists; eexists; (split; [reflexivity|reflexivity]).
  - cbn [tp_toks]. destruct (decl_head t nm) as (t0 & r0 & E & _ & _). rewrite E. exists t0, r0. split; [reflexivity|].
    (* the first token of a declaration is a cv-qualifier, a name or void *)
    unfold decl_toks, base_toks in E. destruct (base_of t) as [[b c] v].
    destruct c, v; cbn [cvtoks app] in E; try (inversion E; subst; reflexivity).
    destruct (b =? 0); inversion E; subst; reflexivity.
Qed.

Lemma tdecl_list l R : Forall tp_ok l -> Forall Pstep l ->
  ev (fun f => tdecl f (tlist_toks l ++ R)) (DOk (l, R)).
Proof.
  intros Hok Hst. unfold tlist_toks. cbn [app]. rewrite <- app_assoc. cbn [app].
  destruct l as [|p q].
  - exists 1%nat. intros f Hf. destruct f as [|f]; [lia|]. rewrite tdecl_S. reflexivity.
  - destruct (tloop_list (p :: q) ltac:(discriminate) Hst [] R) as [f0 H0].
    inversion Hok as [|? ? Hp _]; subst.
    destruct (tp_head p Hp) as (t & r & E & Hg).
    exists (S f0). intros f Hf. destruct f as [|f]; [lia|]. rewrite tdecl_S.
    change (is LT (ktok LT)) with true. cbn iota.
    assert (Eh : exists r', join_comma (map tp_toks (p :: q)) ++ ktok GTk :: R = t :: r').
    { cbn [map]. destruct (map tp_toks q) as [|y l'].
      - cbn [join_comma]. rewrite E. eexists; reflexivity.
      - change (join_comma (tp_toks p :: y :: l')) with (tp_toks p ++ ktok COMMA :: join_comma (y :: l')). rewrite E. eexists; reflexivity. }
    destruct Eh as [r' Eh]. rewrite Eh, Hg. rewrite <- Eh. rewrite H0 by lia. reflexivity.
Qed.

Lemma typename_lookahead (pack : bool) (name : option N) (default : option (list tk)) comma R :
  typename_is_type_param ((if pack then [ktok T_ELLIPSIS] else []) ++ name_toks name
                          ++ (match default with Some e => ktok EQ :: e | None => [] end) ++ sep_tok comma :: R) = true.
Proof.
  destruct pack; [reflexivity|]. destruct name as [n|].
  - cbn [app name_toks typename_is_type_param].
    change (is T_ELLIPSIS (mkTk T_NAME n)) with false. change (is EQ (mkTk T_NAME n)) with false.
    change (is COMMA (mkTk T_NAME n)) with false. change (is GTk (mkTk T_NAME n)) with false.
    change (is T_NAME (mkTk T_NAME n)) with true. cbn [orb andb].
    destruct default as [e|]; [reflexivity|]. destruct comma; reflexivity.
  - cbn [app name_toks]. destruct default as [e|]; [reflexivity|]. destruct comma; reflexivity.
Qed.

Lemma step_all : forall p, tp_ok p -> Pstep p.
Proof.
  induction p as [key pack name default|key pack name default l IHl|t nm] using tparam_ind'; intros Hok comma acc R.
  - (* a plain type parameter *)
    destruct Hok as (Hkey & Hd & _). exists 0%nat. intros f _.
    rewrite tp_toks_type. cbn [app]. rewrite <- !app_assoc. rewrite tloop_S.
    destruct Hkey as [-> | ->].
    + change (is T_template (ktok T_class)) with false. change (is T_class (ktok T_class)) with true. cbn iota.
      rewrite (type_param_rt T_class None pack name default comma R Hd). apply tcont_sep.
    + change (is T_template (ktok T_typename)) with false. change (is T_class (ktok T_typename)) with false.
      change (is T_typename (ktok T_typename)) with true. cbn iota.
      rewrite typename_lookahead.
      rewrite (type_param_rt T_typename None pack name default comma R Hd). apply tcont_sep.
  - (* a template template parameter *)
    pose proof (tp_ok_inner _ _ _ _ _ Hok) as Hin.
    assert (Hst : Forall Pstep l).
    { rewrite Forall_forall in *. intros x Hx. apply IHl; [exact Hx|now apply Hin]. }
    destruct Hok as (Hkey & Hd & _).
    set (X := ktok key :: (if pack then [ktok T_ELLIPSIS] else []) ++ name_toks name
              ++ (match default with Some e => ktok EQ :: e | None => [] end) ++ sep_tok comma :: R).
    destruct (tdecl_list l X Hin Hst) as [f0 H0].
    exists f0. intros f Hf.
    rewrite tp_toks_type. cbn [app]. rewrite <- !app_assoc. cbn [app]. rewrite <- ?app_assoc. rewrite tloop_S.
    change (is T_template (ktok T_template)) with true. cbn iota.
    fold X. rewrite H0 by exact Hf. unfold X.
    assert (Hk : is T_class (ktok key) || is T_typename (ktok key) = true) by (destruct Hkey as [-> | ->]; reflexivity).
    rewrite Hk. cbn [kty ktok].
    rewrite (type_param_rt key (Some l) pack name default comma R Hd). apply tcont_sep.
  - (* a non-type parameter *)
    destruct Hok as [Hwf Hk].
    destruct (param_roundtrip t nm (sep_tok comma :: R) Hwf Hk ltac:(destruct comma; reflexivity)) as [f0 H0].
    exists f0. intros f Hf. cbn [tp_toks]. rewrite tloop_S.
    destruct (decl_head t nm) as (t0 & r0 & E & _ & _).
    assert (Hh : is T_template t0 = false /\ is T_class t0 = false /\ is T_typename t0 = false).
    { unfold decl_toks, base_toks in E. destruct (base_of t) as [[b c] v].
      destruct c, v; cbn [cvtoks app] in E; try (inversion E; subst; repeat split; reflexivity).
      destruct (b =? 0); inversion E; subst; repeat split; reflexivity. }
    destruct Hh as (H1 & H2 & H3).
    assert (Eh : decl_toks t nm ++ sep_tok comma :: R = t0 :: (r0 ++ sep_tok comma :: R)) by (rewrite E; reflexivity).
    rewrite Eh, H1, H2, H3. rewrite <- Eh. rewrite H0 by exact Hf. apply tcont_sep.
Qed.

(* `< p1, ..., pn >` : every parameter reported once, in order, with its kind, key,
   pack flag, name, default and (for template template parameters) its own
   parameter list, to any nesting depth *)
Theorem template_params_roundtrip l R :
  Forall tp_ok l -> ev (fun f => tdecl f (tlist_toks l ++ R)) (DOk (l, R)).
Proof.
  intros Hok. apply tdecl_list; [exact Hok|].
  rewrite Forall_forall in *. intros p Hp. apply step_all. now apply Hok.
Qed.

(* Theorems about the vendor-attribute consumers as translated from the code that exists now (Gen/Dispatch.v:
   _consume_attribute, _consume_gcc_attribute, _consume_declspec). *)
From Coq Require Import NArith List Bool.
Import ListNotations.
From CXV Require Import Gen.TokTy Gen.ParserTables Parse.Balanced Parse.BalancedThms Parse.Declarator Parse.DispatchLang Gen.Dispatch.
Open Scope N_scope.

Ltac concrete t H := destruct t as [? ?]; cbn [kty] in H; subst.

(* two initial '(' : the two matching ')' are found behind any strict-nested soup *)
Lemma consume_balanced_two (a1 a2 b1 b2 : tk) soup rest :
  kty a1 = T_LIT_40 -> kty a2 = T_LIT_40 -> kty b1 = T_LIT_41 -> kty b2 = T_LIT_41 -> SN tk kty soup ->
  consume_balanced kty [a1; a2] (soup ++ b1 :: b2 :: rest) = Ok (a1 :: a2 :: soup ++ [b1; b2], rest).
Proof.
  intros A1 A2 B1 B2 Hs. unfold consume_balanced. cbn [map rev app]. rewrite A1, A2.
  change (assocN T_LIT_40 balanced_token_map) with (Some T_LIT_41). cbn [app].
  assert (Hst : strip [T_LIT_41; T_LIT_41] <> []) by (vm_compute; discriminate).
  destruct (consume_SN tk kty soup Hs [T_LIT_41; T_LIT_41] [a2; a1] (b1 :: b2 :: rest) Hst) as [st' [E1 E2]].
  rewrite E2.
  assert (Es : strip st' = [T_LIT_41; T_LIT_41]) by (rewrite E1; reflexivity).
  rewrite (consume_close tk kty T_LIT_41 b1 st' _ _ [T_LIT_41] ltac:(vm_compute; discriminate) eq_refl B1 Es).
  rewrite (consume_close tk kty T_LIT_41 b2 [T_LIT_41] _ _ [] ltac:(vm_compute; discriminate) eq_refl B2 eq_refl).
  f_equal. f_equal. cbn [rev]. rewrite rev_app_distr, rev_involutive. cbn [rev app]. rewrite <- !app_assoc. reflexivity.
Qed.

(* __attribute__ (( soup )) : exactly the double-parenthesized group is consumed, whatever it contains *)
Theorem gcc_attribute_skipped_exactly kw a1 a2 b1 b2 soup R ic :
  kty a1 = T_LIT_40 -> kty a2 = T_LIT_40 -> kty b1 = T_LIT_41 -> kty b2 = T_LIT_41 -> SN tk kty soup ->
  run prog_consume_gcc_attribute ic kw (a1 :: a2 :: soup ++ b1 :: b2 :: R) = ODone R.
Proof.
  intros A1 A2 B1 B2 Hs. unfold run, prog_consume_gcc_attribute. cbn [exec_block exec].
  rewrite A1. change (memN T_LIT_40 [T_LIT_40]) with true. cbn iota. rewrite A2.
  change (memN T_LIT_40 [T_LIT_40]) with true. cbn iota.
  cbn [flat_map lookup N.eqb Pos.eqb app length Nat.eqb negb].
  rewrite (consume_balanced_two a1 a2 b1 b2 soup R A1 A2 B1 B2 Hs). reflexivity.
Qed.

(* __declspec ( soup ) *)
Theorem declspec_skipped_exactly kw a b soup R ic :
  kty a = T_LIT_40 -> kty b = T_LIT_41 -> SN tk kty soup ->
  run prog_consume_declspec ic kw (a :: soup ++ b :: R) = ODone R.
Proof.
  intros A B Hs. unfold run, prog_consume_declspec. cbn [exec_block exec].
  rewrite A. change (memN T_LIT_40 [T_LIT_40]) with true. cbn iota.
  cbn [flat_map lookup N.eqb Pos.eqb app length Nat.eqb negb].
  rewrite (consume_balanced_exact tk kty a b T_LIT_41 soup R); [reflexivity|rewrite A; reflexivity|vm_compute; discriminate|exact B|exact Hs].
Qed.

(* the dispatcher: every attribute introducer goes to its own consumer with the introducer token; nothing is consumed *)
Theorem attribute_dispatch kw R ic :
  run prog_consume_attribute ic kw R =
    if kty kw =? T___attribute__ then OCall F_gcc_attribute [RTok (Some kw)] [] R
    else if kty kw =? T___declspec then OCall F_declspec [RTok (Some kw)] [] R
    else if memN (kty kw) attribute_specifier_seq_start_types then OCall F_attribute_specifier_seq [RTok (Some kw)] [] R
    else OErr 3.
Proof.
  unfold run, prog_consume_attribute. cbn [exec_block exec eval_cond lookup N.eqb].
  destruct (kty kw =? T___attribute__); [reflexivity|].
  destruct (kty kw =? T___declspec); [reflexivity|].
  change [T_DBL_LBRACKET; T_alignas] with attribute_specifier_seq_start_types.
  destruct (memN (kty kw) attribute_specifier_seq_start_types); reflexivity.
Qed.

(* Hand-written mirror of the header part of CxxParser._parse_namespace (entered
   after the `namespace` keyword): anonymous `{`, `a::b::c {`, or the alias
   form `x = [::] a::b ;`.  A nested definition cannot be inline.
   Result: NsDef names | NsAlias alias names (a leading "::" is kept as the
   name 0, like the implementation keeps the string "::").
   Tied to the code by the differential run of harness/props/c12.py. *)
From Coq Require Import NArith List Bool Lia.
Import ListNotations.
From CXV Require Import Gen.TokTy Parse.Declarator Parse.DeclSpec Parse.EnumList.
Open Scope N_scope.

Inductive nshead :=
| NsDef (names : list N)
| NsAlias (alias : N) (names : list N).

(* `while True: names.append(tok.value); tok = must_be(DBL_COLON, endtok) ...` entered with the first NAME consumed *)
Fixpoint ns_names_loop (n : nat) (endtok : N) (acc : list N) (toks : list tk) : dres (list N * list tk) :=
  match n with
  | O => DErr 9
  | S n' =>
      match toks with
      | t :: r =>
          if is endtok t then DOk (rev acc, r)
          else if is T_DBL_COLON t then
            match r with
            | nm :: r1 => if is T_NAME nm then ns_names_loop n' endtok (kval nm :: acc) r1 else DErr 1
            | [] => DErr 2
            end
          else DErr 1
      | [] => DErr 2
      end
  end.

Definition ns_header (inline : bool) (toks : list tk) : dres (nshead * list tk) :=
  match toks with
  | t :: r =>
      if is LBRACE t then DOk (NsDef [], r)
      else if is T_NAME t then
        match r with
        | e :: r1 =>
            if is EQ e then
              (* alias: may start with '::' *)
              let '(pre, r2) := match r1 with
                                | c :: r2 => if is T_DBL_COLON c then ([0], r2) else ([], r1)
                                | [] => ([], r1)
                                end in
              match r2 with
              | nm :: r3 =>
                  if is T_NAME nm then
                    match ns_names_loop (length r3) SEMI (kval nm :: pre) r3 with
                    | DOk (names, r4) =>
                        if inline && (1 <? N.of_nat (length names)) then DErr 3 else DOk (NsAlias (kval t) names, r4)
                    | DErr x => DErr x
                    end
                  else DErr 1
              | [] => DErr 2
              end
            else
              match ns_names_loop (length r) LBRACE [kval t] r with
              | DOk (names, r4) =>
                  if inline && (1 <? N.of_nat (length names)) then DErr 3 else DOk (NsDef names, r4)
              | DErr x => DErr x
              end
        | [] => DErr 2
        end
      else DErr 1
  | [] => DErr 2
  end.

(* printed forms *)
Fixpoint path_toks (names : list N) : list tk :=
  match names with
  | [] => []
  | [n] => [mkTk T_NAME n]
  | n :: r => mkTk T_NAME n :: ktok T_DBL_COLON :: path_toks r
  end.

Lemma loop_rt endtok : endtok <> T_DBL_COLON -> forall names acc rest k,
  (length names + 1 <= k)%nat ->
  ns_names_loop k endtok acc
    (flat_map (fun n => [ktok T_DBL_COLON; mkTk T_NAME n]) names ++ ktok endtok :: rest)
  = DOk (rev acc ++ names, rest).
Proof.
  intros He. induction names as [|n q IH]; intros acc rest k Hk.
  - destruct k as [|k]; [cbn in Hk; inversion Hk|]. cbn [flat_map app ns_names_loop].
    unfold is at 1. cbn [kty ktok]. rewrite N.eqb_refl. now rewrite app_nil_r.
  - destruct k as [|k]; [cbn in Hk; inversion Hk|]. cbn [flat_map app ns_names_loop].
    assert (E1 : is endtok (ktok T_DBL_COLON) = false).
    { unfold is. cbn [kty ktok]. apply N.eqb_neq. congruence. }
    rewrite E1. change (is T_DBL_COLON (ktok T_DBL_COLON)) with true. cbn iota.
    change (is T_NAME (mkTk T_NAME n)) with true. cbn iota. cbn [kval].
    rewrite IH by (cbn [length] in Hk; lia).
    cbn [rev]. now rewrite <- app_assoc.
Qed.

Lemma path_toks_tail n q :
  path_toks (n :: q) = mkTk T_NAME n :: flat_map (fun m => [ktok T_DBL_COLON; mkTk T_NAME m]) q.
Proof.
  revert n. induction q as [|m q IH]; intros n; [reflexivity|].
  change (path_toks (n :: m :: q)) with (mkTk T_NAME n :: ktok T_DBL_COLON :: path_toks (m :: q)).
  rewrite IH. reflexivity.
Qed.

Lemma fm_len (q : list N) : length (flat_map (fun m => [ktok T_DBL_COLON; mkTk T_NAME m]) q) = (2 * length q)%nat.
Proof. induction q as [|m q IH]; [reflexivity|]. cbn [flat_map app length]. rewrite IH. lia. Qed.

(* `namespace a::b::c {` and `namespace {` *)
Theorem ns_definition_roundtrip names rest :
  ns_header false (path_toks names ++ ktok LBRACE :: rest) = DOk (NsDef names, rest).
Proof.
  destruct names as [|n q]; [reflexivity|].
  rewrite path_toks_tail. cbn [app ns_header].
  change (is LBRACE (mkTk T_NAME n)) with false. change (is T_NAME (mkTk T_NAME n)) with true. cbn iota.
  destruct q as [|m q'].
  - cbn [flat_map app]. change (is EQ (ktok LBRACE)) with false. cbn iota.
    cbn [length ns_names_loop]. change (is LBRACE (ktok LBRACE)) with true. cbn iota. reflexivity.
  - cbn [flat_map app]. change (is EQ (ktok T_DBL_COLON)) with false. cbn iota.
    change (ktok T_DBL_COLON :: mkTk T_NAME m :: flat_map (fun m0 => [ktok T_DBL_COLON; mkTk T_NAME m0]) q' ++ ktok LBRACE :: rest)
      with (flat_map (fun m0 => [ktok T_DBL_COLON; mkTk T_NAME m0]) (m :: q') ++ ktok LBRACE :: rest).
    rewrite (loop_rt LBRACE ltac:(discriminate) (m :: q') [kval (mkTk T_NAME n)] rest).
    + cbn [andb]. reflexivity.
    + rewrite app_length, fm_len. cbn [length]. lia.
Qed.

(* `namespace x = a::b;` and `namespace x = ::a::b;` (the leading '::' is the name 0) *)
Theorem ns_alias_roundtrip x (rooted : bool) n q rest :
  ns_header false (mkTk T_NAME x :: ktok EQ :: (if rooted then [ktok T_DBL_COLON] else []) ++ path_toks (n :: q) ++ ktok SEMI :: rest)
  = DOk (NsAlias x ((if rooted then [0] else []) ++ n :: q), rest).
Proof.
  rewrite path_toks_tail. cbn [ns_header].
  change (is LBRACE (mkTk T_NAME x)) with false. change (is T_NAME (mkTk T_NAME x)) with true. cbn iota.
  change (is EQ (ktok EQ)) with true. cbn iota.
  destruct rooted; cbn [app].
  - change (is T_DBL_COLON (ktok T_DBL_COLON)) with true. cbn iota.
    change (is T_NAME (mkTk T_NAME n)) with true. cbn iota.
    rewrite (loop_rt SEMI ltac:(discriminate) q [kval (mkTk T_NAME n); 0] rest).
    + reflexivity.
    + rewrite app_length, fm_len. cbn [length]. lia.
  - change (is T_DBL_COLON (mkTk T_NAME n)) with false. cbn iota.
    change (is T_NAME (mkTk T_NAME n)) with true. cbn iota.
    rewrite (loop_rt SEMI ltac:(discriminate) q [kval (mkTk T_NAME n)] rest).
    + reflexivity.
    + rewrite app_length, fm_len. cbn [length]. lia.
Qed.

(* a nested namespace definition cannot be inline *)
Theorem inline_nested_rejected n m q rest :
  ns_header true (path_toks (n :: m :: q) ++ ktok LBRACE :: rest) = DErr 3.
Proof.
  rewrite path_toks_tail. cbn [app ns_header].
  change (is LBRACE (mkTk T_NAME n)) with false. change (is T_NAME (mkTk T_NAME n)) with true. cbn iota.
  cbn [flat_map app]. change (is EQ (ktok T_DBL_COLON)) with false. cbn iota.
  change (ktok T_DBL_COLON :: mkTk T_NAME m :: flat_map (fun m0 => [ktok T_DBL_COLON; mkTk T_NAME m0]) q ++ ktok LBRACE :: rest)
    with (flat_map (fun m0 => [ktok T_DBL_COLON; mkTk T_NAME m0]) (m :: q) ++ ktok LBRACE :: rest).
  rewrite (loop_rt LBRACE ltac:(discriminate) (m :: q) [kval (mkTk T_NAME n)] rest).
  - cbn [rev app andb].
    assert (H : (1 <? N.of_nat (length (kval (mkTk T_NAME n) :: m :: q))) = true) by (apply N.ltb_lt; cbn [length]; lia).
    now rewrite H.
  - rewrite app_length, fm_len. cbn [length]. lia.
Qed.

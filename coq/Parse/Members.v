(* Class fields and typedefs through the same path as variables
   (CxxParser._parse_field): declarator, array, bit-field (class members only,
   a decimal integer), initialiser (not in a typedef).  With the specifier
   loop: field statements (validate(var_ok, meth_ok) in a class; a Field has no
   `extern`) and typedef statements (validate(False, False)).
   Tied to the code by the differential run of harness/props/c03.py. *)
From Coq Require Import NArith List Bool Lia.
Import ListNotations.
From CXV Require Import Gen.TokTy Gen.ParserTables Parse.Balanced Parse.BalancedThms Parse.Declarator Parse.DeclSpec Parse.DeclThms
  Parse.EnumList Parse.Specs Parse.VarStmt Parse.Init.
Open Scope N_scope.

Definition COLON := T_LIT_58.

Definition bits_part (is_class is_typedef : bool) (toks : list tk) : dres (option N * list tk) :=
  match toks with
  | t :: r =>
      if is COLON t then
        if is_typedef || negb is_class then DErr 1
        else match r with
             | i :: r' => if is T_INT_CONST_DEC i then DOk (Some (kval i), r') else DErr 1
             | [] => DErr 2
             end
      else DOk (None, toks)
  | [] => DOk (None, toks)
  end.

Definition member := (N * ty * option N * option (list tk))%type.     (* name, type, bits, value *)

Fixpoint member_list (n : nat) (fuel : nat) (is_class is_typedef : bool) (b : ty) (toks : list tk)
  : dres (list member * list tk) :=
  match n with
  | O => DErr 9
  | S n' =>
      match var_tail fuel b toks with
      | DErr e => DErr e
      | DOk (nm, d, r) =>
          match bits_part is_class is_typedef r with
          | DErr e => DErr e
          | DOk (bits, r1) =>
              match init_part is_typedef r1 with
              | DErr e => DErr e
              | DOk (iv, r0) =>
                  match r0 with
                  | s :: r' =>
                      if is COMMA s then
                        match member_list n' fuel is_class is_typedef b r' with
                        | DOk (l, r'') => DOk ((nm, d, bits, iv) :: l, r'')
                        | DErr e => DErr e
                        end
                      else if is SEMI s then DOk ([(nm, d, bits, iv)], r')
                      else DErr 1
                  | [] => DErr 2
                  end
              end
          end
      end
  end.

Definition field_stmt (n fuel : nat) (toks : list tk) : dres (mods * list member * list tk) :=
  match parse_specs toks with
  | DErr e => DErr e
  | DOk (m, b, r) =>
      (* in a class: var_ok and meth_ok; a Field has no `extern` attribute *)
      if validate true true m && negb (m_extern m) then
        match member_list n fuel true false (TBase b (m_const m) (m_volatile m)) r with
        | DOk (l, r') => DOk (m, l, r')
        | DErr e => DErr e
        end
      else DErr 3
  end.

Definition typedef_stmt (n fuel : nat) (toks : list tk) : dres (list member * list tk) :=
  match parse_specs toks with
  | DErr e => DErr e
  | DOk (m, b, r) =>
      if validate false false m then member_list n fuel false true (TBase b (m_const m) (m_volatile m)) r
      else DErr 3
  end.

(* ------------------------------------------------------------------ *)

Definition bits_toks (bits : option N) : list tk :=
  match bits with Some k => [ktok COLON; mkTk T_INT_CONST_DEC k] | None => [] end.

Definition mitem := (list layer * N * option N * init)%type.
Definition mitem_toks (it : mitem) : list tk :=
  let '(ls, n, bits, i) := it in P ls [mkTk T_NAME n] ++ bits_toks bits ++ init_toks i.
Definition mitem_ok (is_class is_typedef : bool) (it : mitem) : Prop :=
  let '(ls, n, bits, i) := it in
  legalL KB ls = true /\ Forall layer_ok ls /\ kind_end KB ls <> KFn /\ init_ok i /\
  (bits <> None -> is_class = true /\ is_typedef = false) /\ (is_typedef = true -> i = NoInit).
Definition mitem_out (b : ty) (it : mitem) : member :=
  let '(ls, n, bits, i) := it in (n, wrap b ls, bits, init_value i).

Lemma bits_part_rt is_class is_typedef bits X :
  (bits <> None -> is_class = true /\ is_typedef = false) ->
  (match X with t :: _ => is COLON t = false | [] => True end) ->
  bits_part is_class is_typedef (bits_toks bits ++ X) = DOk (bits, X).
Proof.
  intros Hb HX. destruct bits as [k|]; cbn [bits_toks app bits_part].
  - destruct (Hb ltac:(discriminate)) as [-> ->]. reflexivity.
  - destruct X as [|t r]; [reflexivity|]. cbn [bits_part]. cbn beta iota in HX. now rewrite HX.
Qed.

Lemma init_part_td sep rest : (is COMMA sep = true \/ is SEMI sep = true) ->
  init_part true (sep :: rest) = DOk (None, sep :: rest).
Proof.
  intros Hsep. cbn [init_part]. unfold is in *.
  destruct Hsep as [H|H]; apply N.eqb_eq in H; rewrite H; reflexivity.
Qed.

Lemma tail_head_ok bits i sep rest : (is COMMA sep = true \/ is SEMI sep = true) ->
  let X := bits_toks bits ++ init_toks i ++ sep :: rest in
  stops X = true /\ nolb X = true /\ nolp X = true.
Proof.
  intros Hsep X. unfold X. destruct bits as [k|]; [repeat split; reflexivity|]. cbn [bits_toks app].
  now apply init_head_ok.
Qed.

Lemma init_no_colon i sep rest : (is COMMA sep = true \/ is SEMI sep = true) ->
  match init_toks i ++ sep :: rest with t :: _ => is COLON t = false | [] => True end.
Proof.
  intros Hsep. destruct i as [|e|soup]; cbn [init_toks app]; try reflexivity.
  unfold is in *. destruct Hsep as [H|H]; apply N.eqb_eq in H; rewrite H; reflexivity.
Qed.

Lemma member_list_rt is_class is_typedef b c v : forall items rest,
  items <> [] -> Forall (mitem_ok is_class is_typedef) items ->
  ev (fun f => member_list (length items) f is_class is_typedef (TBase b c v)
                 (join_comma (map mitem_toks items) ++ ktok SEMI :: rest))
     (DOk (map (mitem_out (TBase b c v)) items, rest)).
Proof.
  assert (Hinit : forall i sep rest, init_ok i -> (is_typedef = true -> i = NoInit) ->
            (is COMMA sep = true \/ is SEMI sep = true) ->
            init_part is_typedef (init_toks i ++ sep :: rest) = DOk (init_value i, sep :: rest)).
  { intros i sep rest Hi Htd Hsep. destruct is_typedef.
    - rewrite (Htd eq_refl). cbn [init_toks app init_value]. now apply init_part_td.
    - now apply init_part_rt. }
  induction items as [|[[[ls n] bits] i] q IH]; intros rest Hne Hall; [contradiction|].
  inversion Hall as [|? ? Hit Hq]; subst. unfold mitem_ok in Hit. destruct Hit as (Hleg & Hok & Hk & Hi & Hb & Htd).
  destruct q as [|it2 q'].
  - cbn [map join_comma length]. unfold mitem_toks at 1. rewrite <- !app_assoc.
    destruct (tail_head_ok bits i (ktok SEMI) rest (or_intror eq_refl)) as (S1 & S2 & S3).
    destruct (var_tail_layers_w b c v ls n _ Hleg Hok Hk S1 S2 S3) as [f1 H1].
    exists f1. intros f Hge. cbn [member_list]. rewrite H1 by lia.
    rewrite (bits_part_rt is_class is_typedef bits _ Hb (init_no_colon i (ktok SEMI) rest (or_intror eq_refl))).
    rewrite (Hinit i (ktok SEMI) rest Hi Htd (or_intror eq_refl)). isc. reflexivity.
  - change (map mitem_toks ((ls, n, bits, i) :: it2 :: q')) with (mitem_toks (ls, n, bits, i) :: map mitem_toks (it2 :: q')).
    assert (Ej : forall x y l, join_comma (x :: y :: l) = x ++ ktok COMMA :: join_comma (y :: l)) by reflexivity.
    change (map mitem_toks (it2 :: q')) with (mitem_toks it2 :: map mitem_toks q').
    rewrite Ej. change (mitem_toks it2 :: map mitem_toks q') with (map mitem_toks (it2 :: q')).
    unfold mitem_toks at 1. rewrite <- !app_assoc. cbn [app].
    set (R := join_comma (map mitem_toks (it2 :: q')) ++ ktok SEMI :: rest).
    destruct (tail_head_ok bits i (ktok COMMA) R (or_introl eq_refl)) as (S1 & S2 & S3).
    destruct (var_tail_layers_w b c v ls n _ Hleg Hok Hk S1 S2 S3) as [f1 H1].
    destruct (IH rest ltac:(discriminate) Hq) as [f2 H2].
    exists (Nat.max f1 f2). intros f Hge.
    change (length ((ls, n, bits, i) :: it2 :: q')) with (S (length (it2 :: q'))). cbn [member_list].
    rewrite H1 by lia.
    rewrite (bits_part_rt is_class is_typedef bits _ Hb (init_no_colon i (ktok COMMA) R (or_introl eq_refl))).
    rewrite (Hinit i (ktok COMMA) R Hi Htd (or_introl eq_refl)). isc.
    unfold R. rewrite H2 by lia. reflexivity.
Qed.

Lemma mitem_head_stop : forall (items : list mitem) rest, items <> [] ->
  spec_stop (join_comma (map mitem_toks items) ++ ktok SEMI :: rest) = true.
Proof.
  intros items rest Hne. destruct items as [|[[[ls n] bits] i] q]; [contradiction|]. cbn [map].
  destruct (map mitem_toks q) as [|y l].
  - cbn [join_comma]. unfold mitem_toks. rewrite <- !app_assoc. apply P_head_stop.
  - change (join_comma (mitem_toks (ls, n, bits, i) :: y :: l)) with (mitem_toks (ls, n, bits, i) ++ ktok COMMA :: join_comma (y :: l)).
    unfold mitem_toks at 1. rewrite <- !app_assoc. apply P_head_stop.
Qed.

(* `spec* T spec* d1 [: bits] [init], ...;` in a class body *)
Theorem field_stmt_roundtrip pre post b items rest :
  forallb spec_kw pre = true -> forallb spec_kw post = true ->
  has T_extern (pre ++ post) = false ->
  items <> [] -> Forall (mitem_ok true false) items ->
  let m := apply_kws (pre ++ post) mods0 in
  ev (fun f => field_stmt (length items) f
                 (kw_toks pre ++ nm_tok b :: kw_toks post ++ join_comma (map mitem_toks items) ++ ktok SEMI :: rest))
     (DOk (m, map (mitem_out (TBase b (m_const m) (m_volatile m))) items, rest)).
Proof.
  intros Hpre Hpost Hex Hne Hall m.
  destruct (member_list_rt true false b (m_const m) (m_volatile m) items rest Hne Hall) as [f1 H1].
  assert (Hk : forallb spec_kw (pre ++ post) = true) by (rewrite forallb_app; now rewrite Hpre, Hpost).
  assert (Hval : validate true true m && negb (m_extern m) = true).
  { rewrite validate_spec. destruct (apply_kws_fields (pre ++ post) mods0 Hk) as (_ & _ & _ & A4 & _).
    unfold m. rewrite A4, Hex. cbn. rewrite !implb_true_r. reflexivity. }
  exists f1. intros f Hge. unfold field_stmt.
  rewrite (specs_decode_lemma pre post b _ Hpre Hpost (mitem_head_stop items rest Hne)). rewrite apply_kws_app. fold m.
  rewrite Hval. rewrite H1 by lia. reflexivity.
Qed.

(* `typedef [const|volatile]* T d1, ..., dn;` : no other specifier, no bit-field, no initialiser *)
Theorem typedef_stmt_roundtrip pre post b items rest :
  forallb (fun k => (k =? T_const) || (k =? T_volatile)) (pre ++ post) = true ->
  items <> [] -> Forall (mitem_ok false true) items ->
  let m := apply_kws (pre ++ post) mods0 in
  ev (fun f => typedef_stmt (length items) f
                 (kw_toks pre ++ nm_tok b :: kw_toks post ++ join_comma (map mitem_toks items) ++ ktok SEMI :: rest))
     (DOk (map (mitem_out (TBase b (m_const m) (m_volatile m))) items, rest)).
Proof.
  intros Hcv Hne Hall m.
  assert (Hkw : forall l, forallb (fun k => (k =? T_const) || (k =? T_volatile)) l = true -> forallb spec_kw l = true).
  { intros l H. rewrite forallb_forall in *. intros x Hx. specialize (H x Hx).
    apply orb_prop in H as [H|H]; apply N.eqb_eq in H; subst x; reflexivity. }
  assert (Hk : forallb spec_kw (pre ++ post) = true) by (now apply Hkw).
  rewrite forallb_app in Hcv. apply andb_prop in Hcv as [Hcv1 Hcv2].
  assert (Hpre : forallb spec_kw pre = true) by (now apply Hkw).
  assert (Hpost : forallb spec_kw post = true) by (now apply Hkw).
  assert (Hnone : forall c, c <> T_const -> c <> T_volatile -> has c (pre ++ post) = false).
  { intros c H1 H2. unfold has. apply not_true_is_false. intros E. apply existsb_exists in E as (x & Hx & Ex).
    apply N.eqb_eq in Ex. subst x.
    assert (Hc : (c =? T_const) || (c =? T_volatile) = true).
    { assert (Hall' : forallb (fun k => (k =? T_const) || (k =? T_volatile)) (pre ++ post) = true)
        by (rewrite forallb_app; now rewrite Hcv1, Hcv2).
      rewrite forallb_forall in Hall'. now apply Hall'. }
    apply orb_prop in Hc as [Hc|Hc]; apply N.eqb_eq in Hc; contradiction. }
  destruct (member_list_rt false true b (m_const m) (m_volatile m) items rest Hne Hall) as [f1 H1].
  assert (Hval : validate false false m = true).
  { rewrite validate_spec. destruct (apply_kws_fields (pre ++ post) mods0 Hk) as (_ & _ & A3 & A4 & A5 & A6 & A7 & A8 & A9).
    unfold m. rewrite A3, A4, A5, A6, A7, A8, A9.
    rewrite !Hnone by discriminate. reflexivity. }
  exists f1. intros f Hge. unfold typedef_stmt.
  rewrite (specs_decode_lemma pre post b _ Hpre Hpost (mitem_head_stop items rest Hne)). rewrite apply_kws_app. fold m.
  rewrite Hval. now apply H1.
Qed.

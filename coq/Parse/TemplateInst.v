(* Hand-written mirror of CxxParser._parse_template_instantiation (entered
   behind `template` of an explicit instantiation, or behind `extern template`):
   `class` or `struct`, then the name -- an optional leading '::', NAME (:: NAME)*,
   and template arguments behind the LAST name (Parse/TemplateArg.v tspec; they
   are mandatory) -- and ';'.  An attribute in front of the name, template
   arguments on an inner segment and anything else _parse_pqname accepts are
   outside this model (code 4).
   Tied to the code by the differential run of harness/props/c01.py. *)
From Coq Require Import NArith List Bool Lia.
Import ListNotations.
From CXV Require Import Gen.TokTy Gen.ParserTables Parse.Balanced Parse.BalancedThms Parse.Declarator Parse.DeclSpec Parse.DeclThms
  Parse.EnumList Parse.TemplateArg.
Open Scope N_scope.

Definition LTi := T_LIT_60.

(* the segments NAME (:: NAME)* with template arguments behind the last; [n] bounds the number of segments *)
Fixpoint inst_names (n fuel : nat) (acc : list N) (toks : list tk) : dres (list N * list targ * list tk) :=
  match n with
  | O => DErr 9
  | S n' =>
      match toks with
      | t :: r =>
          if is T_NAME t then
            match r with
            | x :: r1 =>
                if is LTi x then
                  match tspec (S (length r1)) fuel [] r1 with
                  | DErr e => DErr e
                  | DOk (args, r2) =>
                      match r2 with
                      | c :: _ => if is T_DBL_COLON c then DErr 4 else DOk (rev (kval t :: acc), args, r2)
                      | [] => DOk (rev (kval t :: acc), args, r2)
                      end
                  end
                else if is T_DBL_COLON x then inst_names n' fuel (kval t :: acc) r1
                else DErr 1                         (* the last segment has no template arguments *)
            | [] => DErr 1
            end
          else if memN (kty t) pqname_start_tokens then DErr 4
          else DErr 1
      | [] => DErr 2
      end
  end.

Record tinst := mkTI { ti_root : bool; ti_names : list N; ti_args : list targ }.

Definition inst_stmt (fuel : nat) (toks : list tk) : dres (tinst * list tk) :=
  match toks with
  | k :: r =>
      if is T_class k || is T_struct k then
        match r with
        | a :: r1 =>
            if memN (kty a) attribute_start_tokens then DErr 4
            else
              let '(root, r2) := if is T_DBL_COLON a then (true, r1) else (false, r) in
              match inst_names (S (length r2)) fuel [] r2 with
              | DErr e => DErr e
              | DOk (names, args, r3) =>
                  match r3 with
                  | s :: r4 => if is SEMI s then DOk (mkTI root names args, r4) else DErr 1
                  | [] => DErr 2
                  end
              end
        | [] => DErr 2
        end
      else DErr 1
  | [] => DErr 1
  end.

(* ------------------------------------------------------------------ *)

Fixpoint qnames_toks (q : list N) (last : N) : list tk :=
  match q with
  | [] => [mkTk T_NAME last]
  | n :: r => mkTk T_NAME n :: ktok T_DBL_COLON :: qnames_toks r last
  end.

Lemma targs_len args : (length args <= S (length (targs_toks args)))%nat.
Proof.
  induction args as [|x r IH]; [cbn; lia|]. destruct r as [|y r'].
  - cbn [length]. lia.
  - change (targs_toks (x :: y :: r')) with (warg_toks x ++ ktok COMMA :: targs_toks (y :: r')).
    rewrite app_length. cbn [length] in *. lia.
Qed.

Lemma inst_names_rt : forall q last acc args X n f,
  (match X with c :: _ => is T_DBL_COLON c = false | [] => True end) ->
  (length q < n)%nat ->
  tspec (S (length (targs_toks args ++ ktok GT :: X))) f [] (targs_toks args ++ ktok GT :: X) = DOk (map warg_out args, X) ->
  inst_names n f acc (qnames_toks q last ++ ktok LTi :: targs_toks args ++ ktok GT :: X)
  = DOk (rev acc ++ q ++ [last], map warg_out args, X).
Proof.
  induction q as [|a q IH]; intros last acc args X n f HX Hn Hts.
  - destruct n as [|n']; [cbn in Hn; lia|]. cbn [qnames_toks app inst_names].
    change (is T_NAME (mkTk T_NAME last)) with true. cbn iota. change (is LTi (ktok LTi)) with true. cbn iota.
    rewrite Hts. cbn [kval rev]. destruct X as [|c r]; [reflexivity|]. now rewrite HX.
  - destruct n as [|n']; [cbn in Hn; lia|]. cbn [qnames_toks app inst_names].
    change (is T_NAME (mkTk T_NAME a)) with true. cbn iota.
    change (is LTi (ktok T_DBL_COLON)) with false. change (is T_DBL_COLON (ktok T_DBL_COLON)) with true. cbn iota. cbn [kval].
    rewrite (IH last (a :: acc) args X n' f HX ltac:(cbn [length] in Hn; lia) Hts).
    cbn [rev]. rewrite <- app_assoc. reflexivity.
Qed.

(* `class|struct [::] A::B::X < args > ;` : the name segments written, every argument once, in order, as the kind it was
   written as, and nothing behind the ';' touched *)
Theorem inst_stmt_roundtrip (key : tk) (root : bool) q last args rest :
  is T_class key || is T_struct key = true -> args <> [] -> Forall warg_ok args ->
  ev (fun f => inst_stmt f (key :: (if root then [ktok T_DBL_COLON] else []) ++ qnames_toks q last ++ ktok LTi :: targs_toks args ++ ktok GT :: ktok SEMI :: rest))
     (DOk (mkTI root (q ++ [last]) (map warg_out args), rest)).
Proof.
  intros Hkey Hne Hok.
  set (X := ktok SEMI :: rest).
  destruct (tspec_rt args [] X (S (length (targs_toks args ++ ktok GT :: X))) Hne Hok) as [f0 H0].
  { rewrite app_length. cbn [length]. pose proof (targs_len args). lia. }
  cbn [rev app] in H0.
  set (NM := qnames_toks q last ++ ktok LTi :: targs_toks args ++ ktok GT :: X).
  assert (Hhead : exists t r, NM = t :: r /\ is T_NAME t = true).
  { unfold NM. destruct q as [|a q']; cbn [qnames_toks app]; eexists; eexists; split; reflexivity. }
  assert (Hlen : (length q < S (length NM))%nat).
  { unfold NM. rewrite app_length. assert (L : (length q <= length (qnames_toks q last))%nat).
    { clear. induction q as [|a r IH]; [cbn; lia|]. cbn [qnames_toks length]. lia. } lia. }
  exists f0. intros f Hf. unfold inst_stmt. rewrite Hkey.
  destruct root; cbn [app].
  - change (memN (kty (ktok T_DBL_COLON)) attribute_start_tokens) with false. change (is T_DBL_COLON (ktok T_DBL_COLON)) with true. cbn iota.
    fold NM. pose proof (inst_names_rt q last [] args X (S (length NM)) f eq_refl Hlen (H0 f Hf)) as HH. fold NM in HH. rewrite HH.
    cbn [rev app]. unfold X. isc. reflexivity.
  - fold NM. destruct Hhead as (t & r & E & Ht). rewrite E.
    assert (Hna : memN (kty t) attribute_start_tokens = false /\ is T_DBL_COLON t = false).
    { unfold is in *. apply N.eqb_eq in Ht. rewrite Ht. split; reflexivity. }
    destruct Hna as [A1 A2]. rewrite A1, A2. rewrite <- E.
    pose proof (inst_names_rt q last [] args X (S (length NM)) f eq_refl Hlen (H0 f Hf)) as HH. fold NM in HH. rewrite HH.
    cbn [rev app]. unfold X. isc. reflexivity.
Qed.

(* Model of SimpleCxxVisitor (simple.py) as a fold over the well-nested callback
   stream, seen as a forest of blocks (C04 proves the stream IS well nested).
   Payloads are opaque ids; every scope keeps, like the real NamespaceScope /
   ClassScope, one list per callback kind (here: one list of (kind, payload),
   order within a kind is what matters), its classes, and for namespaces the
   child namespaces keyed by name in insertion order. *)
From Coq Require Import NArith List Bool.
Import ListNotations.
Open Scope N_scope.

(* a block element of the stream *)
Inductive elem :=
| EItem (kind payload : N)
| ENs (names : list N) (body : list elem)         (* namespace a::b { body }  ([] = anonymous) *)
| EExtern (body : list elem)                     (* extern "C" { body } *)
| EClass (decl : N) (body : list elem).

(* the result *)
Inductive cscope := CS (decl : N) (items : list (N * N)) (classes : list cscope).
Inductive nscope := NS (items : list (N * N)) (classes : list cscope) (children : list (N * nscope)).

Definition empty_ns : nscope := NS [] [] [].

(* class bodies: items and nested classes (anything else cannot occur in a class) *)
Fixpoint cabsorb (acc : list (N * N) * list cscope) (e : elem) {struct e} : list (N * N) * list cscope :=
  match e with
  | EItem k p => (fst acc ++ [(k, p)], snd acc)
  | EClass d b =>
      let inner := fold_left cabsorb b ([], []) in
      (fst acc, snd acc ++ [CS d (fst inner) (snd inner)])
  | _ => acc
  end.

Definition class_of (d : N) (b : list elem) : cscope :=
  let inner := fold_left cabsorb b ([], []) in CS d (fst inner) (snd inner).

(* children[name] looked up / created (dict with insertion order) *)
Fixpoint child_update (n : N) (upd : nscope -> nscope) (l : list (N * nscope)) : list (N * nscope) :=
  match l with
  | [] => [(n, upd empty_ns)]
  | (k, s) :: r => if k =? n then (k, upd s) :: r else (k, s) :: child_update n upd r
  end.

(* descend through names a::b::c, creating scopes on the way, and apply [upd] to the innermost *)
Fixpoint at_path (names : list N) (upd : nscope -> nscope) (s : nscope) : nscope :=
  match names with
  | [] => upd s
  | n :: r => match s with NS i c ch => NS i c (child_update n (at_path r upd) ch) end
  end.

Definition anon_name : N := 0.   (* all anonymous namespaces of a scope are the same one: names = [""] *)
Definition ns_names (names : list N) : list N := match names with [] => [anon_name] | _ => names end.

Fixpoint absorb (s : nscope) (e : elem) {struct e} : nscope :=
  match e with
  | EItem k p => match s with NS i c ch => NS (i ++ [(k, p)]) c ch end
  | EClass d b => match s with NS i c ch => NS i (c ++ [class_of d b]) ch end
  | EExtern b => fold_left absorb b s                                  (* transparent *)
  | ENs names b => at_path (ns_names names) (fun inner => fold_left absorb b inner) s
  end.

Definition fold_from (s : nscope) (body : list elem) : nscope := fold_left absorb body s.
Definition fold_ns (body : list elem) : nscope := fold_from empty_ns body.

(* Hand-written mirror of a friend declaration inside a class body, behind the
   `friend` keyword (_parse_friend_decl -> _parse_declarations(is_friend) ->
   _parse_decl / _parse_function): specifiers and type (_parse_type, validate in a
   class), the pointer / reference part, then either NAME '(' -- a friend
   FUNCTION: parameters and _parse_method_end, delivered as a friend, never a
   constructor of the enclosing class (an unqualified name is compared with the
   befriended class, which it does not name) -- or directly ';': a friend TYPE
   named by the type just read.  `friend class X;` is decided by
   _maybe_parse_class_enum_decl (Parse/ClassEnum.v) and is outside this model, as
   are qualified and operator names.
   Tied to the code by the differential run of harness/props/c03.py. *)
From Coq Require Import NArith List Bool Lia.
Import ListNotations.
From CXV Require Import Gen.TokTy Gen.ParserTables Parse.Balanced Parse.BalancedThms Parse.Declarator Parse.DeclSpec Parse.DeclThms
  Parse.EnumList Parse.Specs Parse.VarStmt Parse.FnTail Parse.Init Parse.Members Parse.MethodTail Parse.DeclStmt Parse.MemberStmt Parse.ConvOp.
Open Scope N_scope.

Inductive friend_entry :=
| FrType (m : mods) (b : N)                                                       (* friend T; *)
| FrFn (m : mods) (nm : N) (rt : ty) (ps : list (ty * option N)) (va : bool) (q : mtail).

Definition friend_stmt (fuel : nat) (toks : list tk) : dres (friend_entry * list tk) :=
  match parse_specs toks with
  | DErr e => DErr e
  | DOk (m, b, r) =>
      if auto_next r then DErr 4
      else if negb (validate true true m) then DErr 3
      else
        match cvptr fuel (TBase b (m_const m) (m_volatile m)) r with
        | DErr e => DErr e
        | DOk (d, r1) =>
            if is_fn d then DErr 3
            else
              match r1 with
              | t :: r2 =>
                  if is LP t then DErr 4                               (* a grouping parenthesis / a constructor of another class *)
                  else if is T_NAME t then
                    match r2 with
                    | a :: r3 =>
                        if is LP a then
                          match params fuel r3 with
                          | DErr e => DErr e
                          | DOk (ps, va, r4) =>
                              match parse_method_end r4 with
                              | DErr e => DErr e
                              | DOk (q, r5) =>
                                  if q_body q then DOk (FrFn m (kval t) d ps va q, r5)
                                  else match r5 with
                                       | s :: r6 => if is SEMI s then DOk (FrFn m (kval t) d ps va q, r6) else DErr 1
                                       | [] => DErr 2
                                       end
                              end
                          end
                        else if is T_DBL_COLON a || is LT a then DErr 4
                        else if is SEMI a then DOk (FrType m b, r3)     (* `friend T name;`: the name is read and ignored *)
                        else DErr 1                                    (* a friend is a function or a type *)
                    | [] => DErr 1
                    end
                  else if is SEMI t then
                    match d with
                    | TBase _ _ _ => DOk (FrType m b, r2)
                    | _ => DOk (FrType m b, r2)                          (* (the decoration is dropped: the typename alone is kept) *)
                    end
                  else if memN (kty t) pqname_start_tokens then DErr 4
                  else DErr 1
              | [] => DErr 1
              end
        end
  end.

(* ------------------------------------------------------------------ *)

(* friend spec* T spec* <pointer / reference operators> name ( params ) quals <end> *)
Theorem friend_function_roundtrip pre post b ls n ps va quals e rest :
  forallb spec_kw pre = true -> forallb spec_kw post = true ->
  all_pfx ls = true -> legalL KB ls = true ->
  layer_ok (LFn ps va) -> Forall mq_ok quals ->
  (match e with MeBody soup => bal tk kty LBRACE RBRACE soup | MeCtor _ _ => False | _ => True end) ->
  let m := apply_kws (pre ++ post) mods0 in
  let t := wrap (TBase b (m_const m) (m_volatile m)) ls in
  ev (fun f => friend_stmt f (kw_toks pre ++ nm_tok b :: kw_toks post ++ P ls [] ++ mkTk T_NAME n ::
                              ktok LP :: params_toks ps va ++ ktok RP :: flat_map mq_toks quals ++ mlast_toks e ++ rest))
     (DOk (FrFn m n t ps va (apply_end e (quals_of quals)), rest)).
Proof.
  intros Hpre Hpost Hpf Hleg [_ Hprm] Hq He m t.
  set (TAIL := match e with MeBody _ | MeCtor _ _ => rest | _ => ktok SEMI :: rest end).
  assert (Emid : flat_map mq_toks quals ++ mlast_toks e ++ rest = flat_map mq_toks quals ++ mend_toks e ++ TAIL).
  { unfold TAIL. destruct e; cbn [mlast_toks]; rewrite <- ?app_assoc; reflexivity. }
  assert (Hend : mend_ok e TAIL).
  { unfold TAIL. destruct e; cbn [mend_ok] in *; try exact I; try exact He; try contradiction. reflexivity. }
  set (Y := flat_map mq_toks quals ++ mend_toks e ++ TAIL).
  set (X := mkTk T_NAME n :: ktok LP :: params_toks ps va ++ ktok RP :: Y).
  assert (Hst : stops X = true) by reflexivity.
  destruct (all_pfx_main ls Hpf) as [Em Et].
  assert (Hcore : SNk []) by constructor.
  assert (Hok : Forall layer_ok ls).
  { apply Forall_forall. intros l Hl. unfold all_pfx in Hpf. rewrite forallb_forall in Hpf. specialize (Hpf l Hl).
    destruct l; try exact I; discriminate Hpf. }
  pose proof (cvptr_P _ ls (le_n _) (TBase b (m_const m) (m_volatile m)) [] X Hleg Hok Hcore) as Hcv'.
  rewrite Et, Em in Hcv'. cbn [P app] in Hcv'. specialize (Hcv' Hst eq_refl). destruct Hcv' as [f1 H1].
  destruct (Hprm Y) as [f2 H2].
  pose proof (parse_method_end_roundtrip quals e TAIL Hq Hend) as Htl. fold Y in Htl.
  assert (Hnf : is_fn t = false).
  { unfold t. clear - Hpf. destruct ls as [|l r] using rev_ind; [reflexivity|].
    unfold wrap. rewrite fold_left_app. cbn [fold_left]. unfold all_pfx in Hpf. rewrite forallb_app in Hpf.
    apply andb_prop in Hpf as [_ Hl]. cbn [forallb] in Hl. destruct l; try reflexivity; discriminate Hl. }
  assert (Hstop : spec_stop (P ls [] ++ X) = true).
  { destruct ls as [|l r]; [reflexivity|]. cbn [all_pfx forallb] in Hpf. apply andb_prop in Hpf as [Hl _].
    destruct l; try discriminate Hl; reflexivity. }
  assert (Hna : auto_next (P ls [] ++ X) = false).
  { destruct ls as [|l r]; [reflexivity|]. cbn [all_pfx forallb] in Hpf. apply andb_prop in Hpf as [Hl _].
    destruct l; try discriminate Hl; reflexivity. }
  exists (Nat.max f1 f2). intros f Hge. unfold friend_stmt.
  replace (kw_toks pre ++ nm_tok b :: kw_toks post ++ P ls [] ++ mkTk T_NAME n :: ktok LP :: params_toks ps va ++ ktok RP :: flat_map mq_toks quals ++ mlast_toks e ++ rest)
    with (kw_toks pre ++ nm_tok b :: kw_toks post ++ (P ls [] ++ X)).
  2:{ unfold X, Y. rewrite <- Emid. reflexivity. }
  rewrite (specs_decode_lemma pre post b _ Hpre Hpost Hstop). rewrite apply_kws_app. fold m.
  rewrite Hna. rewrite validate_tt. cbn [negb]. rewrite H1 by lia. fold t. rewrite Hnf.
  unfold X at 1. isc. cbn [kval]. change (is LP (ktok LP)) with true. cbn iota.
  rewrite H2 by lia. rewrite Htl.
  fold (quals_of quals). rewrite (q_body_apply_end e _ (quals_no_body quals)).
  unfold TAIL. destruct e; cbn iota; isc; try reflexivity.
Qed.

(* friend spec* T spec* ; *)
Theorem friend_type_roundtrip pre post b rest :
  forallb spec_kw pre = true -> forallb spec_kw post = true ->
  ev (fun f => friend_stmt f (kw_toks pre ++ nm_tok b :: kw_toks post ++ ktok SEMI :: rest))
     (DOk (FrType (apply_kws (pre ++ post) mods0) b, rest)).
Proof.
  intros Hpre Hpost. exists 1%nat. intros f Hf. destruct f as [|f']; [lia|]. unfold friend_stmt.
  rewrite (specs_decode_lemma pre post b (ktok SEMI :: rest) Hpre Hpost eq_refl). rewrite apply_kws_app.
  change (auto_next (ktok SEMI :: rest)) with false. cbn iota. rewrite validate_tt. cbn [negb].
  rewrite (cvptr_stops (ktok SEMI :: rest) eq_refl f' _). cbn [is_fn]. reflexivity.
Qed.

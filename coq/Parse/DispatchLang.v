(* The command language into which translate/gen_dispatch.py translates the small
   keyword handlers of CxxParser (Gen/Dispatch.v), and its interpreter.

   The handlers are straight-line code over the token stream: optional-token
   reads (lex.token_if), a plain read (lex.token), push-back (return_token),
   tests on what was read / on the kind of the current block, a parse error, the
   opening of an extern block, _next_token_must_be, _discard_contents, and -- in
   tail position only (checked by the translator) -- the call of another parse
   method.  The interpreter runs such a program on a token list and answers what
   the handler hands on to: which method, with which arguments, and which tokens
   are left for it. *)
From Coq Require Import NArith List Bool.
Import ListNotations.
From CXV Require Import Gen.TokTy Parse.Balanced Parse.Declarator.
Open Scope N_scope.

Inductive expr := ETokenIf (tys : list N) | EToken | EMustBe (tys : list N).
Inductive cond := CVar (v : N) | CNotVar (v : N) | CInClass | CNotInClass | CTypeIs (v : N) (ty : N) | CTypeIn (v : N) (tys : list N) | CTokenIf (tys : list N).
Inductive arg := AVar (v : N) | ADox | ATemplate | ABool (b : bool).
Inductive callee := F_declarations | F_template_instantiation | F_namespace | F_gcc_attribute | F_declspec | F_attribute_specifier_seq.

Inductive stmt :=
| SAssign (v : N) (e : expr)
| SIf (c : cond) (th el : list stmt)
| SRaise (v : N)                                   (* raise self._parse_error(v) *)
| SReturnTok (v : N)                               (* self.lex.return_token(v) *)
| SSetLoc                                          (* self.state.location = tok.location *)
| SOpenExtern (v : N)                              (* push an ExternBlockState with linkage v, deliver on_extern_block_start *)
| SCall (f : callee) (pos : list arg) (kw : list (N * arg))     (* tail call of another parse method; kw: 1 is_typedef 2 is_friend 3 inline *)
| SReturn
| SMustBe (tys : list N)                           (* self._next_token_must_be(...) *)
| SDiscard (s e : N)                               (* self._discard_contents(s, e) *)
| SConsumeBalanced (vs : list N)                   (* self._consume_balanced_tokens(v1, v2, ...), the group is dropped *)
| SRaiseInternal                                   (* raise CxxParseError("internal error") *)
| SUnknown.                                        (* a function the translator could not translate: running it answers code 9 *)

Inductive rarg := RTok (t : option tk) | RDox | RTemplate | RBool (b : bool).

Inductive outcome :=
| OCall (f : callee) (pos : list rarg) (kw : list (N * rarg)) (rest : list tk)
| OOpenExtern (linkage : option tk) (rest : list tk)
| ODone (rest : list tk)
| OErr (code : N).                                 (* 1 parse error, 2 end of input, 3 internal *)

Definition env := list (N * option tk).
Fixpoint lookup (v : N) (e : env) : option tk :=
  match e with [] => None | (k, t) :: r => if v =? k then t else lookup v r end.

Inductive step := Continue (e : env) (toks : list tk) | Stop (o : outcome).

Definition eval_cond (c : cond) (in_class : bool) (e : env) (toks : list tk) : bool * list tk :=
  match c with
  | CVar v => (match lookup v e with Some _ => true | None => false end, toks)
  | CNotVar v => (match lookup v e with Some _ => false | None => true end, toks)
  | CInClass => (in_class, toks)
  | CNotInClass => (negb in_class, toks)
  | CTypeIs v ty => (match lookup v e with Some t => kty t =? ty | None => false end, toks)
  | CTypeIn v tys => (match lookup v e with Some t => memN (kty t) tys | None => false end, toks)
  | CTokenIf tys => match toks with t :: r => if memN (kty t) tys then (true, r) else (false, toks) | [] => (false, toks) end
  end.

Definition resolve (e : env) (a : arg) : rarg :=
  match a with AVar v => RTok (lookup v e) | ADox => RDox | ATemplate => RTemplate | ABool b => RBool b end.

Fixpoint exec (ic : bool) (s : stmt) (e : env) (toks : list tk) {struct s} : step :=
  let block := fix block (l : list stmt) (e : env) (toks : list tk) {struct l} : step :=
    match l with
    | [] => Continue e toks
    | s' :: q => match exec ic s' e toks with Continue e' t' => block q e' t' | Stop o => Stop o end
    end in
  match s with
  | SAssign v (ETokenIf tys) =>
      match toks with
      | t :: r => if memN (kty t) tys then Continue ((v, Some t) :: e) r else Continue ((v, None) :: e) toks
      | [] => Continue ((v, None) :: e) toks
      end
  | SAssign v EToken =>
      match toks with t :: r => Continue ((v, Some t) :: e) r | [] => Stop (OErr 2) end
  | SAssign v (EMustBe tys) =>
      match toks with
      | t :: r => if memN (kty t) tys then Continue ((v, Some t) :: e) r else Stop (OErr 1)
      | [] => Stop (OErr 2)
      end
  | SIf c th el => let '(b, toks') := eval_cond c ic e toks in if b then block th e toks' else block el e toks'
  | SRaise _ => Stop (OErr 1)
  | SReturnTok v => match lookup v e with Some t => Continue e (t :: toks) | None => Stop (OErr 3) end
  | SSetLoc => Continue e toks
  | SOpenExtern v => Stop (OOpenExtern (lookup v e) toks)
  | SCall f pos kw => Stop (OCall f (map (resolve e) pos) (map (fun p => (fst p, resolve e (snd p))) kw) toks)
  | SReturn => Stop (ODone toks)
  | SMustBe tys =>
      match toks with
      | t :: r => if memN (kty t) tys then Continue e r else Stop (OErr 1)
      | [] => Stop (OErr 2)
      end
  | SDiscard s0 e0 =>
      match discard kty s0 e0 1 toks with
      | Ok r => Continue e r
      | ErrEOF => Stop (OErr 2)
      | _ => Stop (OErr 3)
      end
  | SConsumeBalanced vs =>
      let inits := flat_map (fun v => match lookup v e with Some t => [t] | None => [] end) vs in
      if negb (Nat.eqb (length inits) (length vs)) then Stop (OErr 3)
      else match consume_balanced kty inits toks with
           | Ok (_, r) => Continue e r
           | ErrEOF => Stop (OErr 2)
           | ErrUnexpected _ => Stop (OErr 1)
           | ErrInternal => Stop (OErr 3)
           end
  | SRaiseInternal => Stop (OErr 3)
  | SUnknown => Stop (OErr 9)
  end.

Fixpoint exec_block (ic : bool) (l : list stmt) (e : env) (toks : list tk) : step :=
  match l with
  | [] => Continue e toks
  | s :: q => match exec ic s e toks with Continue e' t' => exec_block ic q e' t' | Stop o => Stop o end
  end.

(* run a handler: [tok] is the keyword token it was dispatched on (variable 0), [toks] what follows it *)
Definition run (prog : list stmt) (in_class : bool) (tok : tk) (toks : list tk) : outcome :=
  match exec_block in_class prog [(0, Some tok)] toks with
  | Continue _ r => ODone r
  | Stop o => o
  end.

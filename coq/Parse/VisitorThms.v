(* Finite checks over the collecting visitor as translated from simple.py / visitor.py (Gen/VisitorTable.v): decided by
   computation on the regenerated table. *)
From Coq Require Import NArith List Bool.
Import ListNotations.
From CXV Require Import Gen.VisitorTable.
Open Scope N_scope.

Fixpoint eq_name (a b : list N) : bool :=
  match a, b with
  | [], [] => true
  | x :: r, y :: s => (x =? y) && eq_name r s
  | _, _ => false
  end.

Fixpoint nodup_names (l : list (list N)) : bool :=
  match l with
  | [] => true
  | x :: r => negb (existsb (eq_name x) r) && nodup_names r
  end.

Definition row_name (r : list N * N * list N * bool) := fst (fst (fst r)).
Definition row_target (r : list N * N * list N * bool) := snd (fst (fst r)).
Definition row_field (r : list N * N * list N * bool) := snd (fst r).
Definition row_ok (r : list N * N * list N * bool) := snd r.

Definition item_rows := filter (fun r => negb (row_target r =? 2)) visitor_rows.

(* every callback of the protocol is implemented in a shape the translator understands: an item callback is exactly one append
   of its payload to one list of the scope of its state (or of the parsed data), a block callback has the mirrored shape *)
Definition all_translated : bool := forallb row_ok visitor_rows.
(* the table has one row per callback of the protocol, in the protocol's order *)
Fixpoint same_names (a b : list (list N)) : bool :=
  match a, b with
  | [], [] => true
  | x :: r, y :: s => eq_name x y && same_names r s
  | _, _ => false
  end.
Definition covers_protocol : bool := same_names (map row_name visitor_rows) protocol_callbacks.
(* no two item callbacks store into the same list: the order of a list is the delivery order of ONE callback *)
Definition item_fields_distinct : bool := nodup_names (map row_field item_rows).

Lemma all_translated_true : all_translated = true. Proof. vm_compute. reflexivity. Qed.
Lemma covers_protocol_true : covers_protocol = true. Proof. vm_compute. reflexivity. Qed.
Lemma item_fields_distinct_true : item_fields_distinct = true. Proof. vm_compute. reflexivity. Qed.

(* Hand-written mirror of how CxxParser._parse_declarations / _parse_decl /
   _parse_function / _parse_field put one member declaration statement together
   INSIDE A CLASS BODY (not a typedef, not a friend, no template header):
   specifiers and base type (_parse_type), validate(var_ok, meth_ok), then for
   every declarator of the statement
     - the pointer / reference part (_parse_cv_ptr),
     - a '(' directly behind an undecorated type name that is the name of the
       class or its '~' form: a CONSTRUCTOR / DESTRUCTOR (no return type),
     - otherwise a leading parenthesis that is not a declarator group is
       re-injected once, then the name,
     - '(' behind the name: a METHOD (parameters, _parse_method_end); the
       statement is over when it has a body,
     - anything else: a FIELD (_parse_field: array suffix, bit-field width,
       initialiser; `extern` makes the Field constructor fail; a field may be
       unnamed),
   and ',' / ';' between and behind declarators.
   [cls] is the value id of the class name (0: the class has no name) and
   [dcls] the value id of the text '~' + class name (the lexer makes `~C` one
   NAME token).
   Outside the model (code 4): qualified / templated / operator names, msvc
   calling conventions, abbreviated templates, trailing return types,
   requires-clauses, and whatever the sub-models leave out.
   Tied to the code by the differential run of harness/props/c03.py (extracted
   member_stmt vs parse_string of a class with a recording visitor). *)
From Coq Require Import NArith List Bool Lia.
Import ListNotations.
From CXV Require Import Gen.TokTy Gen.ParserTables Parse.Balanced Parse.BalancedThms Parse.Declarator Parse.DeclSpec Parse.DeclThms
  Parse.EnumList Parse.Specs Parse.VarStmt Parse.FnTail Parse.Init Parse.Members Parse.MethodTail Parse.DeclStmt.
Open Scope N_scope.

Inductive mentry :=
| MField (nm : option N) (t : ty) (bits : option N) (iv : option (list tk))
| MMethod (nm : N) (rt : option ty) (ps : list (ty * option N)) (va : bool) (ctor dtor : bool) (q : mtail).

(* _parse_field in a class, behind the (optional) name *)
Definition field_part_c (fuel : nat) (ext : bool) (d : ty) (nm : option N) (r2 : list tk) : dres (mentry * bool * list tk) :=
  let arr := match r2 with
             | a :: r3 => if is LB a then arrtype fuel d a r3 else DOk (d, r2)
             | [] => DOk (d, r2)
             end in
  match arr with
  | DErr e => DErr e
  | DOk (d1, r4) =>
      match bits_part true false r4 with
      | DErr e => DErr e
      | DOk (bits, r5) =>
          match init_part false r5 with
          | DErr e => DErr e
          | DOk (iv, r6) => if ext then DErr 3 else DOk (MField nm d1 bits iv, false, r6)
          end
      end
  end.

(* _parse_function in a class, behind the '(' *)
Definition method_part (fuel : nat) (rt : option ty) (nm : N) (ctor dtor : bool) (r3 : list tk) : dres (mentry * bool * list tk) :=
  match params fuel r3 with
  | DErr e => DErr e
  | DOk (ps, va, r4) =>
      match parse_method_end r4 with
      | DErr e => DErr e
      | DOk (q, r5) => DOk (MMethod nm rt ps va ctor dtor q, q_body q, r5)
      end
  end.

(* 0 neither, 1 constructor, 2 destructor: the comparison of the type name with the class name *)
Definition cd_code (cls dcls bn : N) (d : ty) : N :=
  match d with
  | TBase _ _ _ => if cls =? 0 then 0 else if bn =? cls then 1 else if bn =? dcls then 2 else 0
  | _ => 0
  end.

Definition one_member (fuel : nat) (ext : bool) (cls dcls bn : N) (b : ty) (toks : list tk) : dres (mentry * bool * list tk) :=
  match cvptr fuel b toks with
  | DErr e => DErr e
  | DOk (d, r1) =>
      if is_fn d then DErr 3
      else
        let cd := cd_code cls dcls bn d in
        match r1 with
        | t :: r2 =>
            if is LP t && negb (cd =? 0) then method_part fuel None bn (cd =? 1) (cd =? 2) r2
            else
              match strip_group r1 with
              | DErr e => DErr e
              | DOk r1' =>
                  match r1' with
                  | t' :: r2' =>
                      if is T_NAME t' then
                        match r2' with
                        | a :: r3 =>
                            if is LP a then method_part fuel (Some d) (kval t') false false r3
                            else if is T_DBL_COLON a || is LT a then DErr 4
                            else field_part_c fuel ext d (Some (kval t')) r2'
                        | [] => field_part_c fuel ext d (Some (kval t')) r2'
                        end
                      else if is LP t' then DErr 1
                      else if memN (kty t') pqname_start_tokens then DErr 4
                      else field_part_c fuel ext d None r1'
                  | [] => field_part_c fuel ext d None r1'
                  end
              end
        | [] => field_part_c fuel ext d None r1
        end
  end.

Fixpoint member_items (n : nat) (fuel : nat) (ext : bool) (cls dcls bn : N) (b : ty) (toks : list tk) : dres (list mentry * list tk) :=
  match n with
  | O => DErr 9
  | S n' =>
      match one_member fuel ext cls dcls bn b toks with
      | DErr e => DErr e
      | DOk (e, ended, r) =>
          if ended then DOk ([e], r)
          else
            match r with
            | s :: r' =>
                if is COMMA s then
                  match member_items n' fuel ext cls dcls bn b r' with
                  | DOk (l, r'') => DOk (e :: l, r'')
                  | DErr e' => DErr e'
                  end
                else if is SEMI s then DOk ([e], r')
                else DErr 1
            | [] => DErr 2
            end
      end
  end.

Definition auto_next (r : list tk) : bool := match r with a :: _ => is T_auto a | [] => false end.

Definition member_stmt (n fuel : nat) (cls dcls : N) (toks : list tk) : dres (mods * list mentry * list tk) :=
  match parse_specs toks with
  | DErr e => DErr e
  | DOk (m, b, r) =>
      if auto_next r then DErr 4
      else if validate true true m then
        match member_items n fuel (m_extern m) cls dcls b (TBase b (m_const m) (m_volatile m)) r with
        | DOk (l, r') => DOk (m, l, r')
        | DErr e => DErr e
        end
      else DErr 3
  end.

(* ------------------------------------------------------------------ *)
(* printed member statements *)

Inductive mditem :=
| MIField (ls : list layer) (n : N) (bits : option N) (i : init)
| MIMethod (ls : list layer) (ps : list (ty * option N)) (va : bool) (n : N) (quals : list mq).

Definition mditem_toks (it : mditem) : list tk :=
  match it with
  | MIField ls n bits i => P ls [mkTk T_NAME n] ++ bits_toks bits ++ init_toks i
  | MIMethod ls ps va n quals => P (ls ++ [LFn ps va]) [mkTk T_NAME n] ++ flat_map mq_toks quals
  end.

Definition quals_of (quals : list mq) : mtail := fold_left (fun q i => apply_mq i q) quals mt0.

Definition mditem_entry (b : ty) (it : mditem) : mentry :=
  match it with
  | MIField ls n bits i => MField (Some n) (wrap b ls) bits (init_value i)
  | MIMethod ls ps va n quals => MMethod n (Some (wrap b ls)) ps va false false (quals_of quals)
  end.

Definition mditem_ok (it : mditem) : Prop :=
  match it with
  | MIField ls n bits i => legalL KB ls = true /\ Forall layer_ok ls /\ kind_end KB ls <> KFn /\ init_ok i
  | MIMethod ls ps va n quals =>
      legalL KB (ls ++ [LFn ps va]) = true /\ Forall layer_ok (ls ++ [LFn ps va]) /\
      (kind_end KB ls = KB \/ kind_end KB ls = KRef) /\ Forall mq_ok quals
  end.

Definition is_method_item (it : mditem) : bool := match it with MIMethod _ _ _ _ _ => true | _ => false end.

(* the ending behind the last declarator: ';', or behind a method `= 0 ;`, `= delete ;`, `= default ;` or a body *)
Definition mlast_toks (e : mend) : list tk :=
  match e with
  | MeBody _ | MeCtor _ _ => mend_toks e
  | _ => mend_toks e ++ [ktok SEMI]
  end.

Definition mlast_ok (it : mditem) (e : mend) : Prop :=
  match e with
  | MeDecl => True
  | MeCtor _ _ => False                       (* initialiser lists belong to constructors *)
  | MeBody soup => is_method_item it = true /\ bal tk kty LBRACE RBRACE soup
  | _ => is_method_item it = true
  end.

Definition mlast_entry (b : ty) (it : mditem) (e : mend) : mentry :=
  match it with
  | MIMethod ls ps va n quals => MMethod n (Some (wrap b ls)) ps va false false (apply_end e (quals_of quals))
  | _ => mditem_entry b it
  end.

Fixpoint mitems_toks (items : list mditem) (last : mditem) (e : mend) : list tk :=
  match items with
  | [] => mditem_toks last ++ mlast_toks e
  | it :: q => mditem_toks it ++ ktok COMMA :: mitems_toks q last e
  end.

(* ------------------------------------------------------------------ *)

Lemma cd_code_wrap cls dcls bn b c v ls :
  ls <> [] -> cd_code cls dcls bn (wrap (TBase b c v) ls) = 0.
Proof.
  intros Hne. destruct ls as [|l r] using rev_ind; [contradiction|].
  unfold wrap. rewrite fold_left_app. cbn [fold_left]. destruct l; reflexivity.
Qed.

Lemma sep_mstop s : sep_ok s -> mstop_tok s = true.
Proof. unfold sep_ok, is. intros [H|H]; apply N.eqb_eq in H; destruct s as [k vv]; cbn [kty] in H; subst k; reflexivity. Qed.

Lemma bits_head_facts bits i s rest : sep_ok s ->
  match bits_toks bits ++ init_toks i ++ s :: rest with
  | a :: _ => is LP a = false /\ is LB a = false /\ is T_DBL_COLON a = false /\ is LT a = false
  | [] => True
  end.
Proof.
  intros Hs. destruct (sep_facts s Hs) as (A1 & A2 & A3 & A4 & A5 & _).
  destruct bits as [k|]; cbn [bits_toks app]; [repeat split; reflexivity|].
  destruct i as [|e|soup]; cbn [init_toks app]; repeat split; try assumption; reflexivity.
Qed.

Lemma bits_init_rt bits i s rest : init_ok i -> sep_ok s ->
  match bits_part true false (bits_toks bits ++ init_toks i ++ s :: rest) with
  | DErr e => DErr e
  | DOk (bb, r5) => match init_part false r5 with DErr e => DErr e | DOk (iv, r6) => DOk (bb, iv, r6) end
  end = DOk (bits, init_value i, s :: rest).
Proof.
  intros Hi Hs.
  rewrite (bits_part_rt true false bits (init_toks i ++ s :: rest)).
  - now rewrite (init_part_rt i s rest Hi Hs).
  - intros _. split; reflexivity.
  - destruct (sep_facts s Hs) as (_ & _ & A3 & _). destruct i as [|e|soup]; cbn [init_toks app]; try reflexivity. exact A3.
Qed.

Lemma field_part_c_eq d nm r4 bits iv r6 :
  match bits_part true false r4 with
  | DErr e => DErr e
  | DOk (bb, r5) => match init_part false r5 with DErr e => DErr e | DOk (iv', r6') => DOk (bb, iv', r6') end
  end = DOk (bits, iv, r6) ->
  match bits_part true false r4 with
  | DErr e => DErr e
  | DOk (bb, r5) =>
      match init_part false r5 with
      | DErr e => DErr e
      | DOk (iv', r6') => if false then DErr 3 else DOk (MField nm d bb iv', false, r6')
      end
  end = DOk (MField nm d bits iv, false, r6).
Proof.
  destruct (bits_part true false r4) as [[bb r5]|e]; [|discriminate].
  destruct (init_part false r5) as [[iv' r6']|e]; [|discriminate].
  intros H. now inversion H.
Qed.

(* a field declarator with bit-field width and initialiser *)
Lemma one_member_field cls dcls bn b c v ls n bits i s rest :
  legalL KB ls = true -> Forall layer_ok ls -> kind_end KB ls <> KFn -> init_ok i -> sep_ok s ->
  ev (fun f => one_member f false cls dcls bn (TBase b c v) (P ls [mkTk T_NAME n] ++ bits_toks bits ++ init_toks i ++ s :: rest))
     (DOk (MField (Some n) (wrap (TBase b c v) ls) bits (init_value i), false, s :: rest)).
Proof.
  intros Hleg Hok Hk Hi Hs.
  set (X := bits_toks bits ++ init_toks i ++ s :: rest).
  assert (S1 : stops X = true /\ nolb X = true).
  { unfold X. destruct bits as [k|]; cbn [bits_toks app]; [split; reflexivity|].
    destruct (init_head_ok i s rest Hs) as (A & B & _). now split. }
  destruct S1 as [S1 S2].
  destruct (declarator_rt b c v ls (Some n) X Hleg Hok Hk S1 S2) as (arrs & d & Hsn & Hnf & Hnr & Hw & [f1 H1]).
  cbn [name_toks] in H1.
  pose proof (bits_head_facts bits i s rest Hs) as Hh. fold X in Hh.
  pose proof (bits_init_rt bits i s rest Hi Hs) as Hbi. fold X in Hbi.
  destruct arrs as [|a0 ar].
  - cbn [map wrap fold_left] in Hw. subst d. cbn [sufs app] in H1.
    exists f1. intros f Hge. unfold one_member. rewrite H1 by lia. rewrite Hnf.
    change (is LP (mkTk T_NAME n)) with false. cbn [andb]. cbn iota.
    rewrite strip_group_id by reflexivity. isc. cbn [kval].
    destruct X as [|a r3] eqn:E.
    { unfold X in E. destruct bits; [discriminate E|]. destruct i; discriminate E. }
    destruct Hh as (B1 & B2 & B4 & B5). rewrite B1, B4, B5. cbn [orb].
    unfold field_part_c. rewrite B2. now apply field_part_c_eq.
  - destruct (arr_tail d (a0 :: ar) X ltac:(discriminate) (Hnr ltac:(discriminate)) Hsn S2) as (A & EA & [f2 H2]).
    rewrite EA in H1. rewrite Hw in H2.
    exists (Nat.max f1 f2). intros f Hge. unfold one_member. rewrite H1 by lia. rewrite Hnf.
    change (is LP (mkTk T_NAME n)) with false. cbn [andb]. cbn iota.
    rewrite strip_group_id by reflexivity. cbn [app]. isc. cbn [kval].
    change (is LP (ktok LB)) with false. change (is T_DBL_COLON (ktok LB) || is LT (ktok LB)) with false. cbn iota.
    unfold field_part_c. change (is LB (ktok LB)) with true. cbn iota. rewrite H2 by lia.
    now apply field_part_c_eq.
Qed.

(* a method declarator: qualifiers, then an ending; [ended] = it has a body *)
Lemma one_member_method cls dcls bn b c v ls ps va n quals e rest :
  legalL KB (ls ++ [LFn ps va]) = true -> Forall layer_ok (ls ++ [LFn ps va]) ->
  (kind_end KB ls = KB \/ kind_end KB ls = KRef) -> Forall mq_ok quals -> mend_ok e rest -> (e = MeDecl -> nolb rest = true) ->
  ev (fun f => one_member f false cls dcls bn (TBase b c v)
                 (P (ls ++ [LFn ps va]) [mkTk T_NAME n] ++ flat_map mq_toks quals ++ mend_toks e ++ rest))
     (DOk (MMethod n (Some (wrap (TBase b c v) ls)) ps va false false (apply_end e (quals_of quals)),
           q_body (apply_end e (quals_of quals)), rest)).
Proof.
  intros Hleg Hok Hk Hq He Hnb.
  set (X := flat_map mq_toks quals ++ mend_toks e ++ rest).
  assert (Hnl : nolb X = true).
  { unfold X. destruct quals as [|i0 q0].
    - cbn [flat_map app]. destruct e as [| | | |soup|inits soup]; cbn [mend_toks app]; try reflexivity.
      exact (Hnb eq_refl).
    - cbn [flat_map]. destruct i0 as [| | | |rv|e0|[e0|]]; cbn [mq_toks app]; try reflexivity. destruct rv; reflexivity. }
  destruct (fn_layers b c v ls ps va n X Hleg Hok Hk Hnl) as [f1 H1].
  assert (Hl : layer_ok (LFn ps va)).
  { apply Forall_app in Hok. destruct Hok as [_ H]. now inversion H. }
  destruct Hl as [_ Hprm]. destruct (Hprm X) as [f2 H2].
  assert (Hnf : is_fn (wrap (TBase b c v) ls) = false).
  { apply not_fn_of_kind. rewrite kind_wrap. cbn [kind_of]. destruct Hk as [E|E]; rewrite E; discriminate. }
  pose proof (parse_method_end_roundtrip quals e rest Hq He) as Htl. fold X in Htl.
  exists (Nat.max f1 f2). intros f Hge. unfold one_member.
  specialize (H1 f ltac:(lia)).
  destruct (cvptr f (TBase b c v) (P (ls ++ [LFn ps va]) [mkTk T_NAME n] ++ X)) as [[d r1]|e0]; [|discriminate H1].
  injection H1 as -> ->. rewrite Hnf.
  change (is LP (mkTk T_NAME n)) with false. cbn [andb]. cbn iota.
  rewrite strip_group_id by reflexivity. isc. cbn [kval].
  change (is LP (ktok LP)) with true. cbn iota. unfold method_part. rewrite H2 by lia. rewrite Htl. reflexivity.
Qed.

Lemma one_member_item cls dcls bn b c v it s rest :
  mditem_ok it -> sep_ok s ->
  ev (fun f => one_member f false cls dcls bn (TBase b c v) (mditem_toks it ++ s :: rest))
     (DOk (mditem_entry (TBase b c v) it, false, s :: rest)).
Proof.
  intros Hok Hs. destruct it as [ls n bits i|ls ps va n quals]; cbn [mditem_toks mditem_entry mditem_ok] in *.
  - destruct Hok as (H1 & H2 & H3 & H4). rewrite <- !app_assoc. now apply one_member_field.
  - destruct Hok as (H1 & H2 & H3 & H4). rewrite <- app_assoc.
    pose proof (one_member_method cls dcls bn b c v ls ps va n quals MeDecl (s :: rest) H1 H2 H3 H4 (sep_mstop s Hs) ltac:(intros _; cbn [nolb]; destruct (sep_facts s Hs) as (_ & A2 & _); now rewrite A2)) as H.
    cbn [mend_toks app apply_end] in H.
    assert (Eb : q_body (quals_of quals) = false).
    { unfold quals_of. assert (G : forall l q, q_body q = false -> q_body (fold_left (fun q i => apply_mq i q) l q) = false).
      { induction l as [|i l IH]; intros q Hq; [exact Hq|]. cbn [fold_left]. apply IH.
        destruct q as [c0 v0 o f rf th ne pu de df bo]. cbn [q_body] in Hq. subst bo.
        destruct i as [| | | |rv|e0|[e0|]]; reflexivity. }
      now apply G. }
    destruct (quals_of quals) as [c0 v0 o f rf th ne pu de df bo]. cbn [apply_end q_body] in *. subst bo. exact H.
Qed.

Lemma mlast_rt cls dcls bn b c v it e rest :
  mditem_ok it -> mlast_ok it e ->
  ev (fun f => member_items 1 f false cls dcls bn (TBase b c v) (mditem_toks it ++ mlast_toks e ++ rest))
     (DOk ([mlast_entry (TBase b c v) it e], rest)).
Proof.
  intros Hok Hle.
  destruct e as [| | | |soup|inits soup]; [| | | | |contradiction].
  - (* ';' *)
    destruct (one_member_item cls dcls bn b c v it (ktok SEMI) rest Hok (or_intror eq_refl)) as [f1 H1].
    exists f1. intros f Hge. cbn [member_items mlast_toks mend_toks app]. rewrite H1 by exact Hge. isc.
    destruct it as [ls n bits i|ls ps va n quals]; cbn [mlast_entry mditem_entry apply_end]; [reflexivity|].
    destruct (quals_of quals); reflexivity.
  - destruct it as [|ls ps va n quals]; [discriminate Hle|]. cbn [mditem_ok] in Hok. destruct Hok as (H1 & H2 & H3 & H4).
    destruct (one_member_method cls dcls bn b c v ls ps va n quals MePure (ktok SEMI :: rest) H1 H2 H3 H4 I ltac:(discriminate)) as [f1 F1].
    exists f1. intros f Hge. cbn [member_items mlast_toks mditem_toks]. rewrite <- !app_assoc.
    cbn [mend_toks app] in *. rewrite F1 by exact Hge.
    destruct (quals_of quals) as [c0 v0 o f0 rf th ne pu de df bo] eqn:Eq. cbn [apply_end q_body].
    assert (Eb : bo = false).
    { pose proof (f_equal q_body Eq) as Hb. cbn [q_body] in Hb. rewrite <- Hb. unfold quals_of.
      assert (G : forall l q, q_body q = false -> q_body (fold_left (fun q i => apply_mq i q) l q) = false).
      { induction l as [|i l IH]; intros q Hq; [exact Hq|]. cbn [fold_left]. apply IH.
        destruct q as [c1 v1 o1 f1' rf1 th1 ne1 pu1 de1 df1 bo1]. cbn [q_body] in Hq. subst bo1.
        destruct i as [| | | |rv|e0|[e0|]]; reflexivity. }
      now apply G. }
    subst bo. cbn iota. isc. cbn [mlast_entry]. rewrite Eq. reflexivity.
  - destruct it as [|ls ps va n quals]; [discriminate Hle|]. cbn [mditem_ok] in Hok. destruct Hok as (H1 & H2 & H3 & H4).
    destruct (one_member_method cls dcls bn b c v ls ps va n quals MeDelete (ktok SEMI :: rest) H1 H2 H3 H4 I ltac:(discriminate)) as [f1 F1].
    exists f1. intros f Hge. cbn [member_items mlast_toks mditem_toks]. rewrite <- !app_assoc.
    cbn [mend_toks app] in *. rewrite F1 by exact Hge.
    destruct (quals_of quals) as [c0 v0 o f0 rf th ne pu de df bo] eqn:Eq. cbn [apply_end q_body].
    assert (Eb : bo = false).
    { pose proof (f_equal q_body Eq) as Hb. cbn [q_body] in Hb. rewrite <- Hb. unfold quals_of.
      assert (G : forall l q, q_body q = false -> q_body (fold_left (fun q i => apply_mq i q) l q) = false).
      { induction l as [|i l IH]; intros q Hq; [exact Hq|]. cbn [fold_left]. apply IH.
        destruct q as [c1 v1 o1 f1' rf1 th1 ne1 pu1 de1 df1 bo1]. cbn [q_body] in Hq. subst bo1.
        destruct i as [| | | |rv|e0|[e0|]]; reflexivity. }
      now apply G. }
    subst bo. cbn iota. isc. cbn [mlast_entry]. rewrite Eq. reflexivity.
  - destruct it as [|ls ps va n quals]; [discriminate Hle|]. cbn [mditem_ok] in Hok. destruct Hok as (H1 & H2 & H3 & H4).
    destruct (one_member_method cls dcls bn b c v ls ps va n quals MeDefault (ktok SEMI :: rest) H1 H2 H3 H4 I ltac:(discriminate)) as [f1 F1].
    exists f1. intros f Hge. cbn [member_items mlast_toks mditem_toks]. rewrite <- !app_assoc.
    cbn [mend_toks app] in *. rewrite F1 by exact Hge.
    destruct (quals_of quals) as [c0 v0 o f0 rf th ne pu de df bo] eqn:Eq. cbn [apply_end q_body].
    assert (Eb : bo = false).
    { pose proof (f_equal q_body Eq) as Hb. cbn [q_body] in Hb. rewrite <- Hb. unfold quals_of.
      assert (G : forall l q, q_body q = false -> q_body (fold_left (fun q i => apply_mq i q) l q) = false).
      { induction l as [|i l IH]; intros q Hq; [exact Hq|]. cbn [fold_left]. apply IH.
        destruct q as [c1 v1 o1 f1' rf1 th1 ne1 pu1 de1 df1 bo1]. cbn [q_body] in Hq. subst bo1.
        destruct i as [| | | |rv|e0|[e0|]]; reflexivity. }
      now apply G. }
    subst bo. cbn iota. isc. cbn [mlast_entry]. rewrite Eq. reflexivity.
  - destruct Hle as [Hm Hbal]. destruct it as [|ls ps va n quals]; [discriminate Hm|].
    cbn [mditem_ok] in Hok. destruct Hok as (H1 & H2 & H3 & H4).
    destruct (one_member_method cls dcls bn b c v ls ps va n quals (MeBody soup) rest H1 H2 H3 H4 Hbal ltac:(discriminate)) as [f1 F1].
    exists f1. intros f Hge. cbn [member_items mlast_toks mditem_toks]. rewrite <- !app_assoc.
    rewrite F1 by exact Hge.
    destruct (quals_of quals) as [c0 v0 o f0 rf th ne pu de df bo] eqn:Eq. cbn [apply_end q_body]. cbn iota.
    cbn [mlast_entry]. rewrite Eq. reflexivity.
Qed.

Lemma member_items_rt cls dcls bn b c v : forall items last e rest,
  Forall mditem_ok items -> mditem_ok last -> mlast_ok last e ->
  ev (fun f => member_items (S (length items)) f false cls dcls bn (TBase b c v) (mitems_toks items last e ++ rest))
     (DOk (map (mditem_entry (TBase b c v)) items ++ [mlast_entry (TBase b c v) last e], rest)).
Proof.
  induction items as [|it q IH]; intros last e rest Hall Hlast Hle.
  - cbn [mitems_toks length map app]. rewrite <- app_assoc. now apply mlast_rt.
  - inversion Hall as [|? ? Hit Hq]; subst.
    cbn [mitems_toks]. rewrite <- app_assoc. cbn [app].
    destruct (one_member_item cls dcls bn b c v it (ktok COMMA) (mitems_toks q last e ++ rest) Hit (or_introl eq_refl)) as [f1 H1].
    destruct (IH last e rest Hq Hlast Hle) as [f2 H2].
    exists (Nat.max f1 f2). intros f Hge.
    change (length (it :: q)) with (S (length q)).
    change (member_items (S (S (length q))) f false cls dcls bn (TBase b c v) (mditem_toks it ++ ktok COMMA :: mitems_toks q last e ++ rest))
      with (match one_member f false cls dcls bn (TBase b c v) (mditem_toks it ++ ktok COMMA :: mitems_toks q last e ++ rest) with
            | DErr e0 => DErr e0
            | DOk (e0, ended, r) =>
                if ended then DOk ([e0], r)
                else match r with
                     | s :: r' =>
                         if is COMMA s then
                           match member_items (S (length q)) f false cls dcls bn (TBase b c v) r' with
                           | DOk (l, r'') => DOk (e0 :: l, r'')
                           | DErr e' => DErr e'
                           end
                         else if is SEMI s then DOk ([e0], r') else DErr 1
                     | [] => DErr 2
                     end
            end).
    rewrite H1 by lia. cbn iota. isc. rewrite H2 by lia. reflexivity.
Qed.

Lemma validate_tt m : validate true true m = true.
Proof. reflexivity. Qed.

Lemma mditem_head_stop it X : spec_stop (mditem_toks it ++ X) = true.
Proof.
  destruct it as [ls n bits i|ls ps va n quals]; cbn [mditem_toks]; rewrite <- app_assoc; apply P_head_stop.
Qed.

Lemma P_head_noauto : forall ls n Y, auto_next (P ls [mkTk T_NAME n] ++ Y) = false.
Proof.
  induction ls as [|l r IH]; intros n Y; [reflexivity|].
  destruct l as [c v| | |s|ps va]; try reflexivity; cbn [P].
  - destruct (starts_pfx r); [reflexivity|]. cbn [paren]. rewrite <- app_assoc. apply IH.
  - destruct (starts_pfx r); [reflexivity|]. cbn [paren]. rewrite <- app_assoc. apply IH.
Qed.

(* `spec* T spec* m1, ..., mn <end>` in a class body: every m a field declarator (any legal object type, optional bit-field
   width and initialiser) or a method declarator (any legal return type and parameter list, qualifiers in any order), in
   any mixture: one entry per declarator, in order, each of its own kind; `= 0`, `= delete`, `= default` or a body behind
   the last method *)
Theorem member_stmt_roundtrip cls dcls pre post b items last e rest :
  forallb spec_kw pre = true -> forallb spec_kw post = true -> has T_extern (pre ++ post) = false ->
  Forall mditem_ok items -> mditem_ok last -> mlast_ok last e ->
  let m := apply_kws (pre ++ post) mods0 in
  let bt := TBase b (m_const m) (m_volatile m) in
  ev (fun f => member_stmt (S (length items)) f cls dcls
                 (kw_toks pre ++ nm_tok b :: kw_toks post ++ mitems_toks items last e ++ rest))
     (DOk (m, map (mditem_entry bt) items ++ [mlast_entry bt last e], rest)).
Proof.
  intros Hpre Hpost Hex Hall Hlast Hle m bt.
  destruct (member_items_rt cls dcls b b (m_const m) (m_volatile m) items last e rest Hall Hlast Hle) as [f1 H1].
  assert (Hk : forallb spec_kw (pre ++ post) = true) by (rewrite forallb_app; now rewrite Hpre, Hpost).
  assert (Hstop : spec_stop (mitems_toks items last e ++ rest) = true).
  { destruct items as [|it q]; cbn [mitems_toks]; rewrite <- app_assoc; apply mditem_head_stop. }
  assert (Hna : auto_next (mitems_toks items last e ++ rest) = false).
  { assert (G : forall it Y, auto_next (mditem_toks it ++ Y) = false).
    { intros [ls n bits i|ls ps va n quals] Y; cbn [mditem_toks]; rewrite <- app_assoc; apply P_head_noauto. }
    destruct items as [|it q]; cbn [mitems_toks]; rewrite <- app_assoc; apply G. }
  assert (Hext : m_extern m = false).
  { destruct (apply_kws_fields (pre ++ post) mods0 Hk) as (_ & _ & _ & A4 & _). unfold m. rewrite A4. now rewrite Hex. }
  exists f1. intros f Hge. unfold member_stmt.
  rewrite (specs_decode_lemma pre post b _ Hpre Hpost Hstop). rewrite apply_kws_app. fold m.
  rewrite Hna. rewrite validate_tt.
  rewrite Hext. fold bt. rewrite H1 by exact Hge. reflexivity.
Qed.

(* constructors and destructors: `spec* C ( params ) quals end` and `spec* ~C ( params ) quals end` in class C *)
Definition special_toks (nm : N) (ps : list (ty * option N)) (va : bool) (quals : list mq) (e : mend) : list tk :=
  mkTk T_NAME nm :: ktok LP :: params_toks ps va ++ ktok RP :: flat_map mq_toks quals ++ mlast_toks e.

Lemma decl_head_nopfx t nm : exists t0 r0, decl_toks t nm = t0 :: r0 /\ is_pfx_tok t0 = false.
Proof.
  unfold decl_toks, base_toks. destruct (base_of t) as [[b c] v].
  destruct c, v; cbn [cvtoks app]; try (eexists; eexists; split; reflexivity).
  destruct (b =? 0); eexists; eexists; split; reflexivity.
Qed.

Lemma params_head_nopfx ps va Y :
  match params_toks ps va ++ ktok RP :: Y with t :: _ => is_pfx_tok t = false | [] => True end.
Proof.
  unfold params_toks. destruct ps as [|[t nm] q].
  - destruct va; reflexivity.
  - cbn [map fst snd app]. destruct (decl_head_nopfx t nm) as (t0 & r0 & E & H).
    destruct (map (fun p => decl_toks (fst p) (snd p)) q ++ va_toks va) as [|y l]; cbn [join_comma]; rewrite E; exact H.
Qed.

Lemma quals_no_body quals : q_body (quals_of quals) = false.
Proof.
  unfold quals_of. assert (G : forall l q, q_body q = false -> q_body (fold_left (fun q i => apply_mq i q) l q) = false).
  { induction l as [|i l IH]; intros q Hq'; [exact Hq'|]. cbn [fold_left]. apply IH.
    destruct q as [c1 v1 o1 f1' rf1 th1 ne1 pu1 de1 df1 bo1]. cbn [q_body] in Hq'. subst bo1.
    destruct i as [| | | |rv|e0|[e0|]]; reflexivity. }
  now apply G.
Qed.

Lemma q_body_apply_end e q : q_body q = false ->
  q_body (apply_end e q) = match e with MeBody _ | MeCtor _ _ => true | _ => false end.
Proof. destruct q as [c v o f rf th ne pu de df bo]. cbn [q_body]. intros ->. destruct e; reflexivity. Qed.

Theorem special_member_roundtrip cls dcls pre nm ps va quals e rest (ctor : bool) :
  forallb spec_kw pre = true -> has T_extern pre = false ->
  cls <> 0 -> dcls <> 0 -> dcls <> cls -> nm = (if ctor then cls else dcls) ->
  layer_ok (LFn ps va) -> Forall mq_ok quals ->
  (match e with MeBody soup => bal tk kty LBRACE RBRACE soup | MeCtor _ _ => mend_ok e rest | _ => True end) ->
  ev (fun f => member_stmt 1 f cls dcls (kw_toks pre ++ special_toks nm ps va quals e ++ rest))
     (DOk (apply_kws pre mods0, [MMethod nm None ps va ctor (negb ctor) (apply_end e (quals_of quals))], rest)).
Proof.
  intros Hpre Hex Hcls Hdz Hd Hnm [_ Hprm] Hq He.
  set (m := apply_kws pre mods0).
  set (TAIL := match e with MeBody _ | MeCtor _ _ => rest | _ => ktok SEMI :: rest end).
  assert (Emid : flat_map mq_toks quals ++ mlast_toks e ++ rest = flat_map mq_toks quals ++ mend_toks e ++ TAIL).
  { unfold TAIL. destruct e; cbn [mlast_toks]; rewrite <- ?app_assoc; reflexivity. }
  assert (Hend : mend_ok e TAIL).
  { unfold TAIL. destruct e; cbn [mend_ok] in *; try exact I; try exact He. reflexivity. }
  destruct (Hprm (flat_map mq_toks quals ++ mend_toks e ++ TAIL)) as [f2 H2].
  pose proof (parse_method_end_roundtrip quals e TAIL Hq Hend) as Htl.
  assert (Hnz : nm <> 0) by (subst nm; destruct ctor; assumption).
  set (X := ktok LP :: params_toks ps va ++ ktok RP :: flat_map mq_toks quals ++ mlast_toks e ++ rest).
  assert (Etoks : kw_toks pre ++ special_toks nm ps va quals e ++ rest = kw_toks pre ++ nm_tok nm :: kw_toks [] ++ X).
  { unfold special_toks, X, nm_tok. apply N.eqb_neq in Hnz. rewrite Hnz. cbn [kw_toks map app].
    do 2 f_equal. rewrite <- !app_assoc. cbn [app]. do 2 f_equal. now rewrite <- !app_assoc. }
  assert (Hstop : spec_stop X = true) by reflexivity.
  assert (Hst : stops X = true).
  { unfold X. cbn [stops]. change (is LP (ktok LP)) with true. cbn [negb orb andb].
    pose proof (params_head_nopfx ps va (flat_map mq_toks quals ++ mlast_toks e ++ rest)) as H.
    destruct (params_toks ps va ++ ktok RP :: flat_map mq_toks quals ++ mlast_toks e ++ rest) as [|t2 r2]; [reflexivity|].
    now rewrite H. }
  assert (Hext : m_extern m = false).
  { destruct (apply_kws_fields pre mods0 Hpre) as (_ & _ & _ & A4 & _). unfold m. rewrite A4. now rewrite Hex. }
  exists (Nat.max 1 f2). intros f Hge. unfold member_stmt. rewrite Etoks.
  rewrite (specs_decode_lemma pre [] nm X Hpre eq_refl Hstop). cbn [apply_kws fold_left]. fold (apply_kws pre mods0). fold m.
  change (auto_next X) with false. cbn iota.
  rewrite validate_tt.
  cbn [member_items]. unfold one_member.
  destruct f as [|f']; [lia|]. rewrite (cvptr_stops X Hst f' _). cbn [is_fn].
  unfold X at 1. change (is LP (ktok LP)) with true.
  assert (Ecd : cd_code cls dcls nm (TBase nm (m_const m) (m_volatile m)) = (if ctor then 1 else 2)).
  { unfold cd_code. apply N.eqb_neq in Hcls. rewrite Hcls. subst nm. destruct ctor.
    - now rewrite N.eqb_refl.
    - apply N.eqb_neq in Hd. rewrite Hd. now rewrite N.eqb_refl. }
  rewrite Ecd.
  assert (En : negb ((if ctor then 1 else 2) =? 0) = true) by (destruct ctor; reflexivity).
  rewrite En. cbn [andb]. cbn iota.
  unfold method_part. rewrite Emid. rewrite H2 by lia. rewrite Htl.
  assert (Ec : ((if ctor then 1 else 2) =? 1) = ctor) by (destruct ctor; reflexivity).
  assert (Ed : ((if ctor then 1 else 2) =? 2) = negb ctor) by (destruct ctor; reflexivity).
  rewrite Ec, Ed.
  fold (quals_of quals). rewrite (q_body_apply_end e _ (quals_no_body quals)).
  unfold TAIL. destruct e; cbn iota; isc; reflexivity.
Qed.

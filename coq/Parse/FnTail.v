(* Hand-written mirror of CxxParser._parse_fn_end: what may follow the ')' of
   a function's parameter list -- throw(...) or noexcept[(...)], then a body
   `{ ... }` (skipped by _discard_contents) or `= delete`.  Trailing return
   types ('->') and requires-clauses are outside this model (code 4).
   With fn_decl (Parse/Declarator.v) this gives whole function statements.
   Tied to the code by the differential run of harness/props/c01.py. *)
From Coq Require Import NArith List Bool Lia.
Import ListNotations.
From CXV Require Import Gen.TokTy Gen.ParserTables Parse.Balanced Parse.BalancedThms Parse.Declarator Parse.DeclSpec Parse.DeclThms Parse.EnumList.
Open Scope N_scope.

Record tail := mkTail { t_throw : option (list tk); t_noexcept : option (list tk); t_body : bool; t_deleted : bool }.

Definition tail_end (th ne : option (list tk)) (r : list tk) : dres (tail * list tk) :=
  match r with
  | t :: r1 =>
      if is T_ARROW t then DErr 4
      else if is T_requires t then DErr 4          (* a requires-clause may follow the exception specification *)
      else if is LBRACE t then
        match discard kty LBRACE RBRACE 1 r1 with
        | Ok r2 => DOk (mkTail th ne true false, r2)
        | ErrEOF => DErr 2
        | ErrUnexpected _ => DErr 1
        | ErrInternal => DErr 3
        end
      else if is EQ t then
        match r1 with
        | d :: r2 => if is T_delete d then DOk (mkTail th ne false true, r2) else DErr 1
        | [] => DErr 2
        end
      else DOk (mkTail th ne false false, r)
  | [] => DOk (mkTail th ne false false, r)
  end.

Definition fn_tail (toks : list tk) : dres (tail * list tk) :=
  match toks with
  | t :: r =>
      if is T_throw t then
        match r with
        | lp :: r1 =>
            if is LP lp then lift (consume kty [RP] [lp] r1) (fun grp r2 => tail_end (Some (middle grp)) None r2)
            else DErr 1
        | [] => DErr 2
        end
      else if is T_noexcept t then
        match r with
        | lp :: r1 =>
            if is LP lp then lift (consume kty [RP] [lp] r1) (fun grp r2 => tail_end None (Some (middle grp)) r2)
            else tail_end None (Some []) r
        | [] => tail_end None (Some []) r
        end
      else if is T_requires t then DErr 4
      else tail_end None None toks
  | [] => tail_end None None toks
  end.

(* a whole function statement: declaration head, tail, and the ';' when there is no body *)
Definition fn_stmt (fuel : nat) (toks : list tk)
  : dres (N * ty * list (ty * option N) * bool * tail * list tk) :=
  match fn_decl fuel toks with
  | DErr e => DErr e
  | DOk (nm, rt, ps, va, r) =>
      match fn_tail r with
      | DErr e => DErr e
      | DOk (tl, r1) =>
          if t_body tl then DOk (nm, rt, ps, va, tl, r1)
          else
            match r1 with
            | s :: r2 => if is SEMI s then DOk (nm, rt, ps, va, tl, r2) else DErr 1
            | [] => DErr 2
            end
      end
  end.

(* ------------------------------------------------------------------ *)
(* printed tails *)

Inductive ending := EndDecl | EndBody (soup : list tk) | EndDelete.

Definition spec_toks (th ne : option (list tk)) (ne_paren : bool) : list tk :=
  match th, ne with
  | Some e, _ => ktok T_throw :: ktok LP :: e ++ [ktok RP]
  | None, Some e => ktok T_noexcept :: (if ne_paren then ktok LP :: e ++ [ktok RP] else [])
  | None, None => []
  end.

Definition ending_toks (en : ending) : list tk :=
  match en with
  | EndDecl => []
  | EndBody soup => ktok LBRACE :: soup ++ [ktok RBRACE]
  | EndDelete => [ktok EQ; ktok T_delete]
  end.

Definition tail_of (th ne : option (list tk)) (en : ending) : tail :=
  mkTail th (match th with Some _ => None | None => ne end)
         (match en with EndBody _ => true | _ => false end) (match en with EndDelete => true | _ => false end).

(* what may follow a function declaration that has neither body nor `= delete` *)
Definition decl_follow (rest : list tk) : bool :=
  match rest with
  | t :: _ => negb (is T_ARROW t || is LBRACE t || is EQ t || is LP t || is T_throw t || is T_noexcept t || is T_requires t)
  | [] => true
  end.

Lemma decl_follow_inv t r : decl_follow (t :: r) = true ->
  is T_ARROW t = false /\ is LBRACE t = false /\ is EQ t = false /\ is LP t = false /\
  is T_throw t = false /\ is T_noexcept t = false /\ is T_requires t = false.
Proof.
  cbn [decl_follow]. intros H. apply negb_true_iff in H.
  destruct (is T_ARROW t), (is LBRACE t), (is EQ t), (is LP t), (is T_throw t), (is T_noexcept t), (is T_requires t);
    try discriminate H. repeat split.
Qed.

Definition tail_ok (th ne : option (list tk)) (ne_paren : bool) (en : ending) (rest : list tk) : Prop :=
  (match th with Some e => SNk e | None => True end) /\
  (match ne with Some e => SNk e /\ (ne_paren = false -> e = []) | None => True end) /\
  (match en with
   | EndBody soup => bal tk kty LBRACE RBRACE soup
   | EndDecl => decl_follow rest = true
   | EndDelete => True
   end).

Lemma tail_end_rt th ne en rest :
  (match en with EndBody soup => bal tk kty LBRACE RBRACE soup | EndDecl => decl_follow rest = true | EndDelete => True end) ->
  tail_end th ne (ending_toks en ++ rest) =
    DOk (mkTail th ne (match en with EndBody _ => true | _ => false end) (match en with EndDelete => true | _ => false end), rest).
Proof.
  destruct en as [|soup|]; cbn [ending_toks app]; intros H.
  - destruct rest as [|t r]; [reflexivity|].
    destruct (decl_follow_inv t r H) as (H1 & H2 & H3 & _ & _ & _ & H7).
    cbn [tail_end]. now rewrite H1, H7, H2, H3.
  - cbn [tail_end]. change (is T_ARROW (ktok LBRACE)) with false. change (is T_requires (ktok LBRACE)) with false.
    change (is LBRACE (ktok LBRACE)) with true. cbn iota.
    rewrite <- app_assoc. cbn [app].
    rewrite (discard_exact tk kty LBRACE RBRACE soup (ktok RBRACE) rest ltac:(discriminate) H eq_refl). reflexivity.
  - reflexivity.
Qed.

Theorem fn_tail_roundtrip th ne ne_paren en rest :
  tail_ok th ne ne_paren en rest ->
  fn_tail (spec_toks th ne ne_paren ++ ending_toks en ++ rest) = DOk (tail_of th ne en, rest).
Proof.
  intros (Hth & Hne & Hen). unfold tail_of.
  destruct th as [e|].
  - cbn [spec_toks app fn_tail].
    change (is T_throw (ktok T_throw)) with true. cbn iota. change (is LP (ktok LP)) with true. cbn iota.
    rewrite <- app_assoc. cbn [app].
    rewrite (consume_paren (ktok LP) e _ eq_refl Hth). cbn [lift]. rewrite middle_group.
    now apply tail_end_rt.
  - destruct ne as [e|].
    + destruct Hne as [Hsn Hnp]. cbn [spec_toks app fn_tail].
      change (is T_throw (ktok T_noexcept)) with false. change (is T_noexcept (ktok T_noexcept)) with true. cbn iota.
      destruct ne_paren.
      * cbn [app]. change (is LP (ktok LP)) with true. cbn iota.
        rewrite <- app_assoc. cbn [app].
        rewrite (consume_paren (ktok LP) e _ eq_refl Hsn). cbn [lift]. rewrite middle_group.
        now apply tail_end_rt.
      * rewrite (Hnp eq_refl). cbn [app].
        destruct (ending_toks en ++ rest) as [|t r] eqn:E.
        -- rewrite <- E. now apply tail_end_rt.
        -- assert (Hlp : is LP t = false).
           { destruct en as [|soup|]; cbn [ending_toks app] in E.
             - subst rest. destruct (decl_follow_inv t r Hen) as (_ & _ & _ & H & _). exact H.
             - inversion E; subst. reflexivity.
             - inversion E; subst. reflexivity. }
           rewrite Hlp. rewrite <- E. now apply tail_end_rt.
    + cbn [spec_toks app].
      destruct (ending_toks en ++ rest) as [|t r] eqn:E.
      * cbn [fn_tail]. rewrite <- E. now apply tail_end_rt.
      * cbn [fn_tail].
        assert (Hk : is T_throw t = false /\ is T_noexcept t = false /\ is T_requires t = false).
        { destruct en as [|soup|]; cbn [ending_toks app] in E.
          - subst rest. destruct (decl_follow_inv t r Hen) as (_ & _ & _ & _ & K1 & K2 & K3). now repeat split.
          - inversion E; subst. repeat split; reflexivity.
          - inversion E; subst. repeat split; reflexivity. }
        destruct Hk as (K1 & K2 & K3). rewrite K1, K2, K3. rewrite <- E. now apply tail_end_rt.
Qed.

(* ------------------------------------------------------------------ *)
(* whole function statements *)

Definition after_tail (en : ending) (rest : list tk) : list tk :=
  match en with EndBody _ => rest | _ => ktok SEMI :: rest end.

Lemma tail_head_nolb th ne nep en rest :
  nolb (spec_toks th ne nep ++ ending_toks en ++ after_tail en rest) = true.
Proof.
  destruct th as [e|]; [reflexivity|]. destruct ne as [e|]; [reflexivity|].
  destruct en; reflexivity.
Qed.

Theorem fn_stmt_roundtrip rt ps va n th ne nep en rest :
  wf (TFn rt ps va) -> tail_ok th ne nep en (after_tail en rest) ->
  ev (fun f => fn_stmt f (decl_toks (TFn rt ps va) (Some n) ++ spec_toks th ne nep ++ ending_toks en ++ after_tail en rest))
     (DOk (n, rt, ps, va, tail_of th ne en, rest)).
Proof.
  intros Hwf Hok.
  destruct (fn_roundtrip rt ps va n _ Hwf (tail_head_nolb th ne nep en rest)) as [f1 H1].
  exists f1. intros f Hge. unfold fn_stmt. rewrite H1 by exact Hge.
  rewrite (fn_tail_roundtrip th ne nep en (after_tail en rest) Hok).
  destruct en as [|soup|]; reflexivity.
Qed.

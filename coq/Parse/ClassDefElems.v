(* Instances of the abstract one-step elements of Parse/ClassDefThms.v: using
   directives / declarations / aliases and enum definitions, as written by the
   printed forms of Parse/Using.v and Parse/EnumDecl.v, are statements the loop
   of Parse/ClassDef.v reads in one step -- in a class body (under the access in
   force) and at namespace scope. *)
From Coq Require Import NArith List Bool Lia.
Import ListNotations.
From CXV Require Import Gen.TokTy Gen.ParserTables Gen.TopLoop Parse.Balanced Parse.BalancedThms Parse.Declarator Parse.DeclSpec Parse.DeclThms
  Parse.EnumList Parse.Specs Parse.VarStmt Parse.FnTail Parse.Init Parse.Members Parse.MethodTail Parse.DeclStmt Parse.MemberStmt
  Parse.ConvOp Parse.OperatorMember Parse.OperatorFn Parse.MethodImpl Parse.FriendStmt Parse.BaseClause Parse.ClassEnum Parse.FinishClass
  Parse.Bodies Parse.ClassDef Parse.ClassDefThms Parse.PQName Parse.Using Parse.EnumDecl.
Open Scope N_scope.

(* ------------------------------------------------------------------ *)
(* using *)

Lemma body_using_step_c k' n f dt cls dcls acc aid r :
  body (S k') n f dt (Some (cls, dcls)) acc aid (ktok T_using :: r)
  = match using_stmt true false f r with
    | DErr e => DErr e
    | DOk (u, r') =>
        match body k' n f dt (Some (cls, dcls)) acc aid r' with
        | DOk (l, a, rr) => DOk (IUsing acc u :: l, a, rr)
        | DErr e => DErr e
        end
    end.
Proof. reflexivity. Qed.

Lemma body_using_step_n k' n f dt aid r :
  body (S k') n f dt None 0 aid (ktok T_using :: r)
  = match using_stmt false false f r with
    | DErr e => DErr e
    | DOk (u, r') =>
        match body k' n f dt None 0 aid r' with
        | DOk (l, a, rr) => DOk (IUsing 0 u :: l, a, rr)
        | DErr e => DErr e
        end
    end.
Proof. reflexivity. Qed.

(* `using [typename] [::] a::b::c;` as a class member *)
Theorem using_declaration_is_member n dt cls dcls (tn root : bool) nm q :
  (q = [] -> root = true \/ tn = true) ->
  one_step n dt cls dcls (ktok T_using :: pn2_toks (PNames tn [] root nm q) ++ [ktok SEMI])
           (fun acc => IUsing acc (UDecl (pn2_out (PNames false [] root nm q)))).
Proof.
  intros Hq rest. exists 0%nat. intros f _ k' acc aid.
  cbn [app]. rewrite <- app_assoc. cbn [app]. rewrite body_using_step_c.
  now rewrite (using_declaration_roundtrip tn root nm q true f rest Hq).
Qed.

Theorem using_declaration_is_statement n dt (tn root : bool) nm q :
  (q = [] -> root = true \/ tn = true) ->
  one_step_ns n dt (ktok T_using :: pn2_toks (PNames tn [] root nm q) ++ [ktok SEMI])
              (IUsing 0 (UDecl (pn2_out (PNames false [] root nm q)))).
Proof.
  intros Hq rest. exists 0%nat. intros f _ k' aid.
  cbn [app]. rewrite <- app_assoc. cbn [app]. rewrite body_using_step_n.
  now rewrite (using_declaration_roundtrip tn root nm q false f rest Hq).
Qed.

(* `using namespace [::] a::b;` *)
Theorem using_directive_is_statement n dt root nm q :
  one_step_ns n dt (ktok T_using :: udir_toks root nm q ++ [ktok SEMI]) (IUsing 0 (UDir root (nm :: q))).
Proof.
  intros rest. exists 0%nat. intros f _ k' aid.
  cbn [app]. rewrite <- app_assoc. cbn [app]. rewrite body_using_step_n.
  now rewrite (using_directive_roundtrip root nm q f rest).
Qed.

(* `using A = type-id;` *)
Theorem using_alias_is_member n dt cls dcls a t :
  DeclSpec.wf t -> kind_of t <> KFn ->
  one_step n dt cls dcls (ktok T_using :: mkTk T_NAME a :: ktok EQ :: decl_toks t None ++ [ktok SEMI]) (fun acc => IUsing acc (UAlias a t)).
Proof.
  intros Hwf Hk rest.
  destruct (using_alias_roundtrip a t true false rest Hwf Hk) as [f1 H1].
  exists f1. intros f Hf k' acc aid.
  cbn [app]. rewrite <- app_assoc. cbn [app]. rewrite body_using_step_c. now rewrite (H1 f Hf).
Qed.

Theorem using_alias_is_statement n dt a t :
  DeclSpec.wf t -> kind_of t <> KFn ->
  one_step_ns n dt (ktok T_using :: mkTk T_NAME a :: ktok EQ :: decl_toks t None ++ [ktok SEMI]) (IUsing 0 (UAlias a t)).
Proof.
  intros Hwf Hk rest.
  destruct (using_alias_roundtrip a t false false rest Hwf Hk) as [f1 H1].
  exists f1. intros f Hf k' aid.
  cbn [app]. rewrite <- app_assoc. cbn [app]. rewrite body_using_step_n. now rewrite (H1 f Hf).
Qed.

(* ------------------------------------------------------------------ *)
(* enum definitions: enum | enum class | enum struct  Name [: base] { enumerators } ; *)

Definition enum_key (key : list N) : Prop := key = [T_enum] \/ key = [T_enum; T_class] \/ key = [T_enum; T_struct].

Definition enum_toks (key : list N) (name : N) (p : option pname2) (items : list wenum) (tc : bool) : list tk :=
  map ktok key ++ mkTk T_NAME name :: base_toks p ++ ktok LBRACE :: enum_body_toks items tc.

Lemma enum_body_len : forall (its : list wenum) tc, (length its < length (enum_body_toks its tc))%nat.
Proof.
  induction its as [|w q IH]; intros tc; [cbn; lia|]. destruct q as [|w2 q'].
  - cbn [enum_body_toks]. rewrite wenum_toks_cons. cbn [app length]. rewrite !app_length. cbn [length]. lia.
  - change (enum_body_toks (w :: w2 :: q') tc) with (wenum_toks w ++ ktok COMMA :: enum_body_toks (w2 :: q') tc).
    rewrite wenum_toks_cons. cbn [app length]. rewrite app_length. specialize (IH tc). cbn [length] in *. lia.
Qed.

Lemma enum_head_written key name p items tc X :
  enum_key key ->
  (match p with Some p => base_ok p (ktok LBRACE :: enum_body_toks items tc ++ X) | None => True end) ->
  Forall wenum_ok items -> (items = [] -> tc = false) ->
  class_stmt_head false false (enum_toks key name p items tc ++ X)
  = CHEnum mods0 key (Some name) (option_map pn2_out p) (map strip_e items) X.
Proof.
  intros Hk Hb H1 H2. unfold enum_toks. rewrite <- app_assoc. cbn [app]. rewrite <- app_assoc. cbn [app]. try rewrite <- app_assoc.
  set (B := ktok LBRACE :: enum_body_toks items tc ++ X).
  set (Y := base_toks p ++ B).
  assert (Hy : exists s r, Y = s :: r /\ (is T_DBL_COLON s || is T_LIT_60 s) = false /\ is_name_start s = false /\
                           is_ptr_ref_paren s = false /\ set_mod (kty s) mods0 = None /\ is SEMI s = false /\
                           memN (kty s) class_enum_stage2 = true /\ memN (kty s) attribute_start_tokens = false).
  { unfold Y, B. destruct p as [p|]; cbn [base_toks app]; eexists; eexists; (split; [reflexivity|]); repeat split; reflexivity. }
  destruct Hy as (s & r & EY & A1 & A2 & A3 & A4 & A5 & A6 & HAT).
  unfold class_stmt_head.
  assert (Hck : ckey_loop mods0 (map ktok key ++ mkTk T_NAME name :: Y) = Some (DOk (mods0, key, Some name, Y))).
  { rewrite EY. destruct Hk as [E|[E|E]]; rewrite E; cbn [map app ckey_loop]; unfold key_name, name_part; cbv beta; change (memN (kty (mkTk T_NAME name)) attribute_start_tokens) with false; cbv iota; change (is T_DBL_COLON (mkTk T_NAME name)) with false; change (is T_NAME (mkTk T_NAME name)) with true; cbv iota; rewrite A1; reflexivity. }
  rewrite Hck.
  assert (Hsl : spec_loop mods0 (Some 0) Y = DOk (mods0, 0, Y)).
  { rewrite EY. cbn [spec_loop]. rewrite A2, A3, A4, HAT. reflexivity. }
  rewrite Hsl.
  assert (Hce : class_enum key mods0 false false false Y = DOk (CEEnum s, r)).
  { rewrite EY. unfold class_enum. rewrite A5, A6. destruct Hk as [E|[E|E]]; rewrite E; reflexivity. }
  rewrite Hce.
  assert (Hel : enum_list (S (length (enum_body_toks items tc ++ X))) [] (enum_body_toks items tc ++ X) = DOk (map strip_e items, X)).
  { rewrite (enum_list_rt items [] X tc _ H1 H2); [reflexivity|]. rewrite app_length. pose proof (enum_body_len items tc). lia. }
  assert (Hh : enum_head false s r = DOk (option_map pn2_out p, Some (map strip_e items), X)).
  { destruct p as [p|]; cbn [base_toks app option_map] in *.
    - unfold Y in EY. cbn [base_toks app] in EY. injection EY as <- <-.
      pose proof (first_not_compound p _ Hb) as Hc. destruct Hb as [Hok _].
      unfold enum_head. change (is T_LIT_58 (ktok COLON)) with true. cbn iota. fold B. fold B in Hc.
      destruct (pn2_toks p ++ B) as [|b0 r0] eqn:E; [contradiction|].
      rewrite Hc. rewrite <- E. fold B in Hok. rewrite (pqname_roundtrip p B Hok). unfold B.
      change (is SEMI (ktok LBRACE)) with false. change (is LBRACE (ktok LBRACE)) with true. cbn iota.
      now rewrite Hel.
    - unfold Y, B in EY. cbn [base_toks app] in EY. injection EY as <- <-.
      unfold enum_head. change (is T_LIT_58 (ktok LBRACE)) with false. change (is LBRACE (ktok LBRACE)) with true. cbn iota.
      now rewrite Hel. }
  rewrite Hh. destruct (option_map pn2_out p); reflexivity.
Qed.

Lemma enum_key_decl_head key name Z : enum_key key -> exists t r, map ktok key ++ mkTk T_NAME name :: Z = t :: r /\ is_decl_head t.
Proof. intros [E|[E|E]]; subst key; cbn [map app]; eexists; eexists; (split; [reflexivity|reflexivity]). Qed.

(* one step at an enum definition, in either scope *)
Lemma body_step_enum_c k' n f dt cls dcls acc aid t r m key name b items r1 :
  is_decl_head t -> class_stmt_head false false (t :: r) = CHEnum m key (Some name) b items r1 ->
  body (S k') n f dt (Some (cls, dcls)) acc aid (t :: r)
  = match finish_class n f true false false false m cls dcls name (m_const m) (m_volatile m) r1 with
    | DErr e => DErr e
    | DOk (fin, r3) =>
        match body k' n f dt (Some (cls, dcls)) acc aid r3 with
        | DOk (l, a, rr) => DOk (IEnum acc m key name false false b items fin :: l, a, rr)
        | DErr e => DErr e
        end
    end.
Proof. intros Hh Hc. unfold is_decl_head in Hh. cbn [body]. rewrite Hh, Hc. reflexivity. Qed.

Lemma body_step_enum_n k' n f dt aid t r m key name b items r1 :
  is_decl_head t -> class_stmt_head false false (t :: r) = CHEnum m key (Some name) b items r1 ->
  body (S k') n f dt None 0 aid (t :: r)
  = match finish_class n f false false false false m anon_base anon_base name (m_const m) (m_volatile m) r1 with
    | DErr e => DErr e
    | DOk (fin, r3) =>
        match body k' n f dt None 0 aid r3 with
        | DOk (l, a, rr) => DOk (IEnum 0 m key name false false b items fin :: l, a, rr)
        | DErr e => DErr e
        end
    end.
Proof. intros Hh Hc. unfold is_decl_head in Hh. cbn [body]. rewrite Hh, Hc. reflexivity. Qed.

(* `enum [class] E [: base] { A, B = e, } ;` as a class member: the base written (or none) and every enumerator once, in order,
   with its own value, under the access in force *)
Theorem enum_definition_is_member n dt cls dcls key name p items tc :
  enum_key key ->
  (forall X, match p with Some p => base_ok p (ktok LBRACE :: enum_body_toks items tc ++ X) | None => True end) ->
  Forall wenum_ok items -> (items = [] -> tc = false) ->
  one_step n dt cls dcls (enum_toks key name p items tc ++ [ktok SEMI])
           (fun acc => IEnum acc mods0 key name false false (option_map pn2_out p) (map strip_e items) FinNone).
Proof.
  intros Hk Hb H1 H2 rest. exists 0%nat. intros f _ k' acc aid.
  rewrite <- app_assoc. cbn [app].
  pose proof (enum_head_written key name p items tc (ktok SEMI :: rest) Hk (Hb _) H1 H2) as Hh.
  destruct (enum_key_decl_head key name (base_toks p ++ ktok LBRACE :: enum_body_toks items tc) Hk) as (t & r & E & Hd).
  unfold enum_toks in *. rewrite E in *. cbn [app] in *.
  rewrite (body_step_enum_c k' n f dt cls dcls acc aid t _ _ _ _ _ _ _ Hd Hh).
  change (m_const mods0) with false. change (m_volatile mods0) with false.
  rewrite (finish_semicolon n f true false false mods0 cls dcls name false false (ktok SEMI) rest eq_refl). reflexivity.
Qed.

Theorem enum_definition_is_statement n dt key name p items tc :
  enum_key key ->
  (forall X, match p with Some p => base_ok p (ktok LBRACE :: enum_body_toks items tc ++ X) | None => True end) ->
  Forall wenum_ok items -> (items = [] -> tc = false) ->
  one_step_ns n dt (enum_toks key name p items tc ++ [ktok SEMI])
              (IEnum 0 mods0 key name false false (option_map pn2_out p) (map strip_e items) FinNone).
Proof.
  intros Hk Hb H1 H2 rest. exists 0%nat. intros f _ k' aid.
  rewrite <- app_assoc. cbn [app].
  pose proof (enum_head_written key name p items tc (ktok SEMI :: rest) Hk (Hb _) H1 H2) as Hh.
  destruct (enum_key_decl_head key name (base_toks p ++ ktok LBRACE :: enum_body_toks items tc) Hk) as (t & r & E & Hd).
  unfold enum_toks in *. rewrite E in *. cbn [app] in *.
  rewrite (body_step_enum_n k' n f dt aid t _ _ _ _ _ _ _ Hd Hh).
  change (m_const mods0) with false. change (m_volatile mods0) with false.
  rewrite (finish_semicolon n f false false false mods0 anon_base anon_base name false false (ktok SEMI) rest eq_refl). reflexivity.
Qed.

(* ------------------------------------------------------------------ *)
(* class templates: one header in front of a class definition (a tree of Parse/ClassDefThms.v) *)
From CXV Require Import Parse.Template Parse.TemplateStmt.

Lemma skipn_suffix {A} (X : list A) (k : A) (R : list A) :
  skipn (length (X ++ k :: R) - S (length R)) (X ++ k :: R) = k :: R.
Proof.
  rewrite app_length. cbn [length].
  replace (length X + S (length R) - S (length R))%nat with (length X) by lia.
  induction X as [|x q IH]; [reflexivity|exact IH].
Qed.

Lemma class_template_tree_k K n dt h (w : wclass) T :
  (esize (WClass w) < K)%nat ->
  Forall tp_ok h -> welem_ok n dt anon_base anon_base (WClass w) -> tail_ok T ->
  ev (fun f => body (S K) n f dt None 0 0 (ktok T_template :: tlist_toks h ++ welem_toks (WClass w) ++ T))
     (DOk ([ITemplate [h] (wclass_spec 0 w)], 0, T)).
Proof.
  destruct w as [key name vs ws es]. intros HK Hh Hok HT. cbn [welem_ok] in Hok. destruct Hok as (Hkey & Hws & Hvs & Hin).
  assert (Hin' : welems_ok n dt name (dtor_of dt name) es).
  { clear - Hin. induction es as [|x r IHr]; [exact I|]. destruct Hin as [A B]. split; [exact A|now apply IHr]. }
  assert (E : (fix sum (l : list welem) : nat := match l with [] => O | x :: r => (esize x + sum r)%nat end) es = ssize es).
  { clear. induction es as [|x r IHr]; [reflexivity|]. cbn [ssize]. now rewrite <- IHr. }
  assert (Hrb : stop_tok (ktok RBRACE)) by reflexivity.
  set (INNER := flat_map welem_toks es ++ ktok RBRACE :: ktok SEMI :: T).
  set (R := mkTk T_NAME name :: vs_toks vs ++ bases_toks ws ++ ktok LBRACE :: INNER).
  assert (Htoks : welem_toks (WClass (mkWC key name vs ws es)) ++ T = ktok key :: R).
  { unfold R, INNER. cbn [welem_toks app]. rewrite <- !app_assoc. cbn [app]. rewrite <- !app_assoc. reflexivity. }
  rewrite Htoks.
  assert (Hnt : is T_template (ktok key) = false) by (destruct Hkey as [Ek|[Ek|Ek]]; subst key; reflexivity).
  assert (Hkd : kind_of_tok (ktok key) = K_DECL) by (destruct Hkey as [Ek|[Ek|Ek]]; subst key; reflexivity).
  destruct (template_stmt_one h (ktok key) R n Hh Hnt) as [f0 H0].
  cbn [esize] in HK. rewrite E in HK.
  destruct K as [|k']; [lia|].
  destruct (body_elems (S k') n dt es name (dtor_of dt name) (default_access [key]) 0 (ktok RBRACE) (ktok SEMI :: T)
              ltac:(lia) Hin' Hrb) as [f1 H1].
  exists (Nat.max f0 f1). intros f Hge.
  remember (S k') as K eqn:EK.
  cbn [body]. change (assocN (kty (ktok T_template)) tu_table) with (Some H_parse_template). cbn iota.
  change (H_parse_template =? H_on_block_end) with false. change (H_parse_template =? 0) with false.
  change (H_parse_template =? H_parse_namespace) with false. rewrite N.eqb_refl. cbn iota.
  unfold tlist_toks at 1. cbn [app]. change (is LT (ktok LT)) with true. cbn iota.
  change (ktok LT :: (join_comma (map tp_toks h) ++ [ktok GTk]) ++ ktok key :: R) with (tlist_toks h ++ ktok key :: R).
  rewrite H0 by lia. rewrite Hkd. rewrite N.eqb_refl. cbn iota.
  rewrite skipn_suffix.
  unfold R at 1. rewrite (class_head_written_g true key name vs ws INNER Hkey Hws Hvs).
  cbv zeta. cbn iota. fold INNER in H1. rewrite H1 by lia.
  change (is RBRACE (ktok RBRACE)) with true. cbn iota.
  cbn [fst snd]. change (m_const mods0) with false. change (m_volatile mods0) with false.
  rewrite (finish_semicolon n f false false (negb (key_is T_class [key])) mods0 anon_base anon_base name false false (ktok SEMI) T eq_refl).
  cbn [andb]. subst K. rewrite (body_tail _ n f dt None 0 0 T HT). rewrite wclass_spec_eq. reflexivity.
Qed.

Theorem class_template_tree n dt h (w : wclass) T :
  Forall tp_ok h -> welem_ok n dt anon_base anon_base (WClass w) -> tail_ok T ->
  ev (fun f => body (S (S (esize (WClass w)))) n f dt None 0 0 (ktok T_template :: tlist_toks h ++ welem_toks (WClass w) ++ T))
     (DOk ([ITemplate [h] (wclass_spec 0 w)], 0, T)).
Proof. intros. apply class_template_tree_k; [lia|assumption|assumption|assumption]. Qed.

(* ------------------------------------------------------------------ *)
(* opaque enum declarations: enum [class|struct] E : base ; *)

Lemma enum_fwd_written key name p X :
  enum_key key -> base_ok p (ktok SEMI :: X) ->
  class_stmt_head false false (map ktok key ++ mkTk T_NAME name :: ktok COLON :: pn2_toks p ++ ktok SEMI :: X)
  = CHEnumFwd mods0 key (Some name) (pn2_out p) X.
Proof.
  intros Hk Hb.
  set (B := ktok SEMI :: X).
  set (Y := ktok COLON :: pn2_toks p ++ B).
  unfold class_stmt_head.
  assert (Hck : ckey_loop mods0 (map ktok key ++ mkTk T_NAME name :: Y) = Some (DOk (mods0, key, Some name, Y))).
  { destruct Hk as [E|[E|E]]; rewrite E; reflexivity. }
  rewrite Hck.
  assert (Hsl : spec_loop mods0 (Some 0) Y = DOk (mods0, 0, Y)) by reflexivity.
  rewrite Hsl.
  assert (Hce : class_enum key mods0 false false false Y = DOk (CEEnum (ktok COLON), pn2_toks p ++ B)).
  { destruct Hk as [E|[E|E]]; rewrite E; reflexivity. }
  rewrite Hce.
  pose proof (first_not_compound p _ Hb) as Hc. destruct Hb as [Hok _]. fold B in Hc, Hok.
  unfold enum_head. change (is T_LIT_58 (ktok COLON)) with true. cbn iota.
  destruct (pn2_toks p ++ B) as [|b0 r0] eqn:E; [contradiction|].
  rewrite Hc. rewrite <- E. rewrite (pqname_roundtrip p B Hok). unfold B.
  change (is SEMI (ktok SEMI)) with true. cbn iota. reflexivity.
Qed.

Lemma body_step_enumfwd_c k' n f dt cls dcls acc aid t r m key name q r1 :
  is_decl_head t -> class_stmt_head false false (t :: r) = CHEnumFwd m key (Some name) q r1 ->
  body (S k') n f dt (Some (cls, dcls)) acc aid (t :: r)
  = match body k' n f dt (Some (cls, dcls)) acc aid r1 with
    | DOk (l, a, rr) => DOk (IEnumFwd acc key name q :: l, a, rr)
    | DErr e => DErr e
    end.
Proof. intros Hh Hc. unfold is_decl_head in Hh. cbn [body]. rewrite Hh, Hc. reflexivity. Qed.

Lemma body_step_enumfwd_n k' n f dt aid t r m key name q r1 :
  is_decl_head t -> class_stmt_head false false (t :: r) = CHEnumFwd m key (Some name) q r1 ->
  body (S k') n f dt None 0 aid (t :: r)
  = match body k' n f dt None 0 aid r1 with
    | DOk (l, a, rr) => DOk (IEnumFwd 0 key name q :: l, a, rr)
    | DErr e => DErr e
    end.
Proof. intros Hh Hc. unfold is_decl_head in Hh. cbn [body]. rewrite Hh, Hc. reflexivity. Qed.

Theorem opaque_enum_is_member n dt cls dcls key name p :
  enum_key key -> (forall X, base_ok p (ktok SEMI :: X)) ->
  one_step n dt cls dcls (map ktok key ++ mkTk T_NAME name :: ktok COLON :: pn2_toks p ++ [ktok SEMI])
           (fun acc => IEnumFwd acc key name (pn2_out p)).
Proof.
  intros Hk Hb rest. exists 0%nat. intros f _ k' acc aid.
  pose proof (enum_fwd_written key name p rest Hk (Hb rest)) as Hh.
  destruct (enum_key_decl_head key name (ktok COLON :: pn2_toks p ++ ktok SEMI :: rest) Hk) as (t & r & E & Hd).
  replace ((map ktok key ++ mkTk T_NAME name :: ktok COLON :: pn2_toks p ++ [ktok SEMI]) ++ rest)
    with (map ktok key ++ mkTk T_NAME name :: ktok COLON :: pn2_toks p ++ ktok SEMI :: rest)
    by (rewrite <- app_assoc; cbn [app]; rewrite <- app_assoc; reflexivity).
  rewrite E in *.
  now rewrite (body_step_enumfwd_c k' n f dt cls dcls acc aid t _ _ _ _ _ _ Hd Hh).
Qed.

Theorem opaque_enum_is_statement n dt key name p :
  enum_key key -> (forall X, base_ok p (ktok SEMI :: X)) ->
  one_step_ns n dt (map ktok key ++ mkTk T_NAME name :: ktok COLON :: pn2_toks p ++ [ktok SEMI]) (IEnumFwd 0 key name (pn2_out p)).
Proof.
  intros Hk Hb rest. exists 0%nat. intros f _ k' aid.
  pose proof (enum_fwd_written key name p rest Hk (Hb rest)) as Hh.
  destruct (enum_key_decl_head key name (ktok COLON :: pn2_toks p ++ ktok SEMI :: rest) Hk) as (t & r & E & Hd).
  replace ((map ktok key ++ mkTk T_NAME name :: ktok COLON :: pn2_toks p ++ [ktok SEMI]) ++ rest)
    with (map ktok key ++ mkTk T_NAME name :: ktok COLON :: pn2_toks p ++ ktok SEMI :: rest)
    by (rewrite <- app_assoc; cbn [app]; rewrite <- app_assoc; reflexivity).
  rewrite E in *.
  now rewrite (body_step_enumfwd_n k' n f dt aid t _ _ _ _ _ _ Hd Hh).
Qed.

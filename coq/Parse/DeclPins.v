(* The hand-written declarator model (Parse/Declarator.v) against the
   regenerated pin of the code it mirrors (Gen/DeclPin.v): the functions are
   the pinned ones (ast digest, checked by the translator, which fails closed)
   and the token sets they test the stream for are the ones the model
   hard-codes. *)
From Coq Require Import NArith List Bool.
Import ListNotations.
From CXV Require Import Gen.TokTy Gen.DeclPin Parse.Declarator.
Open Scope N_scope.

Fixpoint eqlN (a b : list N) : bool :=
  match a, b with
  | [], [] => true
  | x :: a', y :: b' => (x =? y) && eqlN a' b'
  | _, _ => false
  end.

Definition decl_sets_ok : bool :=
  decl_pinned
  && eqlN cvloop_tokens [STAR; T_const; T_volatile; LP]        (* the four branches of the pointer loop *)
  && eqlN behind_tokens [LB; LP]                               (* array or parameter list behind a group *)
  && eqlN ref_tokens [AMP; T_DBL_AMP]                          (* the reference suffix *)
  && forallb (fun s => eqlN s [STAR; AMP; T_DBL_AMP]) group_peek_tokens   (* is_pfx_tok *)
  && negb (match group_peek_tokens with [] => true | _ => false end)
  && forallb (fun s => eqlN s [RP] || eqlN s [COMMA; RP]) params_must_be
  && forallb (fun s => eqlN s [RP] || eqlN s [T_ELLIPSIS]) params_token_ifs
  && forallb (fun s => eqlN s [LB]) array_token_ifs.

Lemma decl_sets_ok_true : decl_sets_ok = true.
Proof. vm_compute. reflexivity. Qed.

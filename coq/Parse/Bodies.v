(* Whole bodies: the statement loop of CxxParser.parse composed with the statement
   models.  The loop dispatches on the type of the first token of a statement
   through the REGENERATED table of Gen/TopLoop.v (tu_table; a type that is not in
   it goes to _parse_declarations); this file puts the handlers' models behind it:

   class body:     access specifiers (_process_access_specifier: keyword ':'), the empty
                   statement, friend declarations (Parse/FriendStmt.v), static_assert (the
                   translated _consume_static_assert of Gen/Dispatch.v) and, for everything
                   that goes to _parse_declarations, the member-statement models
                   (MemberStmt, ConvOp, OperatorMember), up to the closing brace;
   namespace body: the empty statement, typedef (the translated _parse_typedef handing on
                   to the typedef statement model), static_assert, and the declaration
                   models (DeclStmt, OperatorFn, MethodImpl), up to a closing brace or the
                   end of input.
   Statement kinds without a model here (template, using, enum / class definitions,
   namespaces, extern, directives, attributes) are outside the model (code 4).

   The declaration models are partial views of ONE function (_parse_declarations):
   each answers code 4 outside its own vocabulary and the composition takes the
   first that does not.  Tied to the code by the differential runs of
   harness/props/c03.py / c12.py (whole bodies through parse_string with a recording
   visitor). *)
From Coq Require Import NArith List Bool Lia.
Import ListNotations.
From CXV Require Import Gen.TokTy Gen.ParserTables Gen.TopLoop Parse.Balanced Parse.BalancedThms Parse.Declarator Parse.DeclSpec Parse.DeclThms
  Parse.EnumList Parse.Specs Parse.VarStmt Parse.FnTail Parse.Init Parse.Members Parse.MethodTail Parse.DeclStmt Parse.MemberStmt
  Parse.ConvOp Parse.OperatorMember Parse.OperatorFn Parse.MethodImpl Parse.FriendStmt.
From CXV Require Parse.DispatchLang Gen.Dispatch.
Open Scope N_scope.

(* the first model that does not answer "outside my vocabulary" *)
Definition orelse {A} (a b : dres A) : dres A := match a with DErr 4 => b | _ => a end.

(* ------------------------------------------------------------------ *)
(* class bodies *)

Inductive citem :=
| CMembers (m : mods) (l : list mentry)
| CConv (c : convop)
| COp (o : opmember)
| CFriend (f : friend_entry).

(* (a statement of specifiers followed by `operator` is a conversion operator: _parse_type is called with operator_ok and
   stops there without a type name; the specifier model of the other two views rejects that shape) *)
Definition member_decl (n fuel : nat) (cls dcls : N) (toks : list tk) : dres (citem * list tk) :=
  orelse (match conv_stmt fuel toks with DOk (c, r) => DOk (CConv c, r) | DErr e => DErr e end)
 (orelse (match member_stmt n fuel cls dcls toks with DOk (m, l, r) => DOk (CMembers m l, r) | DErr e => DErr e end)
         (match op_member_stmt fuel toks with DOk (o, r) => DOk (COp o, r) | DErr e => DErr e end)).

Definition COLONb := T_LIT_58.

(* [acc]: the access in force (the token type of the last access specifier, or of the class-key default) *)
Fixpoint class_body (k n fuel : nat) (cls dcls : N) (acc : N) (toks : list tk) {struct k} : dres (list (N * citem) * list tk) :=
  match k with
  | O => DErr 9
  | S k' =>
      match toks with
      | [] => DOk ([], [])                                  (* end of input: parse() returns, the block stays open *)
      | t :: r =>
          match assocN (kty t) tu_table with
          | Some h =>
              if h =? H_on_block_end then DOk ([], toks)
              else if h =? H_process_access_specifier then
                match r with
                | c :: r' => if is COLONb c then class_body k' n fuel cls dcls (kty t) r' else DErr 1
                | [] => DErr 2
                end
              else if h =? 0 then class_body k' n fuel cls dcls acc r
              else if h =? H_parse_friend_decl then
                match friend_stmt fuel r with
                | DErr e => DErr e
                | DOk (f, r') =>
                    match class_body k' n fuel cls dcls acc r' with
                    | DOk (l, rr) => DOk ((acc, CFriend f) :: l, rr)
                    | DErr e => DErr e
                    end
                end
              else if h =? H_consume_static_assert then
                match DispatchLang.run Dispatch.prog_consume_static_assert true t r with
                | DispatchLang.ODone r' => class_body k' n fuel cls dcls acc r'
                | DispatchLang.OErr e => DErr e
                | _ => DErr 3
                end
              else DErr 4
          | None =>
              match member_decl n fuel cls dcls toks with
              | DErr e => DErr e
              | DOk (it, r') =>
                  match class_body k' n fuel cls dcls acc r' with
                  | DOk (l, rr) => DOk ((acc, it) :: l, rr)
                  | DErr e => DErr e
                  end
              end
          end
      end
  end.

(* ------------------------------------------------------------------ *)
(* namespace bodies *)

Inductive nitem :=
| NDecls (m : mods) (l : list entry)
| NOpFn (o : opfn)
| NMethodImpl (mi : mimpl)
| NTypedefs (l : list entry).

Definition ns_decl (n fuel : nat) (toks : list tk) : dres (nitem * list tk) :=
  orelse (match decl_stmt n fuel toks with DOk (m, l, r) => DOk (NDecls m l, r) | DErr e => DErr e end)
 (orelse (match op_fn_stmt fuel toks with DOk (o, r) => DOk (NOpFn o, r) | DErr e => DErr e end)
         (match method_impl_stmt fuel toks with DOk (mi, r) => DOk (NMethodImpl mi, r) | DErr e => DErr e end)).

Fixpoint ns_body (k n fuel : nat) (toks : list tk) {struct k} : dres (list nitem * list tk) :=
  match k with
  | O => DErr 9
  | S k' =>
      match toks with
      | [] => DOk ([], [])
      | t :: r =>
          match assocN (kty t) tu_table with
          | Some h =>
              if h =? H_on_block_end then DOk ([], toks)
              else if h =? 0 then ns_body k' n fuel r
              else if h =? H_parse_typedef then
                (* the translated handler: the declaration parser starts behind the keyword, flagged is_typedef *)
                match DispatchLang.run Dispatch.prog_parse_typedef false t r with
                | DispatchLang.OCall DispatchLang.F_declarations [DispatchLang.RTok (Some x); DispatchLang.RDox]
                                     [(1, DispatchLang.RBool true)] r1 =>
                    match typedef_decl_stmt n fuel (x :: r1) with
                    | DErr e => DErr e
                    | DOk (l, r') =>
                        match ns_body k' n fuel r' with
                        | DOk (ls, rr) => DOk (NTypedefs l :: ls, rr)
                        | DErr e => DErr e
                        end
                    end
                | DispatchLang.OErr e => DErr e
                | _ => DErr 3
                end
              else if h =? H_consume_static_assert then
                match DispatchLang.run Dispatch.prog_consume_static_assert false t r with
                | DispatchLang.ODone r' => ns_body k' n fuel r'
                | DispatchLang.OErr e => DErr e
                | _ => DErr 3
                end
              else DErr 4
          | None =>
              match ns_decl n fuel toks with
              | DErr e => DErr e
              | DOk (it, r') =>
                  match ns_body k' n fuel r' with
                  | DOk (l, rr) => DOk (it :: l, rr)
                  | DErr e => DErr e
                  end
              end
          end
      end
  end.

(* ------------------------------------------------------------------ *)
(* composition: statements are independent of what follows them *)

Definition is_decl_head (t : tk) : Prop := assocN (kty t) tu_table = None.

(* a written declaration statement (any of the modelled kinds), abstractly: its tokens start with a token that goes to
   _parse_declarations, and for every continuation the statement model decodes it to [it] and leaves the continuation *)
Definition ns_stmt_ok (n : nat) (toks : list tk) (it : nitem) : Prop :=
  (exists t r, toks = t :: r /\ is_decl_head t) /\
  forall rest, ev (fun f => ns_decl n f (toks ++ rest)) (DOk (it, rest)).

Definition stop_tok (t : tk) : Prop := assocN (kty t) tu_table = Some H_on_block_end.

(* a sequence of such statements followed by a closing brace: exactly their items, in order, and the brace is left *)
Lemma ns_body_sequence_k n : forall (stmts : list (list tk * nitem)) stop rest k,
  Forall (fun p => ns_stmt_ok n (fst p) (snd p)) stmts -> stop_tok stop -> (length stmts < k)%nat ->
  ev (fun f => ns_body k n f (concat (map fst stmts) ++ stop :: rest))
     (DOk (map snd stmts, stop :: rest)).
Proof.
  induction stmts as [|[toks it] q IH]; intros stop rest k Hall Hstop Hk.
  - exists 0%nat. intros f _. destruct k as [|k']; [cbn in Hk; lia|].
    cbn [length map concat app ns_body]. unfold stop_tok in Hstop. rewrite Hstop.
    rewrite N.eqb_refl. reflexivity.
  - inversion Hall as [|? ? Hst Hq]; subst. cbn [fst snd] in *. destruct Hst as [(t & r & E & Hh) Hdec]. subst toks.
    destruct k as [|k']; [cbn in Hk; lia|].
    destruct (Hdec (concat (map fst q) ++ stop :: rest)) as [f1 H1].
    destruct (IH stop rest k' Hq Hstop ltac:(cbn [length] in Hk; lia)) as [f2 H2].
    exists (Nat.max f1 f2). intros f Hge.
    cbn [map concat fst snd]. rewrite <- app_assoc.
    remember (concat (map fst q) ++ stop :: rest) as TAIL.
    cbn [app]. cbn [ns_body]. unfold is_decl_head in Hh. rewrite Hh.
    change (t :: r ++ TAIL) with ((t :: r) ++ TAIL). rewrite H1 by lia. rewrite H2 by lia. reflexivity.
Qed.

Theorem ns_body_sequence n (stmts : list (list tk * nitem)) stop rest :
  Forall (fun p => ns_stmt_ok n (fst p) (snd p)) stmts -> stop_tok stop ->
  ev (fun f => ns_body (S (length stmts)) n f (concat (map fst stmts) ++ stop :: rest))
     (DOk (map snd stmts, stop :: rest)).
Proof. intros H1 H2. apply ns_body_sequence_k; [exact H1|exact H2|lia]. Qed.

(* C12 at the level of the model: the body of A followed by B is the body of A followed by the body of B -- nothing of a
   statement reaches the next one *)
Corollary ns_body_concatenation n A B stop rest :
  Forall (fun p => ns_stmt_ok n (fst p) (snd p)) A -> Forall (fun p => ns_stmt_ok n (fst p) (snd p)) B -> stop_tok stop ->
  ev (fun f => ns_body (S (length (A ++ B))) n f (concat (map fst A) ++ concat (map fst B) ++ stop :: rest))
     (DOk (map snd A ++ map snd B, stop :: rest)).
Proof.
  intros HA HB Hs.
  pose proof (ns_body_sequence n (A ++ B) stop rest (proj2 (Forall_app _ _ _) (conj HA HB)) Hs) as H.
  rewrite map_app, concat_app, map_app in H. rewrite <- app_assoc in H. exact H.
Qed.

(* class bodies: written elements *)
Inductive celem :=
| CEAccess (kw : tk)                       (* public: / private: / protected: *)
| CEEmpty
| CEStmt (toks : list tk) (it : citem).

Definition celem_toks (e : celem) : list tk :=
  match e with
  | CEAccess kw => [kw; ktok COLONb]
  | CEEmpty => [ktok SEMI]
  | CEStmt toks _ => toks
  end.

Definition celem_ok (n : nat) (cls dcls : N) (e : celem) : Prop :=
  match e with
  | CEAccess kw => assocN (kty kw) tu_table = Some H_process_access_specifier
  | CEEmpty => True
  | CEStmt toks it =>
      (exists t r, toks = t :: r /\ is_decl_head t) /\
      forall rest, ev (fun f => member_decl n f cls dcls (toks ++ rest)) (DOk (it, rest))
  end.

(* the specification: every statement carries the access in force where it is written *)
Fixpoint with_access (acc : N) (l : list celem) : list (N * citem) :=
  match l with
  | [] => []
  | CEAccess kw :: r => with_access (kty kw) r
  | CEEmpty :: r => with_access acc r
  | CEStmt _ it :: r => (acc, it) :: with_access acc r
  end.

Lemma class_body_sequence_k n cls dcls : forall (elems : list celem) acc stop rest k,
  Forall (celem_ok n cls dcls) elems -> stop_tok stop -> (length elems < k)%nat ->
  ev (fun f => class_body k n f cls dcls acc (concat (map celem_toks elems) ++ stop :: rest))
     (DOk (with_access acc elems, stop :: rest)).
Proof.
  induction elems as [|e q IH]; intros acc stop rest k Hall Hstop Hk.
  - exists 0%nat. intros f _. destruct k as [|k']; [cbn in Hk; lia|].
    cbn [length map concat app class_body with_access]. unfold stop_tok in Hstop. rewrite Hstop.
    rewrite N.eqb_refl. reflexivity.
  - inversion Hall as [|? ? He Hq]; subst.
    destruct k as [|k']; [cbn in Hk; lia|].
    assert (Hk' : (length q < k')%nat) by (cbn [length] in Hk; lia).
    cbn [map concat]. rewrite <- app_assoc.
    remember (concat (map celem_toks q) ++ stop :: rest) as TAIL.
    destruct e as [kw| |toks it]; cbn [celem_toks celem_ok with_access] in *.
    + destruct (IH (kty kw) stop rest k' Hq Hstop Hk') as [f2 H2]. rewrite <- HeqTAIL in H2.
      exists f2. intros f Hge. cbn [app class_body]. rewrite He.
      change (H_process_access_specifier =? H_on_block_end) with false. rewrite N.eqb_refl. cbn iota.
      change (is COLONb (ktok COLONb)) with true. cbn iota. now apply H2.
    + destruct (IH acc stop rest k' Hq Hstop Hk') as [f2 H2]. rewrite <- HeqTAIL in H2.
      exists f2. intros f Hge. cbn [app class_body].
      change (assocN (kty (ktok SEMI)) tu_table) with (Some 0). cbn iota.
      change (0 =? H_on_block_end) with false. change (0 =? H_process_access_specifier) with false. cbn iota. now apply H2.
    + destruct He as [(t & r & E & Hh) Hdec]. subst toks.
      destruct (Hdec TAIL) as [f1 H1].
      destruct (IH acc stop rest k' Hq Hstop Hk') as [f2 H2]. rewrite <- HeqTAIL in H2.
      exists (Nat.max f1 f2). intros f Hge. cbn [app]. cbn [class_body]. unfold is_decl_head in Hh. rewrite Hh.
      change (t :: r ++ TAIL) with ((t :: r) ++ TAIL). rewrite H1 by lia. rewrite H2 by lia. reflexivity.
Qed.

(* every member statement of a class body is reported once, in order, with the access in force where it is written: the
   class-key default until the first access specifier, then the most recent one *)
Theorem class_body_sequence n cls dcls (elems : list celem) acc stop rest :
  Forall (celem_ok n cls dcls) elems -> stop_tok stop ->
  ev (fun f => class_body (S (length elems)) n f cls dcls acc (concat (map celem_toks elems) ++ stop :: rest))
     (DOk (with_access acc elems, stop :: rest)).
Proof. intros H1 H2. apply class_body_sequence_k; [exact H1|exact H2|lia]. Qed.

(* ------------------------------------------------------------------ *)
(* the abstract statements are inhabited by the printed statements of the statement theorems *)

(* specifier keywords (no extern) followed by a type name: the conversion-operator view is not concerned *)
Lemma lead_specs_stops : forall ks m b X,
  forallb spec_kw ks = true -> has T_extern ks = false ->
  lead_specs m (kw_toks ks ++ nm_tok b :: X) = DErr 4.
Proof.
  induction ks as [|k q IH]; intros m b X Hk He.
  - cbn [kw_toks map app lead_specs]. unfold nm_tok. destruct m as [c v ce ex il st xp vi mu]. destruct (b =? 0); reflexivity.
  - cbn [forallb] in Hk. apply andb_prop in Hk as [Hk1 Hk2].
    unfold has in He. cbn [existsb] in He. apply orb_false_elim in He as [He1 He2].
    destruct (set_mod_some k m Hk1) as [m' Em].
    cbn [kw_toks map app lead_specs].
    assert (Hop : is T_operator (ktok k) = false).
    { apply spec_kw_in in Hk1. unfold spec_kws in Hk1. cbn [In] in Hk1.
      repeat (destruct Hk1 as [<-|Hk1]; [reflexivity|]). contradiction. }
    rewrite Hop. cbn [kty ktok]. rewrite Em.
    assert (Hex : is T_extern (ktok k) = false) by (unfold is; cbn [kty ktok]; rewrite N.eqb_sym; exact He1).
    rewrite Hex. apply IH; [exact Hk2|exact He2].
Qed.

Lemma member_stmt_is_elem cls dcls pre post b items last e :
  forallb spec_kw pre = true -> forallb spec_kw post = true -> has T_extern (pre ++ post) = false ->
  Forall mditem_ok items -> mditem_ok last -> mlast_ok last e ->
  is_decl_head (hd (nm_tok b) (kw_toks pre)) ->
  let m := apply_kws (pre ++ post) mods0 in
  let bt := TBase b (m_const m) (m_volatile m) in
  celem_ok (S (length items)) cls dcls
    (CEStmt (kw_toks pre ++ nm_tok b :: kw_toks post ++ mitems_toks items last e)
            (CMembers m (map (mditem_entry bt) items ++ [mlast_entry bt last e]))).
Proof.
  intros Hpre Hpost Hex Hall Hlast Hle Hh m bt. cbn [celem_ok].
  assert (Hnex : has T_extern pre = false).
  { unfold has in *. rewrite existsb_app in Hex. now apply orb_false_elim in Hex as [? _]. }
  split.
  - destruct pre as [|k q]; cbn [kw_toks map app hd] in *; eexists; eexists; (split; [reflexivity|exact Hh]).
  - intros rest.
    destruct (member_stmt_roundtrip cls dcls pre post b items last e rest Hpre Hpost Hex Hall Hlast Hle) as [f1 H1].
    exists f1. intros f Hge. unfold member_decl.
    replace ((kw_toks pre ++ nm_tok b :: kw_toks post ++ mitems_toks items last e) ++ rest)
      with (kw_toks pre ++ nm_tok b :: kw_toks post ++ mitems_toks items last e ++ rest)
      by (rewrite <- !app_assoc; cbn [app]; rewrite <- !app_assoc; reflexivity).
    rewrite H1 by exact Hge.
    (* the statement does not have the shape `spec* operator`: the conversion-operator view answers "outside" *)
    assert (Hc : conv_stmt f (kw_toks pre ++ nm_tok b :: kw_toks post ++ mitems_toks items last e ++ rest) = DErr 4).
    { unfold conv_stmt. now rewrite (lead_specs_stops pre mods0 b _ Hpre Hnex). }
    rewrite Hc. reflexivity.
Qed.

Lemma decl_stmt_is_stmt pre post b items last le :
  forallb spec_kw pre = true -> forallb spec_kw post = true ->
  has T_explicit (pre ++ post) = false -> has T_virtual (pre ++ post) = false -> has T_mutable (pre ++ post) = false ->
  Forall ditem_ok items -> ditem_ok last -> last_ok last le ->
  is_decl_head (hd (nm_tok b) (kw_toks pre)) ->
  let m := apply_kws (pre ++ post) mods0 in
  let bt := TBase b (m_const m) (m_volatile m) in
  ns_stmt_ok (S (length items))
    (kw_toks pre ++ nm_tok b :: kw_toks post ++ items_toks items last le)
    (NDecls m (map (ditem_entry bt) items ++ [last_entry bt last le])).
Proof.
  intros Hpre Hpost Hex Hvi Hmu Hall Hlast Hle Hh m bt. split.
  - destruct pre as [|k q]; cbn [kw_toks map app hd] in *; eexists; eexists; (split; [reflexivity|exact Hh]).
  - intros rest.
    destruct (decl_stmt_roundtrip pre post b items last le rest Hpre Hpost Hex Hvi Hmu Hall Hlast Hle) as [f1 H1].
    exists f1. intros f Hge. unfold ns_decl.
    replace ((kw_toks pre ++ nm_tok b :: kw_toks post ++ items_toks items last le) ++ rest)
      with (kw_toks pre ++ nm_tok b :: kw_toks post ++ items_toks items last le ++ rest)
      by (rewrite <- !app_assoc; cbn [app]; rewrite <- !app_assoc; reflexivity).
    rewrite H1 by exact Hge. reflexivity.
Qed.

(* `int a ; private : static Foo * p = 1 , m ( ) const ; public : ; Bar q ; }` in struct Cls (ids 5 / 6), default access public *)
Example class_body_run :
  class_body 8 3 80 5 6 T_public
    ([mkTk T_NAME 7; mkTk T_NAME 1; ktok SEMI; ktok T_private; ktok COLONb] ++
     kw_toks [T_static] ++ nm_tok 8 :: mitems_toks [MIField [LPtr false false] 2 None (InitEq [mkTk 3 9])] (MIMethod [] [] false 3 [MqConst]) MeDecl ++
     [ktok T_public; ktok COLONb; ktok SEMI; mkTk T_NAME 9; mkTk T_NAME 4; ktok SEMI; ktok T_LIT_125; ktok SEMI])
  = DOk ([(T_public, CMembers mods0 [MField (Some 1) (TBase 7 false false) None None]);
          (T_private, CMembers (mkMods false false false false false true false false false)
                        [MField (Some 2) (TPtr (TBase 8 false false) false false) None (Some [mkTk 3 9]);
                         MMethod 3 (Some (TBase 8 false false)) [] false false false (mkMT true false false false 0 None None false false false false)]);
          (T_public, CMembers mods0 [MField (Some 4) (TBase 9 false false) None None])],
         [ktok T_LIT_125; ktok SEMI]).
Proof. vm_compute. reflexivity. Qed.

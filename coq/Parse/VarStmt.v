(* A whole variable statement: specifiers and base type (Parse/Specs.v), then
   the declarator loop (Parse/Declarator.v decl_list).  Namespace scope:
   validate(var_ok = true, meth_ok = false). *)
From Coq Require Import NArith List Bool Lia.
Import ListNotations.
From CXV Require Import Gen.TokTy Parse.Balanced Parse.BalancedThms Parse.Declarator Parse.DeclSpec Parse.DeclThms Parse.Specs.
Open Scope N_scope.

Definition var_stmt (n fuel : nat) (toks : list tk) : dres (mods * list (N * ty) * list tk) :=
  match parse_specs toks with
  | DErr e => DErr e
  | DOk (m, b, r) =>
      (* a namespace-scope Variable has no `mutable` field: constructing it fails and parse() reports the error *)
      if validate true false m && negb (m_mutable m) then
        match decl_list n fuel (TBase b (m_const m) (m_volatile m)) r with
        | DOk (l, r') => DOk (m, l, r')
        | DErr e => DErr e
        end
      else DErr 3
  end.

Lemma P_head_stop n : forall ls rest, spec_stop (P ls [mkTk T_NAME n] ++ rest) = true.
Proof.
  induction ls as [|l r IH]; intros rest; [reflexivity|].
  destruct l as [c v| | |s|ps va]; try reflexivity; cbn [P].
  - destruct (starts_pfx r); [reflexivity|]. cbn [paren]. rewrite <- app_assoc. apply IH.
  - destruct (starts_pfx r); [reflexivity|]. cbn [paren]. rewrite <- app_assoc. apply IH.
Qed.

Lemma apply_kws_app a b m : apply_kws b (apply_kws a m) = apply_kws (a ++ b) m.
Proof. unfold apply_kws. now rewrite fold_left_app. Qed.

Lemma validate_ns_ok ks :
  forallb spec_kw ks = true -> has T_explicit ks = false -> has T_virtual ks = false -> has T_mutable ks = false ->
  validate true false (apply_kws ks mods0) && negb (m_mutable (apply_kws ks mods0)) = true.
Proof.
  intros Hk He Hv Hm. rewrite validate_spec.
  destruct (apply_kws_fields ks mods0 Hk) as (_ & _ & _ & _ & _ & _ & A7 & A8 & A9).
  rewrite A7, A8, A9, He, Hv, Hm. cbn. rewrite !implb_true_r. reflexivity.
Qed.

(* `spec* T spec* d1, ..., dn;` : the flags are those of the keywords written
   (in any order, before or after the type name), const / volatile go to the
   base type of every declarator, and there is one entry per declarator *)
Theorem var_stmt_roundtrip pre post b items rest :
  forallb spec_kw pre = true -> forallb spec_kw post = true ->
  has T_explicit (pre ++ post) = false -> has T_virtual (pre ++ post) = false -> has T_mutable (pre ++ post) = false ->
  items <> [] ->
  Forall (fun it => legalL KB (fst it) = true /\ Forall layer_ok (fst it) /\ kind_end KB (fst it) <> KFn) items ->
  ev (fun f => var_stmt (length items) f
                 (kw_toks pre ++ nm_tok b :: kw_toks post ++
                  join_comma (map (fun it => P (fst it) [mkTk T_NAME (snd it)]) items) ++ ktok SEMI :: rest))
     (DOk (apply_kws (pre ++ post) mods0,
           map (fun it => (snd it, wrap (TBase b (m_const (apply_kws (pre ++ post) mods0)) (m_volatile (apply_kws (pre ++ post) mods0))) (fst it))) items,
           rest)).
Proof.
  intros Hpre Hpost Hex Hvi Hmu Hne Hall.
  set (m := apply_kws (pre ++ post) mods0).
  destruct (decl_list_layers b (m_const m) (m_volatile m) items rest Hne Hall) as [f1 H1].
  assert (Hk : forallb spec_kw (pre ++ post) = true) by (rewrite forallb_app; now rewrite Hpre, Hpost).
  assert (Hval : validate true false m && negb (m_mutable m) = true) by (apply validate_ns_ok; assumption).
  assert (Hstop : spec_stop (join_comma (map (fun it => P (fst it) [mkTk T_NAME (snd it)]) items) ++ ktok SEMI :: rest) = true).
  { destruct items as [|[ls n] q]; [contradiction|]. cbn [map fst snd].
    destruct (map (fun it => P (fst it) [mkTk T_NAME (snd it)]) q) as [|y l].
    - cbn [join_comma]. apply P_head_stop.
    - change (join_comma (P ls [mkTk T_NAME n] :: y :: l)) with (P ls [mkTk T_NAME n] ++ ktok COMMA :: join_comma (y :: l)).
      rewrite <- app_assoc. apply P_head_stop. }
  exists f1. intros f Hge. unfold var_stmt.
  rewrite (specs_decode_lemma pre post b _ Hpre Hpost Hstop). rewrite apply_kws_app. fold m.
  rewrite Hval. rewrite H1 by lia. reflexivity.
Qed.

(* Hand-written mirror of CxxParser._parse_enum_decl (entered with the token
   behind the enum's name: ':' or '{') together with the ';' path of
   _finish_class_or_enum: an optional enum-base `: type` read by
   _parse_pqname(fund_ok) (Parse/PQName.v; class keys are not allowed there),
   then either ';' -- an opaque declaration with base -- or the enumerator
   list (Parse/EnumList.v) and the closing ';'.  Declarators behind the '}'
   (`enum E { } a, *b;`), a GNU attribute there and typedef'd enums are outside
   this model (code 4).
   Tied to the code by the differential run of harness/props/c01.py (the real
   _parse_enum_decl on the same token lists) and the digest pin of
   Gen/PinsC01.v. *)
From Coq Require Import NArith List Bool Lia.
Import ListNotations.
From CXV Require Import Gen.TokTy Gen.ParserTables Parse.Balanced Parse.BalancedThms Parse.Declarator Parse.DeclSpec Parse.PQName Parse.EnumList.
Open Scope N_scope.

Definition COLON := T_LIT_58.

Inductive eres :=
| EFwd (base : pq)                                      (* enum E : base; *)
| EDef (base : option pq) (items : list enumerator).    (* enum E [: base] { ... }; *)

Definition enum_body (is_typedef : bool) (base : option pq) (r : list tk) : dres (eres * list tk) :=
  match enum_list (S (length r)) [] r with
  | DErr e => DErr e
  | DOk (items, r1) =>
      match r1 with
      | a :: r2 =>
          if is T___attribute__ a then DErr 4
          else if negb is_typedef && is SEMI a then DOk (EDef base items, r2)
          else DErr 4                                   (* declarators of the enum type *)
      | [] => DErr 2
      end
  end.

Definition enum_decl (is_typedef : bool) (toks : list tk) : dres (eres * list tk) :=
  match toks with
  | [] => DErr 2
  | t :: r =>
      if is COLON t then
        match r with
        | [] => DErr 2
        | b :: _ =>
            if memN (kty b) name_compound_start then DErr 1          (* compound_ok is off for an enum-base *)
            else
              match parse_pqname r with
              | DErr e => DErr e
              | DOk (q, r1) =>
                  match r1 with
                  | [] => DErr 2
                  | s :: r2 =>
                      if is SEMI s then (if is_typedef then DErr 1 else DOk (EFwd q, r2))
                      else if is LBRACE s then enum_body is_typedef (Some q) r2
                      else DErr 1
                  end
              end
        end
      else if is LBRACE t then enum_body is_typedef None r
      else DErr 1
  end.

(* ------------------------------------------------------------------ *)

Definition base_toks (p : option pname2) : list tk :=
  match p with Some p => ktok COLON :: pn2_toks p | None => [] end.

(* an enum-base as written: no class key in front *)
Definition base_ok (p : pname2) (rest : list tk) : Prop :=
  pn2_ok p rest /\ match p with PNames _ key _ _ _ => key = [] | PFund _ _ => True end.

Lemma enum_body_rt base items tc rest :
  Forall wenum_ok items -> (items = [] -> tc = false) ->
  enum_body false base (enum_body_toks items tc ++ ktok SEMI :: rest) = DOk (EDef base (map strip_e items), rest).
Proof.
  intros H1 H2. unfold enum_body.
  rewrite (enum_list_rt items [] (ktok SEMI :: rest) tc _ H1 H2).
  - cbn [rev app]. change (is T___attribute__ (ktok SEMI)) with false. change (is SEMI (ktok SEMI)) with true. reflexivity.
  - rewrite app_length.
    assert (Hl : forall its, (length its < length (enum_body_toks its tc))%nat).
    { induction its as [|w q IH]; [cbn; lia|]. destruct q as [|w2 q'].
      - cbn [enum_body_toks]. rewrite wenum_toks_cons. cbn [app length]. rewrite !app_length. cbn [length]. lia.
      - change (enum_body_toks (w :: w2 :: q') tc) with (wenum_toks w ++ ktok COMMA :: enum_body_toks (w2 :: q') tc).
        rewrite wenum_toks_cons. cbn [app length]. rewrite app_length. cbn [length] in *. lia. }
    specialize (Hl items). lia.
Qed.

Lemma first_not_compound p rest : base_ok p rest ->
  match pn2_toks p ++ rest with
  | b :: _ => memN (kty b) name_compound_start = false
  | [] => False
  end.
Proof.
  intros [Hok Hk]. destruct p as [tn key root n q|tn ws]; cbn [pn2_toks].
  - subst key. cbn [map app]. destruct tn; cbn [app]; [reflexivity|]. destruct root; reflexivity.
  - destruct tn; cbn [app]; [reflexivity|].
    cbn [pn2_ok] in Hok. destruct Hok as [Hf _]. destruct ws as [|w r]; [discriminate|].
    cbn [map app kty ktok]. cbn [fund_ok] in Hf. apply andb_prop in Hf as [Hf _].
    (* a fundamental keyword is not a class key *)
    destruct (memN w name_compound_start) eqn:E; [|reflexivity].
    apply memN_In in E. vm_compute in E.
    repeat (destruct E as [E|E]; [subst w; vm_compute in Hf; discriminate|]). contradiction.
Qed.

(* `enum E : base;` -- the opaque declaration reports exactly the base written *)
Theorem enum_forward_roundtrip p rest :
  base_ok p (ktok SEMI :: rest) ->
  enum_decl false (ktok COLON :: pn2_toks p ++ ktok SEMI :: rest) = DOk (EFwd (pn2_out p), rest).
Proof.
  intros Hb. pose proof (first_not_compound p _ Hb) as Hc. destruct Hb as [Hok _].
  unfold enum_decl. change (is COLON (ktok COLON)) with true. cbn iota.
  destruct (pn2_toks p ++ ktok SEMI :: rest) as [|b r] eqn:E; [contradiction|].
  rewrite Hc. rewrite <- E. rewrite (pqname_roundtrip p _ Hok).
  change (is SEMI (ktok SEMI)) with true. reflexivity.
Qed.

(* `enum E [: base] { A, B [[x]] = e, } ;` -- the base written (or none) and every enumerator once, in order, with its own value *)
Theorem enum_definition_roundtrip p items tc rest :
  (match p with Some p => base_ok p (ktok LBRACE :: enum_body_toks items tc ++ ktok SEMI :: rest) | None => True end) ->
  Forall wenum_ok items -> (items = [] -> tc = false) ->
  enum_decl false (base_toks p ++ ktok LBRACE :: enum_body_toks items tc ++ ktok SEMI :: rest)
  = DOk (EDef (option_map pn2_out p) (map strip_e items), rest).
Proof.
  intros Hb H1 H2. destruct p as [p|]; cbn [base_toks option_map app].
  - pose proof (first_not_compound p _ Hb) as Hc. destruct Hb as [Hok _].
    unfold enum_decl. change (is COLON (ktok COLON)) with true. cbn iota.
    destruct (pn2_toks p ++ ktok LBRACE :: enum_body_toks items tc ++ ktok SEMI :: rest) as [|b r] eqn:E; [contradiction|].
    rewrite Hc. rewrite <- E. rewrite (pqname_roundtrip p _ Hok).
    change (is SEMI (ktok LBRACE)) with false. change (is LBRACE (ktok LBRACE)) with true. cbn iota.
    exact (enum_body_rt _ items tc rest H1 H2).
  - unfold enum_decl. change (is COLON (ktok LBRACE)) with false. change (is LBRACE (ktok LBRACE)) with true. cbn iota.
    exact (enum_body_rt _ items tc rest H1 H2).
Qed.

Example ex_enum_decl :
  enum_decl false (ktok COLON :: map ktok [T_unsigned; T_char] ++ [ktok SEMI]) = DOk (EFwd (mkPQ [] false [SFund [T_unsigned; T_char]]), [])
  /\ enum_decl false (ktok COLON :: [mkTk T_NAME 5; ktok LBRACE; mkTk T_NAME 1; ktok COMMA; mkTk T_NAME 2; ktok RBRACE; ktok SEMI])
     = DOk (EDef (Some (mkPQ [] false [SName 5])) [(1, None); (2, None)], []).
Proof. vm_compute. split; reflexivity. Qed.

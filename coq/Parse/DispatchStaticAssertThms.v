(* Theorems about the keyword handlers as translated from the code that exists
   now (Gen/Dispatch.v): proved by running the interpreter of
   Parse/DispatchLang.v on the regenerated programs with symbolic remainders. *)
From Coq Require Import NArith List Bool.
Import ListNotations.
From CXV Require Import Gen.TokTy Parse.Balanced Parse.BalancedThms Parse.Declarator Parse.DispatchLang Gen.Dispatch.
Open Scope N_scope.

Ltac concrete t H := destruct t as [? ?]; cbn [kty] in H; subst.

(* static_assert ( ... ) : exactly the parenthesized group is consumed, whatever it contains *)
Theorem static_assert_skipped_exactly kw lp soup rp R ic :
  kty lp = T_LIT_40 -> kty rp = T_LIT_41 -> bal tk kty T_LIT_40 T_LIT_41 soup ->
  run prog_consume_static_assert ic kw (lp :: soup ++ rp :: R) = ODone R.
Proof.
  intros H1 H2 Hb. concrete lp H1. unfold run, prog_consume_static_assert. cbn [exec_block exec].
  change (memN (kty {| kty := T_LIT_40; kval := kval |}) [T_LIT_40]) with true. cbn iota.
  rewrite (discard_exact tk kty T_LIT_40 T_LIT_41 soup rp R ltac:(discriminate) Hb H2). reflexivity.
Qed.

Theorem static_assert_needs_parenthesis kw x R ic :
  kty x <> T_LIT_40 -> run prog_consume_static_assert ic kw (x :: R) = OErr 1.
Proof. intros H. unfold run, prog_consume_static_assert. cbn. apply N.eqb_neq in H. rewrite H. reflexivity. Qed.

(* Hand-written mirror of CxxParser._parse_pqname_name_operator (entered
   after the `operator` keyword of a name): the first token always belongs to
   the operator's name; `(` must be followed by `)` (the call operator) and the
   name is those two tokens whatever follows; any other name runs up to the
   next `(` (the parameter list) or `;` (a using-declaration), which is left in
   the stream.  No validation is done (as in the code).
   Tied to the code by the differential run of harness/props/c03.py. *)
From Coq Require Import NArith List Bool.
Import ListNotations.
From CXV Require Import Gen.TokTy Parse.Balanced Parse.Declarator Parse.DeclSpec.
Open Scope N_scope.

Definition op_stop (t : tk) : bool := is LP t || is SEMI t.

(* _consume_until(parts, "(", ";"): token_if_not returns None at a stop token and at end of input *)
Fixpoint until_stop (toks : list tk) : list tk * list tk :=
  match toks with
  | t :: r => if op_stop t then ([], toks) else let '(p, rest) := until_stop r in (t :: p, rest)
  | [] => ([], [])
  end.

Definition op_name (toks : list tk) : dres (list tk * list tk) :=
  match toks with
  | t :: r =>
      if is LP t then
        match r with
        | c :: r' => if is RP c then DOk ([t; c], r') else DErr 1
        | [] => DErr 2
        end
      else let '(p, rest) := until_stop r in DOk (t :: p, rest)
  | [] => DErr 2
  end.

Lemma until_stop_exact : forall parts s R,
  forallb (fun t => negb (op_stop t)) parts = true -> op_stop s = true ->
  until_stop (parts ++ s :: R) = (parts, s :: R).
Proof.
  induction parts as [|t q IH]; intros s R Hp Hs; cbn [app until_stop].
  - now rewrite Hs.
  - cbn [forallb] in Hp. apply andb_prop in Hp as [Ht Hq]. apply negb_true_iff in Ht. rewrite Ht.
    now rewrite (IH s R Hq Hs).
Qed.

(* the call operator: `operator ( )` and nothing more, whatever follows -- its parameter list, template arguments
   (`operator()<int>(int)`), or the ';' of a using-declaration *)
Theorem call_operator_name lp rp R : is LP lp = true -> is RP rp = true -> op_name (lp :: rp :: R) = DOk ([lp; rp], R).
Proof. intros H1 H2. cbn [op_name]. now rewrite H1, H2. Qed.

(* every other operator: its tokens up to the parameter list or the ';', exactly *)
Theorem operator_name_exact t parts s R :
  is LP t = false -> forallb (fun x => negb (op_stop x)) parts = true -> op_stop s = true ->
  op_name (t :: parts ++ s :: R) = DOk (t :: parts, s :: R).
Proof. intros Ht Hp Hs. cbn [op_name]. rewrite Ht. now rewrite (until_stop_exact parts s R Hp Hs). Qed.

(* Theorems about the keyword handlers as translated from the code that exists
   now (Gen/Dispatch.v): proved by running the interpreter of
   Parse/DispatchLang.v on the regenerated programs with symbolic remainders. *)
From Coq Require Import NArith List Bool.
Import ListNotations.
From CXV Require Import Gen.TokTy Parse.Balanced Parse.BalancedThms Parse.Declarator Parse.DispatchLang Gen.Dispatch.
Open Scope N_scope.

Ltac concrete t H := destruct t as [? ?]; cbn [kty] in H; subst.

(* friend: only inside a class; the declaration parser starts at the token behind the keyword, flagged is_friend,
   with the pending template header *)
Theorem friend_outside_class_rejected kw R : run prog_parse_friend_decl false kw R = OErr 1.
Proof. reflexivity. Qed.

Theorem friend_in_class_dispatch kw x R :
  run prog_parse_friend_decl true kw (x :: R) = OCall F_declarations [RTok (Some x); RDox; RTemplate] [(2, RBool true)] R.
Proof. reflexivity. Qed.


(* Hand-written mirror of how an overloaded-operator FUNCTION is read at
   namespace scope: specifiers and return type (_parse_type, validate(var_ok,
   meth_ok = false)), the pointer / reference part, the name `operator <tokens>`
   (Parse/OpName.v), '(' and then _parse_function / _parse_fn_end as for any
   function; without a body the statement must end with ';'.
   Tied to the code by the differential run of harness/props/c01.py. *)
From Coq Require Import NArith List Bool Lia.
Import ListNotations.
From CXV Require Import Gen.TokTy Gen.ParserTables Parse.Balanced Parse.BalancedThms Parse.Declarator Parse.DeclSpec Parse.DeclThms
  Parse.EnumList Parse.Specs Parse.VarStmt Parse.FnTail Parse.Init Parse.Members Parse.MethodTail Parse.DeclStmt Parse.MemberStmt Parse.OpName
  Parse.ConvOp Parse.OperatorMember.
Open Scope N_scope.

Record opfn := mkOpF { of_mods : mods; of_op : list tk; of_ret : ty; of_params : list (ty * option N); of_vararg : bool; of_tail : tail }.

Definition op_fn_stmt (fuel : nat) (toks : list tk) : dres (opfn * list tk) :=
  match parse_specs toks with
  | DErr e => DErr e
  | DOk (m, b, r) =>
      if auto_next r then DErr 4
      else if negb (validate true false m) then DErr 3
      else
        match cvptr fuel (TBase b (m_const m) (m_volatile m)) r with
        | DErr e => DErr e
        | DOk (d, r1) =>
            if is_fn d then DErr 3
            else
              match r1 with
              | o :: r2 =>
                  if is T_operator o then
                    match op_name r2 with
                    | DErr e => DErr e
                    | DOk (parts, r3) =>
                        match r3 with
                        | lp :: r4 =>
                            if is LP lp then
                              match params fuel r4 with
                              | DErr e => DErr e
                              | DOk (ps, va, r5) =>
                                  match fn_tail r5 with
                                  | DErr e => DErr e
                                  | DOk (tl, r6) =>
                                      if t_body tl then DOk (mkOpF m parts d ps va tl, r6)
                                      else match r6 with
                                           | s :: r7 => if is SEMI s then DOk (mkOpF m parts d ps va tl, r7) else DErr 1
                                           | [] => DErr 2
                                           end
                                  end
                              end
                            else DErr 1
                        | [] => DErr 1
                        end
                    end
                  else DErr 4
              | [] => DErr 4
              end
        end
  end.

Theorem op_fn_roundtrip pre post b ls o ps va th ne nep en rest :
  forallb spec_kw pre = true -> forallb spec_kw post = true ->
  has T_explicit (pre ++ post) = false -> has T_virtual (pre ++ post) = false -> has T_mutable (pre ++ post) = false ->
  all_pfx ls = true -> legalL KB ls = true -> op_ok o ->
  layer_ok (LFn ps va) -> tail_ok th ne nep en (after_tail en rest) ->
  let m := apply_kws (pre ++ post) mods0 in
  let t := wrap (TBase b (m_const m) (m_volatile m)) ls in
  ev (fun f => op_fn_stmt f (kw_toks pre ++ nm_tok b :: kw_toks post ++ P ls [] ++ ktok T_operator :: op_toks o ++
                             ktok LP :: params_toks ps va ++ ktok RP :: spec_toks th ne nep ++ ending_toks en ++ after_tail en rest))
     (DOk (mkOpF m (op_toks o) t ps va (tail_of th ne en), rest)).
Proof.
  intros Hpre Hpost Hex Hvi Hmu Hpf Hleg Hop [_ Hprm] Htl m t.
  set (Y := spec_toks th ne nep ++ ending_toks en ++ after_tail en rest).
  set (X := ktok T_operator :: op_toks o ++ ktok LP :: params_toks ps va ++ ktok RP :: Y).
  assert (Hst : stops X = true) by reflexivity.
  destruct (all_pfx_main ls Hpf) as [Em Et].
  assert (Hcore : SNk []) by constructor.
  assert (Hok : Forall layer_ok ls).
  { apply Forall_forall. intros l Hl. unfold all_pfx in Hpf. rewrite forallb_forall in Hpf. specialize (Hpf l Hl).
    destruct l; try exact I; discriminate Hpf. }
  pose proof (cvptr_P _ ls (le_n _) (TBase b (m_const m) (m_volatile m)) [] X Hleg Hok Hcore) as Hcv'.
  rewrite Et, Em in Hcv'. cbn [P app] in Hcv'. specialize (Hcv' Hst eq_refl). destruct Hcv' as [f1 H1].
  destruct (Hprm Y) as [f2 H2].
  pose proof (fn_tail_roundtrip th ne nep en (after_tail en rest) Htl) as Hft. fold Y in Hft.
  assert (Hnf : is_fn t = false).
  { unfold t. clear - Hpf. destruct ls as [|l r] using rev_ind; [reflexivity|].
    unfold wrap. rewrite fold_left_app. cbn [fold_left]. unfold all_pfx in Hpf. rewrite forallb_app in Hpf.
    apply andb_prop in Hpf as [_ Hl]. cbn [forallb] in Hl. destruct l; try reflexivity; discriminate Hl. }
  assert (Hstop : spec_stop (P ls [] ++ X) = true).
  { destruct ls as [|l r]; [reflexivity|]. cbn [all_pfx forallb] in Hpf. apply andb_prop in Hpf as [Hl _].
    destruct l; try discriminate Hl; reflexivity. }
  assert (Hna : auto_next (P ls [] ++ X) = false).
  { destruct ls as [|l r]; [reflexivity|]. cbn [all_pfx forallb] in Hpf. apply andb_prop in Hpf as [Hl _].
    destruct l; try discriminate Hl; reflexivity. }
  assert (Hk : forallb spec_kw (pre ++ post) = true) by (rewrite forallb_app; now rewrite Hpre, Hpost).
  assert (Hval : validate true false m && negb (m_mutable m) = true) by (apply validate_ns_ok; assumption).
  apply andb_prop in Hval as [Hv1 _].
  exists (Nat.max f1 f2). intros f Hge. unfold op_fn_stmt.
  replace (kw_toks pre ++ nm_tok b :: kw_toks post ++ P ls [] ++ ktok T_operator :: op_toks o ++ ktok LP :: params_toks ps va ++ ktok RP :: spec_toks th ne nep ++ ending_toks en ++ after_tail en rest)
    with (kw_toks pre ++ nm_tok b :: kw_toks post ++ (P ls [] ++ X)) by reflexivity.
  rewrite (specs_decode_lemma pre post b _ Hpre Hpost Hstop). rewrite apply_kws_app. fold m.
  rewrite Hna. rewrite Hv1. cbn [negb]. rewrite H1 by lia. fold t. rewrite Hnf.
  unfold X at 1. change (is T_operator (ktok T_operator)) with true. cbn iota.
  rewrite (op_name_rt o _ Hop). change (is LP (ktok LP)) with true. cbn iota.
  rewrite H2 by lia. rewrite Hft.
  unfold tail_of. cbn [t_body]. destruct en; cbn iota; cbn [after_tail]; isc; reflexivity.
Qed.

(* Cost twin of Parse/Balanced.v's consume: one unit per token read plus one
   per match-stack entry visited by the tolerance search (C07). *)
From Coq Require Import NArith List Bool Lia.
Import ListNotations.
From CXV Require Import Gen.TokTy Gen.ParserTables Parse.Balanced.
Open Scope N_scope.

Section Cost.
  Variable T : Type.
  Variable ty : T -> N.

  Fixpoint consume_cost (stack : list N) (toks : list T) : nat :=
    match toks with
    | [] => 0%nat
    | t :: r =>
        S (if memN (ty t) end_balanced_tokens then
             match stack with
             | [] => 0%nat
             | expected :: st =>
                 if ty t =? expected then
                   match st with [] => 0%nat | _ => consume_cost st r end
                 else if negb (ty t =? GT) && negb (expected =? GT) then 0%nat
                 else if ty t =? GT then consume_cost stack r
                 else
                   (length st +
                    match pop_through (ty t) st with
                    | Some st' => match st' with [] => 0%nat | _ => consume_cost st' r end
                    | None => consume_cost stack r
                    end)%nat
             end
           else
             match assocN (ty t) balanced_token_map with
             | Some c => consume_cost (c :: stack) r
             | None => consume_cost stack r
             end)
    end.

  Lemma pop_through_len x : forall st st', pop_through x st = Some st' -> (length st' < length st)%nat.
  Proof.
    induction st as [|y r IH]; intros st' H; cbn [pop_through] in H; [discriminate|].
    destruct (x =? y); [inversion H; subst; cbn; lia|]. apply IH in H. cbn; lia.
  Qed.

  (* polynomial (at most quadratic) in the number of tokens and the pending depth *)
  Theorem consume_cost_bound : forall toks stack,
    (consume_cost stack toks <= length toks * (1 + length stack + length toks))%nat.
  Proof.
    induction toks as [|t r IH]; intros stack; cbn [consume_cost length]; [lia|].
    destruct (memN (ty t) end_balanced_tokens).
    - destruct stack as [|e st]; [cbn; nia|].
      destruct (ty t =? e).
      + destruct st as [|y st0]; [cbn; nia|]. specialize (IH (y :: st0)). cbn [length] in *. nia.
      + destruct (negb (ty t =? GT) && negb (e =? GT)); [nia|].
        destruct (ty t =? GT).
        * specialize (IH (e :: st)). cbn [length] in *. nia.
        * destruct (pop_through (ty t) st) as [st'|] eqn:Ep.
          -- apply pop_through_len in Ep.
             destruct st' as [|y st0]; [cbn [length] in *; nia|].
             specialize (IH (y :: st0)). cbn [length] in *. nia.
          -- specialize (IH (e :: st)). cbn [length] in *. nia.
    - destruct (assocN (ty t) balanced_token_map).
      + specialize (IH (n :: stack)). cbn [length] in *. nia.
      + specialize (IH stack). nia.
  Qed.

  (* _discard_contents: one unit per token read, at most the whole input *)
  Fixpoint discard_cost (s e : N) (level : nat) (toks : list T) : nat :=
    match toks with
    | [] => 0%nat
    | t :: r =>
        S (if ty t =? s then discard_cost s e (S level) r
           else if ty t =? e then
                  match level with
                  | O => 0%nat | S O => 0%nat | S l => discard_cost s e l r
                  end
                else discard_cost s e level r)
    end.

  Theorem discard_cost_linear s e : forall toks level, (discard_cost s e level toks <= length toks)%nat.
  Proof.
    induction toks as [|t r IH]; intros level; cbn [discard_cost length]; [lia|].
    destruct (ty t =? s); [specialize (IH (S level)); lia|].
    destruct (ty t =? e); [|specialize (IH level); lia].
    destruct level as [|[|l]]; try lia. specialize (IH (S l)). lia.
  Qed.
End Cost.

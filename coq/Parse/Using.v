(* Hand-written mirror of CxxParser._parse_using with _parse_using_directive,
   _parse_using_declaration and _parse_using_typealias (entered after the
   `using` keyword): the three statements are told apart by the first token
   (namespace | '::' | typename | NAME | enum) and by whether '=' follows it;
   the directive collects [::] NAME (:: NAME)*, the declaration is a qualified
   name (Parse/PQName.v; a leading `typename` is skipped and not recorded, as
   the code does), the alias is NAME '=' type-id (alias_type of
   Parse/Declarator.v).  Every form ends with ';'.
   Tied to the code by the differential run of harness/props/c01.py (the real
   _parse_using on the same token lists) and the digest pin of Gen/PinsC01.v. *)
From Coq Require Import NArith List Bool Lia.
Import ListNotations.
From CXV Require Import Gen.TokTy Gen.ParserTables Parse.Balanced Parse.BalancedThms Parse.Declarator Parse.DeclSpec Parse.DeclThms Parse.PQName.
Open Scope N_scope.

Inductive ures :=
| UDir (root : bool) (names : list N)       (* using namespace [::] a::b; *)
| UDecl (q : pq)                            (* using [typename] a::b::c; *)
| UAlias (name : N) (t : ty).               (* using A = type-id; *)

(* `while True: NAME; if not '::' break` *)
Fixpoint udir_names (n : nat) (acc : list N) (toks : list tk) {struct n} : dres (list N * list tk) :=
  match n with
  | O => DErr 9
  | S n' =>
      match toks with
      | t :: r =>
          if is T_NAME t then
            match r with
            | c :: r1 => if is T_DBL_COLON c then udir_names n' (kval t :: acc) r1 else DOk (rev (kval t :: acc), r)
            | [] => DOk (rev (kval t :: acc), r)
            end
          else DErr 1
      | [] => DErr 2
      end
  end.

(* type-ids whose base name lies outside the declarator model's base types (fundamental keywords, class keys, qualified or
   templated names): code 4 *)
Definition alias_outside (toks : list tk) : bool :=
  let '(_, _, r) := base_cv false false toks in
  match r with
  | t :: r' => (memN (kty t) pqname_start_tokens && negb (is T_NAME t || is T_void t))
               || (is T_NAME t && match r' with x :: _ => is T_DBL_COLON x || is T_LIT_60 x | [] => false end)
  | [] => false
  end.

Definition using_first (t : tk) : bool :=
  is T_NAME t || is T_DBL_COLON t || is T_namespace t || is T_typename t || is T_enum t.

Definition using_stmt (in_class has_template : bool) (fuel : nat) (toks : list tk) : dres (ures * list tk) :=
  match toks with
  | [] => DErr 2
  | t :: r =>
      if negb (using_first t) then DErr 1
      else
        let body : dres (ures * list tk) :=
          if is T_namespace t then
            if has_template || in_class then DErr 1
            else
              let '(root, r0) := match r with
                                 | c :: r' => if is T_DBL_COLON c then (true, r') else (false, r)
                                 | [] => (false, r)
                                 end in
              match udir_names (S (length r0)) [] r0 with
              | DOk (ns, r1) => DOk (UDir root ns, r1)
              | DErr e => DErr e
              end
          else if is T_DBL_COLON t || is T_typename t || negb (match r with e :: _ => is EQ e | [] => false end) then
            if has_template then DErr 1
            else
              match parse_pqname (if is T_typename t then r else toks) with
              | DOk (q, r1) => DOk (UDecl q, r1)
              | DErr e => DErr e
              end
          else if alias_outside (tl r) then DErr 4
          else
            match alias_type fuel (tl r) with
            | DOk (ty, r1) => DOk (UAlias (kval t) ty, r1)
            | DErr e => DErr e
            end in
        match body with
        | DErr e => DErr e
        | DOk (u, r1) =>
            match r1 with
            | s :: r2 => if is SEMI s then DOk (u, r2) else DErr 1
            | [] => DErr 2
            end
        end
  end.

(* ------------------------------------------------------------------ *)
(* the printed forms *)

Definition udir_toks (root : bool) (n : N) (q : list N) : list tk :=
  ktok T_namespace :: (if root then [ktok T_DBL_COLON] else []) ++ mkTk T_NAME n :: flat_map (fun m => [ktok T_DBL_COLON; mkTk T_NAME m]) q.

Lemma udir_names_rt : forall q n acc rest fuel,
  (length q < fuel)%nat -> (match rest with t :: _ => is T_DBL_COLON t = false | [] => True end) ->
  udir_names fuel acc (mkTk T_NAME n :: flat_map (fun m => [ktok T_DBL_COLON; mkTk T_NAME m]) q ++ rest)
  = DOk (rev acc ++ n :: q, rest).
Proof.
  induction q as [|m q IH]; intros n acc rest fuel Hf Hstop.
  - destruct fuel as [|fuel]; [cbn in Hf; lia|]. cbn [flat_map app udir_names].
    change (is T_NAME (mkTk T_NAME n)) with true. cbn iota. cbn [kval rev].
    destruct rest as [|t r]; [reflexivity|]. now rewrite Hstop.
  - destruct fuel as [|fuel]; [cbn in Hf; lia|]. cbn [flat_map app udir_names].
    change (is T_NAME (mkTk T_NAME n)) with true. cbn iota.
    change (is T_DBL_COLON (ktok T_DBL_COLON)) with true. cbn iota. cbn [kval].
    rewrite IH; [|cbn [length] in Hf; lia|exact Hstop]. cbn [rev]. now rewrite <- app_assoc.
Qed.

Lemma flat_len2 (q : list N) : (length q <= length (flat_map (fun m => [ktok T_DBL_COLON; mkTk T_NAME m]) q))%nat.
Proof. induction q; cbn [flat_map app length] in *; lia. Qed.

(* `using namespace [::] a::b::c;` reports exactly the names written, in order, and the leading '::' *)
Theorem using_directive_roundtrip root n q fuel rest :
  using_stmt false false fuel (udir_toks root n q ++ ktok SEMI :: rest) = DOk (UDir root (n :: q), rest).
Proof.
  unfold using_stmt, udir_toks. cbn [app].
  change (using_first (ktok T_namespace)) with true. cbn [negb]. cbn iota.
  change (is T_namespace (ktok T_namespace)) with true. cbn iota. cbn [orb]. cbn iota.
  destruct root; cbn [app].
  - change (is T_DBL_COLON (ktok T_DBL_COLON)) with true. cbn iota.
    rewrite udir_names_rt; [| |reflexivity].
    + cbn [rev app]. change (is SEMI (ktok SEMI)) with true. reflexivity.
    + cbn [length]. rewrite app_length. pose proof (flat_len2 q). lia.
  - change (is T_DBL_COLON (mkTk T_NAME n)) with false. cbn iota.
    rewrite udir_names_rt; [| |reflexivity].
    + cbn [rev app]. change (is SEMI (ktok SEMI)) with true. reflexivity.
    + cbn [length]. rewrite app_length. pose proof (flat_len2 q). lia.
Qed.

(* a using-directive inside a class body or behind a template header is rejected *)
Theorem using_directive_misplaced in_class has_template fuel r :
  in_class || has_template = true -> exists e, using_stmt in_class has_template fuel (ktok T_namespace :: r) = DErr e.
Proof.
  intros H. unfold using_stmt. change (using_first (ktok T_namespace)) with true. cbn [negb]. cbn iota.
  change (is T_namespace (ktok T_namespace)) with true. cbn iota.
  rewrite orb_comm, H. now exists 1.
Qed.

(* `using [typename] [::] a::b::c;`: the qualified name as written; a leading `typename` is not part of the name *)
Theorem using_declaration_roundtrip (tn root : bool) n q in_class fuel rest :
  (q = [] -> root = true \/ tn = true) ->
  using_stmt in_class false fuel (pn2_toks (PNames tn [] root n q) ++ ktok SEMI :: rest)
  = DOk (UDecl (pn2_out (PNames false [] root n q)), rest).
Proof.
  intros Hq.
  assert (Hstop : name_stop (ktok SEMI :: rest)) by (split; reflexivity).
  pose proof (pqname_roundtrip (PNames false [] root n q) (ktok SEMI :: rest)) as HP.
  cbn [pn2_ok] in HP. specialize (HP (conj eq_refl (conj (fun H => eq_refl) Hstop))).
  unfold using_stmt. cbn [pn2_toks map app] in *.
  destruct tn; cbn [app].
  - change (using_first (ktok T_typename)) with true. cbn [negb]. cbn iota.
    change (is T_namespace (ktok T_typename)) with false. cbn iota.
    change (is T_DBL_COLON (ktok T_typename)) with false. change (is T_typename (ktok T_typename)) with true. cbn [orb]. cbn iota.
    rewrite <- app_assoc in HP. rewrite <- !app_assoc. cbn [app] in *. rewrite HP.
    change (is SEMI (ktok SEMI)) with true. reflexivity.
  - destruct root; cbn [app] in *.
    + change (using_first (ktok T_DBL_COLON)) with true. cbn [negb]. cbn iota.
      change (is T_namespace (ktok T_DBL_COLON)) with false. cbn iota.
      change (is T_DBL_COLON (ktok T_DBL_COLON)) with true. cbn [orb]. cbn iota.
      change (is T_typename (ktok T_DBL_COLON)) with false. cbn iota.
      rewrite HP. change (is SEMI (ktok SEMI)) with true. reflexivity.
    + destruct q as [|m q']; [destruct (Hq eq_refl); discriminate|].
      change (using_first (mkTk T_NAME n)) with true. cbn [negb]. cbn iota.
      change (is T_namespace (mkTk T_NAME n)) with false. cbn iota.
      change (is T_DBL_COLON (mkTk T_NAME n)) with false. change (is T_typename (mkTk T_NAME n)) with false. cbn [orb].
      cbn [flat_map app]. change (is EQ (ktok T_DBL_COLON)) with false. cbn [negb]. cbn iota.
      cbn [flat_map app] in HP. rewrite HP. change (is SEMI (ktok SEMI)) with true. reflexivity.
Qed.

Definition noqual (s : list tk) : bool :=
  match s with t :: _ => negb (is T_DBL_COLON t || is T_LIT_60 t) | [] => true end.

Lemma noqual_P : forall ls rest, noqual rest = true -> noqual (P ls [] ++ rest) = true.
Proof.
  induction ls as [|l r IH]; intros rest Hr.
  - exact Hr.
  - destruct l as [c v| | |s|ps va]; try reflexivity; cbn [P].
    + destruct (starts_pfx r); [reflexivity|]. cbn [paren]. rewrite <- app_assoc. now apply IH.
    + destruct (starts_pfx r); [reflexivity|]. cbn [paren]. rewrite <- app_assoc. now apply IH.
Qed.

Lemma alias_outside_printed t rest : noqual rest = true -> alias_outside (decl_toks t None ++ rest) = false.
Proof.
  intros Hr. destruct (decl_view t None) as (b & c & v & Ed & _). rewrite Ed. unfold alias_outside, base_toks3, name_tok.
  rewrite <- !app_assoc.
  assert (E : base_cv false false (cvtoks c v ++ [if b =? 0 then ktok T_void else mkTk T_NAME b] ++ P (layers t) (name_toks None) ++ rest)
              = (c, v, (if b =? 0 then ktok T_void else mkTk T_NAME b) :: P (layers t) (name_toks None) ++ rest)).
  { destruct c, v; cbn [cvtoks app base_cv]; isc; destruct (b =? 0); isc; reflexivity. }
  rewrite E. cbn [name_toks].
  pose proof (noqual_P (layers t) rest Hr) as Hq.
  destruct (b =? 0).
  - reflexivity.
  - change (memN (kty (mkTk T_NAME b)) pqname_start_tokens) with true. change (is T_NAME (mkTk T_NAME b)) with true.
    cbn [orb negb andb]. destruct (P (layers t) [] ++ rest) as [|x xs]; [reflexivity|]. cbn [noqual] in Hq.
    now apply negb_true_iff in Hq.
Qed.

(* `using A = type-id;`: the alias name and exactly the type written (any legal type tree that is not a plain function type) *)
Theorem using_alias_roundtrip a t in_class has_template rest :
  DeclSpec.wf t -> kind_of t <> KFn ->
  DeclThms.ev (fun f => using_stmt in_class has_template f (mkTk T_NAME a :: ktok EQ :: decl_toks t None ++ ktok SEMI :: rest))
              (DOk (UAlias a t, rest)).
Proof.
  intros Hwf Hk.
  destruct (alias_roundtrip t (ktok SEMI :: rest) Hwf Hk eq_refl) as [f0 H].
  exists f0. intros f Hf. unfold using_stmt.
  change (using_first (mkTk T_NAME a)) with true. cbn [negb]. cbn iota.
  change (is T_namespace (mkTk T_NAME a)) with false. cbn iota.
  change (is T_DBL_COLON (mkTk T_NAME a)) with false. change (is T_typename (mkTk T_NAME a)) with false. cbn [orb].
  change (is EQ (ktok EQ)) with true. cbn [negb]. cbn iota. cbn [tl kval].
  rewrite (alias_outside_printed t (ktok SEMI :: rest) eq_refl).
  rewrite (H f Hf). change (is SEMI (ktok SEMI)) with true. reflexivity.
Qed.

Example ex_using :
  using_stmt false false 10 (udir_toks true 1 [2; 3] ++ [ktok SEMI]) = DOk (UDir true [1; 2; 3], [])
  /\ using_stmt true false 10 [mkTk T_NAME 1; ktok T_DBL_COLON; mkTk T_NAME 2; ktok SEMI] = DOk (UDecl (mkPQ [] false [SName 1; SName 2]), [])
  /\ using_stmt true true 10 [mkTk T_NAME 1; ktok EQ; ktok T_const; mkTk T_NAME 2; ktok STAR; ktok SEMI]
     = DOk (UAlias 1 (TPtr (TBase 2 true false) false false), []).
Proof. vm_compute. repeat split. Qed.

(* Hand-written executable models of CxxParser._discard_contents,
   _consume_balanced_tokens and _consume_value_until (parser.py).
   Tables (closer set, opener->closer map) come from Gen/ParserTables.v.
   Tied to the code by the differential run in harness/balanced.py. *)
From Coq Require Import NArith List Bool.
Import ListNotations.
From CXV Require Import Gen.TokTy Gen.ParserTables.
Open Scope N_scope.

(* results of stream-consuming functions *)
Inductive res (A : Type) : Type :=
| Ok (a : A)
| ErrEOF                      (* lex.token() raised EOFError *)
| ErrUnexpected (ty : N)      (* self._parse_error(tok, expected) *)
| ErrInternal.                (* a state the Python code cannot reach *)
Arguments Ok {A} a.
Arguments ErrEOF {A}.
Arguments ErrUnexpected {A} ty.
Arguments ErrInternal {A}.

Fixpoint memN (x : N) (l : list N) : bool :=
  match l with [] => false | y :: r => if x =? y then true else memN x r end.

Fixpoint assocN (x : N) (l : list (N * N)) : option N :=
  match l with [] => None | (k, v) :: r => if x =? k then Some v else assocN x r end.

Section WithTokens.
  Variable T : Type.
  Variable ty : T -> N.

  (* _discard_contents(start_type, end_type): level starts at 1 *)
  Fixpoint discard (s e : N) (level : nat) (toks : list T) : res (list T) :=
    match toks with
    | [] => ErrEOF
    | t :: r =>
        if ty t =? s then discard s e (S level) r
        else if ty t =? e then
               match level with
               | O => ErrInternal
               | S O => Ok r
               | S l => discard s e l r
               end
             else discard s e level r
    end.

  (* `for i, maybe in enumerate(reversed(match_stack)): if tok.type == maybe:
        pop i+1; break` : the stack is a list with the top first.  Returns the
     stack after popping through the first occurrence, or None (for-else). *)
  Fixpoint pop_through (x : N) (stack : list N) : option (list N) :=
    match stack with
    | [] => None
    | y :: r => if x =? y then Some r else pop_through x r
    end.

  Definition GT : N := T_LIT_62.

  (* _consume_balanced_tokens: [stack] = closers expected (top first),
     [acc] = consumed tokens in reverse order. Returns (consumed, rest). *)
  Fixpoint consume (stack : list N) (acc : list T) (toks : list T)
    : res (list T * list T) :=
    match toks with
    | [] => ErrEOF
    | t :: r =>
        let acc' := t :: acc in
        if memN (ty t) end_balanced_tokens then
          match stack with
          | [] => ErrInternal
          | expected :: st =>
              if ty t =? expected then
                match st with
                | [] => Ok (rev acc', r)
                | _ => consume st acc' r
                end
              else if negb (ty t =? GT) && negb (expected =? GT) then
                     ErrUnexpected (ty t)
              else if ty t =? GT then
                     (* stray '>' : ignored *)
                     consume stack acc' r
              else
                match pop_through (ty t) st with
                | Some st' =>
                    match st' with
                    | [] => Ok (rev acc', r)
                    | _ => consume st' acc' r
                    end
                | None => consume stack acc' r
                end
          end
        else
          match assocN (ty t) balanced_token_map with
          | Some c => consume (c :: stack) acc' r
          | None => consume stack acc' r
          end
    end.

  (* entry as called by the parser: init tokens already consumed *)
  Definition consume_balanced (inits : list T) (toks : list T)
    : res (list T * list T) :=
    let closers := map (fun t => match assocN (ty t) balanced_token_map with
                                 | Some c => c | None => 0 end) inits in
    consume (rev closers) (rev inits) toks.

  (* _consume_value_until(rtoks, *token_types): token_if_not returns None at
     EOF as well.  Fuel is the input length: every step consumes >= 1 token. *)
  Fixpoint value_until (fuel : nat) (terms : list N) (acc : list T) (toks : list T)
    : res (list T * list T) :=
    match fuel with
    | O => match toks with [] => Ok (rev acc, []) | _ => ErrInternal end
    | S f =>
        match toks with
        | [] => Ok (rev acc, [])
        | t :: r =>
            if memN (ty t) terms then Ok (rev acc, toks)
            else match assocN (ty t) balanced_token_map with
                 | Some c =>
                     match consume [c] [t] r with
                     | Ok (grp, r') => value_until f terms (rev grp ++ acc) r'
                     | ErrEOF => ErrEOF
                     | ErrUnexpected x => ErrUnexpected x
                     | ErrInternal => ErrInternal
                     end
                 | None =>
                     (* a closing bracket that nothing in this value opened ('>' may be an operator) *)
                     if memN (ty t) end_balanced_tokens && negb (ty t =? GT) then ErrUnexpected (ty t)
                     else value_until f terms (t :: acc) r
                 end
        end
    end.

  Definition consume_value_until (terms : list N) (toks : list T) :=
    value_until (length toks) terms [] toks.

End WithTokens.

Arguments discard {T} ty s e level toks.
Arguments consume {T} ty stack acc toks.
Arguments consume_balanced {T} ty inits toks.
Arguments value_until {T} ty fuel terms acc toks.
Arguments consume_value_until {T} ty terms toks.

(* Hand-written mirror of CxxParser._maybe_parse_class_enum_decl: what follows
   an elaborated type (`struct S`, `enum class E`, ...) decides whether this is
   a forward declaration, a friend declaration, the start of a class or enum
   definition, or an ordinary declaration that only names the type.  The
   specifier check is ParsedTypeModifiers.validate (Parse/Specs.v); the stage-2
   token set is the regenerated one (Gen/ParserTables.v).
   Tied to the code by the differential run of harness/props/c03.py (the real
   method on the same inputs) and the digest pin of Gen/PinsC03.v. *)
From Coq Require Import NArith List Bool Lia.
Import ListNotations.
From CXV Require Import Gen.TokTy Gen.ParserTables Parse.Balanced Parse.Declarator Parse.DeclSpec Parse.Specs.
Open Scope N_scope.

Inductive ce_out :=
| CEForward            (* on_forward_decl *)
| CEFriend             (* on_class_friend *)
| CEClass (t : tk)     (* _parse_class_decl entered with t *)
| CEEnum (t : tk)      (* _parse_enum_decl entered with t *)
| CENone.              (* a variable or function follows *)

Definition key_is_enum (key : list N) : bool := match key with k :: _ => k =? T_enum | [] => false end.
Definition key_plain_enum (key : list N) : bool := match key with [k] => k =? T_enum | _ => false end.
Definition key_is_class (key : list N) : bool :=
  match key with [k] => (k =? T_class) || (k =? T_struct) || (k =? T_union) | _ => false end.

Definition class_enum (key : list N) (m : mods) (template is_typedef is_friend : bool) (toks : list tk)
  : dres (ce_out * list tk) :=
  match toks with
  | s :: r =>
      if is SEMI s then
        if is_typedef then DErr 1
        else if negb (validate false false m) then DErr 1
        else match key with
             | [] => DErr 1
             | _ =>
                 if key_plain_enum key && negb is_friend then DErr 1        (* enum cannot be forward declared, but `friend enum X` is fine *)
                 else if template && key_is_enum key then DErr 1            (* enum class cannot have a template *)
                 else DOk (if is_friend then CEFriend else CEForward, r)
             end
      else if memN (kty s) class_enum_stage2 then
        if negb (validate (negb is_typedef) false m) then DErr 1
        else if is_friend then DErr 1                                       (* friend declaration doesn't have extra context *)
        else if key_is_class key then DOk (CEClass s, r)
        else if template then DErr 1                                        (* enum cannot have a template *)
        else DOk (CEEnum s, r)
      else DOk (CENone, toks)
  | [] => DOk (CENone, toks)
  end.

(* ------------------------------------------------------------------ *)
(* the decision rules *)

(* a forward declaration: class key (or scoped enum), no variable/method specifier, ';' *)
Theorem forward_decl_recognised key m template rest :
  key <> [] -> validate false false m = true ->
  key_plain_enum key = false -> (template = true -> key_is_enum key = false) ->
  class_enum key m template false false (ktok SEMI :: rest) = DOk (CEForward, rest).
Proof.
  intros Hk Hv He Ht. unfold class_enum. change (is SEMI (ktok SEMI)) with true. cbn iota.
  rewrite Hv. cbn [negb]. destruct key as [|k ks]; [contradiction|].
  rewrite He. cbn [andb]. destruct template; [rewrite (Ht eq_refl)|]; reflexivity.
Qed.

(* a friend declaration of a type: any class key, plain `enum` included *)
Theorem friend_type_recognised key m rest :
  key <> [] -> validate false false m = true ->
  class_enum key m false false true (ktok SEMI :: rest) = DOk (CEFriend, rest).
Proof.
  intros Hk Hv. unfold class_enum. change (is SEMI (ktok SEMI)) with true. cbn iota.
  rewrite Hv. cbn [negb]. destruct key as [|k ks]; [contradiction|].
  cbn [negb andb]. now rewrite andb_false_r.
Qed.

(* rejected: `enum E;` (not a friend), `template <...> enum class E;`, `typedef struct S;`, a specifier in front *)
Theorem forward_decl_rules key m template is_typedef is_friend rest :
  (is_typedef = true \/ validate false false m = false \/ key = [] \/ (key_plain_enum key = true /\ is_friend = false)
   \/ (template = true /\ key_is_enum key = true)) ->
  exists e, class_enum key m template is_typedef is_friend (ktok SEMI :: rest) = DErr e.
Proof.
  intros H. unfold class_enum. change (is SEMI (ktok SEMI)) with true. cbn iota.
  destruct is_typedef; [now exists 1|].
  destruct (validate false false m); cbn [negb]; [|now exists 1].
  destruct key as [|k ks]; [now exists 1|].
  destruct H as [H|[H|[H|[[H1 H2]|[H1 H2]]]]]; try discriminate.
  - rewrite H1, H2. now exists 1.
  - rewrite H1, H2. destruct (key_plain_enum (k :: ks) && negb is_friend); now exists 1.
Qed.

(* a definition starts: the stage-2 token is handed to the class or the enum parser *)
Theorem definition_dispatch key m template is_typedef s rest :
  is SEMI s = false -> memN (kty s) class_enum_stage2 = true ->
  validate (negb is_typedef) false m = true ->
  class_enum key m template is_typedef false (s :: rest) =
    if key_is_class key then DOk (CEClass s, rest) else if template then DErr 1 else DOk (CEEnum s, rest).
Proof.
  intros H1 H2 Hv. unfold class_enum. rewrite H1, H2, Hv. reflexivity.
Qed.

(* `friend struct S { ... };` and method-only specifiers before a definition are rejected *)
Theorem definition_rules key m template is_typedef is_friend s rest :
  is SEMI s = false -> memN (kty s) class_enum_stage2 = true ->
  (is_friend = true \/ validate (negb is_typedef) false m = false) ->
  exists e, class_enum key m template is_typedef is_friend (s :: rest) = DErr e.
Proof.
  intros H1 H2 H. unfold class_enum. rewrite H1, H2.
  destruct (validate (negb is_typedef) false m); cbn [negb]; [|now exists 1].
  destruct H as [->|H]; [now exists 1|discriminate].
Qed.

(* anything else is left untouched for the variable / function parser *)
Theorem otherwise_untouched key m template is_typedef is_friend s rest :
  is SEMI s = false -> memN (kty s) class_enum_stage2 = false ->
  class_enum key m template is_typedef is_friend (s :: rest) = DOk (CENone, s :: rest).
Proof. intros H1 H2. unfold class_enum. now rewrite H1, H2. Qed.

Example ex_class_enum :
  class_enum [T_struct] mods0 true false false [ktok SEMI] = DOk (CEForward, [])
  /\ class_enum [T_enum] mods0 false false false [ktok SEMI] = DErr 1
  /\ class_enum [T_enum; T_class] mods0 false false false [ktok T_LIT_58; mkTk T_NAME 1] = DOk (CEEnum (ktok T_LIT_58), [mkTk T_NAME 1])
  /\ class_enum [T_class] mods0 false false false [ktok T_final; ktok T_LIT_123] = DOk (CEClass (ktok T_final), [ktok T_LIT_123]).
Proof. vm_compute. repeat split. Qed.

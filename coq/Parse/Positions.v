(* Finite check over the regenerated value-position table (C14):
   the delimiters documented as omitted (outer parentheses of throw /
   noexcept / decltype, array brackets) are sliced off with [1:-1], and no
   other position slices anything. *)
From Coq Require Import NArith List Bool.
Import ListNotations.
From CXV Require Import Gen.TokTy Gen.ParserTables.
Open Scope N_scope.

Definition K_UNTIL := 0. Definition K_INNER := 1. Definition K_WHOLE := 2. Definition K_LOOP := 3.

Definition row_ok (row : list N * N * N * list N) : bool :=
  match row with
  | (_, tclass, kind, terms) =>
      match tclass with
      | 0 => negb (kind =? K_INNER)
      | _ => kind =? K_INNER
      end
  end.

Definition count_class (c : N) : nat :=
  length (filter (fun row => match row with (_, tc, _, _) => tc =? c end) value_positions).

Definition positions_ok : bool :=
  forallb row_ok value_positions
  && (2 <=? N.of_nat (count_class 1)) && (2 <=? N.of_nat (count_class 2))
  && (1 <=? N.of_nat (count_class 3)) && (1 <=? N.of_nat (count_class 4)).

Lemma positions_ok_true : positions_ok = true.
Proof. vm_compute. reflexivity. Qed.

Lemma positions_policy_lemma :
  forall label tclass kind terms, In (label, tclass, kind, terms) value_positions ->
    (tclass <> 0 -> kind = K_INNER) /\ (tclass = 0 -> kind <> K_INNER).
Proof.
  intros label tclass kind terms Hin.
  pose proof positions_ok_true as H. unfold positions_ok in H.
  do 4 (apply andb_prop in H as [H _]).
  rewrite forallb_forall in H. specialize (H _ Hin). cbn [row_ok] in H.
  split.
  - intros Hne. destruct tclass; [congruence|]. now apply N.eqb_eq in H.
  - intros ->. apply negb_true_iff in H. now apply N.eqb_neq in H.
Qed.

(* Hand-written mirror of the specifier loop of CxxParser._parse_type and of
   ParsedTypeModifiers.validate (parserstate.py), for base types named by one
   identifier or `void`: the loop collects const / volatile (type qualifiers),
   the specifiers that may stand on variables and functions (constexpr extern
   inline static), on methods only (explicit virtual) and on variables only
   (mutable) in any order, before and after the type name; it stops at a second
   name, at a pointer / reference / parenthesis, or at any other token.
   `extern "C"` swallows the string.  Attributes, qualified and templated
   names, class keys and operators are outside this model.
   Tied to the code by calling the real _parse_type on the same token lists
   (harness/props/c01.py). *)
From Coq Require Import NArith List Bool Permutation.
Import ListNotations.
From CXV Require Import Gen.TokTy Gen.ParserTables Parse.Balanced Parse.Declarator Parse.DeclSpec.
Open Scope N_scope.

Record mods := mkMods {
  m_const : bool; m_volatile : bool;
  m_constexpr : bool; m_extern : bool; m_inline : bool; m_static : bool;     (* both *)
  m_explicit : bool; m_virtual : bool;                                        (* methods only *)
  m_mutable : bool                                                            (* variables only *)
}.
Definition mods0 := mkMods false false false false false false false false false.

(* one specifier keyword; None for any other token type *)
Definition set_mod (k : N) (m : mods) : option mods :=
  let '(mkMods c v ce ex il st xp vi mu) := m in
  if k =? T_const then Some (mkMods true v ce ex il st xp vi mu)
  else if k =? T_volatile then Some (mkMods c true ce ex il st xp vi mu)
  else if k =? T_constexpr then Some (mkMods c v true ex il st xp vi mu)
  else if k =? T_extern then Some (mkMods c v ce true il st xp vi mu)
  else if (k =? T_inline) || (k =? T___inline) || (k =? T___forceinline) then Some (mkMods c v ce ex true st xp vi mu)
  else if k =? T_static then Some (mkMods c v ce ex il true xp vi mu)
  else if k =? T_explicit then Some (mkMods c v ce ex il st true vi mu)
  else if k =? T_virtual then Some (mkMods c v ce ex il st xp true mu)
  else if k =? T_mutable then Some (mkMods c v ce ex il st xp vi true)
  else None.

Definition is_name_start (t : tk) : bool := is T_NAME t || is T_void t.
Definition is_ptr_ref_paren (t : tk) : bool := is STAR t || is AMP t || is T_DBL_AMP t || is LP t.

(* the loop; [name] = the pqname found so far (0 = void) *)
Fixpoint spec_loop (m : mods) (name : option N) (toks : list tk) {struct toks}
  : dres (mods * N * list tk) :=
  let finish := match name with Some n => DOk (m, n, toks) | None => DErr 1 end in
  match toks with
  | t :: r =>
      if is_name_start t then
        match name with
        | Some _ => finish                                  (* found second set of names *)
        | None =>
            (* _parse_pqname would go on with '::' or '<': qualified and templated names are outside this model *)
            match r with
            | t2 :: _ => if is T_DBL_COLON t2 || is T_LIT_60 t2 then DErr 4
                         else spec_loop m (Some (if is T_void t then 0 else kval t)) r
            | [] => spec_loop m (Some (if is T_void t then 0 else kval t)) r
            end
        end
      else if is_ptr_ref_paren t then finish                (* error when no name was seen *)
      else
        match set_mod (kty t) m with
        | Some m' =>
            if is T_extern t then
              match r with
              | s :: r' => if is T_STRING_LITERAL s then spec_loop m' name r' else spec_loop m' name r
              | [] => spec_loop m' name r
              end
            else spec_loop m' name r
        | None =>
            (* a type name the model does not cover (fundamental types, typename, decltype, a class key, '::' ...) is outside
               the model, not an error *)
            if memN (kty t) attribute_start_tokens then DErr 4       (* _consume_attribute inside the loop: not modelled *)
            else
            match name with
            | Some _ => finish
            | None =>
                if memN (kty t) fundamentals then
                  (* _parse_pqname_fundamental: a compound keyword takes the compound keywords that follow *)
                  if memN (kty t) compound_fundamentals then
                    (fix grp (l : list tk) (ws : list N) {struct l} : dres (mods * N * list tk) :=
                       match l with
                       | t2 :: r2 => if memN (kty t2) compound_fundamentals then grp r2 (ws ++ [kty t2])
                                     else spec_loop m (Some (fund_code ws)) l
                       | [] => spec_loop m (Some (fund_code ws)) l
                       end) r [kty t]
                  else spec_loop m (Some (fund_code [kty t])) r
                else if memN (kty t) name_compound_start then
                  (* an elaborated type specifier `struct X` / `enum E` (the class key is kept on the name by the parser; the
                     model keeps the name): only the plain form `key NAME` that is not followed by '::' or '<' *)
                  match r with
                  | x :: r1 =>
                      if is T_NAME x && negb (is T_enum t && (match r1 with y :: _ => is T_class y || is T_struct y | [] => false end))
                      then match r1 with
                           | y :: _ => if is T_DBL_COLON y || is T_LIT_60 y then DErr 4 else spec_loop m (Some (kval x)) r1
                           | [] => spec_loop m (Some (kval x)) r1
                           end
                      else DErr 4
                  | [] => DErr 4
                  end
                else if memN (kty t) pqname_start_tokens then DErr 4 else finish
            end
        end
  | [] => DErr 2                                            (* get_token() at end of input *)
  end.

Definition parse_specs (toks : list tk) : dres (mods * N * list tk) := spec_loop mods0 None toks.

(* ParsedTypeModifiers.validate(var_ok, meth_ok): true = accepted *)
Definition validate (var_ok meth_ok : bool) (m : mods) : bool :=
  let vars := m_mutable m in
  let meths := m_explicit m || m_virtual m in
  let both := m_constexpr m || m_extern m || m_inline m || m_static m in
  negb (negb var_ok && vars) && negb (negb meth_ok && meths) && negb (negb meth_ok && negb var_ok && both).

(* ------------------------------------------------------------------ *)
(* specification: the flags are the membership of the keywords *)

Definition spec_kws : list N :=
  [T_const; T_volatile; T_constexpr; T_extern; T_inline; T___inline; T___forceinline; T_static; T_explicit; T_virtual; T_mutable].
Definition spec_kw (k : N) : bool := existsb (N.eqb k) spec_kws.

Definition apply_kws (ks : list N) (m : mods) : mods :=
  fold_left (fun m k => match set_mod k m with Some m' => m' | None => m end) ks m.

Definition kw_toks (ks : list N) : list tk := map ktok ks.

Lemma spec_kw_in k : spec_kw k = true -> In k spec_kws.
Proof.
  unfold spec_kw. intros H. apply existsb_exists in H as (x & Hx & E). apply N.eqb_eq in E. now subst.
Qed.

Lemma set_mod_some k m : spec_kw k = true -> exists m', set_mod k m = Some m'.
Proof.
  intros H. apply spec_kw_in in H. destruct m as [c v ce ex il st xp vi mu].
  unfold spec_kws in H. cbn [In] in H.
  repeat (destruct H as [<-|H]; [eexists; reflexivity|]). contradiction.
Qed.

Lemma spec_kw_not_name k : spec_kw k = true ->
  is_name_start (ktok k) = false /\ is_ptr_ref_paren (ktok k) = false /\ is T_STRING_LITERAL (ktok k) = false.
Proof.
  intros H. apply spec_kw_in in H. unfold spec_kws in H. cbn [In] in H.
  repeat (destruct H as [<-|H]; [repeat split; reflexivity|]). contradiction.
Qed.

Lemma spec_kw_not_scope k : spec_kw k = true -> is T_DBL_COLON (ktok k) || is T_LIT_60 (ktok k) = false.
Proof.
  intros H. apply spec_kw_in in H. unfold spec_kws in H. cbn [In] in H.
  repeat (destruct H as [<-|H]; [reflexivity|]). contradiction.
Qed.

Definition no_string (X : list tk) : bool := match X with s :: _ => negb (is T_STRING_LITERAL s) | [] => true end.

Lemma spec_loop_kws : forall ks m name X,
  forallb spec_kw ks = true -> no_string X = true ->
  spec_loop m name (kw_toks ks ++ X) = spec_loop (apply_kws ks m) name X.
Proof.
  induction ks as [|k q IH]; intros m name X Hk HX; [reflexivity|].
  cbn [forallb] in Hk. apply andb_prop in Hk as [Hk1 Hk2].
  destruct (spec_kw_not_name k Hk1) as (N1 & N2 & _).
  destruct (set_mod_some k m Hk1) as [m' Em].
  cbn [kw_toks map app spec_loop]. rewrite N1, N2. cbn [kty ktok]. rewrite Em.
  assert (Eap : apply_kws (k :: q) m = apply_kws q m') by (unfold apply_kws; cbn [fold_left]; now rewrite Em).
  change (map ktok q ++ X) with (kw_toks q ++ X).
  assert (Hnext : no_string (kw_toks q ++ X) = true).
  { destruct q as [|k2 q']; [exact HX|]. cbn [kw_toks map app no_string].
    cbn [forallb] in Hk2. apply andb_prop in Hk2 as [Hk2a _].
    destruct (spec_kw_not_name k2 Hk2a) as (_ & _ & N3). now rewrite N3. }
  rewrite Eap, <- (IH m' name X Hk2 HX).
  destruct (is T_extern (ktok k)); [|reflexivity].
  destruct (kw_toks q ++ X) as [|s r'] eqn:E; [reflexivity|].
  cbn [no_string] in Hnext. apply negb_true_iff in Hnext. now rewrite Hnext.
Qed.

Lemma set_mod_none k m : spec_kw k = false -> set_mod k m = None.
Proof.
  unfold spec_kw, spec_kws. cbn [existsb]. intros H.
  repeat (apply orb_false_elim in H as [? H]).
  destruct m as [c v ce ex il st xp vi mu]. unfold set_mod.
  repeat match goal with E : (k =? _) = false |- _ => rewrite E; clear E end. reflexivity.
Qed.

Definition nm_tok (b : N) : tk := if b =? 0 then ktok T_void else mkTk T_NAME b.

Definition spec_stop (rest : list tk) : bool :=
  match rest with
  | t :: _ => (is_name_start t || is_ptr_ref_paren t || negb (spec_kw (kty t))) && negb (is T_STRING_LITERAL t)
              && negb (is T_DBL_COLON t || is T_LIT_60 t) && negb (memN (kty t) attribute_start_tokens)
  | [] => false
  end.

(* specifiers before and after the type name, in any order *)
Theorem specs_decode_lemma pre post n rest :
  forallb spec_kw pre = true -> forallb spec_kw post = true -> spec_stop rest = true ->
  parse_specs (kw_toks pre ++ nm_tok n :: kw_toks post ++ rest)
  = DOk (apply_kws post (apply_kws pre mods0), n, rest).
Proof.
  intros Hpre Hpost Hstop. unfold parse_specs.
  assert (Hnm : is_name_start (nm_tok n) = true /\ is T_STRING_LITERAL (nm_tok n) = false /\
                (if is T_void (nm_tok n) then 0 else kval (nm_tok n)) = n).
  { unfold nm_tok. destruct (N.eqb_spec n 0) as [->|Hn]; repeat split; reflexivity. }
  destruct Hnm as (Hn1 & Hn2 & Hn3).
  rewrite spec_loop_kws; [|exact Hpre|cbn [no_string]; now rewrite Hn2].
  destruct rest as [|t r]; [discriminate|].
  cbn [spec_stop] in Hstop. apply andb_prop in Hstop as [Hstop Hat]. apply andb_prop in Hstop as [Hstop Hsc]. apply andb_prop in Hstop as [Hs Hstr].
  apply negb_true_iff in Hsc. apply negb_true_iff in Hat.
  assert (Hnext : match kw_toks post ++ t :: r with
                  | t2 :: _ => is T_DBL_COLON t2 || is T_LIT_60 t2 | [] => false end = false).
  { destruct post as [|k2 q]; [exact Hsc|]. cbn [kw_toks map app].
    cbn [forallb] in Hpost. apply andb_prop in Hpost as [Hk2 _]. now apply spec_kw_not_scope. }
  cbn [spec_loop]. rewrite Hn1, Hn3.
  destruct (kw_toks post ++ t :: r) as [|t2 r2] eqn:E2.
  { destruct post; discriminate. }
  rewrite Hnext. rewrite <- E2.
  rewrite spec_loop_kws; [|exact Hpost|cbn [no_string]; exact Hstr].
  cbn [spec_loop].
  destruct (is_name_start t); [reflexivity|]. destruct (is_ptr_ref_paren t); [reflexivity|].
  cbn [orb] in Hs. apply negb_true_iff in Hs. rewrite (set_mod_none _ _ Hs). now rewrite Hat.
Qed.

(* ------------------------------------------------------------------ *)
(* the flags are memberships: order and repetition do not matter *)

Definition has (c : N) (ks : list N) : bool := existsb (N.eqb c) ks.

Lemma set_mod_fields k m m' : set_mod k m = Some m' ->
  m_const m' = (m_const m || (k =? T_const)) /\ m_volatile m' = (m_volatile m || (k =? T_volatile)) /\
  m_constexpr m' = (m_constexpr m || (k =? T_constexpr)) /\ m_extern m' = (m_extern m || (k =? T_extern)) /\
  m_inline m' = (m_inline m || ((k =? T_inline) || (k =? T___inline) || (k =? T___forceinline))) /\
  m_static m' = (m_static m || (k =? T_static)) /\ m_explicit m' = (m_explicit m || (k =? T_explicit)) /\
  m_virtual m' = (m_virtual m || (k =? T_virtual)) /\ m_mutable m' = (m_mutable m || (k =? T_mutable)).
Proof.
  intros H.
  assert (Hk : spec_kw k = true).
  { destruct (spec_kw k) eqn:E; [reflexivity|]. rewrite (set_mod_none _ _ E) in H. discriminate. }
  apply spec_kw_in in Hk. unfold spec_kws in Hk. cbn [In] in Hk.
  destruct m as [c v ce ex il st xp vi mu].
  repeat (destruct Hk as [<-|Hk];
          [cbn in H; inversion H; subst; cbn; repeat split; rewrite ?orb_false_r, ?orb_true_r; reflexivity|]).
  contradiction.
Qed.

Lemma apply_kws_fields : forall ks m, forallb spec_kw ks = true ->
  m_const (apply_kws ks m) = (m_const m || has T_const ks) /\ m_volatile (apply_kws ks m) = (m_volatile m || has T_volatile ks) /\
  m_constexpr (apply_kws ks m) = (m_constexpr m || has T_constexpr ks) /\ m_extern (apply_kws ks m) = (m_extern m || has T_extern ks) /\
  m_inline (apply_kws ks m) = (m_inline m || (has T_inline ks || has T___inline ks || has T___forceinline ks)) /\
  m_static (apply_kws ks m) = (m_static m || has T_static ks) /\ m_explicit (apply_kws ks m) = (m_explicit m || has T_explicit ks) /\
  m_virtual (apply_kws ks m) = (m_virtual m || has T_virtual ks) /\ m_mutable (apply_kws ks m) = (m_mutable m || has T_mutable ks).
Proof.
  induction ks as [|k q IH]; intros m Hk.
  - cbn. rewrite !orb_false_r. repeat split; reflexivity.
  - cbn [forallb] in Hk. apply andb_prop in Hk as [Hk1 Hk2].
    destruct (set_mod_some k m Hk1) as [m' Em].
    assert (Eap : apply_kws (k :: q) m = apply_kws q m') by (unfold apply_kws; cbn [fold_left]; now rewrite Em).
    rewrite Eap. destruct (IH m' Hk2) as (A1 & A2 & A3 & A4 & A5 & A6 & A7 & A8 & A9).
    destruct (set_mod_fields k m m' Em) as (B1 & B2 & B3 & B4 & B5 & B6 & B7 & B8 & B9).
    rewrite A1, A2, A3, A4, A5, A6, A7, A8, A9, B1, B2, B3, B4, B5, B6, B7, B8, B9.
    unfold has. cbn [existsb]. rewrite !(N.eqb_sym k).
    repeat split; try (rewrite <- !orb_assoc; reflexivity).
    (* inline: three spellings *)
    destruct (m_inline m), (T_inline =? k), (T___inline =? k), (T___forceinline =? k),
      (existsb (N.eqb T_inline) q), (existsb (N.eqb T___inline) q), (existsb (N.eqb T___forceinline) q); reflexivity.
Qed.

Lemma mods_ext m m' :
  m_const m = m_const m' -> m_volatile m = m_volatile m' -> m_constexpr m = m_constexpr m' -> m_extern m = m_extern m' ->
  m_inline m = m_inline m' -> m_static m = m_static m' -> m_explicit m = m_explicit m' -> m_virtual m = m_virtual m' ->
  m_mutable m = m_mutable m' -> m = m'.
Proof. destruct m, m'; cbn; intros; subst; reflexivity. Qed.

Lemma has_perm c ks ks' : Permutation ks ks' -> has c ks = has c ks'.
Proof.
  unfold has. induction 1 as [|x l l' _ IH|x y l|l1 l2 l3 _ IH1 _ IH2]; cbn [existsb].
  - reflexivity.
  - now rewrite IH.
  - destruct (c =? x), (c =? y); reflexivity.
  - now rewrite IH1.
Qed.

(* the order in which specifiers are written (and repeating one) does not matter *)
Theorem specifier_order_irrelevant_lemma ks ks' :
  forallb spec_kw ks = true -> Permutation ks ks' -> apply_kws ks mods0 = apply_kws ks' mods0.
Proof.
  intros Hk Hp.
  assert (Hk' : forallb spec_kw ks' = true).
  { rewrite forallb_forall in *. intros x Hx. apply Hk. eapply Permutation_in; [apply Permutation_sym; exact Hp|exact Hx]. }
  destruct (apply_kws_fields ks mods0 Hk) as (A1 & A2 & A3 & A4 & A5 & A6 & A7 & A8 & A9).
  destruct (apply_kws_fields ks' mods0 Hk') as (B1 & B2 & B3 & B4 & B5 & B6 & B7 & B8 & B9).
  apply mods_ext; rewrite ?A1, ?A2, ?A3, ?A4, ?A5, ?A6, ?A7, ?A8, ?A9, ?B1, ?B2, ?B3, ?B4, ?B5, ?B6, ?B7, ?B8, ?B9;
    rewrite ?(has_perm _ _ _ Hp); reflexivity.
Qed.

(* validate: which combinations a declaration kind accepts *)
Theorem validate_spec var_ok meth_ok m :
  validate var_ok meth_ok m =
    (implb (m_mutable m) var_ok) && (implb (m_explicit m || m_virtual m) meth_ok)
    && (implb (m_constexpr m || m_extern m || m_inline m || m_static m) (var_ok || meth_ok)).
Proof.
  destruct m as [c v ce ex il st xp vi mu]; unfold validate; cbn.
  destruct var_ok, meth_ok, ce, ex, il, st, xp, vi, mu; reflexivity.
Qed.

(* the keyword sets the model hard-codes are the regenerated sets of the code
   (Gen/ParserTables.v: _type_kwd_both, _type_kwd_meth, _parse_type_ptr_ref_paren) *)
Definition same_set (a b : list N) : bool :=
  forallb (fun x => memN x b) a && forallb (fun x => memN x a) b.
Definition spec_sets_ok : bool :=
  same_set type_kwd_both [T_const; T_constexpr; T_extern; T_inline; T_static]
  && same_set type_kwd_meth [T_explicit; T_virtual]
  && same_set parse_type_ptr_ref_paren [STAR; AMP; T_DBL_AMP; LP].
Lemma spec_sets_ok_true : spec_sets_ok = true.
Proof. vm_compute. reflexivity. Qed.

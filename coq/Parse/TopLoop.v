(* The dispatch loop of CxxParser.parse and its hand-over of the pending
   documentation text.  The dispatch table and the _keep_doxygen set are the
   regenerated ones (Gen/TopLoop.v); the loop itself is a hand-written mirror
   of the reference loop whose AST the translator compares with the live code
   on every run:

       while True:
           if doxygen is None: doxygen = get_doxygen()
           tok = get_token_eof_ok();  if not tok: break
           fn = table.get(tok.type)
           if fn:  fn(tok, doxygen);  if tok.type not in keep: doxygen = None
           else:   self._parse_declarations(tok, doxygen);  doxygen = None

   A statement is seen through two things: the documentation block in front of
   its first token (what get_doxygen returns if it is asked) and the type of
   that token.  The same loop runs inside namespace, extern and class blocks
   (blocks are state pushes, not recursive calls). *)
From Coq Require Import NArith List Bool Lia.
Import ListNotations.
From CXV Require Import Gen.TokTy Gen.TopLoop Parse.Balanced.
Open Scope N_scope.

Section Loop.
  Variable D : Type.        (* documentation text *)

  Record stmt := mkStmt { s_blk : option D; s_ty : N }.

  Inductive target := THandler (h : N) | TDecl.      (* a table handler | _parse_declarations *)

  Definition dispatch (ty : N) : target :=
    match assocN ty tu_table with Some h => THandler h | None => TDecl end.

  (* does the pending text survive this statement? *)
  Definition kept (s : stmt) : bool :=
    match dispatch (s_ty s) with THandler _ => memN (s_ty s) keep_doxygen | TDecl => false end.

  Definition handed (pending : option D) (s : stmt) : option D :=
    match pending with None => s_blk s | Some _ => pending end.

  (* one iteration: the call made, and the pending text afterwards *)
  Definition iter (pending : option D) (s : stmt) : (target * option D) * option D :=
    ((dispatch (s_ty s), handed pending s), if kept s then handed pending s else None).

  Fixpoint run (pending : option D) (l : list stmt) : list (target * option D) :=
    match l with
    | [] => []
    | s :: r => fst (iter pending s) :: run (snd (iter pending s)) r
    end.

  Fixpoint pend (pending : option D) (l : list stmt) : option D :=
    match l with [] => pending | s :: r => pend (snd (iter pending s)) r end.

  Lemma run_app p l1 l2 : run p (l1 ++ l2) = run p l1 ++ run (pend p l1) l2.
  Proof. revert p. induction l1 as [|s r IH]; intros p; [reflexivity|]. cbn [app run pend]. now rewrite IH. Qed.

  Lemma pend_app p l1 l2 : pend p (l1 ++ l2) = pend (pend p l1) l2.
  Proof. revert p. induction l1 as [|s r IH]; intros p; [reflexivity|]. cbn [app pend]. now rewrite IH. Qed.

  (* one call per statement, in order, to the handler of its first token *)
  Lemma calls_in_order p l : map fst (run p l) = map (fun s => dispatch (s_ty s)) l.
  Proof. revert p. induction l as [|s r IH]; intros p; [reflexivity|]. cbn [run map iter fst]. now rewrite IH. Qed.

  (* after a statement that is not a kept decoration nothing is pending *)
  Lemma pending_reset p l s : kept s = false -> pend p (l ++ [s]) = None.
  Proof. intros H. rewrite pend_app. cbn [pend iter snd]. now rewrite H. Qed.

  (* the text handed to the statement x that follows the statements l *)
  Definition handed_to (p : option D) (l : list stmt) (x : stmt) : option D := handed (pend p l) x.

  Lemma run_nth p l x post : run p (l ++ x :: post) = run p l ++ (dispatch (s_ty x), handed_to p l x) :: run (pend p (l ++ [x])) post.
  Proof. rewrite run_app. cbn [run iter fst snd]. rewrite pend_app. reflexivity. Qed.

  (* the first statement, and every statement behind a declaration, an access specifier, a block boundary or any other
     statement that is not a kept decoration, gets exactly the block in front of it *)
  Lemma handed_first x : handed_to None [] x = s_blk x.
  Proof. reflexivity. Qed.

  Lemma handed_after_reset p l s x : kept s = false -> handed_to p (l ++ [s]) x = s_blk x.
  Proof. intros H. unfold handed_to. now rewrite (pending_reset p l s H). Qed.

  (* behind a kept decoration (an attribute in front of a declaration) the text handed to the decoration is passed on;
     only when there was none does the block in front of the next statement count *)
  Lemma handed_after_kept p l s x : kept s = true ->
    handed_to p (l ++ [s]) x = match handed_to p l s with Some d => Some d | None => s_blk x end.
  Proof.
    intros H. unfold handed_to. rewrite pend_app. cbn [pend iter snd]. rewrite H.
    destruct (handed (pend p l) s); reflexivity.
  Qed.
End Loop.

(* on the regenerated tables *)

(* every kept token type is one of the three decoration handlers *)
Definition keep_are_decorations : bool :=
  forallb (fun ty => match assocN ty tu_table with
                     | Some h => (h =? H_consume_gcc_attribute) || (h =? H_consume_declspec) || (h =? H_consume_attribute_specifier_seq)
                     | None => false
                     end) keep_doxygen.

(* access specifiers, block boundaries, the empty statement and every declaration keyword of the table reset the text *)
Definition boundary_types : list N :=
  [T_public; T_private; T_protected; T_LIT_123; T_LIT_125; T_LIT_59; T_namespace; T_using; T_typedef; T_template; T_extern;
   T_friend; T_inline; T_static_assert; T_INCLUDE_DIRECTIVE; T_PRAGMA_DIRECTIVE].
Definition boundaries_reset : bool :=
  forallb (fun ty => negb (memN ty keep_doxygen) && match assocN ty tu_table with Some _ => true | None => false end) boundary_types.

Lemma keep_are_decorations_true : keep_are_decorations = true.
Proof. vm_compute. reflexivity. Qed.
Lemma boundaries_reset_true : boundaries_reset = true.
Proof. vm_compute. reflexivity. Qed.

(* anything that is not in the table goes to _parse_declarations and resets the text *)
Lemma declaration_resets (D : Type) (s : stmt D) : assocN (s_ty D s) tu_table = None -> kept D s = false.
Proof. intros H. unfold kept, dispatch. now rewrite H. Qed.

Lemma boundary_resets (D : Type) (s : stmt D) : In (s_ty D s) boundary_types -> kept D s = false.
Proof.
  intros Hin. pose proof boundaries_reset_true as H. unfold boundaries_reset in H.
  rewrite forallb_forall in H. specialize (H _ Hin). apply andb_prop in H as [H1 H2].
  unfold kept, dispatch. destruct (assocN (s_ty D s) tu_table); [|discriminate]. now apply negb_true_iff in H1.
Qed.

Lemma toploop_reference : toploop_is_reference = true.
Proof. reflexivity. Qed.

(* Block-state machine of CxxParser: state stack, visitor save/restore/null
   swap, access levels.  The state-manipulating methods are NOT transcribed by
   hand: Gen/Blocks.v lists their statements as effect atoms (regenerated from
   the ASTs on every run) and this file interprets the atom lists. *)
From Coq Require Import NArith List Bool.
Import ListNotations.
From CXV Require Import Gen.Blocks.
Open Scope N_scope.

Inductive kind := KNs | KExtern | KClass.

Definition kind_eqb (a b : kind) : bool :=
  match a, b with KNs, KNs | KExtern, KExtern | KClass, KClass => true | _, _ => false end.

(* a state object; the chain [cur] lists the current state and its ancestors *)
Record frame := mkFrame { fid : N; fkind : kind; fprior : bool; faccess : N }.

(* callbacks delivered to the USER visitor (the null visitor's are dropped) *)
Inductive cb :=
| CbParseStart (id : N)
| CbStart (k : kind) (id parent : N)
| CbEnd (k : kind) (id : N)
| CbItem (c : N) (id : N) (access : N).

Inductive status := Running | ErrRootPop | ErrAccessOutsideClass | ErrStuck.

Record M := mkM {
  cur : list frame;          (* self.state and its parents, innermost first *)
  vis : bool;                (* self.visitor: true = user's, false = null_visitor *)
  nextid : N;
  out : list cb;             (* delivered callbacks, most recent first *)
  r_state : list frame;      (* local `state` (a chain; [] = None) *)
  r_prev : list frame;       (* local `prev_state` / `old_state` *)
  st : status
}.

Definition set_cur m c := mkM c (vis m) (nextid m) (out m) (r_state m) (r_prev m) (st m).
Definition set_vis m v := mkM (cur m) v (nextid m) (out m) (r_state m) (r_prev m) (st m).
Definition set_out m o := mkM (cur m) (vis m) (nextid m) o (r_state m) (r_prev m) (st m).
Definition set_rstate m s := mkM (cur m) (vis m) (nextid m) (out m) s (r_prev m) (st m).
Definition set_rprev m p := mkM (cur m) (vis m) (nextid m) (out m) (r_state m) p (st m).
Definition set_st m s := mkM (cur m) (vis m) (nextid m) (out m) (r_state m) (r_prev m) s.
Definition emit m c := if vis m then set_out m (c :: out m) else m.

Definition parent_id (chain : list frame) : N :=
  match chain with _ :: p :: _ => fid p | _ => 0 end.

Section Interp.
  Variable skip : N -> bool.   (* does the start callback of block [id] return False? *)
  Variable tokval : N.         (* tok.value of an access specifier *)

  Definition start_cb (k : kind) (m : M) : M :=
    match r_state m with
    | f :: _ =>
        if vis m then
          let m' := set_out m (CbStart k (fid f) (parent_id (r_state m)) :: out m) in
          if skip (fid f) then set_vis m' false else m'
        else m                      (* null_visitor.on_*_start returns None *)
    | [] => set_st m ErrStuck
    end.

  Definition exec_prim (a : atom) (m : M) : M :=
    match st m with
    | Running =>
      match a with
      | A_SavePrior =>
          match r_state m with
          | f :: r => set_rstate m (mkFrame (fid f) (fkind f) (vis m) (faccess f) :: r)
          | [] => set_st m ErrStuck
          end
      | A_SetStateNew => set_cur m (r_state m)
      | A_LoadPrev => set_rprev m (cur m)
      | A_Finish =>
          match r_prev m with
          | f :: _ => emit m (CbEnd (fkind f) (fid f))
          | [] => set_st m ErrStuck
          end
      | A_RestoreVisitor =>
          match r_prev m with
          | f :: _ => set_vis m (fprior f)
          | [] => set_st m ErrStuck
          end
      | A_LoadParent => set_rstate m (tl (r_prev m))
      | A_RaiseIfRoot => match r_state m with [] => set_st m ErrRootPop | _ => m end
      | A_SetNsIfNs => m
      | A_ReturnPrev => m
      | A_FinishClassIfClass => m          (* trailing declarators are separate Item events *)
      | A_SetCurrentNs => m
      | A_StartNs => start_cb KNs m
      | A_StartExtern => start_cb KExtern m
      | A_StartClass => start_cb KClass m
      | A_LoadState => set_rstate m (cur m)
      | A_RaiseIfNotClass =>
          match r_state m with
          | f :: _ => if kind_eqb (fkind f) KClass then m else set_st m ErrAccessOutsideClass
          | [] => set_st m ErrStuck
          end
      | A_SetAccess =>
          (* `state` aliases self.state: the update is visible through both *)
          match r_state m, cur m with
          | f :: r, _ :: c =>
              let f' := mkFrame (fid f) (fkind f) (fprior f) tokval in
              set_cur (set_rstate m (f' :: r)) (f' :: c)
          | _, _ => set_st m ErrStuck
          end
      | A_ExpectColon => m
      | A_SetupState | A_PopState => set_st m ErrStuck   (* handled by exec *)
      end
    | _ => m
    end.

  Definition exec (a : atom) (m : M) : M :=
    match a with
    | A_SetupState => fold_left (fun m a => exec_prim a m) atoms_setup_state m
    | A_PopState => fold_left (fun m a => exec_prim a m) atoms_pop_state m
    | _ => exec_prim a m
    end.

  Definition run_atoms (l : list atom) (m : M) : M := fold_left (fun m a => exec a m) l m.
End Interp.

(* block-level events of an input *)
Inductive ev :=
| EvOpen (k : kind) (access0 : N)   (* a block opens; for classes the class-key default access *)
| EvClose
| EvItem (c : N)                    (* a non-block callback of kind c *)
| EvAccess (a : N).                 (* public: / protected: / private: *)

Definition step (skip : N -> bool) (m : M) (e : ev) : M :=
  match st m with
  | Running =>
    match e with
    | EvOpen k a0 =>
        (* state = XBlockState(self.state, ...) *)
        let f := mkFrame (nextid m) k false a0 in
        let m1 := mkM (cur m) (vis m) (nextid m + 1) (out m) (f :: cur m) (r_prev m) (st m) in
        run_atoms skip 0 (match k with KNs => atoms_open_ns | KExtern => atoms_open_extern
                                    | KClass => atoms_open_class end) m1
    | EvClose => run_atoms skip 0 atoms_on_block_end m
    | EvItem c =>
        match cur m with
        | f :: _ => emit m (CbItem c (fid f) (faccess f))
        | [] => set_st m ErrStuck
        end
    | EvAccess a => run_atoms skip a atoms_access m
    end
  | _ => m
  end.

Definition root : frame := mkFrame 0 KNs true 0.
Definition init : M := mkM [root] true 1 [CbParseStart 0] [] [] Running.

Definition run (skip : N -> bool) (evs : list ev) : M := fold_left (step skip) evs init.
Definition stream (m : M) : list cb := rev (out m).

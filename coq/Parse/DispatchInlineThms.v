(* Theorems about the keyword handlers as translated from the code that exists
   now (Gen/Dispatch.v): proved by running the interpreter of
   Parse/DispatchLang.v on the regenerated programs with symbolic remainders. *)
From Coq Require Import NArith List Bool.
Import ListNotations.
From CXV Require Import Gen.TokTy Parse.Balanced Parse.BalancedThms Parse.Declarator Parse.DispatchLang Gen.Dispatch.
Open Scope N_scope.

Ltac concrete t H := destruct t as [? ?]; cbn [kty] in H; subst.

(* inline namespace ... / inline <declaration> *)
Theorem inline_namespace_dispatch kw ns R :
  kty ns = T_namespace ->
  forall ic, run prog_parse_inline ic kw (ns :: R) = OCall F_namespace [RTok (Some ns); RDox] [(3, RBool true)] R.
Proof. intros H ic. concrete ns H. reflexivity. Qed.

Theorem inline_declaration_dispatch kw x R ic :
  kty x <> T_namespace ->
  run prog_parse_inline ic kw (x :: R) = OCall F_declarations [RTok (Some kw); RDox] [] (x :: R).
Proof. intros H. unfold run, prog_parse_inline. cbn. apply N.eqb_neq in H. rewrite H. reflexivity. Qed.

(* typedef: the declaration parser starts at the token behind the keyword, flagged is_typedef *)
Theorem typedef_dispatch kw x R ic :
  run prog_parse_typedef ic kw (x :: R) = OCall F_declarations [RTok (Some x); RDox] [(1, RBool true)] R.
Proof. reflexivity. Qed.


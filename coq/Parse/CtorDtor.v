(* Hand-written mirror of the constructor / destructor detection at the head
   of CxxParser._parse_decl: when a '(' directly follows a named type name, the
   last segment of that name is compared with the name of the class it would
   belong to -- the enclosing class inside a class body, the second-to-last
   segment for an out-of-class definition and for a friend -- and with its
   '~' form.  A segment is seen through its `name` attribute (None for segments
   that have none: anonymous, decltype); the empty name of a leading '::' is
   falsy, as in the code.
   Tied to the code by the differential run of harness/props/c03.py (the real
   _parse_decl with a recording _parse_function) and the digest pin of
   Gen/PinsC03.v. *)
From Coq Require Import NArith Arith List Bool Lia.
Import ListNotations.
Open Scope N_scope.

(* a name: tilde flag and identifier; identifier 0 is the empty string *)
Definition sname := (bool * N)%type.
Definition seg_name := option sname.

Inductive cd_kind := CDNone | CDCtor | CDDtor.

Definition sname_eqb (a b : sname) : bool := Bool.eqb (fst a) (fst b) && (snd a =? snd b).
Definition truthy (a : sname) : bool := fst a || negb (snd a =? 0).
(* f"~{cls_name}" == ret_name *)
Definition tilde_of (c r : sname) : bool := negb (fst c) && fst r && (snd c =? snd r).

Definition nth_back (k : nat) (l : list seg_name) : seg_name :=
  nth k (rev l) None.

Definition ctor_dtor (in_class is_friend is_type : bool) (cls : seg_name) (dsegs : list seg_name) : cd_kind :=
  if (in_class || Nat.ltb 1 (length dsegs)) && is_type then
    let cls_name :=
      if negb in_class then nth_back 1 dsegs
      else if negb is_friend then cls
      else if Nat.leb 2 (length dsegs) then nth_back 1 dsegs else None in
    let ret_name := nth_back 0 dsegs in
    match cls_name with
    | Some c =>
        if truthy c then
          match ret_name with
          | Some r => if sname_eqb c r then CDCtor else if tilde_of c r then CDDtor else CDNone
          | None => CDNone
          end
        else CDNone
    | None => CDNone
    end
  else CDNone.

(* ------------------------------------------------------------------ *)
(* the rules *)

Definition named (n : N) : seg_name := Some (false, n).
Definition tilded (n : N) : seg_name := Some (true, n).

Lemma nth_back0 pre x : nth_back 0 (pre ++ [x]) = x.
Proof. unfold nth_back. rewrite rev_app_distr. reflexivity. Qed.
Lemma nth_back1 pre y x : nth_back 1 (pre ++ [y; x]) = y.
Proof. unfold nth_back. change [y; x] with ([y] ++ [x]). rewrite app_assoc, !rev_app_distr. reflexivity. Qed.

(* inside class C (not a friend): `C(` is a constructor, `~C(` a destructor, whatever qualifies the name *)
Theorem member_ctor c pre : c <> 0 -> ctor_dtor true false true (named c) (pre ++ [named c]) = CDCtor.
Proof.
  intros Hc. unfold ctor_dtor. cbn [orb andb negb]. rewrite nth_back0.
  unfold truthy, named. cbn [fst snd orb]. apply N.eqb_neq in Hc. rewrite Hc. cbn [negb].
  unfold sname_eqb. cbn [fst snd Bool.eqb andb]. now rewrite N.eqb_refl.
Qed.

Theorem member_dtor c pre : c <> 0 -> ctor_dtor true false true (named c) (pre ++ [tilded c]) = CDDtor.
Proof.
  intros Hc. unfold ctor_dtor. cbn [orb andb negb]. rewrite nth_back0.
  unfold truthy, named, tilded. cbn [fst snd orb]. apply N.eqb_neq in Hc. rewrite Hc. cbn [negb].
  unfold sname_eqb, tilde_of. cbn [fst snd Bool.eqb andb negb]. now rewrite N.eqb_refl.
Qed.

(* ... and any other name is an ordinary member *)
Theorem member_other c pre (t : bool) r : (t, r) <> (false, c) -> (t = true -> r <> c) ->
  ctor_dtor true false true (named c) (pre ++ [Some (t, r)]) = CDNone.
Proof.
  intros H1 H2. unfold ctor_dtor. cbn [orb andb negb]. rewrite nth_back0.
  unfold named. destruct (truthy (false, c)); [|reflexivity].
  unfold sname_eqb, tilde_of. cbn [fst snd negb andb].
  destruct t; cbn [Bool.eqb andb].
  - destruct (N.eqb_spec c r) as [->|_]; [exfalso; now apply (H2 eq_refl)|reflexivity].
  - destruct (N.eqb_spec c r) as [->|_]; [exfalso; now apply H1|reflexivity].
Qed.

(* outside a class: `A::B::B(` is a constructor and `A::B::~B(` a destructor definition; an unqualified name never is *)
Theorem out_of_class_ctor c pre : c <> 0 -> ctor_dtor false false true None (pre ++ [named c; named c]) = CDCtor.
Proof.
  intros Hc. unfold ctor_dtor. cbn [orb negb].
  assert (Hl : Nat.ltb 1 (length (pre ++ [named c; named c])) = true).
  { apply Nat.ltb_lt. rewrite app_length. cbn [length]. lia. }
  rewrite Hl. cbn [andb]. rewrite nth_back1. change [named c; named c] with ([named c] ++ [named c]). rewrite app_assoc, nth_back0.
  unfold truthy, named. cbn [fst snd orb]. apply N.eqb_neq in Hc. rewrite Hc. cbn [negb].
  unfold sname_eqb. cbn [fst snd Bool.eqb andb]. now rewrite N.eqb_refl.
Qed.

Theorem out_of_class_dtor c pre : c <> 0 -> ctor_dtor false false true None (pre ++ [named c; tilded c]) = CDDtor.
Proof.
  intros Hc. unfold ctor_dtor. cbn [orb negb].
  assert (Hl : Nat.ltb 1 (length (pre ++ [named c; tilded c])) = true).
  { apply Nat.ltb_lt. rewrite app_length. cbn [length]. lia. }
  rewrite Hl. cbn [andb]. rewrite nth_back1. change [named c; tilded c] with ([named c] ++ [tilded c]). rewrite app_assoc, nth_back0.
  unfold truthy, named, tilded. cbn [fst snd orb]. apply N.eqb_neq in Hc. rewrite Hc. cbn [negb].
  unfold sname_eqb, tilde_of. cbn [fst snd Bool.eqb andb negb]. now rewrite N.eqb_refl.
Qed.

Theorem unqualified_outside_class x cls is_friend : ctor_dtor false is_friend true cls [x] = CDNone.
Proof. reflexivity. Qed.

(* a declarator whose type is not a named name (pointer, reference, ...) is never a constructor *)
Theorem decorated_type_never in_class is_friend cls dsegs : ctor_dtor in_class is_friend false cls dsegs = CDNone.
Proof. unfold ctor_dtor. now rewrite andb_false_r. Qed.

(* a friend declaration inside class H compares with the befriended class, not with H *)
Theorem friend_ctor h c pre : c <> 0 -> ctor_dtor true true true (named h) (pre ++ [named c; named c]) = CDCtor.
Proof.
  intros Hc. unfold ctor_dtor. cbn [orb andb negb].
  assert (Hl : Nat.leb 2 (length (pre ++ [named c; named c])) = true).
  { apply Nat.leb_le. rewrite app_length. cbn [length]. lia. }
  rewrite Hl. rewrite nth_back1. change [named c; named c] with ([named c] ++ [named c]). rewrite app_assoc, nth_back0.
  unfold truthy, named. cbn [fst snd orb]. apply N.eqb_neq in Hc. rewrite Hc. cbn [negb].
  unfold sname_eqb. cbn [fst snd Bool.eqb andb]. now rewrite N.eqb_refl.
Qed.

Theorem friend_unqualified h x : ctor_dtor true true true (named h) [x] = CDNone.
Proof. reflexivity. Qed.

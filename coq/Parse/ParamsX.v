(* The parameter list of a function declaration with everything
   CxxParser._parse_parameter reads for one parameter: the type (base type,
   pointer loop, array suffix), the pack ellipsis, the name, the default value
   (`= expr`, read by _consume_value_until(",", ")")).  The declarator part is
   the model of Parse/Declarator.v (parse_base, cvptr, arrtype), the loop is
   _parse_parameters.  `auto` / concept placeholders, a parenthesised name and
   base types outside the declarator model are outside this model (code 4).
   Tied to the code by the differential run of harness/props/c01.py (the real
   _parse_parameters on the same token lists) and the DeclPin digest. *)
From Coq Require Import NArith Arith List Bool Lia.
Import ListNotations.
From CXV Require Import Gen.TokTy Gen.ParserTables Parse.Balanced Parse.BalancedThms Parse.Declarator Parse.DeclSpec Parse.DeclThms Parse.Using.
Open Scope N_scope.

Record xparam := mkXP { xp_ty : ty; xp_name : option N; xp_pack : bool; xp_default : option (list tk) }.
Definition xterms : list N := [COMMA; RP].

Definition param_x (fuel : nat) (toks : list tk) : dres (xparam * list tk) :=
  if alias_outside toks then DErr 4
  else
    match parse_base toks with
    | DErr e => DErr e
    | DOk (b, r) =>
        match cvptr fuel b r with
        | DErr e => DErr e
        | DOk (d, r1) =>
            if is_fn d then DErr 3
            else
              let '(pack, r2) := match r1 with
                                 | e :: r' => if is T_ELLIPSIS e then (true, r') else (false, r1)
                                 | [] => (false, r1)
                                 end in
              match r2 with
              | p :: _ => if is LP p then DErr 4 else
                  let '(nm, r3) := match r2 with
                                   | t :: r' => if is T_NAME t || is T_final t then (Some (kval t), r') else (None, r2)
                                   | [] => (None, r2)
                                   end in
                  let arr := match r3 with
                             | a :: r' => if is LB a then arrtype fuel d a r' else DOk (d, r3)
                             | [] => DOk (d, r3)
                             end in
                  match arr with
                  | DErr e => DErr e
                  | DOk (d1, r4) =>
                      match r4 with
                      | q :: r' =>
                          if is EQ q then
                            match consume_value_until kty xterms r' with
                            | Ok (v, r5) => DOk (mkXP d1 nm pack (Some v), r5)
                            | ErrEOF => DErr 2
                            | ErrUnexpected _ => DErr 1
                            | ErrInternal => DErr 3
                            end
                          else DOk (mkXP d1 nm pack None, r4)
                      | [] => DOk (mkXP d1 nm pack None, r4)
                      end
                  end
              | [] => DOk (mkXP d None pack None, r2)
              end
        end
    end.

(* convert fn(void) to fn() *)
Definition void_conv_x (ps : list xparam) : list xparam :=
  match ps with
  | [p] => match xp_ty p with TBase 0 _ _ => [] | _ => ps end
  | _ => ps
  end.

Fixpoint ploop_x (n fuel : nat) (acc : list xparam) (toks : list tk) {struct n} : dres (list xparam * bool * list tk) :=
  match n with
  | O => DErr 9
  | S n' =>
      match toks with
      | e :: r1 =>
          if is T_ELLIPSIS e then
            match r1 with
            | c :: r2 => if is RP c then DOk (void_conv_x (rev acc), true, r2) else DErr 1
            | [] => DErr 2
            end
          else
            match param_x fuel toks with
            | DOk (p, r') =>
                match r' with
                | s :: r2 =>
                    if is COMMA s then ploop_x n' fuel (p :: acc) r2
                    else if is RP s then DOk (void_conv_x (rev (p :: acc)), false, r2)
                    else DErr 1
                | [] => DErr 2
                end
            | DErr e' => DErr e'
            end
      | [] => DErr 2
      end
  end.

(* entered after '(' *)
Definition params_x (fuel : nat) (toks : list tk) : dres (list xparam * bool * list tk) :=
  match toks with
  | t :: r => if is RP t then DOk ([], false, r) else ploop_x (S (length toks)) fuel [] toks
  | [] => DErr 2
  end.

(* ------------------------------------------------------------------ *)
(* the printed form: `type-and-declarator [= default]` *)

Definition xp_toks (p : xparam) : list tk :=
  decl_toks (xp_ty p) (xp_name p) ++ match xp_default p with Some v => ktok EQ :: v | None => [] end.

Definition xp_ok (p : xparam) : Prop :=
  DeclSpec.wf (xp_ty p) /\ obj_ty (xp_ty p) /\ xp_pack p = false /\
  match xp_default p with Some v => Expr tk kty xterms v | None => True end.

Fixpoint xps_toks (ps : list xparam) (va : bool) : list tk :=
  match ps with
  | [] => if va then [ktok T_ELLIPSIS] else []
  | [p] => xp_toks p ++ (if va then [ktok COMMA; ktok T_ELLIPSIS] else [])
  | p :: q => xp_toks p ++ ktok COMMA :: xps_toks q va
  end.

(* what may follow the declarator of a parameter here: '=' ',' ')' *)
Definition xfollow (sep : tk) : Prop := is EQ sep = true \/ is COMMA sep = true \/ is RP sep = true.

Lemma xfollow_facts sep R : xfollow sep ->
  stops (sep :: R) = true /\ nolb (sep :: R) = true /\ nocv (sep :: R) = true /\ noqual (sep :: R) = true /\
  is T_ELLIPSIS sep = false /\ is LP sep = false /\ is T_NAME sep = false /\ is T_final sep = false /\ is LB sep = false.
Proof.
  intros H. unfold xfollow, is in H.
  destruct H as [H|[H|H]]; apply N.eqb_eq in H; unfold stops, nolb, nocv, noqual, is; rewrite H; repeat split; reflexivity.
Qed.

Lemma noqual_P_named n : forall ls rest, noqual (P ls [mkTk T_NAME n] ++ rest) = true.
Proof.
  induction ls as [|l r IH]; intros rest; [reflexivity|].
  destruct l as [c v| | |s|ps va]; try reflexivity; cbn [P].
  - destruct (starts_pfx r); [reflexivity|]. cbn [paren]. rewrite <- app_assoc. apply IH.
  - destruct (starts_pfx r); [reflexivity|]. cbn [paren]. rewrite <- app_assoc. apply IH.
Qed.

(* the declarator part of one parameter followed by '=' ',' or ')' *)
Lemma param_x_head t nm sep R : DeclSpec.wf t -> kind_of t <> KFn -> xfollow sep ->
  exists f0, forall f, (f0 <= f)%nat ->
    param_x f (decl_toks t nm ++ sep :: R) =
      if is EQ sep then
        match consume_value_until kty xterms R with
        | Ok (v, r5) => DOk (mkXP t nm false (Some v), r5)
        | ErrEOF => DErr 2
        | ErrUnexpected _ => DErr 1
        | ErrInternal => DErr 3
        end
      else DOk (mkXP t nm false None, sep :: R).
Proof.
  intros Hwf Hk Hsep.
  destruct (xfollow_facts sep R Hsep) as (Hst & Hnl & Hncv & Hnq & He & Hlp & Hnm & Hfin & Hlb).
  destruct (decl_view t nm) as (b & c & v & Ed & Ew).
  destruct (declarator_rt b c v (layers t) nm (sep :: R) (legal_layers t Hwf) (layers_ok t Hwf)
              ltac:(now rewrite kind_layers) Hst Hnl) as (arrs & d & Hsn & Hnf & Hnr & Hw & [f1 H1]).
  rewrite Ew in Hw.
  assert (Hpb : parse_base (decl_toks t nm ++ sep :: R) = DOk (TBase b c v, P (layers t) (name_toks nm) ++ sep :: R)).
  { rewrite Ed, <- app_assoc. apply parse_base_rt. now apply nocv_P. }
  assert (Hout : alias_outside (decl_toks t nm ++ sep :: R) = false).
  { (* the printed base is a plain name *)
    rewrite Ed. unfold alias_outside, base_toks3, name_tok. rewrite <- !app_assoc.
    assert (E : base_cv false false (cvtoks c v ++ [if b =? 0 then ktok T_void else mkTk T_NAME b] ++ P (layers t) (name_toks nm) ++ sep :: R)
                = (c, v, (if b =? 0 then ktok T_void else mkTk T_NAME b) :: P (layers t) (name_toks nm) ++ sep :: R)).
    { destruct c, v; cbn [cvtoks app base_cv]; isc; destruct (b =? 0); isc; reflexivity. }
    rewrite E. destruct (b =? 0); [reflexivity|].
    change (memN (kty (mkTk T_NAME b)) pqname_start_tokens) with true. change (is T_NAME (mkTk T_NAME b)) with true.
    cbn [orb negb andb].
    assert (Hq : noqual (P (layers t) (name_toks nm) ++ sep :: R) = true).
    { destruct nm as [n|].
      - apply noqual_P_named.
      - now apply noqual_P. }
    destruct (P (layers t) (name_toks nm) ++ sep :: R) as [|x xs]; [reflexivity|]. cbn [noqual] in Hq.
    now apply negb_true_iff in Hq. }
  (* after the pointer loop: name, trailing arrays *)
  destruct arrs as [|s r].
  - cbn [map wrap fold_left] in Hw. subst d. cbn [sufs app] in H1.
    exists f1. intros f Hf. unfold param_x. rewrite Hout, Hpb, (H1 f Hf), Hnf.
    destruct nm as [n|]; cbn [name_toks app].
    + isc. cbv beta iota zeta. isc. cbv beta iota zeta. cbn [kval]. rewrite Hlb. destruct (is EQ sep); reflexivity.
    + rewrite He. cbv beta iota zeta. rewrite Hlp, Hnm, Hfin. cbn [orb]. cbv beta iota zeta. rewrite Hlb. destruct (is EQ sep); reflexivity.
  - destruct (arr_tail d (s :: r) (sep :: R) ltac:(discriminate) (Hnr ltac:(discriminate)) Hsn Hnl) as (A & EA & [f2 H2]).
    rewrite Hw in H2.
    exists (Nat.max f1 f2). intros f Hf. unfold param_x. rewrite Hout, Hpb, (H1 f) by lia. rewrite Hnf.
    destruct nm as [n|]; cbn [name_toks app].
    + isc. cbv beta iota zeta. isc. cbv beta iota zeta. cbn [kval]. rewrite EA. isc. rewrite (H2 f) by lia. destruct (is EQ sep); reflexivity.
    + rewrite EA. isc. cbv beta iota zeta. isc. cbv beta iota zeta. isc. rewrite (H2 f) by lia. destruct (is EQ sep); reflexivity.
Qed.

(* one written parameter followed by ',' or ')' *)
Lemma param_x_rt p sep R : xp_ok p -> (is COMMA sep = true \/ is RP sep = true) ->
  ev (fun f => param_x f (xp_toks p ++ sep :: R)) (DOk (p, sep :: R)).
Proof.
  destruct p as [t nm pk df]. unfold xp_ok, xp_toks. cbn [xp_ty xp_name xp_pack xp_default].
  intros (Hwf & [Hk _] & -> & Hdf) Hsep.
  destruct df as [v|].
  - rewrite <- app_assoc. cbn [app].
    destruct (param_x_head t nm (ktok EQ) (v ++ sep :: R) Hwf Hk (or_introl eq_refl)) as [f0 H0].
    exists f0. intros f Hf. rewrite (H0 f Hf). change (is EQ (ktok EQ)) with true. cbn iota.
    rewrite (value_is_whole tk kty xterms v (sep :: R) Hdf); [reflexivity|].
    cbn [stops_at xterms memN]. unfold is in Hsep. destruct Hsep as [H|H]; apply N.eqb_eq in H; rewrite H; reflexivity.
  - rewrite app_nil_r.
    assert (Hx : xfollow sep) by (destruct Hsep; [right; now left|right; now right]).
    destruct (param_x_head t nm sep R Hwf Hk Hx) as [f0 H0].
    exists f0. intros f Hf. rewrite (H0 f Hf).
    assert (He : is EQ sep = false).
    { unfold is in *. destruct Hsep as [H|H]; apply N.eqb_eq in H; rewrite H; reflexivity. }
    now rewrite He.
Qed.

Lemma ploop_x_S n fuel acc toks : ploop_x (S n) fuel acc toks =
      match toks with
      | e :: r1 =>
          if is T_ELLIPSIS e then
            match r1 with
            | c :: r2 => if is RP c then DOk (void_conv_x (rev acc), true, r2) else DErr 1
            | [] => DErr 2
            end
          else
            match param_x fuel toks with
            | DOk (p, r') =>
                match r' with
                | s :: r2 =>
                    if is COMMA s then ploop_x n fuel (p :: acc) r2
                    else if is RP s then DOk (void_conv_x (rev (p :: acc)), false, r2)
                    else DErr 1
                | [] => DErr 2
                end
            | DErr e' => DErr e'
            end
      | [] => DErr 2
      end.
Proof. reflexivity. Qed.

Lemma xp_head p X : exists t0 r0, xp_toks p ++ X = t0 :: r0 /\ is T_ELLIPSIS t0 = false /\ is RP t0 = false.
Proof.
  unfold xp_toks. destruct (decl_head (xp_ty p) (xp_name p)) as (t0 & r0 & E & H1 & H2).
  rewrite <- app_assoc, E. eexists; eexists; split; [reflexivity|split; assumption].
Qed.

Lemma ploop_x_rt : forall ps acc va rest n,
  Forall xp_ok ps -> (ps <> [] \/ va = true) -> (length ps < n)%nat ->
  ev (fun f => ploop_x n f acc (xps_toks ps va ++ ktok RP :: rest)) (DOk (void_conv_x (rev acc ++ ps), va, rest)).
Proof.
  induction ps as [|p q IH]; intros acc va rest n Hok Hne Hn.
  - destruct Hne as [Hne| ->]; [contradiction|].
    destruct n as [|n]; [cbn in Hn; lia|].
    exists 0%nat. intros f _. rewrite ploop_x_S. cbn [xps_toks app]. isc. now rewrite app_nil_r.
  - inversion Hok as [|? ? Hp Hq]; subst.
    destruct n as [|n]; [cbn in Hn; lia|]. cbn [length] in Hn.
    destruct q as [|p2 q'].
    + cbn [xps_toks]. destruct va.
      * (* p, ... ) *)
        rewrite <- app_assoc. cbn [app].
        destruct (param_x_rt p (ktok COMMA) (ktok T_ELLIPSIS :: ktok RP :: rest) Hp (or_introl eq_refl)) as [f0 H0].
        exists f0. intros f Hf. rewrite ploop_x_S.
        destruct (xp_head p (ktok COMMA :: ktok T_ELLIPSIS :: ktok RP :: rest)) as (t0 & r0 & E & He & _).
        rewrite E, He. rewrite <- E. rewrite (H0 f Hf). isc.
        destruct n as [|n]; [lia|]. rewrite ploop_x_S. isc. cbn [rev]. reflexivity.
      * rewrite app_nil_r.
        destruct (param_x_rt p (ktok RP) rest Hp (or_intror eq_refl)) as [f0 H0].
        exists f0. intros f Hf. rewrite ploop_x_S.
        destruct (xp_head p (ktok RP :: rest)) as (t0 & r0 & E & He & _).
        rewrite E, He. rewrite <- E. rewrite (H0 f Hf). isc. cbn [rev]. reflexivity.
    + change (xps_toks (p :: p2 :: q') va) with (xp_toks p ++ ktok COMMA :: xps_toks (p2 :: q') va).
      rewrite <- app_assoc. cbn [app].
      destruct (param_x_rt p (ktok COMMA) (xps_toks (p2 :: q') va ++ ktok RP :: rest) Hp (or_introl eq_refl)) as [f0 H0].
      destruct (IH (p :: acc) va rest n Hq ltac:(left; discriminate) ltac:(cbn [length] in *; lia)) as [f1 H1].
      exists (Nat.max f0 f1). intros f Hf. rewrite ploop_x_S.
      destruct (xp_head p (ktok COMMA :: xps_toks (p2 :: q') va ++ ktok RP :: rest)) as (t0 & r0 & E & He & _).
      rewrite E, He. rewrite <- E. rewrite (H0 f) by lia. isc. rewrite (H1 f) by lia.
      cbn [rev]. now rewrite <- app_assoc.
Qed.

Lemma void_conv_x_id ps : Forall xp_ok ps -> void_conv_x ps = ps.
Proof.
  intros H. destruct ps as [|p q]; [reflexivity|]. destruct q; [|reflexivity].
  inversion H as [|? ? H1 _]; subst. destruct H1 as (_ & [_ Hv] & _). cbn [void_conv_x].
  destruct (xp_ty p) as [[|?] ? ?| | | | |]; try reflexivity. contradiction.
Qed.

Lemma xps_len ps va : (length ps <= length (xps_toks ps va))%nat.
Proof.
  induction ps as [|p q IH]; [cbn; lia|]. destruct q as [|p2 q'].
  - cbn [xps_toks length]. rewrite app_length. destruct (xp_head p []) as (t0 & r0 & E & _). rewrite app_nil_r in E. rewrite E. cbn [length]. lia.
  - change (xps_toks (p :: p2 :: q') va) with (xp_toks p ++ ktok COMMA :: xps_toks (p2 :: q') va).
    rewrite app_length. cbn [length] in *. lia.
Qed.

(* `( T1 a = v1, T2 b, ... )`: every parameter once, in order, with exactly its type, its name and the tokens of its own
   default value (any expression of the token-level grammar), the vararg flag; what follows the ')' is untouched *)
Theorem parameters_with_defaults_roundtrip ps va rest :
  Forall xp_ok ps ->
  ev (fun f => params_x f (xps_toks ps va ++ ktok RP :: rest)) (DOk (ps, va, rest)).
Proof.
  intros Hok.
  destruct ps as [|p q].
  - destruct va.
    + exists 0%nat. intros f _. unfold params_x. cbn [xps_toks app]. isc. cbn [length]. rewrite ploop_x_S. isc. reflexivity.
    + exists 0%nat. intros f _. unfold params_x. cbn [xps_toks app]. isc. reflexivity.
  - destruct (ploop_x_rt (p :: q) [] va rest (S (length (xps_toks (p :: q) va ++ ktok RP :: rest))) Hok ltac:(left; discriminate)) as [f1 H1].
    { rewrite app_length. pose proof (xps_len (p :: q) va). lia. }
    exists f1. intros f Hf. unfold params_x.
    assert (E : exists t0 r0, xps_toks (p :: q) va ++ ktok RP :: rest = t0 :: r0 /\ is RP t0 = false).
    { destruct q as [|p2 q'].
      - cbn [xps_toks]. rewrite <- app_assoc. destruct (xp_head p ((if va then [ktok COMMA; ktok T_ELLIPSIS] else []) ++ ktok RP :: rest)) as (t0 & r0 & E & _ & H).
        exists t0, r0. split; assumption.
      - change (xps_toks (p :: p2 :: q') va) with (xp_toks p ++ ktok COMMA :: xps_toks (p2 :: q') va). rewrite <- app_assoc.
        destruct (xp_head p ((ktok COMMA :: xps_toks (p2 :: q') va) ++ ktok RP :: rest)) as (t0 & r0 & E & _ & H).
        exists t0, r0. split; assumption. }
    destruct E as (t0 & r0 & E & Hrp). rewrite E, Hrp. rewrite <- E. rewrite (H1 f Hf).
    cbn [rev app]. now rewrite (void_conv_x_id _ Hok).
Qed.

Example ex_params_x :
  params_x 30 (xps_toks [mkXP (TPtr (TBase 5 true false) false false) (Some 1) false (Some [mkTk T_NAME 9; ktok LP; ktok RP]);
                         mkXP (TArr (TBase 6 false false) [mkTk 3 2]) (Some 2) false None] true ++ [ktok RP; ktok SEMI])
  = DOk ([mkXP (TPtr (TBase 5 true false) false false) (Some 1) false (Some [mkTk T_NAME 9; ktok LP; ktok RP]);
          mkXP (TArr (TBase 6 false false) [mkTk 3 2]) (Some 2) false None], true, [ktok SEMI]).
Proof. vm_compute. reflexivity. Qed.

(* The declarator round trip: parsing the printed form of a legal type tree
   yields that tree (C02), for the printer that mirrors types.py (C17). *)
From Coq Require Import NArith List Bool Lia Arith.
Import ListNotations.
From CXV Require Import Gen.TokTy Gen.ParserTables Parse.Balanced Parse.BalancedThms Parse.Declarator Parse.DeclSpec.
Open Scope N_scope.

(* [F f = v] for every sufficiently large fuel *)
Definition ev {A} (F : nat -> A) (v : A) : Prop := exists f0, forall f, (f0 <= f)%nat -> F f = v.

Lemma ev_S {A} (F G : nat -> A) v :
  (forall f, G (S f) = F f) -> ev F v -> ev G v.
Proof.
  intros H [f0 H0]. exists (S f0). intros f Hf. destruct f as [|f]; [lia|].
  rewrite H. apply H0. lia.
Qed.

(* ------------------------------------------------------------------ *)
(* one-step unfoldings *)

Lemma cvptr_S f d toks : cvptr (S f) d toks =
  match toks with
  | t :: r =>
      if is STAR t then (if is_ref d then DErr 1 else cvptr f (TPtr d false false) r)
      else if is T_const t then match set_const d with DOk d' => cvptr f d' r | DErr e => DErr e end
      else if is T_volatile t then match set_volatile d with DOk d' => cvptr f d' r | DErr e => DErr e end
      else if is LP t then
        match r with
        | t2 :: _ =>
            if is_pfx_tok t2 then group_k (cvptr f) (arrtype f) (params f) d t r
            else after_k (cvptr f) d toks
        | [] => after_k (cvptr f) d toks
        end
      else after_k (cvptr f) d toks
  | [] => after_k (cvptr f) d toks
  end.
Proof. reflexivity. Qed.

Lemma arrtype_S f d lb toks : arrtype (S f) d lb toks =
  if is_ref d then DErr 1
  else
    lift (consume kty [RB] [lb] toks) (fun grp r' =>
      let size := middle grp in
      match r' with
      | o :: r'' =>
          if is LB o then
            match arrtype f d o r'' with
            | DOk (d1, r1) => DOk (TArr d1 size, r1)
            | DErr e => DErr e
            end
          else DOk (TArr d size, r')
      | [] => DOk (TArr d size, r')
      end).
Proof. reflexivity. Qed.

Lemma params_S f toks : params (S f) toks =
  match toks with
  | t :: r => if is RP t then DOk ([], false, r) else ploop f [] toks
  | [] => DErr 2
  end.
Proof. reflexivity. Qed.

Lemma ploop_S f acc toks : ploop (S f) acc toks =
  match toks with
  | e :: r1 =>
      if is T_ELLIPSIS e then
        match r1 with
        | c :: r2 => if is RP c then DOk (void_conv (rev acc), true, r2) else DErr 1
        | [] => DErr 2
        end
      else
        match param f toks with
        | DOk (p, r1') =>
            match r1' with
            | s :: r2 =>
                if is COMMA s then ploop f (p :: acc) r2
                else if is RP s then DOk (void_conv (rev (p :: acc)), false, r2)
                else DErr 1
            | [] => DErr 2
            end
        | DErr e' => DErr e'
        end
  | [] => DErr 2
  end.
Proof. reflexivity. Qed.

(* ------------------------------------------------------------------ *)
(* token classes *)

Ltac isc :=
  repeat match goal with
  | |- context [is ?a (ktok ?b)] =>
      let e := eval vm_compute in (is a (ktok b)) in change (is a (ktok b)) with e
  | |- context [is ?a (mkTk T_NAME ?n)] =>
      let e := eval vm_compute in (is a (mkTk T_NAME n)) in change (is a (mkTk T_NAME n)) with e
  | |- context [is_pfx_tok (ktok ?b)] =>
      let e := eval vm_compute in (is_pfx_tok (ktok b)) in change (is_pfx_tok (ktok b)) with e
  | |- context [is_pfx_tok (mkTk T_NAME ?n)] =>
      let e := eval vm_compute in (is_pfx_tok (mkTk T_NAME n)) in change (is_pfx_tok (mkTk T_NAME n)) with e
  end; cbn [orb andb negb].



Definition plain (c : N) : bool :=
  negb (memN c end_balanced_tokens) && match assocN c balanced_token_map with None => true | Some _ => false end.

Lemma SN_plain_tok t l : plain (kty t) = true -> SNk l -> SNk (t :: l).
Proof.
  unfold plain. intros H Hl. apply andb_prop in H as [H1 H2]. apply negb_true_iff in H1.
  apply SN_plain; [exact H1| |exact Hl].
  destruct (assocN (kty t) balanced_token_map); [discriminate|reflexivity].
Qed.

Lemma SN_app l1 l2 : SNk l1 -> SNk l2 -> SNk (l1 ++ l2).
Proof.
  intros H1 H2. induction H1 as [|t l Hc Ho Hl IH|t l Ho Hl IH|t l Hg Hl IH|a b c la lb Ho Hc Hb Ha IHa Hlb IHb].
  - exact H2.
  - cbn [app]. apply SN_plain; assumption.
  - cbn [app]. apply SN_lt; assumption.
  - cbn [app]. apply SN_gt; assumption.
  - cbn [app]. rewrite <- app_assoc. cbn [app]. eapply SN_group; eassumption.
Qed.

Lemma SN_paren l : SNk l -> SNk (ktok LP :: l ++ [ktok RP]).
Proof.
  intros H. change (ktok LP :: l ++ [ktok RP]) with (ktok LP :: l ++ ktok RP :: []).
  eapply (SN_group tk kty (ktok LP) (ktok RP) RP); [reflexivity|vm_compute; discriminate|reflexivity|exact H|constructor].
Qed.

Lemma SN_bracket l : SNk l -> SNk (ktok LB :: l ++ [ktok RB]).
Proof.
  intros H. change (ktok LB :: l ++ [ktok RB]) with (ktok LB :: l ++ ktok RB :: []).
  eapply (SN_group tk kty (ktok LB) (ktok RB) RB); [reflexivity|vm_compute; discriminate|reflexivity|exact H|constructor].
Qed.

Lemma SN_cvtoks c v : SNk (cvtoks c v).
Proof. destruct c, v; repeat (apply SN_plain_tok; [reflexivity|]); constructor. Qed.

Lemma SN_paren_if p l : SNk l -> SNk (paren p l).
Proof. destruct p; [apply SN_paren|trivial]. Qed.

(* consuming a printed group *)
Lemma consume_paren lp inner rest :
  kty lp = LP -> SNk inner ->
  consume kty [RP] [lp] (inner ++ ktok RP :: rest) = Ok (lp :: inner ++ [ktok RP], rest).
Proof.
  intros Hlp Hs.
  pose proof (consume_balanced_exact tk kty lp (ktok RP) RP inner rest) as H.
  unfold consume_balanced in H. cbn [map rev app] in H. rewrite Hlp in H.
  apply H; [reflexivity|vm_compute; discriminate|reflexivity|exact Hs].
Qed.

Lemma consume_bracket lb inner rest :
  kty lb = LB -> SNk inner ->
  consume kty [RB] [lb] (inner ++ ktok RB :: rest) = Ok (lb :: inner ++ [ktok RB], rest).
Proof.
  intros Hlb Hs.
  pose proof (consume_balanced_exact tk kty lb (ktok RB) RB inner rest) as H.
  unfold consume_balanced in H. cbn [map rev app] in H. rewrite Hlb in H.
  apply H; [reflexivity|vm_compute; discriminate|reflexivity|exact Hs].
Qed.

Lemma middle_group {A} (a b : A) l : middle (a :: l ++ [b]) = l.
Proof. unfold middle. cbn [tl]. apply removelast_last. Qed.

(* ------------------------------------------------------------------ *)
(* where the pointer loop stops *)

Definition stops (s : list tk) : bool :=
  match s with
  | t :: r => negb (is STAR t || is T_const t || is T_volatile t || is AMP t || is T_DBL_AMP t)
              && (negb (is LP t) || match r with t2 :: _ => negb (is_pfx_tok t2) | [] => true end)
  | [] => true
  end.

Definition lp_head (s : list tk) : bool := match s with t :: _ => is LP t | [] => false end.
Definition nolb (s : list tk) : bool := match s with t :: _ => negb (is LB t) | [] => true end.

Lemma stops_inv t r : stops (t :: r) = true ->
  is STAR t = false /\ is T_const t = false /\ is T_volatile t = false /\
  is AMP t = false /\ is T_DBL_AMP t = false /\
  (is LP t = true -> match r with t2 :: _ => is_pfx_tok t2 = false | [] => True end).
Proof.
  cbn [stops]. intros H. apply andb_prop in H as [H1 H2]. apply negb_true_iff in H1.
  destruct (is STAR t), (is T_const t), (is T_volatile t), (is AMP t), (is T_DBL_AMP t);
    try discriminate H1. repeat split; try reflexivity.
  intros Hlp. rewrite Hlp in H2. cbn [negb orb] in H2.
  destruct r as [|t2 r2]; [exact I|]. now apply negb_true_iff in H2.
Qed.

Lemma after_stops k d s : stops s = true -> after_k k d s = DOk (d, s).
Proof.
  destruct s as [|t r]; [reflexivity|]. intros H.
  destruct (stops_inv t r H) as (_ & _ & _ & Ha & Hd & _).
  unfold after_k. now rewrite Ha, Hd.
Qed.

Lemma cvptr_stops s : stops s = true -> forall f d, cvptr (S f) d s = DOk (d, s).
Proof.
  intros H f d. rewrite cvptr_S. destruct s as [|t r]; [now apply after_stops|].
  destruct (stops_inv t r H) as (Hs & Hc & Hv & _ & _ & Hl).
  rewrite Hs, Hc, Hv.
  destruct (is LP t) eqn:Elp; [|now apply after_stops].
  specialize (Hl eq_refl). destruct r as [|t2 r2]; [now apply after_stops|].
  rewrite Hl. now apply after_stops.
Qed.

Lemma ev_unique {A} (F : nat -> A) v w : ev F v -> ev F w -> v = w.
Proof.
  intros [f1 H1] [f2 H2]. rewrite <- (H1 (Nat.max f1 f2)) by lia. apply H2. lia.
Qed.

Lemma ev_const {A} (v : A) : ev (fun _ => v) v.
Proof. exists 0%nat. reflexivity. Qed.

Lemma ev_stops s d : stops s = true -> ev (fun f => cvptr f d s) (DOk (d, s)).
Proof.
  intros H. exists 1%nat. intros f Hf. destruct f as [|f]; [lia|]. now apply cvptr_stops.
Qed.

(* ------------------------------------------------------------------ *)
(* single steps *)

Lemma step_ptr acc c v X R :
  is_ref acc = false ->
  ev (fun f => cvptr f (TPtr acc c v) X) R ->
  ev (fun f => cvptr f acc (ktok STAR :: cvtoks c v ++ X)) R.
Proof.
  intros Hr H.
  assert (S1 : forall d Y, is_ref d = false ->
            forall f, cvptr (S f) d (ktok STAR :: Y) = cvptr f (TPtr d false false) Y).
  { intros d Y Hd f. rewrite cvptr_S. isc. now rewrite Hd. }
  assert (S2 : forall d cc vv Y f, cvptr (S f) (TPtr d cc vv) (ktok T_const :: Y) = cvptr f (TPtr d true vv) Y).
  { intros. rewrite cvptr_S. isc. reflexivity. }
  assert (S3 : forall d cc vv Y f, cvptr (S f) (TPtr d cc vv) (ktok T_volatile :: Y) = cvptr f (TPtr d cc true) Y).
  { intros. rewrite cvptr_S. isc. reflexivity. }
  destruct c, v; unfold cvtoks; cbn [app].
  - eapply ev_S; [apply (S1 acc _ Hr)|]. eapply ev_S; [apply S2|]. eapply ev_S; [apply S3|]. exact H.
  - eapply ev_S; [apply (S1 acc _ Hr)|]. eapply ev_S; [apply S2|]. exact H.
  - eapply ev_S; [apply (S1 acc _ Hr)|]. eapply ev_S; [apply S3|]. exact H.
  - eapply ev_S; [apply (S1 acc _ Hr)|]. exact H.
Qed.

Lemma step_ref acc (rv : bool) X R :
  is_ref acc = false ->
  ev (fun f => cvptr f (if rv then TRRef acc else TRef acc) X) R ->
  lp_head X || stops X = true ->
  ev (fun f => cvptr f acc (ktok (if rv then T_DBL_AMP else AMP) :: X)) R.
Proof.
  intros Hr H Hx.
  assert (E : forall f, cvptr (S f) acc (ktok (if rv then T_DBL_AMP else AMP) :: X) =
                        match X with
                        | t2 :: _ => if is LP t2 then cvptr f (if rv then TRRef acc else TRef acc) X
                                     else DOk (if rv then TRRef acc else TRef acc, X)
                        | [] => DOk (if rv then TRRef acc else TRef acc, X)
                        end).
  { intros f. rewrite cvptr_S. destruct rv; isc; unfold after_k; isc; rewrite Hr; reflexivity. }
  destruct (lp_head X) eqn:Elp.
  - destruct X as [|t2 X']; [discriminate|]. cbn [lp_head] in Elp.
    eapply ev_S; [|exact H]. intros f. rewrite E. now rewrite Elp.
  - cbn [orb] in Hx.
    assert (R = DOk (if rv then TRRef acc else TRef acc, X)) as ->.
    { eapply ev_unique; [exact H|]. now apply ev_stops. }
    exists 1%nat. intros f Hf. destruct f as [|f]; [lia|]. rewrite E.
    destruct X as [|t2 X']; [reflexivity|]. cbn [lp_head] in Elp. now rewrite Elp.
Qed.

(* the arrays behind a group, outermost first *)
Definition bracket (s : list tk) : list tk := ktok LB :: s ++ [ktok RB].
Fixpoint sufs_o (os : list (list tk)) : list tk :=
  match os with [] => [] | o :: r => bracket o ++ sufs_o r end.

Lemma arr_run : forall os o lb acc rest,
  kty lb = LB -> is_ref acc = false -> SNk o -> Forall SNk os -> nolb rest = true ->
  ev (fun f => arrtype f acc lb (o ++ ktok RB :: sufs_o os ++ rest))
     (DOk (fold_right (fun s d => TArr d s) acc (o :: os), rest)).
Proof.
  induction os as [|o2 os IH]; intros o lb acc rest Hlb Hr Ho Hos Hrest.
  - exists 1%nat. intros f Hf. destruct f as [|f]; [lia|].
    rewrite arrtype_S, Hr. cbn [sufs_o app]. rewrite (consume_bracket lb o rest Hlb Ho).
    cbn [lift]. rewrite middle_group. cbn [fold_right].
    destruct rest as [|t r]; [reflexivity|]. cbn [nolb] in Hrest. apply negb_true_iff in Hrest.
    now rewrite Hrest.
  - inversion Hos as [|? ? Ho2 Hos']; subst.
    destruct (IH o2 (ktok LB) acc rest eq_refl Hr Ho2 Hos' Hrest) as [f0 H0].
    exists (S f0). intros f Hf. destruct f as [|f]; [lia|].
    rewrite arrtype_S, Hr. cbn [sufs_o]. unfold bracket. cbn [app]. rewrite <- !app_assoc. cbn [app].
    rewrite (consume_bracket lb o _ Hlb Ho). cbn [lift]. rewrite middle_group. isc.
    rewrite H0 by lia. reflexivity.
Qed.

(* ------------------------------------------------------------------ *)
(* a grouping parenthesis *)

Definition pfx_head (s : list tk) : bool := match s with t :: _ => is_pfx_tok t | [] => false end.

Lemma step_group acc lp inner rest' d1 r1 d2 r2 :
  kty lp = LP -> pfx_head inner = true -> SNk inner ->
  ev (fun f => behind_k (arrtype f) (params f) acc rest') (DOk (d1, r1)) ->
  ev (fun f => cvptr f d1 (inner ++ r1)) (DOk (d2, r2)) ->
  stops r2 = true ->
  ev (fun f => cvptr f acc (lp :: inner ++ ktok RP :: rest')) (DOk (d2, r2)).
Proof.
  intros Hlp Hp Hs [f1 H1] [f2 H2] Hst.
  exists (S (Nat.max f1 f2)). intros f Hf. destruct f as [|f]; [lia|].
  rewrite cvptr_S.
  assert (Hty : forall c, is c lp = (LP =? c)) by (intros c; unfold is; now rewrite Hlp).
  rewrite !Hty.
  change (LP =? STAR) with false. change (LP =? T_const) with false.
  change (LP =? T_volatile) with false. change (LP =? LP) with true. cbn iota.
  destruct inner as [|t2 inner']; [discriminate|]. cbn [pfx_head] in Hp. cbn [app]. rewrite Hp.
  unfold group_k. change (t2 :: inner' ++ ktok RP :: rest') with ((t2 :: inner') ++ ktok RP :: rest').
  rewrite (consume_paren lp (t2 :: inner') rest' Hlp Hs). cbn [lift].
  rewrite H1 by lia. rewrite middle_group. rewrite H2 by lia. now apply after_stops.
Qed.

Lemma behind_arr acc A d1 r1 :
  is_fn acc = false ->
  ev (fun f => arrtype f acc (ktok LB) A) (DOk (d1, r1)) ->
  ev (fun f => behind_k (arrtype f) (params f) acc (ktok LB :: A)) (DOk (d1, r1)).
Proof.
  intros Hf [f0 H]. exists f0. intros f Hge. unfold behind_k. isc. rewrite Hf. now apply H.
Qed.

Lemma behind_fn acc A ps va r1 :
  is_fn acc = false ->
  ev (fun f => params f A) (DOk (ps, va, r1)) ->
  ev (fun f => behind_k (arrtype f) (params f) acc (ktok LP :: A)) (DOk (TFn acc ps va, r1)).
Proof.
  intros Hf [f0 H]. exists f0. intros f Hge. unfold behind_k. isc. rewrite (H f Hge). now rewrite Hf.
Qed.

(* ------------------------------------------------------------------ *)
(* the layer-level round trip of _parse_cv_ptr_or_fn *)

Definition all_sfx (ls : list layer) : bool := forallb (fun l => negb (is_pfx l)) ls.
Fixpoint mainl (ls : list layer) : list layer :=
  match ls with [] => [] | l :: r => if all_sfx ls then [] else l :: mainl r end.
Fixpoint traill (ls : list layer) : list layer :=
  match ls with [] => [] | l :: r => if all_sfx ls then ls else traill r end.

Definition layer_ok (l : layer) : Prop :=
  match l with
  | LArr s => SNk s
  | LFn ps va => SNk (params_toks ps va) /\
                 forall rest, ev (fun f => params f (params_toks ps va ++ ktok RP :: rest)) (DOk (ps, va, rest))
  | _ => True
  end.

Lemma mainl_all ls : all_sfx ls = true -> mainl ls = [].
Proof. destruct ls; [reflexivity|]. cbn [mainl]. now intros ->. Qed.
Lemma traill_all ls : all_sfx ls = true -> traill ls = ls.
Proof. destruct ls; [reflexivity|]. cbn [traill]. now intros ->. Qed.

Lemma SN_params_toks_of ls : Forall layer_ok ls -> forall core, SNk core -> SNk (P ls core).
Proof.
  induction 1 as [|l ls Hl Hls IH]; intros core Hc; [exact Hc|].
  destruct l as [c v| | |s|ps va]; cbn [P].
  - apply SN_plain_tok; [reflexivity|]. apply SN_app; [apply SN_cvtoks|now apply IH].
  - apply SN_plain_tok; [reflexivity|]. now apply IH.
  - apply SN_plain_tok; [reflexivity|]. now apply IH.
  - apply SN_app; [apply SN_paren_if; now apply IH|]. now apply SN_bracket.
  - apply SN_app; [apply SN_paren_if; now apply IH|]. apply SN_paren. exact (proj1 Hl).
Qed.

Fixpoint lead_arrs (ls : list layer) : list (list tk) :=
  match ls with LArr s :: r => s :: lead_arrs r | _ => [] end.
Fixpoint drop_arrs (ls : list layer) : list layer :=
  match ls with LArr _ :: r => drop_arrs r | _ => ls end.
Fixpoint sufs (arrs : list (list tk)) : list tk :=
  match arrs with [] => [] | s :: r => sufs r ++ bracket s end.

Lemma sufs_rev arrs : sufs arrs = sufs_o (rev arrs).
Proof.
  induction arrs as [|s r IH]; [reflexivity|]. cbn [sufs rev]. rewrite IH.
  clear IH. induction (rev r) as [|o os IH]; cbn [sufs_o app]; [now rewrite app_nil_r|].
  rewrite <- app_assoc. now rewrite IH.
Qed.

Lemma wrap_arrs acc arrs :
  wrap acc (map LArr arrs) = fold_right (fun s d => TArr d s) acc (rev arrs).
Proof.
  unfold wrap. revert acc. induction arrs as [|s r IH]; intros acc; [reflexivity|].
  cbn [map fold_left rev wrap1]. rewrite IH, fold_right_app. reflexivity.
Qed.

Lemma split_arrs ls : ls = map LArr (lead_arrs ls) ++ drop_arrs ls.
Proof. induction ls as [|[| | |s|] r IH]; try reflexivity. cbn [lead_arrs drop_arrs map app]. now rewrite <- IH. Qed.

Lemma drop_arrs_len ls : (length (drop_arrs ls) <= length ls)%nat.
Proof. induction ls as [|[| | |s|] r IH]; cbn [drop_arrs length]; lia. Qed.

Lemma P_arrs s r core :
  P (LArr s :: r) core =
    paren (starts_pfx (drop_arrs r)) (P (drop_arrs r) core) ++ sufs (s :: lead_arrs r).
Proof.
  revert s. induction r as [|l r IH]; intros s; [reflexivity|].
  destruct l as [c v| | |s2|ps va]; try reflexivity.
  cbn [P starts_pfx is_pfx paren] in *. rewrite IH. cbn [drop_arrs lead_arrs sufs].
  unfold bracket. now rewrite <- !app_assoc.
Qed.

(* after arrays only prefixes or further arrays are legal *)
Lemma drop_arrs_legal r : legalL KArr r = true ->
  legalL KArr (drop_arrs r) = true /\ (drop_arrs r = [] \/ starts_pfx (drop_arrs r) = true).
Proof.
  induction r as [|l r IH]; intros H; [split; [reflexivity|now left]|].
  destruct l as [c v| | |s|ps va]; cbn [drop_arrs]; cbn [legalL okl andb kind_after] in H; try discriminate;
    try (split; [exact H|right; reflexivity]).
  now apply IH.
Qed.

Lemma all_sfx_drop r : all_sfx (drop_arrs r) = all_sfx r.
Proof. induction r as [|[| | |s|] r IH]; try reflexivity. cbn [drop_arrs]. rewrite IH. reflexivity. Qed.

Lemma mainl_cons l r : all_sfx (l :: r) = false -> mainl (l :: r) = l :: mainl r.
Proof. cbn [mainl]. now intros ->. Qed.
Lemma traill_cons l r : all_sfx (l :: r) = false -> traill (l :: r) = traill r.
Proof. cbn [traill]. now intros ->. Qed.

Lemma mainl_arrs s r : all_sfx (LArr s :: r) = false ->
  mainl (LArr s :: r) = map LArr (s :: lead_arrs r) ++ mainl (drop_arrs r).
Proof.
  revert s. induction r as [|l r IH]; intros s H; [discriminate|].
  rewrite (mainl_cons _ _ H).
  destruct l as [c v| | |s2|ps va]; try reflexivity.
  assert (H2 : all_sfx (LArr s2 :: r) = false) by exact H.
  rewrite (IH s2 H2). reflexivity.
Qed.

Lemma traill_arrs s r : all_sfx (LArr s :: r) = false -> traill (LArr s :: r) = traill (drop_arrs r).
Proof.
  revert s. induction r as [|l r IH]; intros s H; [discriminate|].
  rewrite (traill_cons _ _ H).
  destruct l as [c v| | |s2|ps va]; try reflexivity.
  assert (H2 : all_sfx (LArr s2 :: r) = false) by exact H.
  exact (IH s2 H2).
Qed.

Lemma Forall_drop_arrs (Q : layer -> Prop) r : Forall Q r -> Forall Q (drop_arrs r).
Proof. induction 1 as [|l r Hl Hr IH]; [constructor|]. destruct l; try (constructor; assumption). exact IH. Qed.

Lemma Forall_lead_arrs r : Forall layer_ok r -> Forall SNk (lead_arrs r).
Proof. induction 1 as [|l r Hl Hr IH]; [constructor|]. destruct l; try constructor; assumption. Qed.

Lemma pfx_head_P ls core rest : starts_pfx ls = true -> pfx_head (P ls core ++ rest) = true.
Proof. destruct ls as [|[c v| | |s|ps va] r]; try discriminate; intros _; reflexivity. Qed.

Lemma not_ref_of_kind acc : kind_of acc <> KRef -> is_ref acc = false.
Proof. destruct acc; cbn; congruence. Qed.
Lemma not_fn_of_kind acc : kind_of acc <> KFn -> is_fn acc = false.
Proof. destruct acc; cbn; congruence. Qed.

Lemma ref_next ls core rest :
  legalL KRef ls = true -> stops (P (traill ls) core ++ rest) = true ->
  lp_head (P ls core ++ rest) || stops (P ls core ++ rest) = true.
Proof.
  intros Hl Hs. destruct ls as [|l r]; [cbn in *; rewrite Hs; apply orb_true_r|].
  destruct l as [c v| | |s|ps va]; try discriminate Hl.
  cbn [legalL okl andb kind_after] in Hl.
  destruct r as [|l2 r2].
  - cbn [traill all_sfx forallb is_pfx negb andb] in Hs. rewrite Hs. apply orb_true_r.
  - destruct l2 as [c v| | |s|ps2 va2]; try discriminate Hl; reflexivity.
Qed.

Lemma pfx_head_P0 ls core : starts_pfx ls = true -> pfx_head (P ls core) = true.
Proof. destruct ls as [|[c v| | |s|ps va] r]; try discriminate; intros _; reflexivity. Qed.

Lemma Forall_rev_SN l : Forall SNk l -> Forall SNk (rev l).
Proof. intros H. apply Forall_forall. intros x Hx. rewrite Forall_forall in H. apply H. now apply in_rev. Qed.

Lemma cvptr_P : forall n ls, (length ls <= n)%nat -> forall acc core rest,
  legalL (kind_of acc) ls = true -> Forall layer_ok ls -> SNk core ->
  stops (P (traill ls) core ++ rest) = true -> nolb rest = true ->
  ev (fun f => cvptr f acc (P ls core ++ rest))
     (DOk (wrap acc (mainl ls), P (traill ls) core ++ rest)).
Proof.
  induction n as [|n IH]; intros ls Hlen acc core rest Hleg Hok Hcore Hst Hnl.
  { destruct ls; [|cbn in Hlen; lia]. cbn. now apply ev_stops. }
  destruct (all_sfx ls) eqn:Eall.
  { rewrite (mainl_all ls Eall). rewrite (traill_all ls Eall) in *. now apply ev_stops. }
  destruct ls as [|l ls']; [discriminate|].
  cbn [length] in Hlen. inversion Hok as [|? ? Hl Hok']; subst.
  cbn [legalL] in Hleg. apply andb_prop in Hleg as [Hokl Hleg'].
  destruct l as [c v| | |s|ps va].
  - (* pointer *)
    rewrite (mainl_cons _ _ Eall). rewrite (traill_cons _ _ Eall) in *.
    cbn [P]. cbn [app]. rewrite <- app_assoc.
    apply step_ptr.
    + apply not_ref_of_kind. intros E. rewrite E in Hokl. discriminate.
    + apply (IH ls' ltac:(lia) (TPtr acc c v) core rest Hleg' Hok' Hcore Hst Hnl).
  - (* lvalue reference *)
    rewrite (mainl_cons _ _ Eall). rewrite (traill_cons _ _ Eall) in *.
    cbn [P app].
    apply (step_ref acc false).
    + apply not_ref_of_kind. intros E. rewrite E in Hokl. discriminate.
    + apply (IH ls' ltac:(lia) (TRef acc) core rest Hleg' Hok' Hcore Hst Hnl).
    + now apply ref_next.
  - (* rvalue reference *)
    rewrite (mainl_cons _ _ Eall). rewrite (traill_cons _ _ Eall) in *.
    cbn [P app].
    apply (step_ref acc true).
    + apply not_ref_of_kind. intros E. rewrite E in Hokl. discriminate.
    + apply (IH ls' ltac:(lia) (TRRef acc) core rest Hleg' Hok' Hcore Hst Hnl).
    + now apply ref_next.
  - (* a run of arrays behind a group *)
    rewrite (mainl_arrs s ls' Eall). rewrite (traill_arrs s ls' Eall) in *. rewrite P_arrs.
    cbn [kind_after] in Hleg'.
    destruct (drop_arrs_legal ls' Hleg') as [Hleg'' Hhead].
    assert (Eall' : all_sfx (drop_arrs ls') = false) by (rewrite all_sfx_drop; exact Eall).
    destruct Hhead as [Hnil|Hpfx]; [rewrite Hnil in Eall'; discriminate|].
    rewrite Hpfx. cbn [paren].
    destruct (rev (s :: lead_arrs ls')) as [|o os] eqn:Erev.
    { apply (f_equal (@length _)) in Erev. rewrite rev_length in Erev. discriminate. }
    assert (Hsn : Forall SNk (o :: os)).
    { rewrite <- Erev. apply Forall_rev_SN. constructor; [exact Hl|now apply Forall_lead_arrs]. }
    inversion Hsn as [|? ? Ho Hos]; subst.
    unfold wrap. rewrite fold_left_app. fold (wrap acc (map LArr (s :: lead_arrs ls'))).
    rewrite wrap_arrs, Erev. rewrite sufs_rev, Erev.
    set (d1 := fold_right (fun s0 d => TArr d s0) acc (o :: os)).
    fold (wrap d1 (mainl (drop_arrs ls'))).
    replace (((ktok LP :: P (drop_arrs ls') core ++ [ktok RP]) ++ sufs_o (o :: os)) ++ rest)
      with (ktok LP :: P (drop_arrs ls') core ++ ktok RP :: ktok LB :: (o ++ ktok RB :: sufs_o os ++ rest)).
    2:{ cbn [sufs_o]. unfold bracket. do 4 (rewrite <- ?app_assoc; cbn [app]). reflexivity. }
    assert (Hnr : is_ref acc = false).
    { apply not_ref_of_kind. intros E. rewrite E in Hokl. discriminate. }
    assert (Hnf : is_fn acc = false).
    { apply not_fn_of_kind. intros E. rewrite E in Hokl. discriminate. }
    eapply (step_group acc (ktok LP) _ _ d1 rest).
    + reflexivity.
    + now apply pfx_head_P0.
    + apply SN_params_toks_of; [now apply Forall_drop_arrs|exact Hcore].
    + apply behind_arr; [exact Hnf|]. now apply arr_run.
    + apply (IH (drop_arrs ls')); try assumption.
      * pose proof (drop_arrs_len ls'). lia.
      * now apply Forall_drop_arrs.
    + exact Hst.
  - (* a parameter list behind a group *)
    assert (Eall' : all_sfx ls' = false) by exact Eall.
    rewrite (mainl_cons _ _ Eall). rewrite (traill_cons _ _ Eall) in *.
    cbn [kind_after] in Hleg'.
    assert (Hpfx : starts_pfx ls' = true).
    { destruct ls' as [|l2 r2]; [discriminate|]. cbn [legalL] in Hleg'.
      apply andb_prop in Hleg' as [H2 _]. destruct l2; try discriminate H2; reflexivity. }
    cbn [P]. rewrite Hpfx. cbn [paren].
    replace (((ktok LP :: P ls' core ++ [ktok RP]) ++ ktok LP :: params_toks ps va ++ [ktok RP]) ++ rest)
      with (ktok LP :: P ls' core ++ ktok RP :: ktok LP :: (params_toks ps va ++ ktok RP :: rest)).
    2:{ do 4 (rewrite <- ?app_assoc; cbn [app]). reflexivity. }
    assert (Hnf : is_fn acc = false).
    { apply not_fn_of_kind. intros E. rewrite E in Hokl. discriminate. }
    destruct Hl as [Hsnp Hprm].
    eapply (step_group acc (ktok LP) _ _ (TFn acc ps va) rest).
    + reflexivity.
    + now apply pfx_head_P0.
    + now apply SN_params_toks_of.
    + apply behind_fn; [exact Hnf|]. apply Hprm.
    + apply (IH ls' ltac:(lia) (TFn acc ps va) core rest Hleg' Hok' Hcore Hst Hnl).
    + exact Hst.
Qed.

(* ------------------------------------------------------------------ *)
(* structure of the part the caller handles *)

Definition kind_end (k : kd) (m : list layer) : kd := fold_left (fun _ l => kind_after l) m k.

Lemma kind_wrap m : forall acc, kind_of (wrap acc m) = kind_end (kind_of acc) m.
Proof.
  unfold wrap, kind_end. induction m as [|l m IH]; intros acc; [reflexivity|].
  cbn [fold_left]. rewrite IH. f_equal. destruct l; reflexivity.
Qed.

Lemma legalL_app a : forall k b, legalL k (a ++ b) = legalL k a && legalL (kind_end k a) b.
Proof.
  induction a as [|l a IH]; intros k b; [reflexivity|].
  cbn [app legalL]. rewrite IH. unfold kind_end. cbn [fold_left]. now rewrite andb_assoc.
Qed.

Lemma main_trail ls : mainl ls ++ traill ls = ls.
Proof.
  induction ls as [|l r IH]; [reflexivity|]. cbn [mainl traill].
  destruct (all_sfx (l :: r)); [reflexivity|]. cbn [app]. now rewrite IH.
Qed.

Lemma trail_arrs : forall ls k, legalL k ls = true -> kind_end k ls <> KFn ->
  exists arrs, traill ls = map LArr arrs.
Proof.
  induction ls as [|l r IH]; intros k Hl Hk; [now exists []|].
  cbn [legalL] in Hl. apply andb_prop in Hl as [Hokl Hl].
  destruct (all_sfx (l :: r)) eqn:E.
  - rewrite (traill_all _ E).
    assert (Er : all_sfx r = true).
    { cbn [all_sfx forallb] in E. apply andb_prop in E as [_ E]. exact E. }
    destruct l as [c v| | |s|ps va]; try discriminate E.
    + destruct (IH (kind_after (LArr s)) Hl Hk) as [arrs Ha].
      rewrite (traill_all _ Er) in Ha. exists (s :: arrs). now rewrite Ha.
    + destruct r as [|l2 r2]; [exfalso; apply Hk; reflexivity|].
      cbn [legalL kind_after] in Hl. apply andb_prop in Hl as [H2 _].
      cbn [all_sfx forallb] in Er. apply andb_prop in Er as [Er _].
      destruct l2; try discriminate H2; discriminate Er.
  - rewrite (traill_cons _ _ E). apply (IH (kind_after l) Hl). exact Hk.
Qed.

Lemma mainl_shape ls : mainl ls = [] \/ exists m l, mainl ls = m ++ [l] /\ is_pfx l = true.
Proof.
  induction ls as [|l r IH]; [now left|].
  cbn [mainl]. destruct (all_sfx (l :: r)) eqn:E; [now left|]. right.
  destruct IH as [H0|(m & l' & Hm & Hp)].
  - exists [], l. rewrite H0. split; [reflexivity|].
    destruct r as [|l2 r2].
    + cbn [all_sfx forallb andb] in E. rewrite andb_true_r in E. now apply negb_false_iff in E.
    + cbn [mainl] in H0. destruct (all_sfx (l2 :: r2)) eqn:E2; [|discriminate].
      change (all_sfx (l :: l2 :: r2)) with (negb (is_pfx l) && all_sfx (l2 :: r2)) in E.
      rewrite E2, andb_true_r in E. now apply negb_false_iff in E.
  - exists (l :: m), l'. rewrite Hm. split; [reflexivity|exact Hp].
Qed.

Lemma main_not_fn acc ls : is_fn acc = false -> is_fn (wrap acc (mainl ls)) = false.
Proof.
  intros Ha. destruct (mainl_shape ls) as [->|(m & l & -> & Hp)]; [exact Ha|].
  unfold wrap. rewrite fold_left_app. cbn [fold_left]. destruct l; try discriminate; reflexivity.
Qed.

Lemma P_only_arrs arrs core : P (map LArr arrs) core = core ++ sufs arrs.
Proof.
  induction arrs as [|s r IH]; [now rewrite app_nil_r|].
  cbn [map P sufs]. rewrite IH.
  assert (E : starts_pfx (map LArr r) = false) by (destruct r; reflexivity).
  rewrite E. cbn [paren]. unfold bracket. now rewrite <- app_assoc.
Qed.

(* ------------------------------------------------------------------ *)
(* base type, follow set *)

Definition name_tok (b : N) : tk := if b =? 0 then ktok T_void else mkTk T_NAME b.
Definition base_toks3 (b : N) (c v : bool) : list tk := cvtoks c v ++ [name_tok b].

Definition nocv (s : list tk) : bool :=
  match s with t :: _ => negb (is T_const t || is T_volatile t) | [] => true end.

Lemma base_cv_stop c v X : nocv X = true -> base_cv c v X = (c, v, X).
Proof.
  destruct X as [|t r]; [reflexivity|]. cbn [nocv base_cv]. intros H.
  apply negb_true_iff in H. apply orb_false_elim in H as [H1 H2]. now rewrite H1, H2.
Qed.

Lemma parse_base_rt b c v X : nocv X = true ->
  parse_base (base_toks3 b c v ++ X) = DOk (TBase b c v, X).
Proof.
  intros HX. unfold parse_base, base_toks3, name_tok.
  assert (E : base_cv false false ((cvtoks c v ++ [if b =? 0 then ktok T_void else mkTk T_NAME b]) ++ X)
              = (c, v, (if b =? 0 then ktok T_void else mkTk T_NAME b) :: X)).
  { destruct c, v; cbn [cvtoks app base_cv]; isc; destruct (b =? 0); isc; reflexivity. }
  rewrite E. destruct (N.eqb_spec b 0) as [->|Hb]; isc; rewrite (base_cv_stop c v X HX).
  - reflexivity.
  - cbn [kval]. reflexivity.
Qed.

Lemma follow_inv t r : follow_ok (t :: r) = true ->
  is STAR t = false /\ is AMP t = false /\ is T_DBL_AMP t = false /\ is T_const t = false /\
  is T_volatile t = false /\ is LP t = false /\ is LB t = false /\ is T_NAME t = false /\
  is T_ELLIPSIS t = false /\ is EQ t = false.
Proof.
  cbn [follow_ok]. intros H. apply negb_true_iff in H.
  destruct (is STAR t), (is AMP t), (is T_DBL_AMP t), (is T_const t), (is T_volatile t),
    (is LP t), (is LB t), (is T_NAME t), (is T_ELLIPSIS t), (is EQ t); try discriminate H.
  repeat split.
Qed.

Lemma follow_stops rest : follow_ok rest = true -> stops rest = true.
Proof.
  destruct rest as [|t r]; [reflexivity|]. intros H.
  destruct (follow_inv t r H) as (H1 & H2 & H3 & H4 & H5 & H6 & _).
  cbn [stops]. now rewrite H1, H2, H3, H4, H5, H6.
Qed.

Lemma follow_nolb rest : follow_ok rest = true -> nolb rest = true.
Proof.
  destruct rest as [|t r]; [reflexivity|]. intros H.
  destruct (follow_inv t r H) as (_ & _ & _ & _ & _ & _ & H7 & _). cbn [nolb]. now rewrite H7.
Qed.

Lemma follow_nocv rest : follow_ok rest = true -> nocv rest = true.
Proof.
  destruct rest as [|t r]; [reflexivity|]. intros H.
  destruct (follow_inv t r H) as (_ & _ & _ & H4 & H5 & _). cbn [nocv]. now rewrite H4, H5.
Qed.

Lemma nocv_P nm : forall ls rest, nocv rest = true -> nocv (P ls (name_toks nm) ++ rest) = true.
Proof.
  induction ls as [|l r IH]; intros rest Hr.
  - destruct nm; [reflexivity|exact Hr].
  - destruct l as [c v| | |s|ps va]; try reflexivity; cbn [P].
    + destruct (starts_pfx r); [reflexivity|]. cbn [paren]. rewrite <- app_assoc. now apply IH.
    + destruct (starts_pfx r); [reflexivity|]. cbn [paren]. rewrite <- app_assoc. now apply IH.
Qed.

Lemma param_S f toks : param (S f) toks =
  match parse_base toks with
  | DErr e => DErr e
  | DOk (b, r) =>
      match cvptr f b r with
      | DErr e => DErr e
      | DOk (d, r1) =>
          if is_fn d then DErr 3
          else
            match r1 with
            | t :: _ =>
                if is T_ELLIPSIS t || is LP t || is EQ t then DErr 4
                else
                  let '(nm, r2) := if is T_NAME t then (Some (kval t), tl r1) else (None, r1) in
                  match r2 with
                  | a :: r3 =>
                      if is LB a then
                        match arrtype f d a r3 with
                        | DOk (d1, r4) =>
                            match r4 with
                            | q :: _ => if is EQ q then DErr 4 else DOk ((d1, nm), r4)
                            | [] => DOk ((d1, nm), r4)
                            end
                        | DErr e => DErr e
                        end
                      else if is EQ a then DErr 4
                      else DOk ((d, nm), r2)
                  | [] => DOk ((d, nm), r2)
                  end
            | [] => DOk ((d, None), r1)
            end
      end
  end.
Proof. reflexivity. Qed.

(* the declarator of an object (not a function): what _parse_cv_ptr returns
   and what is left for the caller *)
Lemma declarator_rt b c v ls nm rest :
  legalL KB ls = true -> Forall layer_ok ls -> kind_end KB ls <> KFn -> stops rest = true -> nolb rest = true ->
  exists arrs d,
    Forall SNk arrs /\ is_fn d = false /\ (arrs <> [] -> is_ref d = false) /\
    wrap d (map LArr arrs) = wrap (TBase b c v) ls /\
    ev (fun f => cvptr f (TBase b c v) (P ls (name_toks nm) ++ rest))
       (DOk (d, name_toks nm ++ sufs arrs ++ rest)).
Proof.
  intros Hleg Hok Hk Hst Hnlb.
  destruct (trail_arrs ls KB Hleg Hk) as [arrs Ha].
  exists arrs, (wrap (TBase b c v) (mainl ls)).
  assert (Hsplit : ls = mainl ls ++ map LArr arrs) by (rewrite <- Ha; symmetry; apply main_trail).
  assert (Hcore : SNk (name_toks nm)).
  { destruct nm; [apply SN_plain_tok; [reflexivity|constructor]|constructor]. }
  repeat split.
  - assert (H : Forall layer_ok (map LArr arrs)).
    { rewrite Hsplit in Hok. apply Forall_app in Hok. exact (proj2 Hok). }
    clear -H. induction arrs as [|s r IH]; [constructor|].
    inversion H; subst. constructor; [assumption|now apply IH].
  - now apply main_not_fn.
  - intros Hne. apply not_ref_of_kind. rewrite kind_wrap. cbn [kind_of].
    rewrite Hsplit, legalL_app in Hleg. apply andb_prop in Hleg as [_ Hleg].
    destruct arrs as [|s r]; [contradiction|]. cbn [map legalL] in Hleg.
    apply andb_prop in Hleg as [Hokl _]. intros E. rewrite E in Hokl. discriminate.
  - unfold wrap. rewrite <- fold_left_app. now rewrite <- Hsplit.
  - pose proof (cvptr_P (length ls) ls (le_n _) (TBase b c v) (name_toks nm) rest Hleg Hok Hcore) as H.
    rewrite Ha, P_only_arrs, <- app_assoc in H. apply H.
    + destruct nm as [n|]; [reflexivity|]. cbn [name_toks app].
      destruct arrs as [|s r]; [cbn [sufs app]; exact Hst|].
      rewrite sufs_rev. destruct (rev (s :: r)) as [|o os] eqn:Erev.
      { apply (f_equal (@length _)) in Erev. rewrite rev_length in Erev. discriminate. }
      reflexivity.
    + exact Hnlb.
Qed.

Lemma arr_tail d arrs rest :
  arrs <> [] -> is_ref d = false -> Forall SNk arrs -> nolb rest = true ->
  exists A, sufs arrs ++ rest = ktok LB :: A /\
            ev (fun f => arrtype f d (ktok LB) A) (DOk (wrap d (map LArr arrs), rest)).
Proof.
  intros Hne Hr Hsn Hnl. rewrite sufs_rev, wrap_arrs.
  destruct (rev arrs) as [|o os] eqn:Erev.
  { apply (f_equal (@length _)) in Erev. rewrite rev_length in Erev. destruct arrs; [contradiction|discriminate]. }
  assert (Hs : Forall SNk (o :: os)) by (rewrite <- Erev; now apply Forall_rev_SN).
  inversion Hs as [|? ? Ho Hos]; subst.
  exists (o ++ ktok RB :: sufs_o os ++ rest). split.
  - cbn [sufs_o]. unfold bracket. do 3 (rewrite <- ?app_assoc; cbn [app]). reflexivity.
  - now apply arr_run.
Qed.

Lemma param_layers b c v ls nm rest :
  legalL KB ls = true -> Forall layer_ok ls -> kind_end KB ls <> KFn -> follow_ok rest = true ->
  ev (fun f => param f (base_toks3 b c v ++ P ls (name_toks nm) ++ rest))
     (DOk ((wrap (TBase b c v) ls, nm), rest)).
Proof.
  intros Hleg Hok Hk Hf.
  destruct (declarator_rt b c v ls nm rest Hleg Hok Hk (follow_stops _ Hf) (follow_nolb _ Hf)) as (arrs & d & Hsn & Hnf & Hnr & Hw & [f1 H1]).
  assert (Hpb : parse_base (base_toks3 b c v ++ P ls (name_toks nm) ++ rest)
                = DOk (TBase b c v, P ls (name_toks nm) ++ rest)).
  { apply parse_base_rt. apply nocv_P. now apply follow_nocv. }
  destruct arrs as [|s r].
  - (* no trailing arrays *)
    cbn [map wrap fold_left] in Hw. subst d. cbn [sufs app] in H1.
    exists (S f1). intros f Hge. destruct f as [|f]; [lia|].
    rewrite param_S, Hpb, H1 by lia. rewrite Hnf.
    destruct nm as [n|]; cbn [name_toks app].
    + isc. cbn [tl kval]. destruct rest as [|t r]; [reflexivity|].
      destruct (follow_inv t r Hf) as (_ & _ & _ & _ & _ & _ & H7 & _ & _ & H10). now rewrite H7, H10.
    + destruct rest as [|t r]; [reflexivity|].
      destruct (follow_inv t r Hf) as (_ & _ & _ & _ & _ & H6 & H7 & H8 & H9 & H10).
      rewrite H9, H6, H10, H8. cbn [orb]. rewrite H7. now rewrite H10.
  - destruct (arr_tail d (s :: r) rest ltac:(discriminate) (Hnr ltac:(discriminate)) Hsn (follow_nolb _ Hf))
      as (A & EA & [f2 H2]).
    rewrite EA in H1. rewrite Hw in H2.
    exists (S (Nat.max f1 f2)). intros f Hge. destruct f as [|f]; [lia|].
    rewrite param_S, Hpb, H1 by lia. rewrite Hnf.
    assert (Hend : match rest with
                   | q :: _ => if is EQ q then DErr 4 else DOk ((wrap (TBase b c v) ls, nm), rest)
                   | [] => DOk ((wrap (TBase b c v) ls, nm), rest)
                   end = DOk ((wrap (TBase b c v) ls, nm), rest)).
    { destruct rest as [|t r']; [reflexivity|].
      destruct (follow_inv t r' Hf) as (_ & _ & _ & _ & _ & _ & _ & _ & _ & H10). now rewrite H10. }
    destruct nm as [n|]; cbn [name_toks app].
    + isc. cbn [tl kval]. isc. rewrite H2 by lia. exact Hend.
    + isc. rewrite H2 by lia. exact Hend.
Qed.

Lemma join_cons2 x y l : join_comma (x :: y :: l) = x ++ ktok COMMA :: join_comma (y :: l).
Proof. reflexivity. Qed.

Lemma var_tail_layers b c v ls n rest :
  legalL KB ls = true -> Forall layer_ok ls -> kind_end KB ls <> KFn -> follow_ok rest = true ->
  ev (fun f => var_tail f (TBase b c v) (P ls [mkTk T_NAME n] ++ rest))
     (DOk (n, wrap (TBase b c v) ls, rest)).
Proof.
  intros Hleg Hok Hk Hf.
  destruct (declarator_rt b c v ls (Some n) rest Hleg Hok Hk (follow_stops _ Hf) (follow_nolb _ Hf)) as (arrs & d & Hsn & Hnf & Hnr & Hw & [f1 H1]).
  cbn [name_toks] in H1.
  destruct arrs as [|s r].
  - cbn [map wrap fold_left] in Hw. subst d. cbn [sufs app] in H1.
    exists f1. intros f Hge. unfold var_tail. rewrite H1 by lia. rewrite Hnf. isc. cbn [kval].
    destruct rest as [|t r]; [reflexivity|].
    destruct (follow_inv t r Hf) as (_ & _ & _ & _ & _ & H6 & H7 & _). now rewrite H7, H6.
  - destruct (arr_tail d (s :: r) rest ltac:(discriminate) (Hnr ltac:(discriminate)) Hsn (follow_nolb _ Hf))
      as (A & EA & [f2 H2]).
    rewrite EA in H1. rewrite Hw in H2.
    exists (Nat.max f1 f2). intros f Hge. unfold var_tail. rewrite H1 by lia. rewrite Hnf. cbn [app]. isc.
    cbn [kval]. rewrite H2 by lia. reflexivity.
Qed.

Definition nolp (s : list tk) : bool := match s with t :: _ => negb (is LP t) | [] => true end.

(* the same with the weaker condition on what follows: an initialiser ('=' or '{') may come next *)
Lemma var_tail_layers_w b c v ls n rest :
  legalL KB ls = true -> Forall layer_ok ls -> kind_end KB ls <> KFn ->
  stops rest = true -> nolb rest = true -> nolp rest = true ->
  ev (fun f => var_tail f (TBase b c v) (P ls [mkTk T_NAME n] ++ rest))
     (DOk (n, wrap (TBase b c v) ls, rest)).
Proof.
  intros Hleg Hok Hk Hst Hnb Hnp.
  destruct (declarator_rt b c v ls (Some n) rest Hleg Hok Hk Hst Hnb) as (arrs & d & Hsn & Hnf & Hnr & Hw & [f1 H1]).
  cbn [name_toks] in H1.
  destruct arrs as [|s r].
  - cbn [map wrap fold_left] in Hw. subst d. cbn [sufs app] in H1.
    exists f1. intros f Hge. unfold var_tail. rewrite H1 by lia. rewrite Hnf. isc. cbn [kval].
    destruct rest as [|t r]; [reflexivity|].
    cbn [nolb] in Hnb. cbn [nolp] in Hnp. apply negb_true_iff in Hnb. apply negb_true_iff in Hnp. now rewrite Hnb, Hnp.
  - destruct (arr_tail d (s :: r) rest ltac:(discriminate) (Hnr ltac:(discriminate)) Hsn Hnb)
      as (A & EA & [f2 H2]).
    rewrite EA in H1. rewrite Hw in H2.
    exists (Nat.max f1 f2). intros f Hge. unfold var_tail. rewrite H1 by lia. rewrite Hnf. cbn [app]. isc.
    cbn [kval]. rewrite H2 by lia. reflexivity.
Qed.

Lemma var_layers b c v ls n rest :
  legalL KB ls = true -> Forall layer_ok ls -> kind_end KB ls <> KFn -> follow_ok rest = true ->
  ev (fun f => parse_var f (base_toks3 b c v ++ P ls [mkTk T_NAME n] ++ rest))
     (DOk (n, wrap (TBase b c v) ls, rest)).
Proof.
  intros Hleg Hok Hk Hf.
  destruct (var_tail_layers b c v ls n rest Hleg Hok Hk Hf) as [f1 H1].
  exists f1. intros f Hge. unfold parse_var.
  rewrite parse_base_rt by (apply (nocv_P (Some n)); now apply follow_nocv).
  now apply H1.
Qed.

(* several declarators after one base type *)
Lemma decl_list_layers b c v : forall items rest,
  items <> [] ->
  Forall (fun it => legalL KB (fst it) = true /\ Forall layer_ok (fst it) /\ kind_end KB (fst it) <> KFn) items ->
  ev (fun f => decl_list (length items) f (TBase b c v)
                 (join_comma (map (fun it => P (fst it) [mkTk T_NAME (snd it)]) items) ++ ktok SEMI :: rest))
     (DOk (map (fun it => (snd it, wrap (TBase b c v) (fst it))) items, rest)).
Proof.
  induction items as [|[ls n] q IH]; intros rest Hne Hall; [contradiction|].
  inversion Hall as [|? ? (Hleg & Hok & Hk) Hq]; subst. cbn [fst snd] in *.
  destruct q as [|it2 q'].
  - cbn [map join_comma length].
    destruct (var_tail_layers b c v ls n (ktok SEMI :: rest) Hleg Hok Hk eq_refl) as [f1 H1].
    exists f1. intros f Hge. cbn [decl_list]. rewrite H1 by lia. isc. reflexivity.
  - cbn [map]. rewrite join_cons2. rewrite <- app_assoc. cbn [app].
    change (P (fst it2) [mkTk T_NAME (snd it2)] :: map (fun it => P (fst it) [mkTk T_NAME (snd it)]) q')
      with (map (fun it => P (fst it) [mkTk T_NAME (snd it)]) (it2 :: q')).
    destruct (IH rest ltac:(discriminate) Hq) as [f2 H2].
    destruct (var_tail_layers b c v ls n
                (ktok COMMA :: join_comma (map (fun it => P (fst it) [mkTk T_NAME (snd it)]) (it2 :: q')) ++ ktok SEMI :: rest)
                Hleg Hok Hk eq_refl) as [f1 H1].
    exists (Nat.max f1 f2). intros f Hge.
    change (length ((ls, n) :: it2 :: q')) with (S (length (it2 :: q'))). cbn [decl_list].
    rewrite H1 by lia. isc. rewrite H2 by lia. reflexivity.
Qed.

(* ------------------------------------------------------------------ *)
(* parameter lists *)

Definition param_rt (p : ty * option N) : Prop :=
  forall rest, follow_ok rest = true ->
    ev (fun f => param f (decl_toks (fst p) (snd p) ++ rest)) (DOk (p, rest)).

Lemma decl_head t nm : exists t0 r0, decl_toks t nm = t0 :: r0 /\ is T_ELLIPSIS t0 = false /\ is RP t0 = false.
Proof.
  unfold decl_toks, base_toks. destruct (base_of t) as [[b c] v].
  destruct c, v; cbn [cvtoks app]; try (eexists; eexists; split; [reflexivity|split; reflexivity]).
  destruct (b =? 0); eexists; eexists; (split; [reflexivity|split; reflexivity]).
Qed.

Lemma ploop_S_param f acc toks :
  (exists t0 r0, toks = t0 :: r0 /\ is T_ELLIPSIS t0 = false) ->
  ploop (S f) acc toks =
    match param f toks with
    | DOk (p, r1') =>
        match r1' with
        | s :: r2 =>
            if is COMMA s then ploop f (p :: acc) r2
            else if is RP s then DOk (void_conv (rev (p :: acc)), false, r2)
            else DErr 1
        | [] => DErr 2
        end
    | DErr e' => DErr e'
    end.
Proof. intros (t0 & r0 & -> & H). rewrite ploop_S. now rewrite H. Qed.

Lemma ploop_rt : forall ps acc va rest,
  Forall param_rt ps -> (ps <> [] \/ va = true) ->
  ev (fun f => ploop f acc (params_toks ps va ++ ktok RP :: rest))
     (DOk (void_conv (rev acc ++ ps), va, rest)).
Proof.
  induction ps as [|p q IH]; intros acc va rest Hps Hne.
  - destruct Hne as [Hne| ->]; [contradiction|].
    exists 1%nat. intros f Hf. destruct f as [|f]; [lia|].
    rewrite ploop_S. unfold params_toks. cbn [map app va_toks join_comma]. isc.
    now rewrite app_nil_r.
  - inversion Hps as [|? ? Hp Hq]; subst.
    destruct (decl_head (fst p) (snd p)) as (t0 & r0 & Eh & Hell & _).
    unfold params_toks. cbn [map app].
    destruct (map (fun p0 => decl_toks (fst p0) (snd p0)) q ++ va_toks va) as [|y l] eqn:Etl.
    + (* last parameter, no vararg *)
      assert (q = [] /\ va = false) as [-> ->].
      { destruct q; [|discriminate]. destruct va; [discriminate|]. now split. }
      cbn [join_comma].
      destruct (Hp (ktok RP :: rest) eq_refl) as [f1 H1].
      exists (S f1). intros f Hf. destruct f as [|f]; [lia|].
      rewrite ploop_S_param.
      2:{ exists t0, (r0 ++ ktok RP :: rest). rewrite Eh. split; [reflexivity|exact Hell]. }
      rewrite H1 by lia. isc. cbn [rev]. reflexivity.
    + rewrite join_cons2. rewrite <- Etl. fold (params_toks q va).
      assert (Hne' : q <> [] \/ va = true).
      { destruct q; [right|left; discriminate]. destruct va; [reflexivity|discriminate]. }
      destruct (IH (p :: acc) va rest Hq Hne') as [f2 H2].
      destruct (Hp (ktok COMMA :: params_toks q va ++ ktok RP :: rest) eq_refl) as [f1 H1].
      exists (S (Nat.max f1 f2)). intros f Hf. destruct f as [|f]; [lia|].
      rewrite <- app_assoc. cbn [app].
      rewrite ploop_S_param.
      2:{ exists t0, (r0 ++ ktok COMMA :: params_toks q va ++ ktok RP :: rest). rewrite Eh. split; [reflexivity|exact Hell]. }
      rewrite H1 by lia. isc. rewrite H2 by lia.
      cbn [rev]. now rewrite <- app_assoc.
Qed.

Lemma void_conv_id ps : Forall (fun p => not_lone_void (fst p)) ps -> void_conv ps = ps.
Proof.
  intros H. destruct ps as [|[t nm] q]; [reflexivity|]. destruct q; [|destruct t as [[|?] ? ?| | | | |]; reflexivity].
  inversion H as [|? ? H1 _]; subst. cbn [fst] in H1.
  destruct t as [[|?] ? ?| | | | |]; try reflexivity. contradiction.
Qed.

Lemma params_rt ps va rest :
  Forall param_rt ps -> Forall (fun p => not_lone_void (fst p)) ps ->
  ev (fun f => params f (params_toks ps va ++ ktok RP :: rest)) (DOk (ps, va, rest)).
Proof.
  intros Hps Hnv.
  destruct ps as [|p q].
  - destruct va.
    + destruct (ploop_rt [] [] true rest Hps (or_intror eq_refl)) as [f1 H1].
      exists (S f1). intros f Hf. destruct f as [|f]; [lia|].
      rewrite params_S. unfold params_toks in *. cbn [map app va_toks join_comma] in *. isc.
      rewrite H1 by lia. reflexivity.
    + exists 1%nat. intros f Hf. destruct f as [|f]; [lia|].
      rewrite params_S. unfold params_toks. cbn [map app va_toks join_comma]. isc. reflexivity.
  - assert (Hne : p :: q <> [] \/ va = true) by (left; discriminate).
    destruct (ploop_rt (p :: q) [] va rest Hps Hne) as [f1 H1].
    exists (S f1). intros f Hf. destruct f as [|f]; [lia|].
    rewrite params_S.
    destruct (decl_head (fst p) (snd p)) as (t0 & r0 & Eh & _ & Hrp).
    assert (E : exists r1, params_toks (p :: q) va ++ ktok RP :: rest = t0 :: r1).
    { unfold params_toks. cbn [map app].
      destruct (map (fun p0 => decl_toks (fst p0) (snd p0)) q ++ va_toks va) as [|y l].
      - cbn [join_comma]. rewrite Eh. eexists. reflexivity.
      - rewrite join_cons2, Eh. eexists. reflexivity. }
    destruct E as [r1 E]. rewrite E, Hrp. rewrite <- E. rewrite H1 by lia.
    cbn [rev app]. now rewrite (void_conv_id _ Hnv).
Qed.

(* ------------------------------------------------------------------ *)
(* from layers to type trees *)

Lemma kind_layers t : kind_end KB (layers t) = kind_of t.
Proof.
  rewrite <- (wrap_layers t) at 2. rewrite kind_wrap. f_equal.
  unfold base_ty. destruct (base_of t) as [[b c] v]. reflexivity.
Qed.

Lemma legal_layers t : wf t -> legalL KB (layers t) = true.
Proof.
  induction t as [b c v|t c v IH|t IH|t IH|t s IH|r ps va IH _] using ty_ind'; intros H.
  - reflexivity.
  - destruct H as [H Hk]. cbn [layers]. rewrite legalL_app, (IH H), kind_layers. cbn.
    destruct (kind_of t); try reflexivity. contradiction.
  - destruct H as [H Hk]. cbn [layers]. rewrite legalL_app, (IH H), kind_layers. cbn.
    destruct (kind_of t); try reflexivity. contradiction.
  - destruct H as [H Hk]. cbn [layers]. rewrite legalL_app, (IH H), kind_layers. cbn.
    destruct (kind_of t); try reflexivity. contradiction.
  - destruct H as (H & Hk & _). cbn [layers]. rewrite legalL_app, (IH H), kind_layers. cbn.
    destruct Hk as [-> | ->]; reflexivity.
  - apply wf_fn in H. destruct H as (H & Hk & _). cbn [layers]. rewrite legalL_app, (IH H), kind_layers. cbn.
    destruct Hk as [-> | ->]; reflexivity.
Qed.

Lemma decl_toks_layers t nm :
  decl_toks t nm = (let '(b, c, v) := base_of t in base_toks3 b c v) ++ P (layers t) (name_toks nm).
Proof.
  unfold decl_toks, base_toks, base_toks3, name_tok. rewrite D_is_P.
  destruct (base_of t) as [[b c] v]. reflexivity.
Qed.

Lemma SN_base3 b c v : SNk (base_toks3 b c v).
Proof.
  unfold base_toks3, name_tok. apply SN_app; [apply SN_cvtoks|].
  destruct (b =? 0); apply SN_plain_tok; try reflexivity; constructor.
Qed.

Lemma SN_join l : Forall SNk l -> SNk (join_comma l).
Proof.
  induction 1 as [|x l Hx Hl IH]; [constructor|].
  destruct l as [|y l']; [exact Hx|]. rewrite join_cons2.
  apply SN_app; [exact Hx|]. apply SN_plain_tok; [reflexivity|exact IH].
Qed.

Lemma decl_view t nm : exists b c v,
  decl_toks t nm = base_toks3 b c v ++ P (layers t) (name_toks nm) /\
  wrap (TBase b c v) (layers t) = t.
Proof.
  pose proof (wrap_layers t) as Hw. pose proof (decl_toks_layers t nm) as Hd.
  unfold base_ty in Hw. destruct (base_of t) as [[b c] v]. now exists b, c, v.
Qed.

Lemma param_of_layers t nm rest :
  wf t -> kind_of t <> KFn -> Forall layer_ok (layers t) -> follow_ok rest = true ->
  ev (fun f => param f (decl_toks t nm ++ rest)) (DOk ((t, nm), rest)).
Proof.
  intros Hwf Hk Hok Hf. destruct (decl_view t nm) as (b & c & v & Ed & Ew).
  pose proof (param_layers b c v (layers t) nm rest (legal_layers t Hwf) Hok
                ltac:(now rewrite kind_layers) Hf) as HH.
  rewrite Ew in HH. rewrite Ed, <- app_assoc. exact HH.
Qed.

(* every layer of a well-formed type satisfies the hypotheses of cvptr_P, and
   parameters of that type round-trip *)
Lemma layers_ok t : wf t -> Forall layer_ok (layers t).
Proof.
  induction t as [b c v|t c v IH|t IH|t IH|t s IH|r ps va IH IHps] using ty_ind'; intros H.
  - constructor.
  - destruct H as [H _]. cbn [layers]. apply Forall_app. split; [now apply IH|repeat constructor].
  - destruct H as [H _]. cbn [layers]. apply Forall_app. split; [now apply IH|repeat constructor].
  - destruct H as [H _]. cbn [layers]. apply Forall_app. split; [now apply IH|repeat constructor].
  - destruct H as (H & _ & Hs). cbn [layers]. apply Forall_app. split; [now apply IH|].
    constructor; [exact Hs|constructor].
  - apply wf_fn in H. destruct H as (H & _ & Hps). cbn [layers]. apply Forall_app. split; [now apply IH|].
    constructor; [|constructor].
    rewrite Forall_forall in Hps, IHps.
    assert (Hrt : Forall param_rt ps).
    { apply Forall_forall. intros [p nm] Hin rest Hf. cbn [fst snd].
      destruct (Hps _ Hin) as [Hwf [Hnf _]]. cbn [fst] in *.
      apply param_of_layers; try assumption. exact (IHps _ Hin Hwf). }
    assert (Hnv : Forall (fun p => not_lone_void (fst p)) ps).
    { apply Forall_forall. intros p Hin. exact (proj2 (proj2 (Hps _ Hin))). }
    split.
    + unfold params_toks. apply SN_join. apply Forall_app. split.
      * apply Forall_forall. intros x Hx. apply in_map_iff in Hx as ([p nm] & <- & Hin).
        cbn [fst snd]. destruct (Hps _ Hin) as [Hwf _]. cbn [fst] in Hwf.
        destruct (decl_view p nm) as (b & c & v & Ed & _). rewrite Ed.
        apply SN_app; [apply SN_base3|].
        apply SN_params_toks_of; [exact (IHps _ Hin Hwf)|].
        destruct nm; [apply SN_plain_tok; [reflexivity|constructor]|constructor].
      * destruct va; repeat constructor.
    + intros rest. now apply params_rt.
Qed.

Theorem var_roundtrip t n rest :
  wf t -> obj_ty t -> follow_ok rest = true ->
  ev (fun f => parse_var f (decl_toks t (Some n) ++ rest)) (DOk (n, t, rest)).
Proof.
  intros Hwf [Hk _] Hf. destruct (decl_view t (Some n)) as (b & c & v & Ed & Ew).
  pose proof (var_layers b c v (layers t) n rest (legal_layers t Hwf) (layers_ok t Hwf)
                ltac:(now rewrite kind_layers) Hf) as HH.
  rewrite Ew in HH. rewrite Ed, <- app_assoc. exact HH.
Qed.

(* `T d1, d2, ..., dn;` : one entry per declarator, in source order, each with
   its own type built on the shared base type *)
Theorem decls_roundtrip b c v (ts : list (ty * N)) rest :
  ts <> [] ->
  Forall (fun p => wf (fst p) /\ obj_ty (fst p) /\ base_of (fst p) = (b, c, v)) ts ->
  ev (fun f => parse_decls (length ts) f
                 (base_toks3 b c v ++ join_comma (map (fun p => D (fst p) [mkTk T_NAME (snd p)] false) ts) ++ ktok SEMI :: rest))
     (DOk (map (fun p => (snd p, fst p)) ts, rest)).
Proof.
  intros Hne Hall.
  pose (items := map (fun p => (layers (fst p), snd p)) ts).
  assert (Hi : Forall (fun it => legalL KB (fst it) = true /\ Forall layer_ok (fst it) /\ kind_end KB (fst it) <> KFn) items).
  { unfold items. apply Forall_forall. intros it Hin. apply in_map_iff in Hin as ([t n] & <- & Hin).
    rewrite Forall_forall in Hall. destruct (Hall _ Hin) as (Hwf & [Hk _] & _). cbn [fst snd] in *.
    split; [now apply legal_layers|split; [now apply layers_ok|now rewrite kind_layers]]. }
  assert (Hne' : items <> []) by (unfold items; destruct ts; [contradiction|discriminate]).
  destruct (decl_list_layers b c v items rest Hne' Hi) as [f1 H1].
  assert (E1 : map (fun it => P (fst it) [mkTk T_NAME (snd it)]) items
               = map (fun p => D (fst p) [mkTk T_NAME (snd p)] false) ts).
  { unfold items. rewrite map_map. apply map_ext. intros [t n]. cbn [fst snd]. now rewrite D_is_P. }
  assert (E2 : map (fun it => (snd it, wrap (TBase b c v) (fst it))) items = map (fun p => (snd p, fst p)) ts).
  { unfold items. rewrite map_map. apply map_ext_in. intros [t n] Hin. cbn [fst snd].
    rewrite Forall_forall in Hall. destruct (Hall _ Hin) as (_ & _ & Hb). cbn [fst] in Hb.
    pose proof (wrap_layers t) as Hw. unfold base_ty in Hw. rewrite Hb in Hw. now rewrite Hw. }
  assert (E3 : length items = length ts) by (unfold items; now rewrite map_length).
  rewrite E1, E2, E3 in H1.
  exists f1. intros f Hge. unfold parse_decls.
  rewrite parse_base_rt.
  - now apply H1.
  - destruct ts as [|[t n] q]; [contradiction|]. cbn [map fst snd].
    rewrite D_is_P.
    destruct (map (fun p => D (fst p) [mkTk T_NAME (snd p)] false) q) as [|y l].
    + cbn [join_comma]. apply (nocv_P (Some n)). reflexivity.
    + rewrite join_cons2, <- app_assoc. apply (nocv_P (Some n)). reflexivity.
Qed.

Theorem param_roundtrip t nm rest :
  wf t -> kind_of t <> KFn -> follow_ok rest = true ->
  ev (fun f => param f (decl_toks t nm ++ rest)) (DOk ((t, nm), rest)).
Proof.
  intros Hwf Hk Hf. apply param_of_layers; try assumption. now apply layers_ok.
Qed.

Theorem params_roundtrip ps va rest :
  Forall (fun p => wf (fst p) /\ obj_ty (fst p)) ps ->
  ev (fun f => params f (params_toks ps va ++ ktok RP :: rest)) (DOk (ps, va, rest)).
Proof.
  intros H. apply params_rt.
  - rewrite Forall_forall in *. intros [p nm] Hin rest' Hf. destruct (H _ Hin) as [Hwf [Hk _]].
    now apply param_roundtrip.
  - rewrite Forall_forall in *. intros p Hin. exact (proj2 (proj2 (H _ Hin))).
Qed.

(* non-vacuity: int ( * const ( & x ) [ 3 ] ) ( Foo a , ... ), a reference to an
   array of const pointers to functions *)
Example ex_ty : ty :=
  TRef (TArr (TPtr (TFn (TBase 5 false false) [(TBase 6 true false, Some 7)] true) true false) [mkTk 3 9]).
Example ex_wf : wf ex_ty /\ obj_ty ex_ty.
Proof.
  cbn. repeat split; try discriminate; auto.
  apply SN_plain_tok; [reflexivity|constructor].
Qed.
Example ex_runs :
  parse_var 40 (decl_toks ex_ty (Some 1) ++ [ktok SEMI]) = DOk (1, ex_ty, [ktok SEMI]).
Proof. vm_compute. reflexivity. Qed.

(* ------------------------------------------------------------------ *)
(* function declarations: return type, name, parameters, vararg *)

Lemma fn_tail_split p v : forall ls,
  (ls = [] \/ exists m l, ls = m ++ [l] /\ is_pfx l = true) ->
  traill (ls ++ [LFn p v]) = [LFn p v] /\ mainl (ls ++ [LFn p v]) = ls.
Proof.
  induction ls as [|l r IH]; intros Hlast.
  - split; reflexivity.
  - assert (E : all_sfx ((l :: r) ++ [LFn p v]) = false).
    { destruct Hlast as [Hn|(m & l' & Hm & Hp)]; [discriminate|].
      rewrite Hm. unfold all_sfx. rewrite <- app_assoc. rewrite forallb_app. cbn [app forallb].
      rewrite Hp. cbn [negb andb]. now rewrite andb_false_r. }
    cbn [app] in *. rewrite (traill_cons _ _ E), (mainl_cons _ _ E).
    assert (Hlast' : r = [] \/ exists m l', r = m ++ [l'] /\ is_pfx l' = true).
    { destruct Hlast as [Hn|(m & l' & Hm & Hp)]; [discriminate|].
      destruct m as [|x m'].
      - left. cbn [app] in Hm. now inversion Hm.
      - right. exists m', l'. cbn [app] in Hm. inversion Hm; subst. now split. }
    destruct (IH Hlast') as [A B].
    split; [exact A|now rewrite B].
Qed.

Lemma last_pfx_of_kind ls k :
  (kind_end k ls = KB \/ kind_end k ls = KRef) ->
  ls = [] \/ exists m l, ls = m ++ [l] /\ is_pfx l = true.
Proof.
  destruct ls as [|a ls'] using rev_ind; intros Hk; [now left|]. right.
  exists ls', a. split; [reflexivity|].
  unfold kind_end in Hk. rewrite fold_left_app in Hk. cbn [fold_left] in Hk.
  destruct a; cbn [kind_after] in Hk; try reflexivity; destruct Hk; discriminate.
Qed.

Lemma nocv_P_named n : forall ls rest, nocv (P ls [mkTk T_NAME n] ++ rest) = true.
Proof.
  induction ls as [|l r IH]; intros rest; [reflexivity|].
  destruct l as [c v| | |s|ps va]; try reflexivity; cbn [P].
  - destruct (starts_pfx r); [reflexivity|]. cbn [paren]. rewrite <- app_assoc. apply IH.
  - destruct (starts_pfx r); [reflexivity|]. cbn [paren]. rewrite <- app_assoc. apply IH.
Qed.

Theorem fn_roundtrip rt ps va n rest :
  wf (TFn rt ps va) -> nolb rest = true ->
  ev (fun f => fn_decl f (decl_toks (TFn rt ps va) (Some n) ++ rest)) (DOk (n, rt, ps, va, rest)).
Proof.
  intros Hwf Hnl.
  pose proof (legal_layers _ Hwf) as Hleg. pose proof (layers_ok _ Hwf) as Hok.
  destruct (decl_view (TFn rt ps va) (Some n)) as (b & c & v & Ed & Ew).
  cbn [layers] in *.
  apply wf_fn in Hwf. destruct Hwf as (Hwr & Hkr & Hps).
  assert (Hk : kind_end KB (layers rt) = KB \/ kind_end KB (layers rt) = KRef) by (now rewrite kind_layers).
  destruct (fn_tail_split ps va (layers rt) (last_pfx_of_kind _ _ Hk)) as [Et Em].
  assert (Hcore : SNk [mkTk T_NAME n]) by (apply SN_plain_tok; [reflexivity|constructor]).
  pose proof (cvptr_P _ (layers rt ++ [LFn ps va]) (le_n _) (TBase b c v) [mkTk T_NAME n] rest Hleg Hok Hcore) as Hcv.
  rewrite Et, Em in Hcv. specialize (Hcv eq_refl Hnl). destruct Hcv as [f1 H1].
  assert (Hl : layer_ok (LFn ps va)).
  { apply Forall_app in Hok. destruct Hok as [_ H]. now inversion H. }
  destruct Hl as [_ Hprm]. destruct (Hprm rest) as [f2 H2].
  assert (Hw : wrap (TBase b c v) (layers rt) = rt).
  { unfold wrap in Ew |- *. rewrite fold_left_app in Ew. cbn [fold_left wrap1] in Ew. congruence. }
  assert (Hnf : is_fn rt = false) by (destruct rt; cbn in *; try reflexivity; destruct Hkr; discriminate).
  exists (Nat.max f1 f2). intros f Hge. unfold fn_decl.
  rewrite Ed, <- app_assoc. cbn [name_toks].
  rewrite parse_base_rt by apply nocv_P_named.
  rewrite H1 by lia. rewrite Hw, Hnf. cbn [P starts_pfx paren app]. isc. cbn [kval].
  rewrite <- app_assoc. cbn [app]. rewrite H2 by lia. reflexivity.
Qed.

(* ------------------------------------------------------------------ *)
(* alias-declarations *)

Theorem alias_roundtrip t rest :
  wf t -> kind_of t <> KFn -> follow_ok rest = true ->
  ev (fun f => alias_type f (decl_toks t None ++ rest)) (DOk (t, rest)).
Proof.
  intros Hwf Hk Hf. destruct (decl_view t None) as (b & c & v & Ed & Ew).
  destruct (declarator_rt b c v (layers t) None rest (legal_layers t Hwf) (layers_ok t Hwf)
              ltac:(now rewrite kind_layers) (follow_stops _ Hf) (follow_nolb _ Hf)) as (arrs & d & Hsn & Hnf & Hnr & Hw & [f1 H1]).
  cbn [name_toks app] in H1. rewrite Ew in Hw.
  assert (Hpb : parse_base (base_toks3 b c v ++ P (layers t) (name_toks None) ++ rest)
                = DOk (TBase b c v, P (layers t) (name_toks None) ++ rest)).
  { apply parse_base_rt. apply nocv_P. now apply follow_nocv. }
  destruct arrs as [|s r].
  - cbn [map wrap fold_left] in Hw. subst d. cbn [sufs app] in H1.
    exists f1. intros f Hge. unfold alias_type. rewrite Ed, <- app_assoc, Hpb, H1 by lia. rewrite Hnf.
    destruct rest as [|x r]; [reflexivity|].
    destruct (follow_inv x r Hf) as (_ & _ & _ & _ & _ & _ & H7 & _). now rewrite H7.
  - destruct (arr_tail d (s :: r) rest ltac:(discriminate) (Hnr ltac:(discriminate)) Hsn (follow_nolb _ Hf))
      as (A & EA & [f2 H2]).
    rewrite EA in H1. rewrite Hw in H2.
    exists (Nat.max f1 f2). intros f Hge. unfold alias_type. rewrite Ed, <- app_assoc, Hpb, H1 by lia. rewrite Hnf.
    isc. now rewrite H2 by lia.
Qed.

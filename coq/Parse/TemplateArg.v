(* Template arguments: the pointer / cv / group loop with nonptr_fn set
   (cvptr_g true of Parse/Declarator.v: a parenthesis that does not open a
   declarator group opens the parameter list of a plain function type), and
   the hand-written mirror of CxxParser._parse_template_specialization on top
   of it: each argument's tokens are read up to ',' '>' or '...', tried as a
   type-id (base type, declarator, optional array suffix, nothing left over)
   and kept as a raw value when that fails.
   Tied to the code by the differential run of harness/props/c02.py (the real
   _parse_template_specialization on the same token lists) and the digest pin of
   Gen/PinsC02.v. *)
From Coq Require Import NArith List Bool Lia.
Import ListNotations.
From CXV Require Import Gen.TokTy Gen.ParserTables Parse.Balanced Parse.BalancedThms Parse.Declarator Parse.DeclSpec Parse.DeclThms.
Open Scope N_scope.

(* ------------------------------------------------------------------ *)
(* Part A: the loop for either value of the flag *)

Lemma cvptr_gS nf f d toks : cvptr_g nf (S f) d toks =
  match toks with
  | t :: r =>
      if is STAR t then (if is_ref d then DErr 1 else cvptr_g nf f (TPtr d false false) r)
      else if is T_const t then match set_const d with DOk d' => cvptr_g nf f d' r | DErr e => DErr e end
      else if is T_volatile t then match set_volatile d with DOk d' => cvptr_g nf f d' r | DErr e => DErr e end
      else if is LP t then
        match r with
        | t2 :: _ =>
            if is_pfx_tok t2 then group_k (cvptr_g nf f) (arrtype f) (params f) d t r
            else if nf then
              match strip_parens (S (length r)) r with
              | DErr e => DErr e
              | DOk r0 =>
                  match params f r0 with
                  | DErr e => DErr e
                  | DOk (ps, va, r1) =>
                      if is_fn d then DErr 3
                      else match r1 with
                           | a :: _ => if is T_ARROW a then DErr 4 else cvptr_g nf f (TFn d ps va) r1
                           | [] => cvptr_g nf f (TFn d ps va) r1
                           end
                  end
              end
            else after_k (cvptr_g nf f) d toks
        | [] => if nf then DErr 2 else after_k (cvptr_g nf f) d toks
        end
      else after_k (cvptr_g nf f) d toks
  | [] => after_k (cvptr_g nf f) d toks
  end.
Proof. reflexivity. Qed.

(* where the loop stops whatever the flag: as before, and not at a parenthesis *)
Lemma gcvptr_stops nf s : stops s = true -> lp_head s = false -> forall f d, cvptr_g nf (S f) d s = DOk (d, s).
Proof.
  intros H Hl f d. rewrite cvptr_gS. destruct s as [|t r]; [now apply after_stops|].
  destruct (stops_inv t r H) as (Hs & Hc & Hv & _ & _ & _).
  cbn [lp_head] in Hl. rewrite Hs, Hc, Hv, Hl. now apply after_stops.
Qed.

Lemma gev_stops nf s d : stops s = true -> lp_head s = false -> ev (fun f => cvptr_g nf f d s) (DOk (d, s)).
Proof.
  intros H Hl. exists 1%nat. intros f Hf. destruct f as [|f]; [lia|]. now apply gcvptr_stops.
Qed.

Lemma gstep_ptr nf acc c v X R :
  is_ref acc = false ->
  ev (fun f => cvptr_g nf f (TPtr acc c v) X) R ->
  ev (fun f => cvptr_g nf f acc (ktok STAR :: cvtoks c v ++ X)) R.
Proof.
  intros Hr H.
  assert (S1 : forall d Y, is_ref d = false ->
            forall f, cvptr_g nf (S f) d (ktok STAR :: Y) = cvptr_g nf f (TPtr d false false) Y).
  { intros d Y Hd f. rewrite cvptr_gS. isc. now rewrite Hd. }
  assert (S2 : forall d cc vv Y f, cvptr_g nf (S f) (TPtr d cc vv) (ktok T_const :: Y) = cvptr_g nf f (TPtr d true vv) Y).
  { intros. rewrite cvptr_gS. isc. reflexivity. }
  assert (S3 : forall d cc vv Y f, cvptr_g nf (S f) (TPtr d cc vv) (ktok T_volatile :: Y) = cvptr_g nf f (TPtr d cc true) Y).
  { intros. rewrite cvptr_gS. isc. reflexivity. }
  destruct c, v; unfold cvtoks; cbn [app].
  - eapply ev_S; [apply (S1 acc _ Hr)|]. eapply ev_S; [apply S2|]. eapply ev_S; [apply S3|]. exact H.
  - eapply ev_S; [apply (S1 acc _ Hr)|]. eapply ev_S; [apply S2|]. exact H.
  - eapply ev_S; [apply (S1 acc _ Hr)|]. eapply ev_S; [apply S3|]. exact H.
  - eapply ev_S; [apply (S1 acc _ Hr)|]. exact H.
Qed.

Lemma gstep_ref nf acc (rv : bool) X R :
  is_ref acc = false ->
  ev (fun f => cvptr_g nf f (if rv then TRRef acc else TRef acc) X) R ->
  lp_head X || stops X = true ->
  ev (fun f => cvptr_g nf f acc (ktok (if rv then T_DBL_AMP else AMP) :: X)) R.
Proof.
  intros Hr H Hx.
  assert (E : forall f, cvptr_g nf (S f) acc (ktok (if rv then T_DBL_AMP else AMP) :: X) =
                        match X with
                        | t2 :: _ => if is LP t2 then cvptr_g nf f (if rv then TRRef acc else TRef acc) X
                                     else DOk (if rv then TRRef acc else TRef acc, X)
                        | [] => DOk (if rv then TRRef acc else TRef acc, X)
                        end).
  { intros f. rewrite cvptr_gS. destruct rv; isc; unfold after_k; isc; rewrite Hr; reflexivity. }
  destruct (lp_head X) eqn:Elp.
  - destruct X as [|t2 X']; [discriminate|]. cbn [lp_head] in Elp.
    eapply ev_S; [|exact H]. intros f. rewrite E. now rewrite Elp.
  - cbn [orb] in Hx.
    assert (R = DOk (if rv then TRRef acc else TRef acc, X)) as ->.
    { eapply ev_unique; [exact H|]. now apply gev_stops. }
    exists 1%nat. intros f Hf. destruct f as [|f]; [lia|]. rewrite E.
    destruct X as [|t2 X']; [reflexivity|]. cbn [lp_head] in Elp. now rewrite Elp.
Qed.

Lemma gstep_group nf acc lp inner rest' d1 r1 d2 r2 :
  kty lp = LP -> pfx_head inner = true -> SNk inner ->
  ev (fun f => behind_k (arrtype f) (params f) acc rest') (DOk (d1, r1)) ->
  ev (fun f => cvptr_g nf f d1 (inner ++ r1)) (DOk (d2, r2)) ->
  stops r2 = true ->
  ev (fun f => cvptr_g nf f acc (lp :: inner ++ ktok RP :: rest')) (DOk (d2, r2)).
Proof.
  intros Hlp Hp Hs [f1 H1] [f2 H2] Hst.
  exists (S (Nat.max f1 f2)). intros f Hf. destruct f as [|f]; [lia|].
  rewrite cvptr_gS.
  assert (Hty : forall c, is c lp = (LP =? c)) by (intros c; unfold is; now rewrite Hlp).
  rewrite !Hty.
  change (LP =? STAR) with false. change (LP =? T_const) with false.
  change (LP =? T_volatile) with false. change (LP =? LP) with true. cbn iota.
  destruct inner as [|t2 inner']; [discriminate|]. cbn [pfx_head] in Hp. cbn [app]. rewrite Hp.
  unfold group_k. change (t2 :: inner' ++ ktok RP :: rest') with ((t2 :: inner') ++ ktok RP :: rest').
  rewrite (consume_paren lp (t2 :: inner') rest' Hlp Hs). cbn [lift].
  rewrite H1 by lia. rewrite middle_group. rewrite H2 by lia. now apply after_stops.
Qed.

(* the layer-level statement: whatever the loop does from the point where only suffix layers are left, it does
   from the start of the printed declarator *)
Lemma cvptr_P_gen nf : forall n ls, (length ls <= n)%nat -> forall acc core rest dE rE,
  legalL (kind_of acc) ls = true -> Forall layer_ok ls -> SNk core ->
  stops (P (traill ls) core ++ rest) = true -> nolb rest = true ->
  ev (fun f => cvptr_g nf f (wrap acc (mainl ls)) (P (traill ls) core ++ rest)) (DOk (dE, rE)) ->
  stops rE = true ->
  ev (fun f => cvptr_g nf f acc (P ls core ++ rest)) (DOk (dE, rE)).
Proof.
  induction n as [|n IH]; intros ls Hlen acc core rest dE rE Hleg Hok Hcore Hst Hnl Htail HrE.
  { destruct ls; [|cbn in Hlen; lia]. exact Htail. }
  destruct (all_sfx ls) eqn:Eall.
  { rewrite (mainl_all ls Eall) in Htail. rewrite (traill_all ls Eall) in Htail. exact Htail. }
  destruct ls as [|l ls']; [discriminate|].
  cbn [length] in Hlen. inversion Hok as [|? ? Hl Hok']; subst.
  cbn [legalL] in Hleg. apply andb_prop in Hleg as [Hokl Hleg'].
  destruct l as [c v| | |s|ps va].
  - (* pointer *)
    rewrite (mainl_cons _ _ Eall) in Htail. rewrite (traill_cons _ _ Eall) in *.
    cbn [P]. cbn [app]. rewrite <- app_assoc.
    apply gstep_ptr.
    + apply not_ref_of_kind. intros E. rewrite E in Hokl. discriminate.
    + apply (IH ls' ltac:(lia) (TPtr acc c v) core rest dE rE Hleg' Hok' Hcore Hst Hnl Htail HrE).
  - (* lvalue reference *)
    rewrite (mainl_cons _ _ Eall) in Htail. rewrite (traill_cons _ _ Eall) in *.
    cbn [P app].
    apply (gstep_ref nf acc false).
    + apply not_ref_of_kind. intros E. rewrite E in Hokl. discriminate.
    + apply (IH ls' ltac:(lia) (TRef acc) core rest dE rE Hleg' Hok' Hcore Hst Hnl Htail HrE).
    + now apply ref_next.
  - (* rvalue reference *)
    rewrite (mainl_cons _ _ Eall) in Htail. rewrite (traill_cons _ _ Eall) in *.
    cbn [P app].
    apply (gstep_ref nf acc true).
    + apply not_ref_of_kind. intros E. rewrite E in Hokl. discriminate.
    + apply (IH ls' ltac:(lia) (TRRef acc) core rest dE rE Hleg' Hok' Hcore Hst Hnl Htail HrE).
    + now apply ref_next.
  - (* a run of arrays behind a group *)
    rewrite (mainl_arrs s ls' Eall) in Htail. rewrite (traill_arrs s ls' Eall) in *. rewrite P_arrs.
    cbn [kind_after] in Hleg'.
    destruct (drop_arrs_legal ls' Hleg') as [Hleg'' Hhead].
    assert (Eall' : all_sfx (drop_arrs ls') = false) by (rewrite all_sfx_drop; exact Eall).
    destruct Hhead as [Hnil|Hpfx]; [rewrite Hnil in Eall'; discriminate|].
    rewrite Hpfx. cbn [paren].
    destruct (rev (s :: lead_arrs ls')) as [|o os] eqn:Erev.
    { apply (f_equal (@length _)) in Erev. rewrite rev_length in Erev. discriminate. }
    assert (Hsn : Forall SNk (o :: os)).
    { rewrite <- Erev. apply Forall_rev_SN. constructor; [exact Hl|now apply Forall_lead_arrs]. }
    inversion Hsn as [|? ? Ho Hos]; subst.
    unfold wrap in Htail. rewrite fold_left_app in Htail. fold (wrap acc (map LArr (s :: lead_arrs ls'))) in Htail.
    rewrite wrap_arrs, Erev in Htail. rewrite sufs_rev, Erev.
    set (d1 := fold_right (fun s0 d => TArr d s0) acc (o :: os)) in *.
    fold (wrap d1 (mainl (drop_arrs ls'))) in Htail.
    replace (((ktok LP :: P (drop_arrs ls') core ++ [ktok RP]) ++ sufs_o (o :: os)) ++ rest)
      with (ktok LP :: P (drop_arrs ls') core ++ ktok RP :: ktok LB :: (o ++ ktok RB :: sufs_o os ++ rest)).
    2:{ cbn [sufs_o]. unfold bracket. do 4 (rewrite <- ?app_assoc; cbn [app]). reflexivity. }
    assert (Hnr : is_ref acc = false).
    { apply not_ref_of_kind. intros E. rewrite E in Hokl. discriminate. }
    assert (Hnf : is_fn acc = false).
    { apply not_fn_of_kind. intros E. rewrite E in Hokl. discriminate. }
    eapply (gstep_group nf acc (ktok LP) _ _ d1 rest).
    + reflexivity.
    + now apply pfx_head_P0.
    + apply SN_params_toks_of; [now apply Forall_drop_arrs|exact Hcore].
    + apply behind_arr; [exact Hnf|]. now apply arr_run.
    + apply (IH (drop_arrs ls')); try assumption.
      * pose proof (drop_arrs_len ls'). lia.
      * now apply Forall_drop_arrs.
    + exact HrE.
  - (* a parameter list behind a group *)
    assert (Eall' : all_sfx ls' = false) by exact Eall.
    rewrite (mainl_cons _ _ Eall) in Htail. rewrite (traill_cons _ _ Eall) in *.
    cbn [kind_after] in Hleg'.
    assert (Hpfx : starts_pfx ls' = true).
    { destruct ls' as [|l2 r2]; [discriminate|]. cbn [legalL] in Hleg'.
      apply andb_prop in Hleg' as [H2 _]. destruct l2; try discriminate H2; reflexivity. }
    cbn [P]. rewrite Hpfx. cbn [paren].
    replace (((ktok LP :: P ls' core ++ [ktok RP]) ++ ktok LP :: params_toks ps va ++ [ktok RP]) ++ rest)
      with (ktok LP :: P ls' core ++ ktok RP :: ktok LP :: (params_toks ps va ++ ktok RP :: rest)).
    2:{ do 4 (rewrite <- ?app_assoc; cbn [app]). reflexivity. }
    assert (Hnf : is_fn acc = false).
    { apply not_fn_of_kind. intros E. rewrite E in Hokl. discriminate. }
    destruct Hl as [Hsnp Hprm].
    eapply (gstep_group nf acc (ktok LP) _ _ (TFn acc ps va) rest).
    + reflexivity.
    + now apply pfx_head_P0.
    + now apply SN_params_toks_of.
    + apply behind_fn; [exact Hnf|]. apply Hprm.
    + apply (IH ls' ltac:(lia) (TFn acc ps va) core rest dE rE Hleg' Hok' Hcore Hst Hnl Htail HrE).
    + exact HrE.
Qed.

(* ------------------------------------------------------------------ *)
(* Part B: one template argument, tried as a type-id *)

From CXV Require Import Parse.Using.

Definition PHONYK : N := 9999.             (* PhonyEnding: not a token type of the lexer *)
Definition phony : tk := mkTk PHONYK 0.
Definition targ_terms : list N := [COMMA; GT; T_ELLIPSIS].

Inductive targ := AType (t : ty) (pack : bool) | AVal (v : list tk) (pack : bool).

Definition type_start (h : tk) : bool := memN (kty h) pqname_start_tokens || is T_const h || is T_volatile h.

(* CxxParseError inside the trial (codes 1, 2: the bounded stream raises it at its end too; "arrays of references are illegal"
   is a CxxParseError at the '[' and has code 1) means: not a type.  Code 3 inside the trial is an assertion of the
   implementation, which the trial does not catch *)
Definition soft (e : N) : dres (option ty) := if (e =? 1) || (e =? 2) then DOk None else DErr e.

Definition targ_type (fuel : nat) (raw : list tk) : dres (option ty) :=
  match raw with
  | [] => DOk None
  | h :: _ =>
      if negb (type_start h) then DOk None
      else if alias_outside raw then DErr 4
      else
        match parse_base (raw ++ [phony]) with
        | DErr e => soft e
        | DOk (b, r) =>
            match cvptr_g true fuel b r with
            | DErr e => soft e
            | DOk (d, r1) =>
                let after := if is_fn d then DOk (d, r1)
                             else match r1 with
                                  | a :: r2 => if is LB a then arrtype fuel d a r2 else DOk (d, r1)
                                  | [] => DOk (d, r1)
                                  end in
                match after with
                | DErr e => soft e
                | DOk (d', r2) =>
                    match r2 with
                    | [p] => if is PHONYK p then DOk (Some d') else DOk None
                    | _ => DOk None
                    end
                end
            end
        end
  end.

(* the argument loop (entered after '<') *)
Fixpoint tspec (n fuel : nat) (acc : list targ) (toks : list tk) {struct n} : dres (list targ * list tk) :=
  match n with
  | O => DErr 9
  | S n' =>
      match consume_value_until kty targ_terms toks with
      | Ok (raw, r) =>
          match targ_type fuel raw with
          | DErr e => DErr e
          | DOk ot =>
              let '(pack, r1) := match r with
                                 | e :: r' => if is T_ELLIPSIS e then (true, r') else (false, r)
                                 | [] => (false, r)
                                 end in
              let arg : dres targ :=
                match ot with
                | Some t => DOk (AType t pack)
                | None =>
                    if pack then
                      match rev raw with
                      | [] => DErr 3                                (* val.tokens[-1] of an empty value *)
                      | l :: _ => if is T_sizeof l then DErr 4 else DOk (AVal raw pack)    (* sizeof...(x): outside *)
                      end
                    else DOk (AVal raw pack)
                end in
              match arg with
              | DErr e => DErr e
              | DOk a =>
                  match r1 with
                  | s :: r2 => if is COMMA s then tspec n' fuel (a :: acc) r2
                               else if is GT s then DOk (rev (a :: acc), r2)
                               else DErr 1
                  | [] => DErr 2
                  end
              end
          end
      | ErrEOF => DErr 2
      | ErrUnexpected _ => DErr 1
      | ErrInternal => DErr 3
      end
  end.

(* ------------------------------------------------------------------ *)
(* the printed declarator is one expression of the value grammar *)

Notation Ex := (Expr tk kty targ_terms).

Lemma Ex_app l1 l2 : Ex l1 -> Ex l2 -> Ex (l1 ++ l2).
Proof.
  intros H1 H2. induction H1 as [|t l Hm Ho Hc Hl IH|a b c la lb Hm Ho Hc Hb Ha Hlb IH|a b la lb Hm Ho Hb Ha Hlb IH].
  - exact H2.
  - cbn [app]. apply Ex_plain; assumption.
  - cbn [app]. rewrite <- app_assoc. cbn [app]. eapply Ex_group; eassumption.
  - cbn [app]. rewrite <- app_assoc. cbn [app]. eapply Ex_angle; eassumption.
Qed.

Definition plain_t (c : N) : bool :=
  negb (memN c targ_terms) && negb (memN c end_balanced_tokens) && match assocN c balanced_token_map with None => true | Some _ => false end.

Lemma Ex_tok t l : plain_t (kty t) = true -> Ex l -> Ex (t :: l).
Proof.
  unfold plain_t. intros H Hl. apply andb_prop in H as [H H3]. apply andb_prop in H as [H1 H2].
  apply negb_true_iff in H1, H2.
  apply Ex_plain; [exact H1| | |exact Hl].
  - destruct (assocN (kty t) balanced_token_map); [discriminate|reflexivity].
  - rewrite H2. reflexivity.
Qed.

Lemma Ex_cvtoks c v l : Ex l -> Ex (cvtoks c v ++ l).
Proof. intros H. destruct c, v; cbn [cvtoks app]; repeat (apply Ex_tok; [reflexivity|]); exact H. Qed.

Lemma Ex_paren inner l : SNk inner -> Ex l -> Ex (ktok LP :: inner ++ ktok RP :: l).
Proof.
  intros Hs Hl. eapply (Ex_group tk kty targ_terms (ktok LP) (ktok RP) RP); [reflexivity|reflexivity|vm_compute; discriminate|reflexivity|exact Hs|exact Hl].
Qed.
Lemma Ex_bracket inner l : SNk inner -> Ex l -> Ex (ktok LB :: inner ++ ktok RB :: l).
Proof.
  intros Hs Hl. eapply (Ex_group tk kty targ_terms (ktok LB) (ktok RB) RB); [reflexivity|reflexivity|vm_compute; discriminate|reflexivity|exact Hs|exact Hl].
Qed.

Lemma Ex_P : forall ls core, Forall layer_ok ls -> SNk core -> Ex core -> Ex (P ls core).
Proof.
  induction ls as [|l r IH]; intros core Hok Hs Hc; [exact Hc|].
  inversion Hok as [|? ? Hl Hr]; subst.
  destruct l as [c v| | |s|ps va]; cbn [P].
  - apply Ex_tok; [reflexivity|]. apply Ex_cvtoks. now apply IH.
  - apply Ex_tok; [reflexivity|]. now apply IH.
  - apply Ex_tok; [reflexivity|]. now apply IH.
  - destruct (starts_pfx r); cbn [paren].
    + cbn [app]. rewrite <- app_assoc. cbn [app]. apply Ex_paren; [now apply SN_params_toks_of|].
      change (ktok LB :: s ++ [ktok RB]) with (ktok LB :: s ++ ktok RB :: []). apply Ex_bracket; [exact Hl|constructor].
    + apply Ex_app; [now apply IH|].
      change (ktok LB :: s ++ [ktok RB]) with (ktok LB :: s ++ ktok RB :: []). apply Ex_bracket; [exact Hl|constructor].
  - destruct Hl as [Hsn _]. destruct (starts_pfx r); cbn [paren].
    + cbn [app]. rewrite <- app_assoc. cbn [app]. apply Ex_paren; [now apply SN_params_toks_of|].
      change (ktok LP :: params_toks ps va ++ [ktok RP]) with (ktok LP :: params_toks ps va ++ ktok RP :: []). apply Ex_paren; [exact Hsn|constructor].
    + apply Ex_app; [now apply IH|].
      change (ktok LP :: params_toks ps va ++ [ktok RP]) with (ktok LP :: params_toks ps va ++ ktok RP :: []). apply Ex_paren; [exact Hsn|constructor].
Qed.

Lemma Ex_decl t : DeclSpec.wf t -> Ex (decl_toks t None).
Proof.
  intros Hwf. destruct (decl_view t None) as (b & c & v & Ed & _). rewrite Ed. unfold base_toks3, name_tok.
  rewrite <- app_assoc. apply Ex_cvtoks. cbn [app].
  assert (Hp : Ex (P (layers t) (name_toks None))).
  { apply Ex_P; [now apply layers_ok|constructor|constructor]. }
  destruct (b =? 0); (apply Ex_tok; [reflexivity|exact Hp]).
Qed.

(* ------------------------------------------------------------------ *)
(* the outermost function layer *)

Lemma sfx_fn_single : forall ls k, legalL k ls = true -> all_sfx ls = true -> kind_end k ls = KFn -> ls <> [] ->
  exists ps va, ls = [LFn ps va].
Proof.
  induction ls as [|l r IH]; intros k Hl Ha Hk Hne; [contradiction|].
  cbn [legalL] in Hl. apply andb_prop in Hl as [Hokl Hl].
  assert (Har : all_sfx r = true).
  { cbn [all_sfx forallb] in Ha. apply andb_prop in Ha as [_ Ha]. exact Ha. }
  destruct r as [|l2 r2].
  - unfold kind_end in Hk. cbn [fold_left] in Hk. destruct l; try discriminate Hk. now exists ps, va.
  - exfalso.
    assert (Hk' : kind_end (kind_after l) (l2 :: r2) = KFn) by exact Hk.
    destruct (IH (kind_after l) Hl Har Hk' ltac:(discriminate)) as (ps & va & E). inversion E; subst.
    cbn [legalL] in Hl. apply andb_prop in Hl as [H2 _].
    cbn [all_sfx forallb] in Ha. apply andb_prop in Ha as [Ha _].
    destruct l; try discriminate Ha; discriminate H2.
Qed.

Lemma trail_fn : forall ls k, legalL k ls = true -> kind_end k ls = KFn -> ls <> [] ->
  exists ps va, traill ls = [LFn ps va].
Proof.
  induction ls as [|l r IH]; intros k Hl Hk Hne; [contradiction|].
  destruct (all_sfx (l :: r)) eqn:E.
  - rewrite (traill_all _ E). exact (sfx_fn_single (l :: r) k Hl E Hk Hne).
  - rewrite (traill_cons _ _ E).
    cbn [legalL] in Hl. apply andb_prop in Hl as [Hokl Hl].
    destruct r as [|l2 r2].
    + exfalso. unfold kind_end in Hk. cbn [fold_left] in Hk.
      cbn [all_sfx forallb andb] in E. rewrite andb_true_r in E. apply negb_false_iff in E.
      destruct l; try discriminate E; discriminate Hk.
    + apply (IH (kind_after l) Hl); [exact Hk|discriminate].
Qed.

(* the first token of a printed parameter list is neither a prefix operator nor a parenthesis *)
Lemma decl_head t nm X : exists h r, decl_toks t nm ++ X = h :: r /\ is_pfx_tok h = false /\ is LP h = false.
Proof.
  destruct (decl_view t nm) as (b & c & v & Ed & _). rewrite Ed. unfold base_toks3, name_tok.
  destruct c, v; cbn [cvtoks app]; try (eexists; eexists; split; [reflexivity|split; reflexivity]).
  destruct (b =? 0); eexists; eexists; (split; [reflexivity|split; reflexivity]).
Qed.

Lemma params_head ps va X : exists h r, params_toks ps va ++ ktok RP :: X = h :: r /\ is_pfx_tok h = false /\ is LP h = false.
Proof.
  unfold params_toks. destruct ps as [|[t nm] q].
  - cbn [map app]. destruct va; cbn [va_toks join_comma app]; eexists; eexists; (split; [reflexivity|split; reflexivity]).
  - cbn [map app fst snd].
    destruct (map (fun p : ty * option N => decl_toks (fst p) (snd p)) q ++ va_toks va) as [|y ys].
    + cbn [join_comma]. apply decl_head.
    + cbn [join_comma]. rewrite <- app_assoc. apply decl_head.
Qed.

Lemma fn_tail_true d ps va rest :
  is_fn d = false -> layer_ok (LFn ps va) ->
  stops rest = true -> lp_head rest = false -> (match rest with a :: _ => is T_ARROW a = false | [] => True end) ->
  ev (fun f => cvptr_g true f d (ktok LP :: params_toks ps va ++ ktok RP :: rest)) (DOk (TFn d ps va, rest)).
Proof.
  intros Hnf [_ Hprm] Hst Hlp Har. destruct (Hprm rest) as [f0 H0].
  exists (S (S f0)). intros f Hf. destruct f as [|f]; [lia|]. rewrite cvptr_gS. isc.
  destruct (params_head ps va rest) as (h & r & E & Hp & Hl). rewrite E. rewrite Hp.
  cbn [strip_parens]. rewrite Hl. rewrite <- E. rewrite (H0 f) by lia. rewrite Hnf.
  destruct f as [|f']; [lia|].
  destruct rest as [|a r']; [now apply gcvptr_stops|]. rewrite Har. now apply gcvptr_stops.
Qed.

(* ------------------------------------------------------------------ *)
(* a printed type-id is decoded as that type *)

Lemma phony_stops : stops [phony] = true /\ lp_head [phony] = false /\ nolb [phony] = true /\ nocv [phony] = true.
Proof. repeat split. Qed.

Lemma sufs_head_ok arrs : stops (sufs arrs ++ [phony]) = true /\ lp_head (sufs arrs ++ [phony]) = false.
Proof.
  destruct arrs as [|s r]; [split; reflexivity|].
  rewrite sufs_rev. destruct (rev (s :: r)) as [|o os] eqn:Erev.
  { apply (f_equal (@length _)) in Erev. rewrite rev_length in Erev. discriminate. }
  split; reflexivity.
Qed.

(* an object type (not a function at the top): the loop leaves the trailing arrays *)
Lemma gdecl_nonfn b c v ls :
  legalL KB ls = true -> Forall layer_ok ls -> kind_end KB ls <> KFn ->
  exists arrs d,
    Forall SNk arrs /\ (arrs <> [] -> is_ref d = false) /\ is_fn d = false /\
    wrap d (map LArr arrs) = wrap (TBase b c v) ls /\
    ev (fun f => cvptr_g true f (TBase b c v) (P ls [] ++ [phony])) (DOk (d, sufs arrs ++ [phony])).
Proof.
  intros Hleg Hok Hk.
  destruct (trail_arrs ls KB Hleg Hk) as [arrs Ha].
  exists arrs, (wrap (TBase b c v) (mainl ls)).
  assert (Hsplit : ls = mainl ls ++ map LArr arrs) by (rewrite <- Ha; symmetry; apply main_trail).
  destruct (sufs_head_ok arrs) as [Hs1 Hs2].
  split; [|split; [|split; [|split]]].
  - assert (H : Forall layer_ok (map LArr arrs)).
    { rewrite Hsplit in Hok. apply Forall_app in Hok. exact (proj2 Hok). }
    clear -H. induction arrs as [|s r IH]; [constructor|].
    inversion H; subst. constructor; [assumption|now apply IH].
  - intros Hne. apply not_ref_of_kind. rewrite kind_wrap. cbn [kind_of].
    rewrite Hsplit, legalL_app in Hleg. apply andb_prop in Hleg as [_ Hleg].
    destruct arrs as [|s r]; [contradiction|]. cbn [map legalL] in Hleg.
    apply andb_prop in Hleg as [Hokl _]. intros E. rewrite E in Hokl. discriminate.
  - now apply main_not_fn.
  - unfold wrap. rewrite <- fold_left_app. now rewrite <- Hsplit.
  - apply (cvptr_P_gen true (length ls) ls (le_n _) (TBase b c v) [] [phony]); try assumption.
    + constructor.
    + rewrite Ha, P_only_arrs. cbn [app]. exact Hs1.
    + reflexivity.
    + rewrite Ha, P_only_arrs. cbn [app]. now apply gev_stops.
Qed.

(* a function type at the top: the loop takes the parameter list *)
Lemma gdecl_fn b c v ls :
  legalL KB ls = true -> Forall layer_ok ls -> kind_end KB ls = KFn ->
  ev (fun f => cvptr_g true f (TBase b c v) (P ls [] ++ [phony])) (DOk (wrap (TBase b c v) ls, [phony])).
Proof.
  intros Hleg Hok Hk.
  assert (Hne : ls <> []) by (intros E; rewrite E in Hk; discriminate).
  destruct (trail_fn ls KB Hleg Hk Hne) as (ps & va & Ha).
  assert (Hsplit : ls = mainl ls ++ [LFn ps va]) by (rewrite <- Ha; symmetry; apply main_trail).
  assert (Hw : wrap (TBase b c v) ls = TFn (wrap (TBase b c v) (mainl ls)) ps va).
  { rewrite Hsplit at 1. unfold wrap. rewrite fold_left_app. reflexivity. }
  rewrite Hw.
  assert (Hlfn : layer_ok (LFn ps va)).
  { rewrite Hsplit in Hok. apply Forall_app in Hok. destruct Hok as [_ Hok]. now inversion Hok. }
  apply (cvptr_P_gen true (length ls) ls (le_n _) (TBase b c v) [] [phony]); try assumption.
  - constructor.
  - rewrite Ha. cbn [P paren starts_pfx app]. rewrite <- app_assoc. cbn [app].
    destruct (params_head ps va [phony]) as (h1 & r1 & E1 & Hp1 & _).
    cbn [stops]. isc. rewrite E1. now rewrite Hp1.
  - reflexivity.
  - rewrite Ha. cbn [P paren starts_pfx app]. rewrite <- app_assoc. cbn [app].
    apply fn_tail_true; try reflexivity; [|exact Hlfn].
    now apply main_not_fn.
  - reflexivity.
Qed.

Lemma kd_fn_dec (k : kd) : {k = KFn} + {k <> KFn}.
Proof. destruct k; [right|right|right|left]; congruence. Qed.

Theorem targ_type_decodes t : DeclSpec.wf t ->
  ev (fun f => targ_type f (decl_toks t None)) (DOk (Some t)).
Proof.
  intros Hwf. destruct (decl_view t None) as (b & c & v & Ed & Ew).
  pose proof (legal_layers t Hwf) as Hleg. pose proof (layers_ok t Hwf) as Hok.
  assert (Hout : alias_outside (decl_toks t None) = false).
  { rewrite <- (app_nil_r (decl_toks t None)). now apply alias_outside_printed. }
  assert (Hhead : exists h r, decl_toks t None = h :: r /\ type_start h = true).
  { rewrite Ed. unfold base_toks3, name_tok.
    destruct c, v; cbn [cvtoks app]; try (eexists; eexists; split; reflexivity).
    destruct (b =? 0); eexists; eexists; split; reflexivity. }
  destruct Hhead as (h & r0 & Eh & Hts).
  assert (Hpb : parse_base (decl_toks t None ++ [phony]) = DOk (TBase b c v, P (layers t) [] ++ [phony])).
  { rewrite Ed, <- app_assoc. apply parse_base_rt. apply (nocv_P None). reflexivity. }
  assert (Hpre : forall f, targ_type f (decl_toks t None) =
            match cvptr_g true f (TBase b c v) (P (layers t) [] ++ [phony]) with
            | DErr e => soft e
            | DOk (d, r1) =>
                let after := if is_fn d then DOk (d, r1)
                             else match r1 with
                                  | a :: r2 => if is LB a then arrtype f d a r2 else DOk (d, r1)
                                  | [] => DOk (d, r1)
                                  end in
                match after with
                | DErr e => soft e
                | DOk (d', r2) =>
                    match r2 with
                    | [p] => if is PHONYK p then DOk (Some d') else DOk None
                    | _ => DOk None
                    end
                end
            end).
  { intros f. unfold targ_type. rewrite Eh. rewrite Hts. cbn [negb]. rewrite <- Eh. rewrite Hout. now rewrite Hpb. }
  destruct (kd_fn_dec (kind_of t)) as [Ek|Ek].
  - (* a function type at the top *)
    destruct (gdecl_fn b c v (layers t) Hleg Hok ltac:(now rewrite kind_layers)) as [f1 H1].
    rewrite Ew in H1.
    exists f1. intros f Hf. rewrite Hpre, (H1 f Hf).
    destruct t; try (exfalso; cbn in Ek; discriminate). reflexivity.
  - destruct (gdecl_nonfn b c v (layers t) Hleg Hok ltac:(now rewrite kind_layers)) as (arrs & d & Hsn & Hnr & Hnf & Hw & [f1 H1]).
    rewrite Ew in Hw.
    destruct arrs as [|s r].
    + cbn [map wrap fold_left] in Hw. subst d. cbn [sufs app] in H1.
      exists f1. intros f Hf. rewrite Hpre, (H1 f Hf). rewrite Hnf. reflexivity.
    + destruct (arr_tail d (s :: r) [phony] ltac:(discriminate) (Hnr ltac:(discriminate)) Hsn eq_refl) as (A & EA & [f2 H2]).
      rewrite EA in H1. rewrite Hw in H2.
      exists (Nat.max f1 f2). intros f Hf. rewrite Hpre, (H1 f) by lia. rewrite Hnf. isc. rewrite (H2 f) by lia. reflexivity.
Qed.

(* ------------------------------------------------------------------ *)
(* the argument list *)

Inductive warg := WType (t : ty) (pack : bool) | WVal (v : list tk) (pack : bool).
Definition araw (a : warg) : list tk := match a with WType t _ => decl_toks t None | WVal v _ => v end.
Definition apack (a : warg) : bool := match a with WType _ p | WVal _ p => p end.
Definition warg_toks (a : warg) : list tk := araw a ++ (if apack a then [ktok T_ELLIPSIS] else []).
Definition warg_out (a : warg) : targ := match a with WType t p => AType t p | WVal v p => AVal v p end.
Definition warg_ok (a : warg) : Prop :=
  match a with
  | WType t _ => DeclSpec.wf t
  | WVal v p =>
      Ex v /\ (match v with h :: _ => type_start h = false | [] => p = false end) /\
      (p = true -> match rev v with l :: _ => is T_sizeof l = false | [] => False end)
  end.

Fixpoint targs_toks (l : list warg) : list tk :=
  match l with
  | [] => []
  | [a] => warg_toks a
  | a :: q => warg_toks a ++ ktok COMMA :: targs_toks q
  end.

Lemma tspec_S n fuel acc toks : tspec (S n) fuel acc toks =
      match consume_value_until kty targ_terms toks with
      | Ok (raw, r) =>
          match targ_type fuel raw with
          | DErr e => DErr e
          | DOk ot =>
              let '(pack, r1) := match r with
                                 | e :: r' => if is T_ELLIPSIS e then (true, r') else (false, r)
                                 | [] => (false, r)
                                 end in
              let arg : dres targ :=
                match ot with
                | Some t => DOk (AType t pack)
                | None =>
                    if pack then
                      match rev raw with
                      | [] => DErr 3
                      | l :: _ => if is T_sizeof l then DErr 4 else DOk (AVal raw pack)
                      end
                    else DOk (AVal raw pack)
                end in
              match arg with
              | DErr e => DErr e
              | DOk a =>
                  match r1 with
                  | s :: r2 => if is COMMA s then tspec n fuel (a :: acc) r2
                               else if is GT s then DOk (rev (a :: acc), r2)
                               else DErr 1
                  | [] => DErr 2
                  end
              end
          end
      | ErrEOF => DErr 2
      | ErrUnexpected _ => DErr 1
      | ErrInternal => DErr 3
      end.
Proof. reflexivity. Qed.

Lemma araw_Ex a : warg_ok a -> Ex (araw a).
Proof. destruct a as [t p|v p]; cbn [warg_ok araw]; [apply Ex_decl|intros (H & _); exact H]. Qed.

Lemma item_value a sep R : warg_ok a -> (is COMMA sep = true \/ is GT sep = true) ->
  consume_value_until kty targ_terms (warg_toks a ++ sep :: R)
  = Ok (araw a, (if apack a then [ktok T_ELLIPSIS] else []) ++ sep :: R).
Proof.
  intros Hok Hsep. unfold warg_toks. rewrite <- app_assoc.
  apply value_is_whole; [now apply araw_Ex|].
  destruct (apack a); cbn [app stops_at]; [reflexivity|].
  unfold is in Hsep. destruct Hsep as [H|H]; apply N.eqb_eq in H; rewrite H; reflexivity.
Qed.

Lemma item_type a : warg_ok a ->
  ev (fun f => targ_type f (araw a)) (DOk (match a with WType t _ => Some t | WVal _ _ => None end)).
Proof.
  destruct a as [t p|v p]; cbn [warg_ok araw].
  - apply targ_type_decodes.
  - intros (_ & Hh & _). exists 0%nat. intros f _. unfold targ_type.
    destruct v as [|h r]; [reflexivity|]. now rewrite Hh.
Qed.

(* what one step of the loop does with a written argument and its separator *)
Lemma item_step a sep R : warg_ok a -> (is COMMA sep = true \/ is GT sep = true) ->
  exists f0, forall f, (f0 <= f)%nat -> forall n acc,
    tspec (S n) f acc (warg_toks a ++ sep :: R) =
      if is COMMA sep then tspec n f (warg_out a :: acc) R else DOk (rev (warg_out a :: acc), R).
Proof.
  intros Hok Hsep. destruct (item_type a Hok) as [f0 H0]. exists f0. intros f Hf n acc.
  rewrite tspec_S, (item_value a sep R Hok Hsep), (H0 f Hf).
  assert (Hse : is T_ELLIPSIS sep = false).
  { unfold is in *. destruct Hsep as [H|H]; apply N.eqb_eq in H; rewrite H; reflexivity. }
  assert (Hfin : forall x : targ,
            match sep :: R with
            | s :: r2 => if is COMMA s then tspec n f (x :: acc) r2 else if is GT s then DOk (rev (x :: acc), r2) else DErr 1
            | [] => DErr 2
            end = if is COMMA sep then tspec n f (x :: acc) R else DOk (rev (x :: acc), R)).
  { intros x. destruct (is COMMA sep) eqn:Ec; [reflexivity|]. destruct Hsep as [H|H]; [discriminate|]. now rewrite H. }
  destruct a as [t p|v p]; cbn [apack warg_out araw] in *.
  - destruct p; cbn [app].
    + change (is T_ELLIPSIS (ktok T_ELLIPSIS)) with true. cbn iota. apply Hfin.
    + rewrite Hse. apply Hfin.
  - destruct Hok as (_ & Hh & Hl). destruct p; cbn [app].
    + change (is T_ELLIPSIS (ktok T_ELLIPSIS)) with true. cbn iota.
      specialize (Hl eq_refl). destruct (rev v) as [|l rv]; [contradiction|]. rewrite Hl. apply Hfin.
    + rewrite Hse. apply Hfin.
Qed.

Lemma tspec_rt : forall args acc rest n, args <> [] -> Forall warg_ok args -> (length args <= n)%nat ->
  ev (fun f => tspec n f acc (targs_toks args ++ ktok GT :: rest)) (DOk (rev acc ++ map warg_out args, rest)).
Proof.
  induction args as [|a q IH]; intros acc rest n Hne Hok Hn; [contradiction|].
  inversion Hok as [|? ? Ha Hq]; subst.
  destruct n as [|n]; [cbn in Hn; lia|]. cbn [length] in Hn.
  destruct q as [|a2 q'].
  - cbn [targs_toks].
    destruct (item_step a (ktok GT) rest Ha (or_intror eq_refl)) as [f0 H0].
    exists f0. intros f Hf. rewrite (H0 f Hf). change (is COMMA (ktok GT)) with false. cbn iota.
    reflexivity.
  - change (targs_toks (a :: a2 :: q')) with (warg_toks a ++ ktok COMMA :: targs_toks (a2 :: q')).
    rewrite <- app_assoc. cbn [app].
    destruct (item_step a (ktok COMMA) (targs_toks (a2 :: q') ++ ktok GT :: rest) Ha (or_introl eq_refl)) as [f0 H0].
    destruct (IH (warg_out a :: acc) rest n ltac:(discriminate) Hq ltac:(cbn [length] in *; lia)) as [f1 H1].
    exists (Nat.max f0 f1). intros f Hf. rewrite (H0 f) by lia. change (is COMMA (ktok COMMA)) with true. cbn iota.
    rewrite (H1 f) by lia. cbn [rev map]. now rewrite <- app_assoc.
Qed.

(* `< T1, T2..., v3 >`: every argument once, in order, as the kind it was written as -- a type-id (any legal type tree,
   function types included) as that type, anything that does not start like a type as its raw tokens -- with its own
   pack flag; what follows the '>' is untouched *)
Theorem template_arguments_roundtrip args rest :
  args <> [] -> Forall warg_ok args ->
  ev (fun f => tspec (S (length args)) f [] (targs_toks args ++ ktok GT :: rest)) (DOk (map warg_out args, rest)).
Proof. intros H1 H2. exact (tspec_rt args [] rest (S (length args)) H1 H2 ltac:(lia)). Qed.

Example ex_targs :
  let fn := TFn (TBase 0 false false) [(TPtr (TBase 5 true false) false false, None)] false in
  tspec 4 30 [] (targs_toks [WType fn false; WVal [mkTk T_INT_CONST_DEC 3] false; WType (TRef (TBase 6 false false)) true] ++ [ktok GT; ktok SEMI])
  = DOk ([AType fn false; AVal [mkTk T_INT_CONST_DEC 3] false; AType (TRef (TBase 6 false false)) true], [ktok SEMI]).
Proof. vm_compute. reflexivity. Qed.

(* Template arguments: the pointer / cv / group loop with nonptr_fn set
   (cvptr_g true of Parse/Declarator.v: a parenthesis that does not open a
   declarator group opens the parameter list of a plain function type), and
   the hand-written mirror of CxxParser._parse_template_specialization on top
   of it: each argument's tokens are read up to ',' '>' or '...', tried as a
   type-id (base type, declarator, optional array suffix, nothing left over)
   and kept as a raw value when that fails.
   Tied to the code by the differential run of harness/props/c02.py (the real
   _parse_template_specialization on the same token lists) and the digest pin of
   Gen/PinsC02.v. *)
From Coq Require Import NArith List Bool Lia.
Import ListNotations.
From CXV Require Import Gen.TokTy Gen.ParserTables Parse.Balanced Parse.BalancedThms Parse.Declarator Parse.DeclSpec Parse.DeclThms.
Open Scope N_scope.

(* ------------------------------------------------------------------ *)
(* Part A: the loop for either value of the flag *)

Lemma cvptr_gS nf f d toks : cvptr_g nf (S f) d toks =
  match toks with
  | t :: r =>
      if is STAR t then (if is_ref d then DErr 1 else cvptr_g nf f (TPtr d false false) r)
      else if is T_const t then match set_const d with DOk d' => cvptr_g nf f d' r | DErr e => DErr e end
      else if is T_volatile t then match set_volatile d with DOk d' => cvptr_g nf f d' r | DErr e => DErr e end
      else if is LP t then
        match r with
        | t2 :: _ =>
            if is_pfx_tok t2 then group_k (cvptr_g nf f) (arrtype f) (params f) d t r
            else if nf then
              match strip_parens (S (length r)) r with
              | DErr e => DErr e
              | DOk r0 =>
                  match params f r0 with
                  | DErr e => DErr e
                  | DOk (ps, va, r1) =>
                      if is_fn d then DErr 3
                      else match r1 with
                           | a :: _ => if is T_ARROW a then DErr 4 else cvptr_g nf f (TFn d ps va) r1
                           | [] => cvptr_g nf f (TFn d ps va) r1
                           end
                  end
              end
            else after_k (cvptr_g nf f) d toks
        | [] => if nf then DErr 2 else after_k (cvptr_g nf f) d toks
        end
      else after_k (cvptr_g nf f) d toks
  | [] => after_k (cvptr_g nf f) d toks
  end.
Proof. reflexivity. Qed.

(* where the loop stops whatever the flag: as before, and not at a parenthesis *)
Lemma gcvptr_stops nf s : stops s = true -> lp_head s = false -> forall f d, cvptr_g nf (S f) d s = DOk (d, s).
Proof.
  intros H Hl f d. rewrite cvptr_gS. destruct s as [|t r]; [now apply after_stops|].
  destruct (stops_inv t r H) as (Hs & Hc & Hv & _ & _ & _).
  cbn [lp_head] in Hl. rewrite Hs, Hc, Hv, Hl. now apply after_stops.
Qed.

Lemma gev_stops nf s d : stops s = true -> lp_head s = false -> ev (fun f => cvptr_g nf f d s) (DOk (d, s)).
Proof.
  intros H Hl. exists 1%nat. intros f Hf. destruct f as [|f]; [lia|]. now apply gcvptr_stops.
Qed.

Lemma gstep_ptr nf acc c v X R :
  is_ref acc = false ->
  ev (fun f => cvptr_g nf f (TPtr acc c v) X) R ->
  ev (fun f => cvptr_g nf f acc (ktok STAR :: cvtoks c v ++ X)) R.
Proof.
  intros Hr H.
  assert (S1 : forall d Y, is_ref d = false ->
            forall f, cvptr_g nf (S f) d (ktok STAR :: Y) = cvptr_g nf f (TPtr d false false) Y).
  { intros d Y Hd f. rewrite cvptr_gS. isc. now rewrite Hd. }
  assert (S2 : forall d cc vv Y f, cvptr_g nf (S f) (TPtr d cc vv) (ktok T_const :: Y) = cvptr_g nf f (TPtr d true vv) Y).
  { intros. rewrite cvptr_gS. isc. reflexivity. }
  assert (S3 : forall d cc vv Y f, cvptr_g nf (S f) (TPtr d cc vv) (ktok T_volatile :: Y) = cvptr_g nf f (TPtr d cc true) Y).
  { intros. rewrite cvptr_gS. isc. reflexivity. }
  destruct c, v; unfold cvtoks; cbn [app].
  - eapply ev_S; [apply (S1 acc _ Hr)|]. eapply ev_S; [apply S2|]. eapply ev_S; [apply S3|]. exact H.
  - eapply ev_S; [apply (S1 acc _ Hr)|]. eapply ev_S; [apply S2|]. exact H.
  - eapply ev_S; [apply (S1 acc _ Hr)|]. eapply ev_S; [apply S3|]. exact H.
  - eapply ev_S; [apply (S1 acc _ Hr)|]. exact H.
Qed.

Lemma gstep_ref nf acc (rv : bool) X R :
  is_ref acc = false ->
  ev (fun f => cvptr_g nf f (if rv then TRRef acc else TRef acc) X) R ->
  lp_head X || stops X = true ->
  ev (fun f => cvptr_g nf f acc (ktok (if rv then T_DBL_AMP else AMP) :: X)) R.
Proof.
  intros Hr H Hx.
  assert (E : forall f, cvptr_g nf (S f) acc (ktok (if rv then T_DBL_AMP else AMP) :: X) =
                        match X with
                        | t2 :: _ => if is LP t2 then cvptr_g nf f (if rv then TRRef acc else TRef acc) X
                                     else DOk (if rv then TRRef acc else TRef acc, X)
                        | [] => DOk (if rv then TRRef acc else TRef acc, X)
                        end).
  { intros f. rewrite cvptr_gS. destruct rv; isc; unfold after_k; isc; rewrite Hr; reflexivity. }
  destruct (lp_head X) eqn:Elp.
  - destruct X as [|t2 X']; [discriminate|]. cbn [lp_head] in Elp.
    eapply ev_S; [|exact H]. intros f. rewrite E. now rewrite Elp.
  - cbn [orb] in Hx.
    assert (R = DOk (if rv then TRRef acc else TRef acc, X)) as ->.
    { eapply ev_unique; [exact H|]. now apply gev_stops. }
    exists 1%nat. intros f Hf. destruct f as [|f]; [lia|]. rewrite E.
    destruct X as [|t2 X']; [reflexivity|]. cbn [lp_head] in Elp. now rewrite Elp.
Qed.

Lemma gstep_group nf acc lp inner rest' d1 r1 d2 r2 :
  kty lp = LP -> pfx_head inner = true -> SNk inner ->
  ev (fun f => behind_k (arrtype f) (params f) acc rest') (DOk (d1, r1)) ->
  ev (fun f => cvptr_g nf f d1 (inner ++ r1)) (DOk (d2, r2)) ->
  stops r2 = true ->
  ev (fun f => cvptr_g nf f acc (lp :: inner ++ ktok RP :: rest')) (DOk (d2, r2)).
Proof.
  intros Hlp Hp Hs [f1 H1] [f2 H2] Hst.
  exists (S (Nat.max f1 f2)). intros f Hf. destruct f as [|f]; [lia|].
  rewrite cvptr_gS.
  assert (Hty : forall c, is c lp = (LP =? c)) by (intros c; unfold is; now rewrite Hlp).
  rewrite !Hty.
  change (LP =? STAR) with false. change (LP =? T_const) with false.
  change (LP =? T_volatile) with false. change (LP =? LP) with true. cbn iota.
  destruct inner as [|t2 inner']; [discriminate|]. cbn [pfx_head] in Hp. cbn [app]. rewrite Hp.
  unfold group_k. change (t2 :: inner' ++ ktok RP :: rest') with ((t2 :: inner') ++ ktok RP :: rest').
  rewrite (consume_paren lp (t2 :: inner') rest' Hlp Hs). cbn [lift].
  rewrite H1 by lia. rewrite middle_group. rewrite H2 by lia. now apply after_stops.
Qed.

(* the layer-level statement: whatever the loop does from the point where only suffix layers are left, it does
   from the start of the printed declarator *)
Lemma cvptr_P_gen nf : forall n ls, (length ls <= n)%nat -> forall acc core rest dE rE,
  legalL (kind_of acc) ls = true -> Forall layer_ok ls -> SNk core ->
  stops (P (traill ls) core ++ rest) = true -> nolb rest = true ->
  ev (fun f => cvptr_g nf f (wrap acc (mainl ls)) (P (traill ls) core ++ rest)) (DOk (dE, rE)) ->
  stops rE = true ->
  ev (fun f => cvptr_g nf f acc (P ls core ++ rest)) (DOk (dE, rE)).
Proof.
  induction n as [|n IH]; intros ls Hlen acc core rest dE rE Hleg Hok Hcore Hst Hnl Htail HrE.
  { destruct ls; [|cbn in Hlen; lia]. exact Htail. }
  destruct (all_sfx ls) eqn:Eall.
  { rewrite (mainl_all ls Eall) in Htail. rewrite (traill_all ls Eall) in Htail. exact Htail. }
  destruct ls as [|l ls']; [discriminate|].
  cbn [length] in Hlen. inversion Hok as [|? ? Hl Hok']; subst.
  cbn [legalL] in Hleg. apply andb_prop in Hleg as [Hokl Hleg'].
  destruct l as [c v| | |s|ps va].
  - (* pointer *)
    rewrite (mainl_cons _ _ Eall) in Htail. rewrite (traill_cons _ _ Eall) in *.
    cbn [P]. cbn [app]. rewrite <- app_assoc.
    apply gstep_ptr.
    + apply not_ref_of_kind. intros E. rewrite E in Hokl. discriminate.
    + apply (IH ls' ltac:(lia) (TPtr acc c v) core rest dE rE Hleg' Hok' Hcore Hst Hnl Htail HrE).
  - (* lvalue reference *)
    rewrite (mainl_cons _ _ Eall) in Htail. rewrite (traill_cons _ _ Eall) in *.
    cbn [P app].
    apply (gstep_ref nf acc false).
    + apply not_ref_of_kind. intros E. rewrite E in Hokl. discriminate.
    + apply (IH ls' ltac:(lia) (TRef acc) core rest dE rE Hleg' Hok' Hcore Hst Hnl Htail HrE).
    + now apply ref_next.
  - (* rvalue reference *)
    rewrite (mainl_cons _ _ Eall) in Htail. rewrite (traill_cons _ _ Eall) in *.
    cbn [P app].
    apply (gstep_ref nf acc true).
    + apply not_ref_of_kind. intros E. rewrite E in Hokl. discriminate.
    + apply (IH ls' ltac:(lia) (TRRef acc) core rest dE rE Hleg' Hok' Hcore Hst Hnl Htail HrE).
    + now apply ref_next.
  - (* a run of arrays behind a group *)
    rewrite (mainl_arrs s ls' Eall) in Htail. rewrite (traill_arrs s ls' Eall) in *. rewrite P_arrs.
    cbn [kind_after] in Hleg'.
    destruct (drop_arrs_legal ls' Hleg') as [Hleg'' Hhead].
    assert (Eall' : all_sfx (drop_arrs ls') = false) by (rewrite all_sfx_drop; exact Eall).
    destruct Hhead as [Hnil|Hpfx]; [rewrite Hnil in Eall'; discriminate|].
    rewrite Hpfx. cbn [paren].
    destruct (rev (s :: lead_arrs ls')) as [|o os] eqn:Erev.
    { apply (f_equal (@length _)) in Erev. rewrite rev_length in Erev. discriminate. }
    assert (Hsn : Forall SNk (o :: os)).
    { rewrite <- Erev. apply Forall_rev_SN. constructor; [exact Hl|now apply Forall_lead_arrs]. }
    inversion Hsn as [|? ? Ho Hos]; subst.
    unfold wrap in Htail. rewrite fold_left_app in Htail. fold (wrap acc (map LArr (s :: lead_arrs ls'))) in Htail.
    rewrite wrap_arrs, Erev in Htail. rewrite sufs_rev, Erev.
    set (d1 := fold_right (fun s0 d => TArr d s0) acc (o :: os)) in *.
    fold (wrap d1 (mainl (drop_arrs ls'))) in Htail.
    replace (((ktok LP :: P (drop_arrs ls') core ++ [ktok RP]) ++ sufs_o (o :: os)) ++ rest)
      with (ktok LP :: P (drop_arrs ls') core ++ ktok RP :: ktok LB :: (o ++ ktok RB :: sufs_o os ++ rest)).
    2:{ cbn [sufs_o]. unfold bracket. do 4 (rewrite <- ?app_assoc; cbn [app]). reflexivity. }
    assert (Hnr : is_ref acc = false).
    { apply not_ref_of_kind. intros E. rewrite E in Hokl. discriminate. }
    assert (Hnf : is_fn acc = false).
    { apply not_fn_of_kind. intros E. rewrite E in Hokl. discriminate. }
    eapply (gstep_group nf acc (ktok LP) _ _ d1 rest).
    + reflexivity.
    + now apply pfx_head_P0.
    + apply SN_params_toks_of; [now apply Forall_drop_arrs|exact Hcore].
    + apply behind_arr; [exact Hnf|]. now apply arr_run.
    + apply (IH (drop_arrs ls')); try assumption.
      * pose proof (drop_arrs_len ls'). lia.
      * now apply Forall_drop_arrs.
    + exact HrE.
  - (* a parameter list behind a group *)
    assert (Eall' : all_sfx ls' = false) by exact Eall.
    rewrite (mainl_cons _ _ Eall) in Htail. rewrite (traill_cons _ _ Eall) in *.
    cbn [kind_after] in Hleg'.
    assert (Hpfx : starts_pfx ls' = true).
    { destruct ls' as [|l2 r2]; [discriminate|]. cbn [legalL] in Hleg'.
      apply andb_prop in Hleg' as [H2 _]. destruct l2; try discriminate H2; reflexivity. }
    cbn [P]. rewrite Hpfx. cbn [paren].
    replace (((ktok LP :: P ls' core ++ [ktok RP]) ++ ktok LP :: params_toks ps va ++ [ktok RP]) ++ rest)
      with (ktok LP :: P ls' core ++ ktok RP :: ktok LP :: (params_toks ps va ++ ktok RP :: rest)).
    2:{ do 4 (rewrite <- ?app_assoc; cbn [app]). reflexivity. }
    assert (Hnf : is_fn acc = false).
    { apply not_fn_of_kind. intros E. rewrite E in Hokl. discriminate. }
    destruct Hl as [Hsnp Hprm].
    eapply (gstep_group nf acc (ktok LP) _ _ (TFn acc ps va) rest).
    + reflexivity.
    + now apply pfx_head_P0.
    + now apply SN_params_toks_of.
    + apply behind_fn; [exact Hnf|]. apply Hprm.
    + apply (IH ls' ltac:(lia) (TFn acc ps va) core rest dE rE Hleg' Hok' Hcore Hst Hnl Htail HrE).
    + exact HrE.
Qed.

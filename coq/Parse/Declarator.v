(* Hand-written mirror of the declarator core of parser.py:
   _parse_cv_ptr_or_fn (pointer/cv loop, grouping-parenthesis detection by
   peeking '*' '&', array-or-function after the group, re-injection of the
   group's inner tokens and recursion, reference suffix), _parse_array_type,
   _parse_parameters / _parse_parameter, the base-type part of _parse_type and
   the variable declarator head of _parse_decl/_parse_field.
   Token re-injection (lex.return_tokens) is list append in this pure model.
   Tied to the code by the differential run of harness/props/c02.py. *)
From Coq Require Import NArith List Bool.
Import ListNotations.
From CXV Require Import Gen.TokTy Gen.ParserTables Parse.Balanced.
Open Scope N_scope.

Record tk := mkTk { kty : N; kval : N }.

Inductive ty :=
| TBase (b : N) (c v : bool)                        (* Type(PQName([name b]), const, volatile); b = 0 is void *)
| TPtr (t : ty) (c v : bool)
| TRef (t : ty)
| TRRef (t : ty)
| TArr (t : ty) (size : list tk)                    (* [] = no size *)
| TFn (ret : ty) (ps : list (ty * option N)) (va : bool).

Inductive dres (A : Type) :=
| DOk (a : A)
| DErr (why : N).      (* 1 unexpected token, 2 end of input, 3 illegal type (assert / explicit raise), 4 outside the modelled subset, 9 fuel *)
Arguments DOk {A} a. Arguments DErr {A} why.

Definition STAR := T_LIT_42. Definition AMP := T_LIT_38. Definition LP := T_LIT_40. Definition RP := T_LIT_41.
Definition LB := T_LIT_91. Definition RB := T_LIT_93. Definition COMMA := T_LIT_44. Definition SEMI := T_LIT_59.
Definition EQ := T_LIT_61.

Definition is (c : N) (t : tk) : bool := kty t =? c.

(* toks[1:-1] *)
Definition middle {A} (l : list A) : list A := removelast (tl l).

Definition is_ref (d : ty) : bool := match d with TRef _ | TRRef _ => true | _ => false end.
Definition is_fn (d : ty) : bool := match d with TFn _ _ _ => true | _ => false end.

(* dtype.const = True / dtype.volatile = True: on a Pointer the object is
   fresh; on the bare Type it is the base type object shared by all declarators
   of the statement (the implementation mutates it in place).  After
   _parse_type has consumed the qualifiers around the type name a cv-qualifier
   cannot reach the loop on a bare Type in well-formed input, so that case is
   outside the model (code 4). *)
Definition set_const (d : ty) : dres ty :=
  match d with TPtr x _ v => DOk (TPtr x true v) | TBase _ _ _ => DErr 4 | _ => DErr 1 end.
Definition set_volatile (d : ty) : dres ty :=
  match d with TPtr x c _ => DOk (TPtr x c true) | TBase _ _ _ => DErr 4 | _ => DErr 1 end.

Definition lift {A} (r : res (list tk * list tk)) (k : list tk -> list tk -> dres A) : dres A :=
  match r with
  | Ok (g, r') => k g r'
  | ErrEOF => DErr 2
  | ErrUnexpected _ => DErr 1
  | ErrInternal => DErr 3
  end.

(* the base type: (const|volatile)* NAME (const|volatile)*, as _parse_type reads it *)
Fixpoint base_cv (c v : bool) (toks : list tk) : bool * bool * list tk :=
  match toks with
  | t :: r => if is T_const t then base_cv true v r else if is T_volatile t then base_cv c true r else (c, v, toks)
  | [] => (c, v, toks)
  end.

(* fundamental type names (CxxParser._parse_pqname_fundamental): a compound keyword (unsigned, long, int ...) takes every
   compound keyword that follows, any other fundamental keyword stands alone.  The group is represented as a base id above
   [fund_base] that encodes its keywords in order (the harness decodes it to "unsigned long" ...) *)
Fixpoint fgroup (toks : list tk) : list N * list tk :=
  match toks with
  | t :: r => if memN (kty t) compound_fundamentals then let '(ws, r') := fgroup r in (kty t :: ws, r') else ([], toks)
  | [] => ([], [])
  end.
Definition fund_base : N := 4000000.
Definition fund_code (ws : list N) : N := fund_base + fold_left (fun a w => a * 1024 + w) ws 1.

Definition parse_base (toks : list tk) : dres (ty * list tk) :=
  let '(c, v, r) := base_cv false false toks in
  match r with
  | t :: r' =>
      if is T_NAME t || is T_void t then
        let '(c', v', r'') := base_cv c v r' in
        DOk (TBase (if is T_void t then 0 else kval t) c' v', r'')
      else if memN (kty t) fundamentals then
        let '(ws, r1) := if memN (kty t) compound_fundamentals then fgroup r' else ([], r') in
        let '(c', v', r'') := base_cv c v r1 in
        DOk (TBase (fund_code (kty t :: ws)) c' v', r'')
      else if memN (kty t) pqname_start_tokens then DErr 4     (* fundamental, qualified, elaborated ... names: outside the model *)
      else DErr 1
  | [] => DErr 2
  end.

(* convert fn(void) to fn() *)
Definition void_conv (ps : list (ty * option N)) : list (ty * option N) :=
  match ps with
  | [(TBase 0 _ _, _)] => []
  | _ => ps
  end.

Fixpoint arrtype (fuel : nat) (d : ty) (lb : tk) (toks : list tk) {struct fuel} : dres (ty * list tk) :=
  match fuel with
  | O => DErr 9
  | S f =>
      if is_ref d then DErr 1                 (* CxxParseError("arrays of references are illegal", tok): a parse error at '[' *)
      else
        lift (consume kty [RB] [lb] toks) (fun grp r' =>
          let size := middle grp in
          match r' with
          | o :: r'' =>
              if is LB o then
                match arrtype f d o r'' with
                | DOk (d1, r1) => DOk (TArr d1 size, r1)
                | DErr e => DErr e
                end
              else DOk (TArr d size, r')
          | [] => DOk (TArr d size, r')
          end)
  end.

Definition is_pfx_tok (t : tk) : bool := is STAR t || is AMP t || is T_DBL_AMP t.

(* the reference suffix after the pointer loop:
   tok = self.lex.token_if("&", "DBL_AMP") ... *)
Definition after_k (k : ty -> list tk -> dres (ty * list tk)) (d : ty) (toks : list tk)
  : dres (ty * list tk) :=
  match toks with
  | t :: r =>
      if is AMP t || is T_DBL_AMP t then
        if is_ref d then DErr 3
        else
          let d' := if is AMP t then TRef d else TRRef d in
          match r with
          | t2 :: _ => if is LP t2 then k d' r else DOk (d', r)
          | [] => DOk (d', r)
          end
      else DOk (d, toks)
  | [] => DOk (d, toks)
  end.

(* what follows a grouping parenthesis: an array suffix, a parameter list, or nothing *)
Definition behind_k
    (arr : ty -> tk -> list tk -> dres (ty * list tk))
    (prm : list tk -> dres (list (ty * option N) * bool * list tk))
    (d : ty) (r' : list tk) : dres (ty * list tk) :=
  match r' with
  | a :: r'' =>
      if is LB a then (if is_fn d then DErr 3 else arr d a r'')
      else if is LP a then
        match prm r'' with
        | DOk (ps, va, r1) => if is_fn d then DErr 3 else DOk (TFn d ps va, r1)
        | DErr e => DErr e
        end
      else DOk (d, r')
  | [] => DOk (d, r')
  end.

(* a grouping parenthesis [t] was seen: consume it, look behind it, re-inject
   the inner tokens and recurse *)
Definition group_k (k : ty -> list tk -> dres (ty * list tk))
    (arr : ty -> tk -> list tk -> dres (ty * list tk))
    (prm : list tk -> dres (list (ty * option N) * bool * list tk))
    (d : ty) (t : tk) (r : list tk) : dres (ty * list tk) :=
  lift (consume kty [RP] [t] r) (fun grp r' =>
    match behind_k arr prm d r' with
    | DOk (d1, r1) =>
        match k d1 (middle grp ++ r1) with
        | DOk (d2, r2) => after_k k d2 r2
        | DErr e => DErr e
        end
    | DErr e => DErr e
    end).

(* `while True: gtok = token_if("("); ...consume_balanced...; return_tokens(toks[1:-1])`: inner grouping parentheses in
   front of a parameter list are removed (nonptr_fn branch only) *)
Fixpoint strip_parens (n : nat) (toks : list tk) {struct n} : dres (list tk) :=
  match n with
  | O => DErr 9
  | S n' =>
      match toks with
      | t :: r => if is LP t then lift (consume kty [RP] [t] r) (fun grp r' => strip_parens n' (middle grp ++ r')) else DOk toks
      | [] => DOk toks
      end
  end.

(* nf is the nonptr_fn argument: set only for template arguments, where a parenthesis that does not start a
   declarator group opens the parameter list of a plain function type *)
Fixpoint cvptr_g (nf : bool) (fuel : nat) (d : ty) (toks : list tk) {struct fuel} : dres (ty * list tk) :=
  match fuel with
  | O => DErr 9
  | S f =>
      match toks with
      | t :: r =>
          if is STAR t then (if is_ref d then DErr 1 else cvptr_g nf f (TPtr d false false) r)
          else if is T_const t then match set_const d with DOk d' => cvptr_g nf f d' r | DErr e => DErr e end
          else if is T_volatile t then match set_volatile d with DOk d' => cvptr_g nf f d' r | DErr e => DErr e end
          else if is LP t then
            match r with
            | t2 :: _ =>
                if is_pfx_tok t2 then group_k (cvptr_g nf f) (arrtype f) (params f) d t r
                else if nf then
                  (* a plain function type: inner grouping parentheses removed, the parameter list, then the loop goes on *)
                  match strip_parens (S (length r)) r with
                  | DErr e => DErr e
                  | DOk r0 =>
                      match params f r0 with
                      | DErr e => DErr e
                      | DOk (ps, va, r1) =>
                          if is_fn d then DErr 3
                          else match r1 with
                               | a :: _ => if is T_ARROW a then DErr 4 else cvptr_g nf f (TFn d ps va) r1
                               | [] => cvptr_g nf f (TFn d ps va) r1
                               end
                      end
                  end
                else after_k (cvptr_g nf f) d toks          (* return_token(tok); break *)
            | [] => if nf then DErr 2 else after_k (cvptr_g nf f) d toks
            end
          else after_k (cvptr_g nf f) d toks
      | [] => after_k (cvptr_g nf f) d toks
      end
  end

with params (fuel : nat) (toks : list tk) {struct fuel} : dres (list (ty * option N) * bool * list tk) :=
  (* entered after '(' *)
  match fuel with
  | O => DErr 9
  | S f =>
      match toks with
      | t :: r => if is RP t then DOk ([], false, r) else ploop f [] toks
      | [] => DErr 2
      end
  end

with ploop (fuel : nat) (acc : list (ty * option N)) (toks : list tk) {struct fuel}
  : dres (list (ty * option N) * bool * list tk) :=
  match fuel with
  | O => DErr 9
  | S f =>
      match toks with
      | e :: r1 =>
          if is T_ELLIPSIS e then
            match r1 with
            | c :: r2 => if is RP c then DOk (void_conv (rev acc), true, r2) else DErr 1
            | [] => DErr 2
            end
          else
            match param f toks with
            | DOk (p, r1') =>
                match r1' with
                | s :: r2 =>
                    if is COMMA s then ploop f (p :: acc) r2
                    else if is RP s then DOk (void_conv (rev (p :: acc)), false, r2)
                    else DErr 1
                | [] => DErr 2
                end
            | DErr e' => DErr e'
            end
      | [] => DErr 2
      end
  end

with param (fuel : nat) (toks : list tk) {struct fuel} : dres ((ty * option N) * list tk) :=
  match fuel with
  | O => DErr 9
  | S f =>
      match parse_base toks with
      | DErr e => DErr e
      | DOk (b, r) =>
          match cvptr_g false f b r with
          | DErr e => DErr e
          | DOk (d, r1) =>
              if is_fn d then DErr 3            (* _parse_cv_ptr: unexpected function type *)
              else
                match r1 with
                | t :: _ =>
                    if is T_ELLIPSIS t || is LP t || is EQ t then DErr 4   (* packs, parenthesised names, defaults: not modelled *)
                    else
                      let '(nm, r2) := if is T_NAME t then (Some (kval t), tl r1) else (None, r1) in
                      match r2 with
                      | a :: r3 =>
                          if is LB a then
                            match arrtype f d a r3 with
                            | DOk (d1, r4) =>
                                match r4 with
                                | q :: _ => if is EQ q then DErr 4 else DOk ((d1, nm), r4)
                                | [] => DOk ((d1, nm), r4)
                                end
                            | DErr e => DErr e
                            end
                          else if is EQ a then DErr 4
                          else DOk ((d, nm), r2)
                      | [] => DOk ((d, nm), r2)
                      end
                | [] => DOk ((d, None), r1)
                end
          end
      end
  end.

Notation cvptr := (cvptr_g false).

(* the declarator of a variable after its base type: up to (not including)
   the ';' or ',' that ends it *)
Definition var_tail (fuel : nat) (b : ty) (r : list tk) : dres (N * ty * list tk) :=
  match cvptr fuel b r with
  | DErr e => DErr e
  | DOk (d, r1) =>
      if is_fn d then DErr 3
      else
        match r1 with
        | t :: r2 =>
            if is T_NAME t then
              match r2 with
              | a :: r3 =>
                  if is LB a then
                    match arrtype fuel d a r3 with
                    | DOk (d1, r4) => DOk (kval t, d1, r4)
                    | DErr e => DErr e
                    end
                  else if is LP a then DErr 4          (* a function declaration: not a variable *)
                  else DOk (kval t, d, r2)
              | [] => DOk (kval t, d, r2)
              end
            else DErr 4
        | [] => DErr 2
        end
  end.

Definition parse_var (fuel : nat) (toks : list tk) : dres (N * ty * list tk) :=
  match parse_base toks with
  | DErr e => DErr e
  | DOk (b, r) => var_tail fuel b r
  end.

(* _parse_declarations' loop for variables: one base type, then declarators
   separated by ',' and closed by ';'; every declarator starts again from the
   base type.  [n] bounds the number of declarators. *)
Fixpoint decl_list (n : nat) (fuel : nat) (b : ty) (toks : list tk) : dres (list (N * ty) * list tk) :=
  match n with
  | O => DErr 9
  | S n' =>
      match var_tail fuel b toks with
      | DErr e => DErr e
      | DOk (nm, d, r) =>
          match r with
          | s :: r' =>
              if is COMMA s then
                match decl_list n' fuel b r' with
                | DOk (l, r'') => DOk ((nm, d) :: l, r'')
                | DErr e => DErr e
                end
              else if is SEMI s then DOk ([(nm, d)], r')
              else DErr 1
          | [] => DErr 2
          end
      end
  end.

Definition parse_decls (n fuel : nat) (toks : list tk) : dres (list (N * ty) * list tk) :=
  match parse_base toks with
  | DErr e => DErr e
  | DOk (b, r) => decl_list n fuel b r
  end.

(* a function declaration up to and including the ')' of its parameter list:
   base type, declarator of the return type around `name ( parameters )` *)
Definition fn_decl (fuel : nat) (toks : list tk)
  : dres (N * ty * list (ty * option N) * bool * list tk) :=
  match parse_base toks with
  | DErr e => DErr e
  | DOk (b, r) =>
      match cvptr fuel b r with
      | DErr e => DErr e
      | DOk (d, r1) =>
          if is_fn d then DErr 3
          else
            match r1 with
            | t :: a :: r2 =>
                if is T_NAME t && is LP a then
                  match params fuel r2 with
                  | DOk (ps, va, r3) => DOk (kval t, d, ps, va, r3)
                  | DErr e => DErr e
                  end
                else DErr 4
            | _ => DErr 4
            end
      end
  end.

(* the type-id of an alias-declaration (after `using NAME =`): base type,
   abstract declarator, optional array suffix; the caller expects ';' next *)
Definition alias_type (fuel : nat) (toks : list tk) : dres (ty * list tk) :=
  match parse_base toks with
  | DErr e => DErr e
  | DOk (b, r) =>
      match cvptr fuel b r with
      | DErr e => DErr e
      | DOk (d, r1) =>
          if is_fn d then DErr 3            (* _parse_cv_ptr: unexpected function type *)
          else
            match r1 with
            | a :: r2 => if is LB a then arrtype fuel d a r2 else DOk (d, r1)
            | [] => DOk (d, r1)
            end
      end
  end.

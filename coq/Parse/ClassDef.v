(* Whole class definitions, nested to any depth: the class statement -- specifiers,
   class key, name or anonymous name (CxxParser._parse_type / _parse_pqname), the
   decision of _maybe_parse_class_enum_decl (Parse/ClassEnum.v), the class head of
   _parse_class_decl (Parse/BaseClause.v class_head) -- then the body as the statement
   loop of Parse/Bodies.v under the class's OWN default access, the closing brace
   (_on_block_end) and what follows it (_finish_class_or_enum, Parse/FinishClass.v);
   then the enclosing body goes on under the access it had.  Forward declarations
   (`struct X;`) are the other outcome of the same decision.

   The real parser keeps a stack of block states and returns to its dispatch loop
   after the head; the model recurses instead (one budget [k] counts statements of
   all levels).  Anonymous classes take their ids from a counter in reading order
   (CxxParser.anon_id), represented as [anon_base + id].  [dt] maps the id of a
   name to the id of its '~' form (one NAME token for the lexer), for the
   constructor / destructor recognition inside nested classes.

   The same loop reads namespaces (Parse/NsHeader.v; `inline` through the translated
   _parse_inline), namespace aliases, linkage blocks and `extern` / `inline`
   declarations (the translated _parse_extern / _parse_inline), `typedef` (the
   translated _parse_typedef), enum definitions and opaque enum declarations
   (enum_head: _parse_enum_decl up to the closing brace), using statements
   (Parse/Using.v), static_assert, friends and access specifiers.

   Outside this model (code 4): `[[...]]` / alignas behind the class key, qualified or
   templated class names, templated declarations other than classes, class
   definitions behind `typedef` inside a class.
   Tied to the code by the differential run of harness/classdef.py. *)
From Coq Require Import NArith List Bool Lia.
Import ListNotations.
From CXV Require Import Gen.TokTy Gen.ParserTables Gen.TopLoop Parse.Balanced Parse.BalancedThms Parse.Declarator Parse.DeclSpec Parse.DeclThms
  Parse.EnumList Parse.Specs Parse.VarStmt Parse.FnTail Parse.Init Parse.Members Parse.MethodTail Parse.DeclStmt Parse.MemberStmt
  Parse.ConvOp Parse.OperatorMember Parse.OperatorFn Parse.MethodImpl Parse.FriendStmt Parse.BaseClause Parse.ClassEnum Parse.FinishClass
  Parse.Bodies Parse.NsHeader Parse.PQName Parse.Using Parse.Template Parse.TemplateStmt.
From CXV Require Parse.DispatchLang Gen.Dispatch.
Open Scope N_scope.

Definition anon_base : N := 1000000.

Definition is_class_key (t : tk) : bool := is T_class t || is T_struct t || is T_union t.

(* the specifier loop of _parse_type up to a class key, and the name behind it (_parse_pqname, compound_ok).
   None: the statement is not a class statement (the other statement models take it) *)
(* _consume_attribute behind a class key, through the translated programs of Gen/Dispatch.v: the dispatcher, then the gcc
   attribute / __declspec readers ([[...]] and alignas sequences are outside this model) *)
Definition consume_attr (x : tk) (r : list tk) : dres (list tk) :=
  match DispatchLang.run Dispatch.prog_consume_attribute false x r with
  | DispatchLang.OCall DispatchLang.F_gcc_attribute [DispatchLang.RTok (Some k)] [] r1 =>
      match DispatchLang.run Dispatch.prog_consume_gcc_attribute false k r1 with
      | DispatchLang.ODone r2 => DOk r2
      | DispatchLang.OErr e => DErr e
      | _ => DErr 3
      end
  | DispatchLang.OCall DispatchLang.F_declspec [DispatchLang.RTok (Some k)] [] r1 =>
      match DispatchLang.run Dispatch.prog_consume_declspec false k r1 with
      | DispatchLang.ODone r2 => DOk r2
      | DispatchLang.OErr e => DErr e
      | _ => DErr 3
      end
  | DispatchLang.OCall _ _ _ _ => DErr 4
  | DispatchLang.OErr e => DErr e
  | _ => DErr 3
  end.

(* the name behind the class key (and its attribute): NAME, or none -- then the type is anonymous *)
Definition name_part (m : mods) (key : list N) (r : list tk) : dres (mods * list N * option N * list tk) :=
  match r with
  | x :: r1 =>
      if is T_DBL_COLON x then DErr 4
      else if is T_NAME x then
        match r1 with
        | y :: _ => if is T_DBL_COLON y || is T_LIT_60 y then DErr 4 else DOk (m, key, Some (kval x), r1)
        | [] => DOk (m, key, Some (kval x), r1)
        end
      else DOk (m, key, None, r)
  | [] => DOk (m, key, None, r)
  end.

Definition key_name (m : mods) (key : list N) (r : list tk) : dres (mods * list N * option N * list tk) :=
  match r with
  | x :: r1 =>
      if memN (kty x) attribute_start_tokens then
        match consume_attr x r1 with
        | DErr e => DErr e
        | DOk r2 => name_part m key r2
        end
      else name_part m key r
  | [] => name_part m key r
  end.

Fixpoint ckey_loop (m : mods) (toks : list tk) {struct toks} : option (dres (mods * list N * option N * list tk)) :=
  match toks with
  | t :: r =>
      if is_class_key t then Some (key_name m [kty t] r)
      else if is T_enum t then
        (* enum, enum class, enum struct *)
        Some (match r with
              | c :: r1 => if is T_class c || is T_struct c then key_name m [T_enum; kty c] r1 else key_name m [T_enum] r
              | [] => key_name m [T_enum] r
              end)
      else if is_name_start t || is_ptr_ref_paren t then None
      else
        match set_mod (kty t) m with
        | Some m' =>
            if is T_extern t then
              match r with
              | s :: r' => if is T_STRING_LITERAL s then ckey_loop m' r' else ckey_loop m' r
              | [] => ckey_loop m' r
              end
            else ckey_loop m' r
        | None => None
        end
  | [] => None
  end.

Inductive chead :=
| CHNot
| CHErr (e : N)
| CHFwd (m : mods) (key : list N) (name : N) (r : list tk)
| CHDef (m : mods) (key : list N) (name : option N) (fi ex : bool) (bs : list base) (r : list tk)
| CHEnumFwd (m : mods) (key : list N) (name : option N) (base : pq) (r : list tk)                        (* enum E : int; *)
| CHEnum (m : mods) (key : list N) (name : option N) (base : option pq) (items : list enumerator) (r : list tk).

Definition key_is (k : N) (key : list N) : bool := match key with [x] => x =? k | _ => false end.
Definition default_access (key : list N) : N := if key_is T_class key then T_private else T_public.

(* _parse_enum_decl up to the closing brace of the enumerator list; [s]: the token of _class_enum_stage2 it is entered with *)
Definition enum_head (td : bool) (s : tk) (r : list tk) : dres (option pq * option (list enumerator) * list tk) :=
  if is T_LIT_58 s then
    match r with
    | [] => DErr 2
    | b :: _ =>
        if memN (kty b) name_compound_start then DErr 1
        else
          match parse_pqname r with
          | DErr e => DErr e
          | DOk (q, r1) =>
              match r1 with
              | [] => DErr 2
              | x :: r2 =>
                  if is SEMI x then (if td then DErr 1 else DOk (Some q, None, r2))
                  else if is LBRACE x then
                    match enum_list (S (length r2)) [] r2 with
                    | DErr e => DErr e
                    | DOk (items, r4) => DOk (Some q, Some items, r4)
                    end
                  else DErr 1
              end
          end
    end
  else if is LBRACE s then
    match enum_list (S (length r)) [] r with
    | DErr e => DErr e
    | DOk (items, r4) => DOk (None, Some items, r4)
    end
  else DErr 1.

Definition class_stmt_head (td tmpl : bool) (toks : list tk) : chead :=
  match ckey_loop mods0 toks with
  | None => CHNot
  | Some (DErr e) => CHErr e
  | Some (DOk (m, key, nm, r)) =>
      (* _parse_type goes on behind the name: more specifiers, up to what it does not understand *)
      match spec_loop m (Some 0) r with
      | DErr e => CHErr e
      | DOk (m2, _, r2) =>
          match class_enum key m2 tmpl td false r2 with
          | DErr e => CHErr e
          | DOk (CEForward, r3) => match nm with Some n => CHFwd m2 key n r3 | None => CHErr 4 end
          | DOk (CEClass s, r3) =>
              match class_head (default_access key) (s :: r3) with
              | DErr e => CHErr e
              | DOk (fi, ex, bs, r4) => CHDef m2 key nm fi ex bs r4
              end
          | DOk (CEEnum s, r3) =>
              match enum_head td s r3 with
              | DErr e => CHErr e
              | DOk (Some q, None, r4) => CHEnumFwd m2 key nm q r4
              | DOk (b, Some items, r4) => CHEnum m2 key nm b items r4
              | DOk (None, None, _) => CHErr 3
              end
          | DOk (_, _) => CHNot                        (* `struct X x;`: an elaborated type specifier in a declaration: the declaration models *)
          end
      end
  end.

Inductive item :=
| IC (acc : N) (it : citem)                 (* a statement of a class body *)
| INs (it : nitem)                          (* a statement of a namespace body *)
| IFwd (acc : N) (key : list N) (name : N)  (* forward declaration *)
| IEnumFwd (acc : N) (key : list N) (name : N) (base : pq)                                     (* enum E : base; *)
| IEnum (acc : N) (m : mods) (key : list N) (name : N) (anon td : bool) (base : option pq) (items : list enumerator) (fin : fin_result)
| IUsing (acc : N) (u : ures)
| ITemplate (headers : list (list tparam)) (it : item)                  (* template <...> [template <...> ...] class-key ... *)
| IClass (acc : N) (c : cdef)
| INamespace (inline : bool) (names : list N) (members : list item)     (* namespace a::b { ... } *)
| IAlias (alias : N) (names : list N)                                   (* namespace a = b::c; (0: a leading '::') *)
| IExtern (linkage : N) (members : list item)                           (* extern "C" { ... } *)
with cdef :=
| mkCD (m : mods) (key : list N) (name : N) (anon td fi ex : bool) (bs : list base) (members : list item) (fin : fin_result).

Definition dtor_of (dt : list (N * N)) (n : N) : N := match assocN n dt with Some d => d | None => anon_base end.

(* [ctx]: None at namespace scope, Some (class id, '~' id) in a class body; [acc]: access in force (0 at namespace scope);
   [aid]: the anonymous-name counter.  Result: items, counter, rest *)
Fixpoint body (k n fuel : nat) (dt : list (N * N)) (ctx : option (N * N)) (acc aid : N) (toks : list tk) {struct k}
  : dres (list item * N * list tk) :=
  match k with
  | O => DErr 9
  | S k' =>
      let cont := fun (aid' : N) (it : item) (r' : list tk) =>
        match body k' n fuel dt ctx acc aid' r' with
        | DOk (l, a, rr) => DOk (it :: l, a, rr)
        | DErr e => DErr e
        end in
      let skip := fun (r' : list tk) => body k' n fuel dt ctx acc aid r' in
      let encl := match ctx with Some p => p | None => (anon_base, anon_base) end in
      let in_class := match ctx with Some _ => true | None => false end in
      let acc_out := if in_class then acc else 0 in
      let class_stmt := fun (hs : list (list tparam)) (td : bool) (toks' : list tk) (otherwise : unit -> dres (list item * N * list tk)) =>
        let wrap := fun (it : item) => match hs with [] => it | _ => ITemplate hs it end in
        match class_stmt_head td (match hs with [] => false | _ => true end) toks' with
        | CHNot => otherwise tt
        | CHErr e => DErr e
        | CHFwd m key nm r => cont aid (wrap (IFwd acc_out key nm)) r
        | CHEnumFwd m key nm q r =>
            match nm with
            | Some x => cont aid (IEnumFwd acc_out key x q) r
            | None => cont (aid + 1) (IEnumFwd acc_out key (anon_base + aid + 1) q) r
            end
        | CHEnum m key nm b items r =>
            (* on_enum, then _finish_class_or_enum with the class key "enum": declarators, never an implicit field *)
            let '(bn, anon, aid1) := match nm with Some x => (x, false, aid) | None => (anon_base + aid + 1, true, aid + 1) end in
            match finish_class n fuel in_class td anon false m (fst encl) (snd encl) bn (m_const m) (m_volatile m) r with
            | DErr e => DErr e
            | DOk (fin, r3) => cont aid1 (IEnum acc_out m key bn anon td b items fin) r3
            end
        | CHDef m key nm fi ex bs r =>
            let '(bn, anon, aid1) := match nm with Some x => (x, false, aid) | None => (anon_base + aid + 1, true, aid + 1) end in
            let inner := match nm with Some x => (x, dtor_of dt x) | None => (anon_base, anon_base) end in
            match body k' n fuel dt (Some inner) (default_access key) aid1 r with
            | DErr e => DErr e
            | DOk (members, aid2, r1) =>
                match r1 with
                | cb :: r2 =>
                    if is RBRACE cb then
                      match finish_class n fuel in_class td anon (negb (key_is T_class key)) m (fst encl) (snd encl) bn (m_const m) (m_volatile m) r2 with
                      | DErr e => DErr e
                      | DOk (fin, r3) => cont aid2 (wrap (IClass acc_out (mkCD m key bn anon td fi ex bs members fin))) r3
                      end
                    else DErr 3
                | [] => DErr 4                              (* the class is left open at the end of input *)
                end
            end
        end in
      (* a block opened at namespace scope: its statements, the closing brace, then on *)
      let block := fun (mk : list item -> item) (r' : list tk) =>
        match body k' n fuel dt None 0 aid r' with
        | DErr e => DErr e
        | DOk (members, aid2, r1) =>
            match r1 with
            | cb :: r2 => if is RBRACE cb then cont aid2 (mk members) r2 else DErr 3
            | [] => DErr 4
            end
        end in
      let namespace_stmt := fun (inline : bool) (r' : list tk) =>
        match ns_header inline r' with
        | DErr e => DErr e
        | DOk (hd, r1) =>
            if in_class then DErr 3                          (* namespace cannot be defined in a class *)
            else match hd with
                 | NsDef names => block (INamespace inline names) r1
                 | NsAlias a names => cont aid (IAlias a names) r1
                 end
        end in
      let declarations := fun (toks' : list tk) =>
        class_stmt [] false toks'
          (fun _ => match ctx with
                    | Some (cls, dcls) =>
                        match member_decl n fuel cls dcls toks' with
                        | DErr e => DErr e
                        | DOk (it, r') => cont aid (IC acc it) r'
                        end
                    | None =>
                        match ns_decl n fuel toks' with
                        | DErr e => DErr e
                        | DOk (it, r') => cont aid (INs it) r'
                        end
                    end) in
      match toks with
      | [] => DOk ([], aid, [])
      | t :: r =>
          match assocN (kty t) tu_table with
          | Some h =>
              if h =? H_on_block_end then DOk ([], aid, toks)
              else if h =? 0 then skip r
              else if h =? H_parse_namespace then namespace_stmt false r
              else if h =? H_parse_template then
                (* _parse_template (Parse/TemplateStmt.v): the headers, then -- in this model -- a class definition or a class
                   forward declaration, which receives them; every other continuation is outside *)
                match r with
                | lt :: _ =>
                    if is LT lt then
                      match template_stmt n fuel r with
                      | DErr e => DErr e
                      | DOk (kind, hs, r1) =>
                          if kind =? K_DECL then class_stmt hs false (skipn (length r - S (length r1)) r) (fun _ => DErr 4)
                          else DErr 4
                      end
                    else DErr 4
                | [] => DErr 4
                end
              else if h =? H_parse_using then
                match using_stmt in_class false fuel r with
                | DErr e => DErr e
                | DOk (u, r') => cont aid (IUsing acc_out u) r'
                end
              else if h =? H_parse_inline then
                (* the translated handler: `inline namespace` or a declaration that starts with `inline` *)
                match DispatchLang.run Dispatch.prog_parse_inline in_class t r with
                | DispatchLang.OCall DispatchLang.F_namespace [DispatchLang.RTok (Some _); DispatchLang.RDox] [(3, DispatchLang.RBool true)] r1 =>
                    namespace_stmt true r1
                | DispatchLang.OCall DispatchLang.F_declarations [DispatchLang.RTok (Some x); DispatchLang.RDox] [] r1 => declarations (x :: r1)
                | DispatchLang.OErr e => DErr e
                | _ => DErr 3
                end
              else if h =? H_parse_extern then
                (* the translated handler: a linkage block, or a declaration that starts with `extern` [string] *)
                match DispatchLang.run Dispatch.prog_parse_extern in_class t r with
                | DispatchLang.OOpenExtern (Some l) r1 => block (IExtern (kval l)) r1
                | DispatchLang.OCall DispatchLang.F_declarations [DispatchLang.RTok (Some x); DispatchLang.RDox] [] r1 => declarations (x :: r1)
                | DispatchLang.OCall _ _ _ _ => DErr 4            (* extern template: explicit instantiation *)
                | DispatchLang.OErr e => DErr e
                | _ => DErr 3
                end
              else if h =? H_consume_static_assert then
                match DispatchLang.run Dispatch.prog_consume_static_assert in_class t r with
                | DispatchLang.ODone r' => skip r'
                | DispatchLang.OErr e => DErr e
                | _ => DErr 3
                end
              else
                match ctx with
                | Some (cls, dcls) =>
                    if h =? H_process_access_specifier then
                      match r with
                      | c :: r' => if is COLONb c then body k' n fuel dt ctx (kty t) aid r' else DErr 1
                      | [] => DErr 2
                      end
                    else if h =? H_parse_friend_decl then
                      match friend_stmt fuel r with
                      | DErr e => DErr e
                      | DOk (f, r') => cont aid (IC acc (CFriend f)) r'
                      end
                    else DErr 4
                | None =>
                    if h =? H_parse_typedef then
                      match DispatchLang.run Dispatch.prog_parse_typedef false t r with
                      | DispatchLang.OCall DispatchLang.F_declarations [DispatchLang.RTok (Some x); DispatchLang.RDox]
                                           [(1, DispatchLang.RBool true)] r1 =>
                          class_stmt [] true (x :: r1)
                            (fun _ => match typedef_decl_stmt n fuel (x :: r1) with
                             | DErr e => DErr e
                             | DOk (l, r') => cont aid (INs (NTypedefs l)) r'
                             end)
                      | DispatchLang.OErr e => DErr e
                      | _ => DErr 3
                      end
                    else DErr 4
                end
          | None => declarations toks
          end
      end
  end.

(* Closed-form specification machine for the block skeleton, and the lemma
   that interpreting the regenerated effect atoms (Parse/BlocksSM.v over
   Gen/Blocks.v) is this machine.  Every later theorem is about [sstep]. *)
From Coq Require Import NArith List Bool.
Import ListNotations.
From CXV Require Import Gen.Blocks Parse.BlocksSM.
Open Scope N_scope.

Record Sp := mkSp { scur : list frame; svis : bool; snext : N; sst : status }.

Definition top_id (c : list frame) : N := match c with p :: _ => fid p | [] => 0 end.

(* one event: new state and the callbacks delivered to the user visitor *)
Definition sstep (skip : N -> bool) (s : Sp) (e : ev) : Sp * list cb :=
  match sst s with
  | Running =>
    match e with
    | EvOpen k a0 =>
        let id := snext s in
        let f := mkFrame id k (svis s) a0 in
        (mkSp (f :: scur s) (svis s && negb (skip id)) (id + 1) Running,
         if svis s then [CbStart k id (top_id (scur s))] else [])
    | EvClose =>
        match scur s with
        | f :: rest =>
            let o := if svis s then [CbEnd (fkind f) (fid f)] else [] in
            match rest with
            | [] => (mkSp (scur s) (fprior f) (snext s) ErrRootPop, o)
            | _ => (mkSp rest (fprior f) (snext s) Running, o)
            end
        | [] => (mkSp (scur s) (svis s) (snext s) ErrStuck, [])
        end
    | EvItem c =>
        match scur s with
        | f :: _ => (s, if svis s then [CbItem c (fid f) (faccess f)] else [])
        | [] => (mkSp (scur s) (svis s) (snext s) ErrStuck, [])
        end
    | EvAccess a =>
        match scur s with
        | f :: rest =>
            if kind_eqb (fkind f) KClass
            then (mkSp (mkFrame (fid f) (fkind f) (fprior f) a :: rest) (svis s) (snext s) Running, [])
            else (mkSp (scur s) (svis s) (snext s) ErrAccessOutsideClass, [])
        | [] => (mkSp (scur s) (svis s) (snext s) ErrStuck, [])
        end
    end
  | _ => (s, [])
  end.

Fixpoint sem (skip : N -> bool) (s : Sp) (evs : list ev) : list cb :=
  match evs with
  | [] => []
  | e :: r => let '(s', o) := sstep skip s e in o ++ sem skip s' r
  end.

Fixpoint sfinal (skip : N -> bool) (s : Sp) (evs : list ev) : Sp :=
  match evs with
  | [] => s
  | e :: r => sfinal skip (fst (sstep skip s e)) r
  end.

Definition sinit : Sp := mkSp [root] true 1 Running.

(* observation of the interpreted machine *)
Definition obs (m : M) : Sp := mkSp (cur m) (vis m) (nextid m) (st m).

Lemma step_is_sstep skip m e :
  obs (step skip m e) = fst (sstep skip (obs m) e) /\
  out (step skip m e) = rev (snd (sstep skip (obs m) e)) ++ out m.
Proof.
  destruct m as [c v n o rs rp s]. unfold step, sstep, obs. cbn [st sst cur vis nextid out].
  destruct s; try (split; reflexivity).
  destruct e as [k a0| |ci|a].
  - destruct k; destruct v; cbn; try (destruct (skip n)); destruct c as [|p c']; split; reflexivity.
  - destruct c as [|f [|p c']]; destruct v; cbn; split; reflexivity.
  - destruct c as [|f c']; destruct v; cbn; split; reflexivity.
  - destruct c as [|f c']; cbn; [split; reflexivity|].
    destruct f as [i k pr ac]; destruct k; cbn; split; reflexivity.
Qed.

Theorem run_is_sem skip evs :
  stream (run skip evs) = CbParseStart 0 :: sem skip sinit evs /\
  obs (run skip evs) = sfinal skip sinit evs.
Proof.
  unfold run, stream.
  assert (G : forall evs m, rev (out (fold_left (step skip) evs m)) = rev (out m) ++ sem skip (obs m) evs
                            /\ obs (fold_left (step skip) evs m) = sfinal skip (obs m) evs).
  { clear evs. induction evs as [|e r IH]; intros m; cbn [fold_left sem sfinal].
    - now rewrite app_nil_r.
    - destruct (step_is_sstep skip m e) as [E1 E2].
      destruct (IH (step skip m e)) as [I1 I2]. rewrite I1, I2, E1, E2.
      destruct (sstep skip (obs m) e) as [s' o']. cbn [fst snd].
      rewrite rev_app_distr, rev_involutive, <- app_assoc. split; reflexivity. }
  destruct (G evs init) as [G1 G2]. rewrite G1, G2. split; reflexivity.
Qed.

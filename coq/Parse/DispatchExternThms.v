(* Theorems about the keyword handlers as translated from the code that exists
   now (Gen/Dispatch.v): proved by running the interpreter of
   Parse/DispatchLang.v on the regenerated programs with symbolic remainders. *)
From Coq Require Import NArith List Bool.
Import ListNotations.
From CXV Require Import Gen.TokTy Parse.Balanced Parse.BalancedThms Parse.Declarator Parse.DispatchLang Gen.Dispatch.
Open Scope N_scope.

Ltac concrete t H := destruct t as [? ?]; cbn [kty] in H; subst.

(* extern "C" { : an extern block with that linkage is opened; what follows the brace is its content *)
Theorem extern_block_opens kw str lb R :
  kty str = T_STRING_LITERAL -> kty lb = T_LIT_123 ->
  run prog_parse_extern false kw (str :: lb :: R) = OOpenExtern (Some str) R.
Proof. intros H1 H2. concrete str H1. concrete lb H2. reflexivity. Qed.

(* extern "C" <declaration> : the string literal is pushed back and the declaration parser starts at the `extern` keyword *)
Theorem extern_linkage_declaration kw str x R :
  kty str = T_STRING_LITERAL -> kty x <> T_LIT_123 ->
  run prog_parse_extern false kw (str :: x :: R) = OCall F_declarations [RTok (Some kw); RDox] [] (str :: x :: R).
Proof.
  intros H1 H2. concrete str H1. unfold run, prog_parse_extern. cbn.
  apply N.eqb_neq in H2. rewrite H2. reflexivity.
Qed.

(* extern template ... : an explicit instantiation declaration, flagged extern *)
Theorem extern_template_is_instantiation kw t R :
  kty t = T_template ->
  run prog_parse_extern false kw (t :: R) = OCall F_template_instantiation [RDox; RBool true] [] R.
Proof. intros H. concrete t H. reflexivity. Qed.

(* plain extern: the declaration parser gets the keyword and every token behind it *)
Theorem extern_declaration kw x R :
  kty x <> T_STRING_LITERAL -> kty x <> T_template ->
  run prog_parse_extern false kw (x :: R) = OCall F_declarations [RTok (Some kw); RDox] [] (x :: R).
Proof.
  intros H1 H2. unfold run, prog_parse_extern. cbn.
  apply N.eqb_neq in H1. apply N.eqb_neq in H2. rewrite H1, H2. reflexivity.
Qed.

(* a linkage specification or an extern template inside a class body is a parse error *)
Theorem extern_block_in_class_rejected kw x R :
  kty x = T_STRING_LITERAL \/ kty x = T_template ->
  run prog_parse_extern true kw (x :: R) = OErr 1.
Proof. intros [H|H]; concrete x H; reflexivity. Qed.


(* Hand-written mirror of how a conversion operator is read inside a class body:
   _parse_type(tok, operator_ok=True) collects the leading specifiers and stops
   at the `operator` keyword without a type name; _parse_declarations validates
   them and calls _parse_operator_conversion, which reads the conversion type
   (`[cv] NAME [cv]` and pointer / reference operators: _parse_type(None),
   validate(False, False), _parse_cv_ptr), requires '(' and hands over to
   _parse_function (name `operator`, operator "conversion"): parameter list and
   _parse_method_end; without a body the statement must end with ';'.
   Outside a class (no qualified names in this model) the same text would be a
   plain function named `operator`: outside the model (code 4).
   Tied to the code by the differential run of harness/props/c03.py. *)
From Coq Require Import NArith List Bool Lia.
Import ListNotations.
From CXV Require Import Gen.TokTy Gen.ParserTables Parse.Balanced Parse.BalancedThms Parse.Declarator Parse.DeclSpec Parse.DeclThms
  Parse.EnumList Parse.Specs Parse.VarStmt Parse.FnTail Parse.Init Parse.Members Parse.MethodTail Parse.DeclStmt Parse.MemberStmt.
Open Scope N_scope.

(* the specifier loop of _parse_type up to the `operator` keyword (no type name before it) *)
Fixpoint lead_specs (m : mods) (toks : list tk) {struct toks} : dres (mods * list tk) :=
  match toks with
  | t :: r =>
      if is T_operator t then DOk (m, r)
      else match set_mod (kty t) m with
           | Some m' => if is T_extern t then DErr 4 else lead_specs m' r
           | None => DErr 4                       (* anything else: not a conversion operator statement *)
           end
  | [] => DErr 2
  end.

Record convop := mkConv { cv_mods : mods; cv_type : ty; cv_params : list (ty * option N); cv_vararg : bool; cv_tail : mtail }.

Definition conv_stmt (fuel : nat) (toks : list tk) : dres (convop * list tk) :=
  match lead_specs mods0 toks with
  | DErr e => DErr e
  | DOk (m, r) =>
      (* validate(var_ok = true, meth_ok = true) in a class: always passes *)
      match parse_specs r with
      | DErr e => DErr e
      | DOk (cm, b, r1) =>
          if negb (validate false false cm) then DErr 3
          else
            match cvptr fuel (TBase b (m_const cm) (m_volatile cm)) r1 with
            | DErr e => DErr e
            | DOk (d, r2) =>
                if is_fn d then DErr 3
                else
                  match r2 with
                  | lp :: r3 =>
                      if is LP lp then
                        match params fuel r3 with
                        | DErr e => DErr e
                        | DOk (ps, va, r4) =>
                            match parse_method_end r4 with
                            | DErr e => DErr e
                            | DOk (q, r5) =>
                                if q_body q then DOk (mkConv m d ps va q, r5)
                                else match r5 with
                                     | s :: r6 => if is SEMI s then DOk (mkConv m d ps va q, r6) else DErr 1
                                     | [] => DErr 2
                                     end
                            end
                        end
                      else DErr 1
                  | [] => DErr 2
                  end
            end
      end
  end.

(* ------------------------------------------------------------------ *)

Lemma lead_specs_kws : forall ks m R,
  forallb spec_kw ks = true -> has T_extern ks = false ->
  lead_specs m (kw_toks ks ++ ktok T_operator :: R) = DOk (apply_kws ks m, R).
Proof.
  induction ks as [|k q IH]; intros m R Hk He; [reflexivity|].
  cbn [forallb] in Hk. apply andb_prop in Hk as [Hk1 Hk2].
  unfold has in He. cbn [existsb] in He. apply orb_false_elim in He as [He1 He2].
  destruct (set_mod_some k m Hk1) as [m' Em].
  cbn [kw_toks map app lead_specs].
  assert (Hop : is T_operator (ktok k) = false).
  { apply spec_kw_in in Hk1. unfold spec_kws in Hk1. cbn [In] in Hk1.
    repeat (destruct Hk1 as [<-|Hk1]; [reflexivity|]). contradiction. }
  rewrite Hop. cbn [kty ktok]. rewrite Em.
  assert (Hex : is T_extern (ktok k) = false).
  { unfold is. cbn [kty ktok]. rewrite N.eqb_sym. exact He1. }
  rewrite Hex.
  assert (Eap : apply_kws (k :: q) m = apply_kws q m') by (unfold apply_kws; cbn [fold_left]; now rewrite Em).
  rewrite Eap. apply IH; [exact Hk2|exact He2].
Qed.

Definition all_pfx (ls : list layer) : bool := forallb is_pfx ls.

Lemma all_pfx_main : forall ls, all_pfx ls = true -> mainl ls = ls /\ traill ls = [].
Proof.
  induction ls as [|l r IH]; intros H; [split; reflexivity|].
  cbn [all_pfx forallb] in H. apply andb_prop in H as [Hl Hr]. destruct (IH Hr) as [A B].
  assert (E : all_sfx (l :: r) = false) by (unfold all_sfx; cbn [forallb]; now rewrite Hl).
  rewrite (mainl_cons _ _ E), (traill_cons _ _ E). now rewrite A, B.
Qed.

(* `spec* operator cv* T cv* <pointer / reference operators> ( params ) quals <end>` in a class body: one method named
   `operator` whose return type is the conversion type, with the specifier flags written in front, the qualifier set and
   the ending written *)
Theorem conv_stmt_roundtrip pre cpre cpost b ls ps va quals e rest :
  forallb spec_kw pre = true -> has T_extern pre = false ->
  forallb (fun k => (k =? T_const) || (k =? T_volatile)) (cpre ++ cpost) = true ->
  all_pfx ls = true -> legalL KB ls = true ->
  layer_ok (LFn ps va) -> Forall mq_ok quals ->
  (match e with MeBody soup => bal tk kty LBRACE RBRACE soup | MeCtor _ _ => False | _ => True end) ->
  let cm := apply_kws (cpre ++ cpost) mods0 in
  let t := wrap (TBase b (m_const cm) (m_volatile cm)) ls in
  ev (fun f => conv_stmt f (kw_toks pre ++ ktok T_operator :: kw_toks cpre ++ nm_tok b :: kw_toks cpost ++ P ls [] ++
                            ktok LP :: params_toks ps va ++ ktok RP :: flat_map mq_toks quals ++ mlast_toks e ++ rest))
     (DOk (mkConv (apply_kws pre mods0) t ps va (apply_end e (quals_of quals)), rest)).
Proof.
  intros Hpre Hex Hcv Hpf Hleg [_ Hprm] Hq He cm t.
  assert (Hkw : forall l, forallb (fun k => (k =? T_const) || (k =? T_volatile)) l = true -> forallb spec_kw l = true).
  { intros l H. rewrite forallb_forall in *. intros x Hx. specialize (H x Hx).
    apply orb_prop in H as [H|H]; apply N.eqb_eq in H; subst x; reflexivity. }
  assert (Hk : forallb spec_kw (cpre ++ cpost) = true) by (now apply Hkw).
  assert (Hcpre : forallb spec_kw cpre = true) by (rewrite forallb_app in Hk; now apply andb_prop in Hk as [? _]).
  assert (Hcpost : forallb spec_kw cpost = true) by (rewrite forallb_app in Hk; now apply andb_prop in Hk as [_ ?]).
  assert (Hno : forall k, k <> T_const -> k <> T_volatile -> has k (cpre ++ cpost) = false).
  { intros k H1 H2. unfold has. apply not_true_is_false. intros E. apply existsb_exists in E as (x & Hx & Ex).
    apply N.eqb_eq in Ex. subst x. rewrite forallb_forall in Hcv. specialize (Hcv k Hx).
    apply orb_prop in Hcv as [H|H]; apply N.eqb_eq in H; contradiction. }
  assert (Hval : validate false false cm = true).
  { rewrite validate_spec. destruct (apply_kws_fields (cpre ++ cpost) mods0 Hk) as (_ & _ & A3 & A4 & A5 & A6 & A7 & A8 & A9).
    unfold cm. rewrite A3, A4, A5, A6, A7, A8, A9. rewrite !Hno by discriminate. reflexivity. }
  set (TAIL := match e with MeBody _ | MeCtor _ _ => rest | _ => ktok SEMI :: rest end).
  assert (Emid : flat_map mq_toks quals ++ mlast_toks e ++ rest = flat_map mq_toks quals ++ mend_toks e ++ TAIL).
  { unfold TAIL. destruct e; cbn [mlast_toks]; rewrite <- ?app_assoc; reflexivity. }
  assert (Hend : mend_ok e TAIL).
  { unfold TAIL. destruct e; cbn [mend_ok] in *; try exact I; try exact He; try contradiction. reflexivity. }
  set (Y := flat_map mq_toks quals ++ mend_toks e ++ TAIL).
  set (X := ktok LP :: params_toks ps va ++ ktok RP :: Y).
  assert (Hst : stops X = true).
  { unfold X. cbn [stops]. change (is LP (ktok LP)) with true. cbn [negb orb andb].
    pose proof (params_head_nopfx ps va Y) as H.
    destruct (params_toks ps va ++ ktok RP :: Y) as [|t2 r2]; [reflexivity|]. now rewrite H. }
  destruct (all_pfx_main ls Hpf) as [Em Et].
  assert (Hcore : SNk []) by constructor.
  assert (Hok : Forall layer_ok ls).
  { apply Forall_forall. intros l Hl. unfold all_pfx in Hpf. rewrite forallb_forall in Hpf. specialize (Hpf l Hl).
    destruct l; try exact I; discriminate Hpf. }
  pose proof (cvptr_P _ ls (le_n _) (TBase b (m_const cm) (m_volatile cm)) [] X Hleg Hok Hcore) as Hcv'.
  rewrite Et, Em in Hcv'. cbn [P app] in Hcv'. specialize (Hcv' Hst eq_refl). destruct Hcv' as [f1 H1].
  destruct (Hprm Y) as [f2 H2].
  pose proof (parse_method_end_roundtrip quals e TAIL Hq Hend) as Htl. fold Y in Htl.
  assert (Hnf : is_fn t = false).
  { unfold t. clear - Hpf. destruct ls as [|l r] using rev_ind; [reflexivity|].
    unfold wrap. rewrite fold_left_app. cbn [fold_left]. unfold all_pfx in Hpf. rewrite forallb_app in Hpf.
    apply andb_prop in Hpf as [_ Hl]. cbn [forallb] in Hl. destruct l; try reflexivity; discriminate Hl. }
  assert (Hstop : spec_stop (P ls [] ++ X) = true).
  { destruct ls as [|l r]; [reflexivity|]. cbn [all_pfx forallb] in Hpf. apply andb_prop in Hpf as [Hl _].
    destruct l; try discriminate Hl; reflexivity. }
  exists (Nat.max f1 f2). intros f Hge. unfold conv_stmt.
  rewrite (lead_specs_kws pre mods0 _ Hpre Hex).
  replace (kw_toks cpre ++ nm_tok b :: kw_toks cpost ++ P ls [] ++ ktok LP :: params_toks ps va ++ ktok RP :: flat_map mq_toks quals ++ mlast_toks e ++ rest)
    with (kw_toks cpre ++ nm_tok b :: kw_toks cpost ++ (P ls [] ++ X)).
  2:{ unfold X, Y. rewrite <- Emid. reflexivity. }
  rewrite (specs_decode_lemma cpre cpost b _ Hcpre Hcpost Hstop). rewrite apply_kws_app. fold cm.
  rewrite Hval. cbn [negb]. rewrite H1 by lia. fold t. rewrite Hnf.
  unfold X at 1. change (is LP (ktok LP)) with true. cbn iota.
  rewrite H2 by lia. rewrite Htl.
  fold (quals_of quals). rewrite (q_body_apply_end e _ (quals_no_body quals)).
  unfold TAIL. destruct e; cbn iota; isc; try reflexivity.
Qed.

(* Hand-written mirror of CxxParser._parse_pqname (called with compound_ok and
   fund_ok, as _parse_type does) for names without template arguments: an
   optional class key (struct / class / union / enum [class|struct]) or an
   optional `typename`, an optional leading '::', then NAME (:: NAME)* or a
   fundamental type, where the compound fundamentals (unsigned, long, int, ...)
   are collected as a group in the order written.  The token-type sets are the
   regenerated ones of Gen/ParserTables.v.  Template arguments, operators,
   decltype, attributes, anonymous class keys and `auto` are outside this model
   (code 4).
   Tied to the code by calling the real _parse_pqname on the same token lists
   (harness/props/c02.py). *)
From Coq Require Import NArith List Bool Lia.
Import ListNotations.
From CXV Require Import Gen.TokTy Gen.ParserTables Parse.Balanced Parse.Declarator Parse.DeclSpec.
Open Scope N_scope.

Inductive seg :=
| SRoot                      (* the empty segment of a leading '::' *)
| SName (n : N)
| SFund (words : list N).    (* token types of the fundamental keywords, in order *)

Record pq := mkPQ { pq_key : list N; pq_typename : bool; pq_segs : list seg }.

(* `while True: tok = token_if_in_set(compound_fundamentals) ...` *)
Fixpoint fund_group (toks : list tk) : list N * list tk :=
  match toks with
  | t :: r => if memN (kty t) compound_fundamentals then let '(ws, r') := fund_group r in (kty t :: ws, r') else ([], toks)
  | [] => ([], toks)
  end.

Definition outside_name (t : tk) : bool :=
  is T_decltype t || is T_operator t || is T_template t || is T_DBL_LBRACKET t.

(* the segment loop; the current token is [t], the stream is at [r] *)
Fixpoint pq_loop (n : nat) (acc : list seg) (t : tk) (r : list tk) : dres (list seg * list tk) :=
  match n with
  | O => DErr 9
  | S n' =>
      if outside_name t then DErr 4
      else if memN (kty t) fundamentals then
        let '(ws, r') := if memN (kty t) compound_fundamentals then fund_group r else ([], r) in
        DOk (rev (SFund (kty t :: ws) :: acc), r')                 (* no additional parts after fundamentals *)
      else if is T_NAME t then
        match r with
        | x :: r1 =>
            if is T_LIT_60 x then DErr 4                           (* template specialization *)
            else if is T_DBL_COLON x then
              match r1 with
              | t2 :: r2 =>
                  if is T_NAME t2 || is T_operator t2 || is T_template t2 || is T_decltype t2
                  then pq_loop n' (SName (kval t) :: acc) t2 r2
                  else DErr 1
              | [] => DErr 2
              end
            else DOk (rev (SName (kval t) :: acc), r)
        | [] => DOk (rev (SName (kval t) :: acc), r)
        end
      else DErr 4        (* other spellings taken as a name (final, a class key after typename, ...) *)
  end.

Definition pq_body (key : list N) (tn : bool) (t : tk) (r : list tk) : dres (pq * list tk) :=
  (* the first section: a leading '::' *)
  let start (t : tk) (r : list tk) (acc : list seg) :=
    match pq_loop (S (length r)) acc t r with
    | DOk (segs, r') => DOk (mkPQ key tn segs, r')
    | DErr e => DErr e
    end in
  if is T_DBL_COLON t then
    match r with
    | t2 :: r2 => if is T_NAME t2 || is T_template t2 || is T_operator t2 then start t2 r2 [SRoot] else DErr 1
    | [] => DErr 2
    end
  else start t r [].

Definition parse_pqname (toks : list tk) : dres (pq * list tk) :=
  match toks with
  | t :: r =>
      if negb (memN (kty t) pqname_start_tokens) then DErr 1
      else if is T_auto t then DErr 4
      else if memN (kty t) name_compound_start then
        (* class key; `enum class` / `enum struct` *)
        let '(key, r1) := if is T_enum t
                          then match r with
                               | k :: r' => if is T_class k || is T_struct k then ([kty t; kty k], r') else ([kty t], r)
                               | [] => ([kty t], r)
                               end
                          else ([kty t], r) in
        match r1 with
        | a :: r2 =>
            if is T_DBL_LBRACKET a || is T_alignas a || is T___attribute__ a || is T___declspec a then DErr 4
            else if is T_NAME a || is T_DBL_COLON a then pq_body key false a r2
            else DErr 4                                           (* an unnamed class / enum: anonymous id *)
        | [] => DErr 4
        end
      else if is T_typename t then
        match r with
        | a :: r2 => if negb (memN (kty a) pqname_start_tokens) then DErr 1
                     else if memN (kty a) name_compound_start || is T_typename a || is T_auto a || is T_final a then DErr 4
                     else pq_body [] true a r2
        | [] => DErr 2
        end
      else if is T_final t then DErr 4
      else pq_body [] false t r
  | [] => DErr 2
  end.

(* ------------------------------------------------------------------ *)
(* printed names *)

Record pname := mkPN {
  pn_typename : bool;
  pn_key : list N;            (* [] | [struct] | [class] | [union] | [enum] | [enum; class] | [enum; struct] *)
  pn_root : bool;             (* a leading '::' *)
  pn_names : list N;
  pn_fund : option (list N)   (* a final fundamental group *)
}.

Definition names_toks (ns : list N) : list tk :=
  match ns with
  | [] => []
  | n :: r => mkTk T_NAME n :: flat_map (fun m => [ktok T_DBL_COLON; mkTk T_NAME m]) r
  end.

Definition pn_toks (q : pname) : list tk :=
  (if pn_typename q then [ktok T_typename] else []) ++ map ktok (pn_key q)
  ++ (if pn_root q then [ktok T_DBL_COLON] else []) ++ names_toks (pn_names q)
  ++ (match pn_fund q with
      | Some ws => (match pn_names q with [] => [] | _ => [ktok T_DBL_COLON] end) ++ map ktok ws
      | None => []
      end).

Definition pn_segs (q : pname) : list seg :=
  (if pn_root q then [SRoot] else []) ++ map SName (pn_names q)
  ++ (match pn_fund q with Some ws => [SFund ws] | None => [] end).

Definition key_ok (k : list N) : bool :=
  match k with
  | [] => true
  | [a] => (a =? T_struct) || (a =? T_class) || (a =? T_union) || (a =? T_enum)
  | [a; b] => (a =? T_enum) && ((b =? T_class) || (b =? T_struct))
  | _ => false
  end.

Definition fund_ok (ws : list N) : bool :=
  match ws with
  | w :: r => memN w fundamentals && (if memN w compound_fundamentals then forallb (fun x => memN x compound_fundamentals) r
                                      else match r with [] => true | _ => false end)
  | [] => false
  end.

Definition pn_wf (q : pname) : Prop :=
  key_ok (pn_key q) = true /\
  (pn_typename q = true -> pn_key q = []) /\
  (pn_names q = [] -> pn_fund q <> None /\ pn_root q = false /\ pn_key q = []) /\
  (match pn_fund q with Some ws => fund_ok ws = true | None => True end).

(* what may follow: not something that would continue the name *)
Definition pn_stop (q : pname) (rest : list tk) : Prop :=
  match pn_fund q with
  | Some (w :: _) => if memN w compound_fundamentals
                     then match rest with t :: _ => memN (kty t) compound_fundamentals = false | [] => True end
                     else True
  | Some [] => True
  | None => match rest with t :: _ => is T_LIT_60 t = false /\ is T_DBL_COLON t = false | [] => True end
  end.

Lemma fund_group_rt : forall ws rest,
  forallb (fun x => memN x compound_fundamentals) ws = true ->
  (match rest with t :: _ => memN (kty t) compound_fundamentals = false | [] => True end) ->
  fund_group (map ktok ws ++ rest) = (ws, rest).
Proof.
  induction ws as [|w r IH]; intros rest Hall Hrest.
  - cbn [map app]. destruct rest as [|t r]; [reflexivity|]. cbn [fund_group]. now rewrite Hrest.
  - cbn [forallb] in Hall. apply andb_prop in Hall as [Hw Hr]. cbn [map app fund_group kty ktok].
    rewrite Hw. now rewrite (IH rest Hr Hrest).
Qed.

(* the end of the loop: a fundamental group *)
Lemma pq_loop_fund n acc ws rest :
  fund_ok ws = true ->
  (match ws with w :: _ => if memN w compound_fundamentals
                           then match rest with t :: _ => memN (kty t) compound_fundamentals = false | [] => True end else True
               | [] => True end) ->
  match map ktok ws ++ rest with
  | t :: r => pq_loop (S n) acc t r = DOk (rev (SFund ws :: acc), rest)
  | [] => False
  end.
Proof.
  destruct ws as [|w r]; [discriminate|]. cbn [fund_ok]. intros Hok Hstop. apply andb_prop in Hok as [Hf Hr].
  cbn [map app pq_loop].
  assert (Ho : outside_name (ktok w) = false).
  { unfold outside_name, is. cbn [kty ktok].
    assert (E : forall c, memN c fundamentals = false -> (w =? c) = false).
    { intros c Hc. apply N.eqb_neq. intros ->. rewrite Hc in Hf. discriminate. }
    rewrite !E by reflexivity. reflexivity. }
  rewrite Ho. cbn [kty ktok]. rewrite Hf.
  destruct (memN w compound_fundamentals) eqn:Ec.
  - rewrite (fund_group_rt r rest Hr Hstop). reflexivity.
  - destruct r; [reflexivity|discriminate].
Qed.

Definition name_stop (rest : list tk) : Prop :=
  match rest with t :: _ => is T_LIT_60 t = false /\ is T_DBL_COLON t = false | [] => True end.

Lemma pq_loop_names : forall q n acc rest fuel,
  (length q < fuel)%nat -> name_stop rest ->
  pq_loop fuel acc (mkTk T_NAME n) (flat_map (fun m => [ktok T_DBL_COLON; mkTk T_NAME m]) q ++ rest)
  = DOk (rev acc ++ SName n :: map SName q, rest).
Proof.
  induction q as [|m q IH]; intros n acc rest fuel Hf Hstop.
  - destruct fuel as [|fuel]; [cbn in Hf; lia|]. cbn [flat_map app pq_loop map].
    change (outside_name (mkTk T_NAME n)) with false. change (memN (kty (mkTk T_NAME n)) fundamentals) with false.
    change (is T_NAME (mkTk T_NAME n)) with true. cbn iota. cbn [kval rev].
    destruct rest as [|t r]; [reflexivity|]. destruct Hstop as [H1 H2]. now rewrite H1, H2.
  - destruct fuel as [|fuel]; [cbn in Hf; lia|]. cbn [flat_map app pq_loop map].
    change (outside_name (mkTk T_NAME n)) with false. change (memN (kty (mkTk T_NAME n)) fundamentals) with false.
    change (is T_NAME (mkTk T_NAME n)) with true. cbn iota.
    change (is T_LIT_60 (ktok T_DBL_COLON)) with false. change (is T_DBL_COLON (ktok T_DBL_COLON)) with true. cbn iota.
    change (is T_NAME (mkTk T_NAME m)) with true. cbn [orb]. cbn iota. cbn [kval].
    rewrite IH; [|cbn [length] in Hf; lia|exact Hstop]. cbn [rev]. now rewrite <- app_assoc.
Qed.

(* the two shapes of a name without template arguments *)
Inductive pname2 :=
| PNames (typename : bool) (key : list N) (root : bool) (n : N) (q : list N)     (* [typename | class-key] [::] n :: q... *)
| PFund (typename : bool) (ws : list N).                                            (* [typename] fundamental group *)

Definition pn2_toks (p : pname2) : list tk :=
  match p with
  | PNames tn key root n q =>
      (if tn then [ktok T_typename] else []) ++ map ktok key ++ (if root then [ktok T_DBL_COLON] else [])
      ++ mkTk T_NAME n :: flat_map (fun m => [ktok T_DBL_COLON; mkTk T_NAME m]) q
  | PFund tn ws => (if tn then [ktok T_typename] else []) ++ map ktok ws
  end.

Definition pn2_out (p : pname2) : pq :=
  match p with
  | PNames tn key root n q => mkPQ key tn ((if root then [SRoot] else []) ++ SName n :: map SName q)
  | PFund tn ws => mkPQ [] tn [SFund ws]
  end.

Definition pn2_ok (p : pname2) (rest : list tk) : Prop :=
  match p with
  | PNames tn key root n q => key_ok key = true /\ (tn = true -> key = []) /\ name_stop rest
  | PFund tn ws =>
      fund_ok ws = true /\
      (match ws with w :: _ => if memN w compound_fundamentals
                               then match rest with t :: _ => memN (kty t) compound_fundamentals = false | [] => True end else True
                   | [] => True end)
  end.

Lemma pq_body_names (key : list N) (tn root : bool) (n : N) (q : list N) (rest : list tk) :
  name_stop rest ->
  match (if root then [ktok T_DBL_COLON] else []) ++ mkTk T_NAME n :: flat_map (fun m => [ktok T_DBL_COLON; mkTk T_NAME m]) q ++ rest with
  | t :: r => pq_body key tn t r = DOk (mkPQ key tn ((if root then [SRoot] else []) ++ SName n :: map SName q), rest)
  | [] => False
  end.
Proof.
  intros Hstop. destruct root; cbn [app]; unfold pq_body.
  - change (is T_DBL_COLON (ktok T_DBL_COLON)) with true. cbn iota.
    change (is T_NAME (mkTk T_NAME n)) with true. cbn [orb]. cbn iota.
    rewrite pq_loop_names; [reflexivity| |exact Hstop].
    rewrite app_length. clear. induction q; cbn [flat_map app length] in *; lia.
  - change (is T_DBL_COLON (mkTk T_NAME n)) with false. cbn iota.
    rewrite pq_loop_names; [reflexivity| |exact Hstop].
    rewrite app_length. clear. induction q; cbn [flat_map app length] in *; lia.
Qed.

Lemma memN_In x l : memN x l = true -> In x l.
Proof.
  induction l as [|y r IH]; cbn [memN]; [discriminate|].
  destruct (N.eqb_spec x y) as [->|_]; [now left|]. intros H. right. now apply IH.
Qed.

Lemma key_cases k : key_ok k = true ->
  k = [] \/ k = [T_struct] \/ k = [T_class] \/ k = [T_union] \/ k = [T_enum] \/ k = [T_enum; T_class] \/ k = [T_enum; T_struct].
Proof.
  destruct k as [|a [|b [|c r]]]; cbn [key_ok]; intros H; try discriminate.
  - now left.
  - repeat (apply orb_prop in H as [H|H]); apply N.eqb_eq in H; subst; tauto.
  - apply andb_prop in H as [Ha Hb]. apply N.eqb_eq in Ha. subst a.
    apply orb_prop in Hb as [Hb|Hb]; apply N.eqb_eq in Hb; subst; tauto.
Qed.

Theorem pqname_roundtrip p rest :
  pn2_ok p rest -> parse_pqname (pn2_toks p ++ rest) = DOk (pn2_out p, rest).
Proof.
  destruct p as [tn key root n q|tn ws]; cbn [pn2_ok pn2_toks pn2_out].
  - intros (Hkey & Htn & Hstop).
    pose proof (pq_body_names key tn root n q rest Hstop) as HB.
    rewrite <- !app_assoc. cbn [app].
    destruct tn.
    + rewrite (Htn eq_refl) in *. cbn [map app].
      destruct root; cbn [app] in *; cbn [parse_pqname];
        repeat match goal with
        | |- context [memN (kty (ktok ?b)) ?l] => let v := eval vm_compute in (memN (kty (ktok b)) l) in change (memN (kty (ktok b)) l) with v
        | |- context [memN (kty (mkTk T_NAME ?m)) ?l] => let v := eval vm_compute in (memN (kty (mkTk T_NAME m)) l) in change (memN (kty (mkTk T_NAME m)) l) with v
        | |- context [is ?a (ktok ?b)] => let v := eval vm_compute in (is a (ktok b)) in change (is a (ktok b)) with v
        | |- context [is ?a (mkTk T_NAME ?m)] => let v := eval vm_compute in (is a (mkTk T_NAME m)) in change (is a (mkTk T_NAME m)) with v
        end; cbn [negb orb andb]; cbn iota; exact HB.
    + destruct (key_cases key Hkey) as [->|[->|[->|[->|[->|[->| ->]]]]]]; cbn [map app];
        destruct root; cbn [app] in *; cbn [parse_pqname];
        repeat match goal with
        | |- context [memN (kty (ktok ?b)) ?l] => let v := eval vm_compute in (memN (kty (ktok b)) l) in change (memN (kty (ktok b)) l) with v
        | |- context [memN (kty (mkTk T_NAME ?m)) ?l] => let v := eval vm_compute in (memN (kty (mkTk T_NAME m)) l) in change (memN (kty (mkTk T_NAME m)) l) with v
        | |- context [is ?a (ktok ?b)] => let v := eval vm_compute in (is a (ktok b)) in change (is a (ktok b)) with v
        | |- context [is ?a (mkTk T_NAME ?m)] => let v := eval vm_compute in (is a (mkTk T_NAME m)) in change (is a (mkTk T_NAME m)) with v
        end; cbn [negb orb andb kty ktok]; cbn iota; exact HB.
  - intros (Hok & Hstop).
    pose proof (pq_loop_fund (length (map ktok (tl ws) ++ rest)) [] ws rest Hok Hstop) as HL.
    destruct ws as [|w r]; [discriminate|]. cbn [map app tl] in HL.
    pose proof Hok as Hok'. cbn [fund_ok] in Hok'. apply andb_prop in Hok' as [Hf _].
    apply memN_In in Hf. unfold fundamentals in Hf. cbn [In] in Hf.
    rewrite <- app_assoc.
    repeat (destruct Hf as [<-|Hf];
            [destruct tn; cbn [app map parse_pqname];
             repeat match goal with
             | |- context [memN (kty (ktok ?b)) ?l] => let v := eval vm_compute in (memN (kty (ktok b)) l) in change (memN (kty (ktok b)) l) with v
             | |- context [is ?a (ktok ?b)] => let v := eval vm_compute in (is a (ktok b)) in change (is a (ktok b)) with v
             end; cbn [negb orb andb]; cbn iota; unfold pq_body;
             repeat match goal with
             | |- context [is ?a (ktok ?b)] => let v := eval vm_compute in (is a (ktok b)) in change (is a (ktok b)) with v
             end; cbn iota; rewrite HL; reflexivity|]).
    contradiction.
Qed.

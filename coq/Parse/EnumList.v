(* Hand-written mirror of CxxParser._parse_enumerator_list (entered after the
   '{'): NAME [= value] separated by ',', closed by '}', a trailing ',' allowed;
   values are read by _consume_value_until(",", "}") (Parse/Balanced.v).
   Attributes on enumerators and doc comments are outside this model.
   Tied to the code by the differential run of harness/props/c01.py. *)
From Coq Require Import NArith List Bool Lia.
Import ListNotations.
From CXV Require Import Gen.TokTy Gen.ParserTables Parse.Balanced Parse.BalancedThms Parse.Declarator Parse.DeclSpec.
Open Scope N_scope.

Definition LBRACE := T_LIT_123.
Definition RBRACE := T_LIT_125.
Definition enum_terms : list N := [COMMA; RBRACE].

Definition enumerator := (N * option (list tk))%type.

Fixpoint enum_list (n : nat) (acc : list enumerator) (toks : list tk) {struct n}
  : dres (list enumerator * list tk) :=
  match n with
  | O => DErr 9
  | S n' =>
      match toks with
      | t :: r =>
          if is RBRACE t then DOk (rev acc, r)
          else if is T_NAME t then
            match r with
            | s :: r1 =>
                if is RBRACE s then DOk (rev ((kval t, None) :: acc), r1)
                else if is COMMA s then enum_list n' ((kval t, None) :: acc) r1
                else if is EQ s then
                  match consume_value_until kty enum_terms r1 with
                  | Ok (v, r2) =>
                      match r2 with
                      | s2 :: r3 =>
                          if is RBRACE s2 then DOk (rev ((kval t, Some v) :: acc), r3)
                          else if is COMMA s2 then enum_list n' ((kval t, Some v) :: acc) r3
                          else DErr 1
                      | [] => DErr 2
                      end
                  | ErrEOF => DErr 2
                  | ErrUnexpected _ => DErr 1
                  | ErrInternal => DErr 3
                  end
                else if is T_DBL_LBRACKET s then DErr 4
                else DErr 1
            | [] => DErr 2
            end
          else DErr 1
      | [] => DErr 2
      end
  end.

(* the printed form *)
Definition enumerator_toks (e : enumerator) : list tk :=
  mkTk T_NAME (fst e) :: match snd e with Some v => ktok EQ :: v | None => [] end.

Definition enum_body_toks (items : list enumerator) (trailing_comma : bool) : list tk :=
  join_comma (map enumerator_toks items) ++ (if trailing_comma then [ktok COMMA] else []) ++ [ktok RBRACE].

Definition value_ok (e : enumerator) : Prop :=
  match snd e with Some v => Expr tk kty enum_terms v | None => True end.

Lemma stops_comma r : stops_at tk kty enum_terms (ktok COMMA :: r).
Proof. reflexivity. Qed.
Lemma stops_rbrace r : stops_at tk kty enum_terms (ktok RBRACE :: r).
Proof. reflexivity. Qed.

Lemma is_name_tok a n : is a (mkTk T_NAME n) = (T_NAME =? a).
Proof. reflexivity. Qed.

Lemma enum_list_rt : forall items acc rest tc,
  Forall value_ok items -> (items = [] -> tc = false) ->
  enum_list (S (length items)) acc (enum_body_toks items tc ++ rest) = DOk (rev acc ++ items, rest).
Proof.
  induction items as [|[n v] q IH]; intros acc rest tc Hok Htc.
  - rewrite (Htc eq_refl). cbn. now rewrite app_nil_r.
  - inversion Hok as [|? ? Hv Hq]; subst. unfold value_ok in Hv. cbn [snd] in Hv.
    unfold enum_body_toks. cbn [map].
    assert (Hhead : forall X, enum_list (S (length ((n, v) :: q))) acc (mkTk T_NAME n :: X) =
              match X with
              | s :: r1 =>
                  if is RBRACE s then DOk (rev ((n, None) :: acc), r1)
                  else if is COMMA s then enum_list (length ((n, v) :: q)) ((n, None) :: acc) r1
                  else if is EQ s then
                    match consume_value_until kty enum_terms r1 with
                    | Ok (v0, r2) =>
                        match r2 with
                        | s2 :: r3 =>
                            if is RBRACE s2 then DOk (rev ((n, Some v0) :: acc), r3)
                            else if is COMMA s2 then enum_list (length ((n, v) :: q)) ((n, Some v0) :: acc) r3
                            else DErr 1
                        | [] => DErr 2
                        end
                    | ErrEOF => DErr 2
                    | ErrUnexpected _ => DErr 1
                    | ErrInternal => DErr 3
                    end
                  else if is T_DBL_LBRACKET s then DErr 4
                  else DErr 1
              | [] => DErr 2
              end) by (intros X; reflexivity).
    destruct q as [|e2 q'].
    + (* last enumerator *)
      cbn [map join_comma]. unfold enumerator_toks at 1. cbn [fst snd].
      destruct v as [v|]; cbn [app]; rewrite Hhead.
      * destruct tc; cbn [app].
        -- change (is RBRACE (ktok EQ)) with false. change (is COMMA (ktok EQ)) with false. change (is EQ (ktok EQ)) with true. cbn iota.
           rewrite <- app_assoc. cbn [app].
           rewrite (value_is_whole tk kty enum_terms v (ktok COMMA :: ktok RBRACE :: rest) Hv (stops_comma _)).
           change (is RBRACE (ktok COMMA)) with false. change (is COMMA (ktok COMMA)) with true. cbn iota.
           cbn [length enum_list]. change (is RBRACE (ktok RBRACE)) with true. cbn iota.
           cbn [rev app]; rewrite <- ?app_assoc; reflexivity.
        -- change (is RBRACE (ktok EQ)) with false. change (is COMMA (ktok EQ)) with false. change (is EQ (ktok EQ)) with true. cbn iota.
           rewrite <- app_assoc. cbn [app].
           rewrite (value_is_whole tk kty enum_terms v (ktok RBRACE :: rest) Hv (stops_rbrace _)).
           change (is RBRACE (ktok RBRACE)) with true. cbn iota.
           cbn [rev app]; rewrite <- ?app_assoc; reflexivity.
      * destruct tc; cbn [app].
        -- change (is RBRACE (ktok COMMA)) with false. change (is COMMA (ktok COMMA)) with true. cbn iota.
           cbn [length enum_list]. change (is RBRACE (ktok RBRACE)) with true. cbn iota.
           cbn [rev app]; rewrite <- ?app_assoc; reflexivity.
        -- change (is RBRACE (ktok RBRACE)) with true. cbn iota. cbn [rev app]; rewrite <- ?app_assoc; reflexivity.
    + (* more follow *)
      change (map enumerator_toks ((n, v) :: e2 :: q')) with (enumerator_toks (n, v) :: map enumerator_toks (e2 :: q')).
      assert (Ej : forall x y l, join_comma (x :: y :: l) = x ++ ktok COMMA :: join_comma (y :: l)) by reflexivity.
      change (map enumerator_toks (e2 :: q')) with (enumerator_toks e2 :: map enumerator_toks q').
      rewrite Ej. change (enumerator_toks e2 :: map enumerator_toks q') with (map enumerator_toks (e2 :: q')).
      unfold enumerator_toks at 1. cbn [fst snd].
      assert (Hrec : forall a, enum_list (length ((n, v) :: e2 :: q')) a
                (join_comma (map enumerator_toks (e2 :: q')) ++ (if tc then [ktok COMMA] else []) ++ [ktok RBRACE] ++ rest)
                = DOk (rev a ++ e2 :: q', rest)).
      { intros a. change (length ((n, v) :: e2 :: q')) with (S (length (e2 :: q'))).
        pose proof (IH a rest tc Hq ltac:(discriminate)) as H. unfold enum_body_toks in H.
        rewrite <- !app_assoc in H. exact H. }
      destruct v as [v|]; cbn [app]; rewrite <- !app_assoc; cbn [app]; rewrite Hhead.
      * change (is RBRACE (ktok EQ)) with false. change (is COMMA (ktok EQ)) with false. change (is EQ (ktok EQ)) with true. cbn iota.
        rewrite <- ?app_assoc. cbn [app].
        rewrite (value_is_whole tk kty enum_terms v _ Hv (stops_comma _)).
        change (is RBRACE (ktok COMMA)) with false. change (is COMMA (ktok COMMA)) with true. cbn iota.
        rewrite Hrec. cbn [rev app]; rewrite <- ?app_assoc; reflexivity.
      * change (is RBRACE (ktok COMMA)) with false. change (is COMMA (ktok COMMA)) with true. cbn iota.
        rewrite Hrec. cbn [rev app]; rewrite <- ?app_assoc; reflexivity.
Qed.

(* `{ A, B = expr, C }`: every enumerator once, in order, with exactly its value *)
Theorem enumerators_roundtrip items tc rest :
  Forall value_ok items -> (items = [] -> tc = false) ->
  enum_list (S (length items)) [] (enum_body_toks items tc ++ rest) = DOk (items, rest).
Proof. intros H1 H2. exact (enum_list_rt items [] rest tc H1 H2). Qed.

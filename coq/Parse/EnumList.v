(* Hand-written mirror of CxxParser._parse_enumerator_list (entered after the
   '{'): NAME [attribute-specifier-seq] [= value] separated by ',', closed by
   '}', a trailing ',' allowed; values are read by
   _consume_value_until(",", "}") (Parse/Balanced.v); the attribute sequence
   is read by _consume_attribute_specifier_seq ([[ ... ]] and alignas( ... )
   groups, each a balanced group, any number of them) and is dropped from the
   result, as the code drops it.  Doc comments are outside this model.
   Tied to the code by the differential run of harness/props/c01.py and by the
   digest pin of Gen/PinsC01.v. *)
From Coq Require Import NArith List Bool Lia.
Import ListNotations.
From CXV Require Import Gen.TokTy Gen.ParserTables Parse.Balanced Parse.BalancedThms Parse.Declarator Parse.DeclSpec.
Open Scope N_scope.

Definition LBRACE := T_LIT_123.
Definition RBRACE := T_LIT_125.
Definition DLB := T_DBL_LBRACKET.
Definition DRB := T_DBL_RBRACKET.
Definition ALIGNAS := T_alignas.
Definition enum_terms : list N := [COMMA; RBRACE].

Definition enumerator := (N * option (list tk))%type.

Definition of_res {A} (r : res A) : dres A :=
  match r with
  | Ok x => DOk x
  | ErrEOF => DErr 2
  | ErrUnexpected _ => DErr 1
  | ErrInternal => DErr 3
  end.

(* _consume_attribute_specifier_seq(tok): t is the token already taken *)
Fixpoint attr_seq (n : nat) (t : tk) (r : list tk) {struct n} : dres (list tk) :=
  match n with
  | O => DErr 9
  | S n' =>
      let next (r1 : list tk) :=
        match r1 with
        | h :: r2 => if is DLB h || is ALIGNAS h then attr_seq n' h r2 else DOk r1
        | [] => DOk r1
        end in
      if is DLB t then
        match consume_balanced kty [t] r with
        | Ok (_, r1) => next r1
        | ErrEOF => DErr 2
        | ErrUnexpected _ => DErr 1
        | ErrInternal => DErr 3
        end
      else if is ALIGNAS t then
        match r with
        | p :: r0 =>
            if is LP p then
              match consume_balanced kty [p] r0 with
              | Ok (_, r1) => next r1
              | ErrEOF => DErr 2
              | ErrUnexpected _ => DErr 1
              | ErrInternal => DErr 3
              end
            else DErr 1
        | [] => DErr 2
        end
      else DOk (t :: r)
  end.

(* one enumerator behind its name: the enumerator, whether the '}' ended the list, the rest *)
Definition enum_item (name : N) (r : list tk) : dres (enumerator * bool * list tk) :=
  match r with
  | [] => DErr 2
  | s0 :: r0 =>
      let after :=
        if is DLB s0 then
          match attr_seq (S (length r0)) s0 r0 with
          | DOk (x :: r2) => DOk (x, r2)
          | DOk [] => DErr 2
          | DErr e => DErr e
          end
        else DOk (s0, r0) in
      match after with
      | DErr e => DErr e
      | DOk (s, r1) =>
          if is RBRACE s then DOk ((name, None), true, r1)
          else if is COMMA s then DOk ((name, None), false, r1)
          else if is EQ s then
            match consume_value_until kty enum_terms r1 with
            | Ok (v, r2) =>
                match r2 with
                | s2 :: r3 =>
                    if is RBRACE s2 then DOk ((name, Some v), true, r3)
                    else if is COMMA s2 then DOk ((name, Some v), false, r3)
                    else DErr 1
                | [] => DErr 2
                end
            | ErrEOF => DErr 2
            | ErrUnexpected _ => DErr 1
            | ErrInternal => DErr 3
            end
          else DErr 1
      end
  end.

Fixpoint enum_list (n : nat) (acc : list enumerator) (toks : list tk) {struct n}
  : dres (list enumerator * list tk) :=
  match n with
  | O => DErr 9
  | S n' =>
      match toks with
      | t :: r =>
          if is RBRACE t then DOk (rev acc, r)
          else if is T_NAME t then
            match enum_item (kval t) r with
            | DErr e => DErr e
            | DOk (e, true, r') => DOk (rev (e :: acc), r')
            | DOk (e, false, r') => enum_list n' (e :: acc) r'
            end
          else DErr 1
      | [] => DErr 2
      end
  end.

(* ---- the printed form ---- *)
Inductive attr := ABr (soup : list tk) | AAl (soup : list tk).
Definition attr_toks (a : attr) : list tk :=
  match a with
  | ABr s => ktok DLB :: s ++ [ktok DRB]
  | AAl s => ktok ALIGNAS :: ktok LP :: s ++ [ktok RP]
  end.
Definition attr_ok (a : attr) : Prop := match a with ABr s | AAl s => SN tk kty s end.

(* a written enumerator: name, attributes (the first one, if any, a [[ ]] group), initialiser *)
Definition wenum := (N * list attr * option (list tk))%type.
Definition strip_e (w : wenum) : enumerator := (fst (fst w), snd w).
Definition wenum_toks (w : wenum) : list tk :=
  mkTk T_NAME (fst (fst w)) :: flat_map attr_toks (snd (fst w)) ++ match snd w with Some v => ktok EQ :: v | None => [] end.

Fixpoint enum_body_toks (items : list wenum) (trailing_comma : bool) : list tk :=
  match items with
  | [] => [ktok RBRACE]
  | [w] => wenum_toks w ++ (if trailing_comma then [ktok COMMA] else []) ++ [ktok RBRACE]
  | w :: q => wenum_toks w ++ ktok COMMA :: enum_body_toks q trailing_comma
  end.

Definition wenum_ok (w : wenum) : Prop :=
  Forall attr_ok (snd (fst w)) /\
  match snd (fst w) with [] => True | ABr _ :: _ => True | AAl _ :: _ => False end /\
  match snd w with Some v => Expr tk kty enum_terms v | None => True end.

Lemma stops_comma r : stops_at tk kty enum_terms (ktok COMMA :: r).
Proof. reflexivity. Qed.
Lemma stops_rbrace r : stops_at tk kty enum_terms (ktok RBRACE :: r).
Proof. reflexivity. Qed.

Lemma is_name_tok a n : is a (mkTk T_NAME n) = (T_NAME =? a).
Proof. reflexivity. Qed.

(* one attribute group is consumed whole *)
Lemma cb_dlb soup rest : SN tk kty soup ->
  consume_balanced kty [ktok DLB] (soup ++ ktok DRB :: rest) = Ok (ktok DLB :: soup ++ [ktok DRB], rest).
Proof.
  intros H. apply (consume_balanced_exact tk kty (ktok DLB) (ktok DRB) DRB soup rest); [reflexivity|vm_compute; discriminate|reflexivity|exact H].
Qed.
Lemma cb_lp soup rest : SN tk kty soup ->
  consume_balanced kty [ktok LP] (soup ++ ktok RP :: rest) = Ok (ktok LP :: soup ++ [ktok RP], rest).
Proof.
  intros H. apply (consume_balanced_exact tk kty (ktok LP) (ktok RP) RP soup rest); [reflexivity|vm_compute; discriminate|reflexivity|exact H].
Qed.

Definition not_attr_start (l : list tk) : Prop :=
  match l with h :: _ => is DLB h = false /\ is ALIGNAS h = false | [] => True end.

Lemma attr_seq_step n t r :
  attr_seq (S n) t r =
      let next (r1 : list tk) :=
        match r1 with
        | h :: r2 => if is DLB h || is ALIGNAS h then attr_seq n h r2 else DOk r1
        | [] => DOk r1
        end in
      if is DLB t then
        match consume_balanced kty [t] r with
        | Ok (_, r1) => next r1
        | ErrEOF => DErr 2
        | ErrUnexpected _ => DErr 1
        | ErrInternal => DErr 3
        end
      else if is ALIGNAS t then
        match r with
        | p :: r0 =>
            if is LP p then
              match consume_balanced kty [p] r0 with
              | Ok (_, r1) => next r1
              | ErrEOF => DErr 2
              | ErrUnexpected _ => DErr 1
              | ErrInternal => DErr 3
              end
            else DErr 1
        | [] => DErr 2
        end
      else DOk (t :: r).
Proof. reflexivity. Qed.

(* the whole attribute sequence is consumed, nothing else *)
Lemma attr_seq_rt : forall ats n rest, Forall attr_ok ats -> ats <> [] -> not_attr_start rest ->
  (length ats <= n)%nat ->
  match flat_map attr_toks ats ++ rest with
  | t :: r => attr_seq n t r = DOk rest
  | [] => False
  end.
Proof.
  induction ats as [|a q IH]; intros n rest Hok Hne Hrest Hn; [contradiction|].
  inversion Hok as [|? ? Ha Hq]; subst.
  destruct n as [|n]; [cbn [length] in Hn; lia|]. cbn [length] in Hn.
  assert (Hnext : forall soupdone : unit,
            (match flat_map attr_toks q ++ rest with
             | h :: r2 => if is DLB h || is ALIGNAS h then attr_seq n h r2 else DOk (flat_map attr_toks q ++ rest)
             | [] => DOk (flat_map attr_toks q ++ rest)
             end) = DOk rest).
  { intros _. destruct q as [|a2 q'].
    - cbn [flat_map app]. destruct rest as [|h r2]; [reflexivity|].
      cbn [not_attr_start] in Hrest. destruct Hrest as [E1 E2]. now rewrite E1, E2.
    - pose proof (IH n rest Hq ltac:(discriminate) Hrest ltac:(lia)) as H.
      destruct (flat_map attr_toks (a2 :: q') ++ rest) as [|h r2] eqn:E; [contradiction|].
      assert (Hh : is DLB h || is ALIGNAS h = true).
      { destruct a2; cbn [flat_map attr_toks app] in E; inversion E; reflexivity. }
      now rewrite Hh. }
  destruct a as [soup|soup]; cbn [attr_ok] in Ha; cbn [flat_map attr_toks app].
  - rewrite attr_seq_step. cbv zeta. change (is DLB (ktok DLB)) with true. cbn iota.
    rewrite <- !app_assoc. cbn [app]. rewrite (cb_dlb soup _ Ha). exact (Hnext tt).
  - rewrite attr_seq_step. cbv zeta. change (is DLB (ktok ALIGNAS)) with false. change (is ALIGNAS (ktok ALIGNAS)) with true. cbn iota.
    change (is LP (ktok LP)) with true. cbn iota.
    rewrite <- !app_assoc. cbn [app]. rewrite (cb_lp soup _ Ha). exact (Hnext tt).
Qed.

Lemma flat_len ats : (length ats <= length (flat_map attr_toks ats))%nat.
Proof.
  induction ats as [|a q IH]; [cbn; lia|]. cbn [flat_map length]. rewrite app_length.
  destruct a; cbn [attr_toks length]; lia.
Qed.

(* one written enumerator followed by its separator *)
Lemma enum_item_rt w sep rest : wenum_ok w -> (is COMMA sep = true \/ is RBRACE sep = true) ->
  enum_item (fst (fst w)) (tl (wenum_toks w) ++ sep :: rest) = DOk (strip_e w, is RBRACE sep, rest).
Proof.
  destruct w as [[n ats] v]. unfold wenum_ok, strip_e, wenum_toks. cbn [fst snd tl].
  intros (Hats & Hfirst & Hv) Hsep.
  assert (Hsepk : is DLB sep = false /\ is ALIGNAS sep = false /\ (is RBRACE sep = false -> is COMMA sep = true)).
  { unfold is in *. destruct Hsep as [H|H]; apply N.eqb_eq in H; rewrite H; repeat split; try reflexivity; intros; try discriminate. }
  destruct Hsepk as (Hs1 & Hs2 & Hs3).
  (* what happens from the token behind the attributes on *)
  remember ((match v with Some v0 => ktok EQ :: v0 | None => [] end) ++ sep :: rest) as tailp eqn:Etp.
  assert (Htail :
    match tailp with
    | s :: r1 =>
        (if is RBRACE s then DOk ((n, None), true, r1)
          else if is COMMA s then DOk ((n, None), false, r1)
          else if is EQ s then
            match consume_value_until kty enum_terms r1 with
            | Ok (v0, r2) =>
                match r2 with
                | s2 :: r3 =>
                    if is RBRACE s2 then DOk ((n, Some v0), true, r3)
                    else if is COMMA s2 then DOk ((n, Some v0), false, r3)
                    else DErr 1
                | [] => DErr 2
                end
            | ErrEOF => DErr 2
            | ErrUnexpected _ => DErr 1
            | ErrInternal => DErr 3
            end
          else DErr 1)
    | [] => DErr 2
    end = DOk ((n, v), is RBRACE sep, rest)).
  { subst tailp. destruct v as [v0|]; cbn [app].
    - change (is RBRACE (ktok EQ)) with false. change (is COMMA (ktok EQ)) with false. change (is EQ (ktok EQ)) with true. cbn iota.
      assert (Hst : stops_at tk kty enum_terms (sep :: rest)).
      { cbn [stops_at enum_terms memN]. unfold is in Hsep. destruct Hsep as [H|H]; apply N.eqb_eq in H; rewrite H; reflexivity. }
      rewrite (value_is_whole tk kty enum_terms v0 (sep :: rest) Hv Hst).
      destruct (is RBRACE sep) eqn:Er; [reflexivity|]. now rewrite (Hs3 eq_refl).
    - destruct (is RBRACE sep) eqn:Er; [reflexivity|]. now rewrite (Hs3 eq_refl). }
  destruct ats as [|a q].
  - cbn [flat_map app]. rewrite <- Etp. unfold enum_item.
    destruct tailp as [|s0 r0]; [destruct v; discriminate|].
    assert (Hd : is DLB s0 = false).
    { destruct v; cbn [app] in Etp; inversion Etp; [reflexivity|exact Hs1]. }
    rewrite Hd. cbv zeta. cbn iota.
    exact Htail.
  - destruct a as [soup|soup]; [|contradiction].
    rewrite <- app_assoc. rewrite <- Etp.
    assert (Hna : not_attr_start tailp).
    { subst tailp. destruct v; cbn [app not_attr_start]; split; try reflexivity; assumption. }
    pose proof (attr_seq_rt (ABr soup :: q) (S (length (tl (flat_map attr_toks (ABr soup :: q) ++ tailp)))) tailp Hats ltac:(discriminate) Hna) as H.
    unfold enum_item.
    destruct (flat_map attr_toks (ABr soup :: q) ++ tailp) as [|s0 r0] eqn:E; [cbn in E; discriminate|].
    assert (Hd : s0 = ktok DLB) by (cbn [flat_map attr_toks app] in E; now inversion E). subst s0.
    change (is DLB (ktok DLB)) with true. cbv zeta. cbn iota. cbn [tl] in H.
    rewrite H.
    + destruct tailp as [|s r1]; [destruct v; discriminate|].
      exact Htail.
    + (* fuel: number of attribute groups <= tokens *)
      assert (length (flat_map attr_toks (ABr soup :: q) ++ tailp) = S (length r0)) by now rewrite E.
      rewrite app_length in H0. pose proof (flat_len (ABr soup :: q)). lia.
Qed.

Lemma enum_list_step n acc t r :
  enum_list (S n) acc (t :: r) =
          if is RBRACE t then DOk (rev acc, r)
          else if is T_NAME t then
            match enum_item (kval t) r with
            | DErr e => DErr e
            | DOk (e, true, r') => DOk (rev (e :: acc), r')
            | DOk (e, false, r') => enum_list n (e :: acc) r'
            end
          else DErr 1.
Proof. reflexivity. Qed.

Lemma wenum_toks_cons w : wenum_toks w = mkTk T_NAME (fst (fst w)) :: tl (wenum_toks w).
Proof. reflexivity. Qed.

Lemma enum_list_rt : forall items acc rest tc n,
  Forall wenum_ok items -> (items = [] -> tc = false) -> (length items < n)%nat ->
  enum_list n acc (enum_body_toks items tc ++ rest) = DOk (rev acc ++ map strip_e items, rest).
Proof.
  induction items as [|w q IH]; intros acc rest tc n Hok Htc Hn.
  - destruct n as [|n]; [cbn in Hn; lia|]. cbn [enum_body_toks app]. rewrite enum_list_step.
    change (is RBRACE (ktok RBRACE)) with true. cbn iota. cbn [map]. now rewrite app_nil_r.
  - inversion Hok as [|? ? Hw Hq]; subst.
    destruct n as [|n]; [cbn in Hn; lia|]. cbn [length] in Hn.
    destruct q as [|w2 q'].
    + (* last enumerator *)
      cbn [enum_body_toks]. rewrite wenum_toks_cons. cbn [app]. rewrite enum_list_step.
      change (is RBRACE (mkTk T_NAME (fst (fst w)))) with false. rewrite is_name_tok, N.eqb_refl. cbn iota.
      change (kval (mkTk T_NAME (fst (fst w)))) with (fst (fst w)).
      destruct tc; cbn [app]; rewrite <- app_assoc; cbn [app].
      * rewrite (enum_item_rt w (ktok COMMA) (ktok RBRACE :: rest) Hw (or_introl eq_refl)).
        change (is RBRACE (ktok COMMA)) with false. cbn iota.
        destruct n as [|n]; [lia|]. rewrite enum_list_step.
        change (is RBRACE (ktok RBRACE)) with true. cbn iota.
        reflexivity.
      * rewrite (enum_item_rt w (ktok RBRACE) rest Hw (or_intror eq_refl)).
        change (is RBRACE (ktok RBRACE)) with true. cbn iota.
        reflexivity.
    + change (enum_body_toks (w :: w2 :: q') tc) with (wenum_toks w ++ ktok COMMA :: enum_body_toks (w2 :: q') tc).
      rewrite wenum_toks_cons. cbn [app]. rewrite enum_list_step.
      change (is RBRACE (mkTk T_NAME (fst (fst w)))) with false. rewrite is_name_tok, N.eqb_refl. cbn iota.
      change (kval (mkTk T_NAME (fst (fst w)))) with (fst (fst w)).
      rewrite <- app_assoc. cbn [app].
      rewrite (enum_item_rt w (ktok COMMA) _ Hw (or_introl eq_refl)).
      change (is RBRACE (ktok COMMA)) with false. cbn iota.
      rewrite (IH (strip_e w :: acc) rest tc n Hq ltac:(discriminate) ltac:(cbn [length] in *; lia)).
      cbn [rev map]. now rewrite <- app_assoc.
Qed.

(* `{ A, B [[deprecated]] = expr, C }`: every enumerator once, in order, with exactly its own value
   (never a neighbour's), attributes dropped *)
Theorem enumerators_roundtrip items tc rest :
  Forall wenum_ok items -> (items = [] -> tc = false) ->
  enum_list (S (length items)) [] (enum_body_toks items tc ++ rest) = DOk (map strip_e items, rest).
Proof. intros H1 H2. exact (enum_list_rt items [] rest tc (S (length items)) H1 H2 ltac:(lia)). Qed.

Example ex_enum :
  let v := [mkTk T_NAME 7] in
  enum_list 4 [] (enum_body_toks [ (1, [], Some v); (2, [ABr [mkTk T_NAME 9]; AAl [mkTk T_NAME 8]], None); (3, [ABr []], Some v) ] true)
  = DOk ([(1, Some v); (2, None); (3, Some v)], []).
Proof. vm_compute. reflexivity. Qed.

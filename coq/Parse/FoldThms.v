(* C12: algebra of the simple visitor's fold. *)
From Coq Require Import NArith List Bool.
Import ListNotations.
From CXV Require Import Parse.Fold.
Open Scope N_scope.

(* the fold of a concatenation continues the fold of the first part: nothing
   but the result so far is carried from one declaration sequence to the next *)
Theorem fold_app_lemma f1 f2 : fold_ns (f1 ++ f2) = fold_from (fold_ns f1) f2.
Proof. unfold fold_ns, fold_from. apply fold_left_app. Qed.

Lemma fold_from_app s f1 f2 : fold_from s (f1 ++ f2) = fold_from (fold_from s f1) f2.
Proof. unfold fold_from. apply fold_left_app. Qed.

(* extern "C" { } blocks are transparent *)
Theorem extern_transparent_lemma s pre b post :
  fold_from s (pre ++ EExtern b :: post) = fold_from s (pre ++ b ++ post).
Proof.
  unfold fold_from. rewrite !fold_left_app. cbn [fold_left absorb]. reflexivity.
Qed.

(* namespace a::b { } is the nested blocks *)
Theorem nested_ns_equiv_lemma s n r body :
  r <> [] -> absorb s (ENs (n :: r) body) = absorb s (ENs [n] [ENs r body]).
Proof.
  intros Hr. cbn [absorb ns_names at_path fold_left]. destruct s as [i c ch].
  f_equal. destruct r as [|m r']; [congruence|]. reflexivity.
Qed.

(* re-opening a namespace appends to the same scope *)
Lemma child_update_compose n u1 u2 : forall l,
  child_update n u2 (child_update n u1 l) = child_update n (fun x => u2 (u1 x)) l.
Proof.
  induction l as [|[k s] l IH]; cbn [child_update].
  - now rewrite N.eqb_refl.
  - destruct (N.eqb_spec k n) as [->|Hk]; cbn [child_update].
    + now rewrite N.eqb_refl.
    + destruct (N.eqb_spec k n); [contradiction|]. now rewrite IH.
Qed.

Lemma child_update_ext n u1 u2 : (forall x, u1 x = u2 x) -> forall l, child_update n u1 l = child_update n u2 l.
Proof.
  intros E. induction l as [|[k s] l IH]; cbn [child_update]; [now rewrite E|].
  destruct (k =? n); [now rewrite E|now rewrite IH].
Qed.

Lemma at_path_ext : forall p u1 u2, (forall x, u1 x = u2 x) -> forall s, at_path p u1 s = at_path p u2 s.
Proof.
  induction p as [|n r IH]; intros u1 u2 E s; cbn [at_path]; [apply E|].
  destruct s as [i c ch]. f_equal. apply child_update_ext. intros x. now apply IH.
Qed.

Lemma at_path_compose : forall p u1 u2 s,
  at_path p u2 (at_path p u1 s) = at_path p (fun x => u2 (u1 x)) s.
Proof.
  induction p as [|n r IH]; intros u1 u2 s; cbn [at_path]; [reflexivity|].
  destruct s as [i c ch]. f_equal. rewrite child_update_compose. apply child_update_ext. intros x. apply IH.
Qed.

Theorem namespace_reopen_lemma s names b1 b2 :
  absorb (absorb s (ENs names b1)) (ENs names b2) = absorb s (ENs names (b1 ++ b2)).
Proof.
  cbn [absorb]. rewrite at_path_compose. apply at_path_ext. intros x. now rewrite fold_left_app.
Qed.

(* with declarations in between: re-opening after other siblings (their effect commutes only
   when they do not touch the same scope, so the general statement is about adjacency in the
   target scope; the search covers interleavings) *)

(* items of a namespace body land in that namespace, in order, and nowhere else *)
Lemma absorb_item s k p : absorb s (EItem k p) = match s with NS i c ch => NS (i ++ [(k, p)]) c ch end.
Proof. reflexivity. Qed.

(* ------------------------------------------------------------------ *)
(* scope-wise concatenation *)

Fixpoint merge (a b : nscope) {struct b} : nscope :=
  match a, b with
  | NS i1 c1 ch1, NS i2 c2 ch2 =>
      NS (i1 ++ i2) (c1 ++ c2)
         ((fix mc (acc : list (N * nscope)) (l : list (N * nscope)) {struct l} : list (N * nscope) :=
             match l with
             | [] => acc
             | (n, s) :: r => mc (child_update n (fun old => merge old s) acc) r
             end) ch1 ch2)
  end.

Fixpoint mc (acc : list (N * nscope)) (l : list (N * nscope)) : list (N * nscope) :=
  match l with
  | [] => acc
  | (n, s) :: r => mc (child_update n (fun old => merge old s) acc) r
  end.

Lemma merge_unfold i1 c1 ch1 i2 c2 ch2 :
  merge (NS i1 c1 ch1) (NS i2 c2 ch2) = NS (i1 ++ i2) (c1 ++ c2) (mc ch1 ch2).
Proof.
  reflexivity.
Qed.

Definition keys (l : list (N * nscope)) : list N := map fst l.

(* hereditarily duplicate-free child maps (what a dict is) *)
Inductive wf : nscope -> Prop :=
| wf_NS i c ch : NoDup (keys ch) -> Forall (fun ks => wf (snd ks)) ch -> wf (NS i c ch).

Lemma merge_empty_r : forall s, merge s empty_ns = s.
Proof. destruct s as [i c ch]. unfold empty_ns. rewrite merge_unfold. cbn [mc]. now rewrite !app_nil_r. Qed.

Lemma child_update_keys_in n u : forall l, In n (keys (child_update n u l)).
Proof.
  induction l as [|[k s] l IH]; cbn [child_update keys map fst]; [now left|].
  destruct (N.eqb_spec k n) as [->|]; cbn [map fst]; [now left|right; exact IH].
Qed.

Lemma child_update_keys_other n u m : forall l, m <> n -> In m (keys (child_update n u l)) <-> In m (keys l).
Proof.
  induction l as [|[k s] l IH]; intros Hm; cbn [child_update keys map fst].
  - split; [intros [E|[]]; congruence|intros []].
  - destruct (N.eqb_spec k n) as [->|Hk]; cbn [map fst]; [reflexivity|].
    specialize (IH Hm). unfold keys in IH. split; (intros [E|H]; [now left|right; now apply IH]).
Qed.

Lemma child_update_nodup n u : forall l, NoDup (keys l) -> NoDup (keys (child_update n u l)).
Proof.
  induction l as [|[k s] l IH]; intros H; cbn [child_update keys map fst].
  - constructor; [intros []|constructor].
  - inversion H as [|? ? Hk Hl]; subst.
    destruct (N.eqb_spec k n) as [->|Hkn]; cbn [map fst]; [now constructor|].
    constructor; [|now apply IH].
    intros Hin. apply Hk. apply (child_update_keys_other n u k l Hkn). exact Hin.
Qed.

Lemma child_update_comm n f k g : n <> k -> forall l, In n (keys l) ->
  child_update n f (child_update k g l) = child_update k g (child_update n f l).
Proof.
  intros Hnk. induction l as [|[x s] l IH]; intros Hin; [destruct Hin|].
  cbn [keys map fst] in Hin. cbn [child_update].
  destruct (N.eqb_spec x k) as [Exk|Hxk]; destruct (N.eqb_spec x n) as [Exn|Hxn]; cbn [child_update].
  - congruence.
  - subst x. rewrite N.eqb_refl. destruct (N.eqb_spec k n); [congruence|]. reflexivity.
  - subst x. rewrite N.eqb_refl. destruct (N.eqb_spec n k); [congruence|]. reflexivity.
  - destruct (N.eqb_spec x n); [congruence|]. destruct (N.eqb_spec x k); [congruence|].
    f_equal. apply IH. destruct Hin as [E|Hin]; [congruence|exact Hin].
Qed.

Lemma mc_comm n f : forall r acc, In n (keys acc) -> ~ In n (keys r) ->
  child_update n f (mc acc r) = mc (child_update n f acc) r.
Proof.
  induction r as [|[k s] r IH]; intros acc Hin Hnot; [reflexivity|]. cbn [mc].
  cbn [keys map fst] in Hnot.
  assert (Hnk : n <> k) by (intros ->; apply Hnot; now left).
  rewrite IH.
  - f_equal. now apply child_update_comm.
  - apply (child_update_keys_other k _ n acc Hnk). exact Hin.
  - intros H. apply Hnot. now right.
Qed.

(* a function that commutes with merging on the left *)
Definition commutes (U : nscope -> nscope) : Prop :=
  forall x y, wf y -> U (merge x y) = merge x (U y) /\ wf (U y).

Lemma wf_empty : wf empty_ns.
Proof. constructor; constructor. Qed.

Lemma merge_empty_l : forall s, wf s -> merge empty_ns s = s.
Proof.
  fix IH 2. intros s Hs. destruct Hs as [i c ch Hnd Hall]. unfold empty_ns. rewrite merge_unfold. cbn [app]. f_equal.
  (* mc [] ch = ch for duplicate-free ch *)
  assert (G : forall pre, NoDup (keys (pre ++ ch)) -> mc pre ch = pre ++ ch).
  { clear Hnd. induction Hall as [|[k s] r Hs Hr IHr]; intros pre Hp; [now rewrite app_nil_r|].
    cbn [mc]. cbn [snd] in Hs.
    assert (Hk : ~ In k (keys pre)).
    { unfold keys in *. rewrite map_app in Hp. cbn [map fst] in Hp.
      apply NoDup_remove_2 in Hp. intros H. apply Hp. apply in_or_app. now left. }
    assert (E : child_update k (fun old => merge old s) pre = pre ++ [(k, s)]).
    { clear - Hk IH Hs. induction pre as [|[x t] pre IHp]; cbn [child_update app].
      - now rewrite (IH s Hs).
      - cbn [keys map fst] in Hk. destruct (N.eqb_spec x k) as [->|]; [exfalso; apply Hk; now left|].
        f_equal. apply IHp. intros H. apply Hk. now right. }
    rewrite E, IHr; [now rewrite <- app_assoc|]. now rewrite <- app_assoc. }
  exact (G [] Hnd).
Qed.

Lemma child_update_pointwise n u1 u2 : forall l,
  (forall x, In x (map snd l) -> u1 x = u2 x) -> u1 empty_ns = u2 empty_ns ->
  child_update n u1 l = child_update n u2 l.
Proof.
  induction l as [|[k s] l IH]; intros H He; cbn [child_update]; [now rewrite He|].
  destruct (k =? n).
  - rewrite (H s); [reflexivity|now left].
  - f_equal. apply IH; [|exact He]. intros x Hx. apply H. now right.
Qed.

Lemma mc_update n U : commutes U -> forall ch2 ch1,
  NoDup (keys ch2) -> Forall (fun ks => wf (snd ks)) ch2 ->
  child_update n U (mc ch1 ch2) = mc ch1 (child_update n U ch2).
Proof.
  intros HU. induction ch2 as [|[k sk] r IH]; intros ch1 Hnd Hwf.
  - cbn [mc child_update].
    apply child_update_pointwise.
    + intros x _. destruct (HU x empty_ns wf_empty) as [E _]. now rewrite <- E, merge_empty_r.
    + destruct (HU empty_ns empty_ns wf_empty) as [E W]. rewrite <- E. now rewrite merge_empty_r.
  - inversion Hnd as [|? ? Hk Hr]; subst. inversion Hwf as [|? ? Hsk Hwr]; subst. cbn [snd] in Hsk.
    cbn [child_update]. destruct (N.eqb_spec k n) as [->|Hkn]; cbn [mc].
    + rewrite mc_comm; [|apply child_update_keys_in|exact Hk].
      rewrite child_update_compose. f_equal. apply child_update_pointwise.
      * intros x _. now destruct (HU x sk Hsk) as [E _].
      * now destruct (HU empty_ns sk Hsk) as [E _].
    + apply IH; assumption.
Qed.

Lemma wf_child_update n U l :
  NoDup (keys l) -> Forall (fun ks => wf (snd ks)) l -> wf (U empty_ns) -> (forall y, wf y -> wf (U y)) ->
  NoDup (keys (child_update n U l)) /\ Forall (fun ks => wf (snd ks)) (child_update n U l).
Proof.
  intros Hnd Hwf He HU. split; [now apply child_update_nodup|].
  clear Hnd. induction Hwf as [|[k s] r Hs Hr IH]; cbn [child_update].
  - constructor; [exact He|constructor].
  - destruct (k =? n); constructor; cbn [snd] in *; auto.
Qed.

Lemma at_path_commutes : forall p U, commutes U -> commutes (at_path p U).
Proof.
  induction p as [|n r IH]; intros U HU; [exact HU|].
  specialize (IH U HU). intros x y Hy. destruct x as [i1 c1 ch1]. destruct Hy as [i2 c2 ch2 Hnd Hwf].
  cbn [at_path]. rewrite !merge_unfold. cbn [at_path]. split.
  - f_equal. now apply mc_update.
  - destruct (wf_child_update n (at_path r U) ch2 Hnd Hwf) as [A B].
    + destruct (IH empty_ns empty_ns wf_empty) as [_ W]. exact W.
    + intros y Hy. now destruct (IH empty_ns y Hy).
    + now constructor.
Qed.

Section ElemInd.
  Variable P : elem -> Prop.
  Hypothesis HI : forall k p, P (EItem k p).
  Hypothesis HN : forall names b, Forall P b -> P (ENs names b).
  Hypothesis HE : forall b, Forall P b -> P (EExtern b).
  Hypothesis HC : forall d b, P (EClass d b).
  Fixpoint elem_ind' (e : elem) : P e :=
    match e with
    | EItem k p => HI k p
    | ENs names b => HN names b ((fix go (l : list elem) : Forall P l :=
                                    match l with [] => Forall_nil _ | x :: r => Forall_cons x (elem_ind' x) (go r) end) b)
    | EExtern b => HE b ((fix go (l : list elem) : Forall P l :=
                            match l with [] => Forall_nil _ | x :: r => Forall_cons x (elem_ind' x) (go r) end) b)
    | EClass d b => HC d b
    end.
End ElemInd.

Lemma fold_commutes b : Forall (fun e => commutes (fun s => absorb s e)) b -> commutes (fun s => fold_left absorb b s).
Proof.
  induction 1 as [|e r He _ IH]; intros x y Hy; cbn [fold_left]; [split; [reflexivity|exact Hy]|].
  destruct (He x y Hy) as [E W]. rewrite E. exact (IH x (absorb y e) W).
Qed.

(* absorbing an element into a merged scope = merging with the absorbed scope *)
Lemma absorb_commutes : forall e, commutes (fun s => absorb s e).
Proof.
  induction e using elem_ind'; intros x y Hy.
  - destruct x as [i1 c1 ch1]. destruct Hy as [i2 c2 ch2 Hnd Hwf]. cbn [absorb]. rewrite !merge_unfold.
    split; [now rewrite app_assoc|now constructor].
  - cbn [absorb]. apply (at_path_commutes (ns_names names) _ (fold_commutes b H)). exact Hy.
  - cbn [absorb]. exact (fold_commutes b H x y Hy).
  - destruct x as [i1 c1 ch1]. destruct Hy as [i2 c2 ch2 Hnd Hwf]. cbn [absorb]. rewrite !merge_unfold.
    split; [now rewrite app_assoc|now constructor].
Qed.

(* fold_compositional: parsing the concatenation of two complete declaration
   sequences yields the scope-wise concatenation of their results *)
Theorem fold_compositional_lemma f1 f2 :
  fold_ns (f1 ++ f2) = merge (fold_ns f1) (fold_ns f2).
Proof.
  rewrite fold_app_lemma. unfold fold_from, fold_ns.
  assert (C : commutes (fun s => fold_left absorb f2 s)).
  { apply fold_commutes. apply Forall_forall. intros e _. apply absorb_commutes. }
  destruct (C (fold_left absorb f1 empty_ns) empty_ns wf_empty) as [E _].
  cbv beta in E. rewrite merge_empty_r in E. exact E.
Qed.

(* Hand-written mirror of how CxxParser._parse_declarations and _parse_decl put
   one declaration statement together at namespace scope (not a typedef, not a
   friend, no template header): specifiers and base type (_parse_type), the
   validate call, then for every declarator of the statement
     - the pointer / reference part (_parse_cv_ptr),
     - a leading parenthesis that is not a declarator group: its inner tokens
       are re-injected once (`int (x);`, `void (f(int));`),
     - the name,
     - '(' behind the name: a FUNCTION (parameters, _parse_fn_end); the
       statement is over when it has a body, else the loop goes on,
     - anything else: a VARIABLE (_parse_field: array suffix, no bit-field
       outside a class, initialiser; `mutable` makes the Variable
       constructor fail),
   and ',' / ';' between and behind declarators.  One statement may mix
   variables and function declarations (`int a, f(int), *b = 0;`).
   Outside the model (code 4): qualified / templated / operator names, msvc
   calling conventions, abbreviated templates (`T auto`), deduction guides,
   trailing return types, requires-clauses, and whatever the sub-models
   (Specs, Declarator, FnTail, Init) leave out.
   Tied to the code by the differential run of harness/props/c01.py
   (extracted decl_stmt vs parse_string with a recording visitor). *)
From Coq Require Import NArith List Bool Lia.
Import ListNotations.
From CXV Require Import Gen.TokTy Gen.ParserTables Parse.Balanced Parse.BalancedThms Parse.Declarator Parse.DeclSpec Parse.DeclThms
  Parse.EnumList Parse.Specs Parse.VarStmt Parse.FnTail Parse.Init Parse.Members.
Open Scope N_scope.

Inductive entry :=
| EVar (nm : N) (t : ty) (iv : option (list tk))
| EFn (nm : N) (rt : ty) (ps : list (ty * option N)) (va : bool) (tl : tail).

Definition LT := T_LIT_60.

(* `tok = self.lex.token_if("(")` at the head of _parse_decl, when the type is
   not a constructor name: the group is consumed; an '->' behind it makes a
   deduction guide (outside the model), otherwise toks[1:-1] are returned *)
Definition strip_group (r1 : list tk) : dres (list tk) :=
  match r1 with
  | t :: r2 =>
      if is LP t then
        lift (consume kty [RP] [t] r2) (fun grp r' =>
          match r' with
          | a :: _ => if is T_ARROW a then DErr 4 else DOk (middle grp ++ r')
          | [] => DOk (middle grp ++ r')
          end)
      else DOk r1
  | [] => DOk r1
  end.

(* _parse_field at namespace scope, behind the name; [td]: the statement is a typedef (no initialiser, a Typedef is built) *)
Definition field_part (fuel : nat) (td mu : bool) (d : ty) (nm : N) (r2 : list tk) : dres (entry * bool * list tk) :=
  let arr := match r2 with
             | a :: r3 => if is LB a then arrtype fuel d a r3 else DOk (d, r2)
             | [] => DOk (d, r2)
             end in
  match arr with
  | DErr e => DErr e
  | DOk (d1, r4) =>
      match r4 with
      | c :: _ => if is COLON c then DErr 1 else
          match init_part td r4 with
          | DErr e => DErr e
          | DOk (iv, r5) => if td then DOk (EVar nm d1 iv, false, r5) else if mu then DErr 3 else DOk (EVar nm d1 iv, false, r5)
          end
      | [] =>
          match init_part td r4 with
          | DErr e => DErr e
          | DOk (iv, r5) => if td then DOk (EVar nm d1 iv, false, r5) else if mu then DErr 3 else DOk (EVar nm d1 iv, false, r5)
          end
      end
  end.

(* _parse_function at namespace scope for a one-segment name, behind the '('; in a typedef a FunctionType is built, a body
   is an error and the statement always goes on *)
Definition fn_part (fuel : nat) (td : bool) (d : ty) (nm : N) (r3 : list tk) : dres (entry * bool * list tk) :=
  match params fuel r3 with
  | DErr e => DErr e
  | DOk (ps, va, r4) =>
      match fn_tail r4 with
      | DErr e => DErr e
      | DOk (tl, r5) =>
          if td then (if t_body tl then DErr 3 else DOk (EFn nm d ps va tl, false, r5))
          else DOk (EFn nm d ps va tl, t_body tl, r5)
      end
  end.

(* one call of _parse_decl: the entry, whether it ended the statement, the rest *)
Definition one_decl (fuel : nat) (td mu : bool) (b : ty) (toks : list tk) : dres (entry * bool * list tk) :=
  match cvptr fuel b toks with
  | DErr e => DErr e
  | DOk (d, r1) =>
      if is_fn d then DErr 3
      else
        match strip_group r1 with
        | DErr e => DErr e
        | DOk r1' =>
            match r1' with
            | t :: r2 =>
                if is T_NAME t then
                  match r2 with
                  | a :: r3 =>
                      if is LP a then fn_part fuel td d (kval t) r3
                      else if is T_DBL_COLON a || is LT a then DErr 4
                      else field_part fuel td mu d (kval t) r2
                  | [] => field_part fuel td mu d (kval t) r2
                  end
                else if is LP t then DErr 1                                  (* '(' without a name *)
                else if memN (kty t) pqname_start_tokens then DErr 4         (* other names: outside the model *)
                else DErr 3                                                  (* variables must have names *)
            | [] => DErr 3
            end
        end
  end.

(* the loop of _parse_declarations; [n] bounds the number of declarators *)
Fixpoint decl_items (n : nat) (fuel : nat) (td mu : bool) (b : ty) (toks : list tk) : dres (list entry * list tk) :=
  match n with
  | O => DErr 9
  | S n' =>
      match one_decl fuel td mu b toks with
      | DErr e => DErr e
      | DOk (e, ended, r) =>
          if ended then DOk ([e], r)
          else
            match r with
            | s :: r' =>
                if is COMMA s then
                  match decl_items n' fuel td mu b r' with
                  | DOk (l, r'') => DOk (e :: l, r'')
                  | DErr e' => DErr e'
                  end
                else if is SEMI s then DOk ([e], r')
                else DErr 1
            | [] => DErr 2
            end
      end
  end.

Definition decl_stmt (n fuel : nat) (toks : list tk) : dres (mods * list entry * list tk) :=
  match parse_specs toks with
  | DErr e => DErr e
  | DOk (m, b, r) =>
      match r with
      | a :: _ =>
          if is T_auto a then DErr 4                     (* abbreviated template return type *)
          else if validate true false m then
            match decl_items n fuel false (m_mutable m) (TBase b (m_const m) (m_volatile m)) r with
            | DOk (l, r') => DOk (m, l, r')
            | DErr e => DErr e
            end
          else DErr 3
      | [] =>
          if validate true false m then
            match decl_items n fuel false (m_mutable m) (TBase b (m_const m) (m_volatile m)) r with
            | DOk (l, r') => DOk (m, l, r')
            | DErr e => DErr e
            end
          else DErr 3
      end
  end.

(* `typedef` statements through the same loop (_parse_typedef hands the token behind `typedef` to _parse_declarations with
   is_typedef): validate(False, False), no abbreviated-template promotion, every declarator a Typedef of an object type
   or of a function type *)
Definition typedef_decl_stmt (n fuel : nat) (toks : list tk) : dres (list entry * list tk) :=
  match parse_specs toks with
  | DErr e => DErr e
  | DOk (m, b, r) =>
      if validate false false m then decl_items n fuel true false (TBase b (m_const m) (m_volatile m)) r
      else DErr 3
  end.

(* ------------------------------------------------------------------ *)
(* printed statements: a list of declarators, each a variable or a function *)

Inductive ditem :=
| IVar (ls : list layer) (n : N) (i : init)
| IFn (ls : list layer) (ps : list (ty * option N)) (va : bool) (n : N) (th ne : option (list tk)) (nep : bool).

Definition ditem_toks (it : ditem) : list tk :=
  match it with
  | IVar ls n i => P ls [mkTk T_NAME n] ++ init_toks i
  | IFn ls ps va n th ne nep => P (ls ++ [LFn ps va]) [mkTk T_NAME n] ++ spec_toks th ne nep
  end.

Definition ditem_entry (b : ty) (it : ditem) : entry :=
  match it with
  | IVar ls n i => EVar n (wrap b ls) (init_value i)
  | IFn ls ps va n th ne nep => EFn n (wrap b ls) ps va (tail_of th ne EndDecl)
  end.

Definition spec_ok (th ne : option (list tk)) (nep : bool) : Prop :=
  (match th with Some e => SNk e | None => True end) /\
  (match ne with Some e => SNk e /\ (nep = false -> e = []) | None => True end).

Definition ditem_ok (it : ditem) : Prop :=
  match it with
  | IVar ls n i => legalL KB ls = true /\ Forall layer_ok ls /\ kind_end KB ls <> KFn /\ init_ok i
  | IFn ls ps va n th ne nep =>
      legalL KB (ls ++ [LFn ps va]) = true /\ Forall layer_ok (ls ++ [LFn ps va]) /\
      (kind_end KB ls = KB \/ kind_end KB ls = KRef) /\ spec_ok th ne nep
  end.

(* how the last declarator of the statement ends: ';', or (functions only) a body / `= delete ;` *)
Inductive last_end := LSemi | LBody (soup : list tk) | LDelete.

Definition last_is_fn (it : ditem) : bool := match it with IFn _ _ _ _ _ _ _ => true | _ => false end.

Definition last_toks (le : last_end) : list tk :=
  match le with
  | LSemi => [ktok SEMI]
  | LBody soup => ktok LBRACE :: soup ++ [ktok RBRACE]
  | LDelete => [ktok EQ; ktok T_delete; ktok SEMI]
  end.

Definition last_ok (it : ditem) (le : last_end) : Prop :=
  match le with
  | LSemi => True
  | LBody soup => last_is_fn it = true /\ bal tk kty LBRACE RBRACE soup
  | LDelete => last_is_fn it = true
  end.

Definition last_entry (b : ty) (it : ditem) (le : last_end) : entry :=
  match it, le with
  | IFn ls ps va n th ne nep, LBody _ => EFn n (wrap b ls) ps va (tail_of th ne (EndBody []))
  | IFn ls ps va n th ne nep, LDelete => EFn n (wrap b ls) ps va (tail_of th ne EndDelete)
  | _, _ => ditem_entry b it
  end.

Fixpoint items_toks (items : list ditem) (last : ditem) (le : last_end) : list tk :=
  match items with
  | [] => ditem_toks last ++ last_toks le
  | it :: q => ditem_toks it ++ ktok COMMA :: items_toks q last le
  end.

(* ------------------------------------------------------------------ *)
(* the function head behind a base type, at the level of layers *)

Lemma fn_layers b c v ls ps va n rest :
  legalL KB (ls ++ [LFn ps va]) = true -> Forall layer_ok (ls ++ [LFn ps va]) ->
  (kind_end KB ls = KB \/ kind_end KB ls = KRef) -> nolb rest = true ->
  ev (fun f => match cvptr f (TBase b c v) (P (ls ++ [LFn ps va]) [mkTk T_NAME n] ++ rest) with
               | DOk (d, r1) => DOk (d, r1)
               | DErr e => DErr e
               end)
     (DOk (wrap (TBase b c v) ls, mkTk T_NAME n :: ktok LP :: params_toks ps va ++ ktok RP :: rest)).
Proof.
  intros Hleg Hok Hk Hnl.
  destruct (fn_tail_split ps va ls (last_pfx_of_kind _ _ Hk)) as [Et Em].
  assert (Hcore : SNk [mkTk T_NAME n]) by (apply SN_plain_tok; [reflexivity|constructor]).
  pose proof (cvptr_P _ (ls ++ [LFn ps va]) (le_n _) (TBase b c v) [mkTk T_NAME n] rest Hleg Hok Hcore) as Hcv.
  rewrite Et, Em in Hcv. specialize (Hcv eq_refl Hnl). destruct Hcv as [f1 H1].
  exists f1. intros f Hge. rewrite H1 by exact Hge.
  cbn [P starts_pfx paren app]. rewrite <- app_assoc. reflexivity.
Qed.

Lemma strip_group_id r : nolp r = true -> strip_group r = DOk r.
Proof.
  destruct r as [|t r']; [reflexivity|]. cbn [nolp strip_group]. intros H. apply negb_true_iff in H. now rewrite H.
Qed.

(* what may stand behind a variable declarator (with its initialiser) or behind a function's exception specification *)
Definition sep_ok (s : tk) : Prop := is COMMA s = true \/ is SEMI s = true.

Lemma sep_facts s : sep_ok s ->
  is LP s = false /\ is LB s = false /\ is COLON s = false /\ is T_DBL_COLON s = false /\ is LT s = false /\
  is EQ s = false /\ is LBRACE s = false /\ is T_ARROW s = false /\ is T_throw s = false /\ is T_noexcept s = false /\
  is T_requires s = false.
Proof.
  unfold sep_ok, is. intros [H|H]; apply N.eqb_eq in H; rewrite H; repeat split; reflexivity.
Qed.

Lemma init_head_facts i s rest : sep_ok s ->
  match init_toks i ++ s :: rest with
  | a :: _ => is LP a = false /\ is LB a = false /\ is COLON a = false /\ is T_DBL_COLON a = false /\ is LT a = false
  | [] => True
  end.
Proof.
  intros Hs. destruct (sep_facts s Hs) as (A1 & A2 & A3 & A4 & A5 & _).
  destruct i as [|e|soup]; cbn [init_toks app]; repeat split; try assumption; reflexivity.
Qed.

(* a variable declarator with its initialiser *)
Lemma one_decl_var td b c v ls n i s rest :
  legalL KB ls = true -> Forall layer_ok ls -> kind_end KB ls <> KFn -> init_ok i -> sep_ok s -> (td = true -> i = NoInit) ->
  ev (fun f => one_decl f td false (TBase b c v) (P ls [mkTk T_NAME n] ++ init_toks i ++ s :: rest))
     (DOk (EVar n (wrap (TBase b c v) ls) (init_value i), false, s :: rest)).
Proof.
  intros Hleg Hok Hk Hi Hs Htd.
  destruct (init_head_ok i s rest Hs) as (S1 & S2 & S3).
  destruct (declarator_rt b c v ls (Some n) (init_toks i ++ s :: rest) Hleg Hok Hk S1 S2)
    as (arrs & d & Hsn & Hnf & Hnr & Hw & [f1 H1]).
  cbn [name_toks] in H1.
  pose proof (init_head_facts i s rest Hs) as Hh.
  assert (Hip : init_part td (init_toks i ++ s :: rest) = DOk (init_value i, s :: rest)).
  { destruct td; [rewrite (Htd eq_refl); cbn [init_toks app init_value]; now apply init_part_td|now apply init_part_rt]. }
  destruct arrs as [|a0 ar].
  - cbn [map wrap fold_left] in Hw. subst d. cbn [sufs app] in H1.
    exists f1. intros f Hge. unfold one_decl. rewrite H1 by lia. rewrite Hnf.
    rewrite strip_group_id by reflexivity. isc. cbn [kval].
    destruct (init_toks i ++ s :: rest) as [|a r3] eqn:E.
    { destruct i; discriminate E. }
    destruct Hh as (B1 & B2 & B3 & B4 & B5). rewrite B1, B4, B5. cbn [orb].
    unfold field_part. rewrite B2, B3. rewrite Hip. destruct td; reflexivity.
  - destruct (arr_tail d (a0 :: ar) (init_toks i ++ s :: rest) ltac:(discriminate) (Hnr ltac:(discriminate)) Hsn S2)
      as (A & EA & [f2 H2]).
    rewrite EA in H1. rewrite Hw in H2.
    exists (Nat.max f1 f2). intros f Hge. unfold one_decl. rewrite H1 by lia. rewrite Hnf.
    rewrite strip_group_id by reflexivity. cbn [app]. isc. cbn [kval].
    change (is LP (ktok LB)) with false. change (is T_DBL_COLON (ktok LB) || is LT (ktok LB)) with false. cbn iota.
    unfold field_part. change (is LB (ktok LB)) with true. cbn iota. rewrite H2 by lia.
    destruct (init_toks i ++ s :: rest) as [|a r3] eqn:E.
    { destruct i; discriminate E. }
    destruct Hh as (B1 & B2 & B3 & B4 & B5). rewrite B3. rewrite Hip. destruct td; reflexivity.
Qed.

Lemma spec_head_nolb th ne nep X : nolb (spec_toks th ne nep ++ X) = true \/ spec_toks th ne nep = [].
Proof.
  destruct th as [e|]; [left; reflexivity|]. destruct ne as [e|]; [left; reflexivity|]. right. reflexivity.
Qed.

(* a function declarator that does not end the statement *)
Lemma one_decl_fn_decl td b c v ls ps va n th ne nep s rest :
  legalL KB (ls ++ [LFn ps va]) = true -> Forall layer_ok (ls ++ [LFn ps va]) ->
  (kind_end KB ls = KB \/ kind_end KB ls = KRef) -> spec_ok th ne nep -> sep_ok s ->
  ev (fun f => one_decl f td false (TBase b c v) (P (ls ++ [LFn ps va]) [mkTk T_NAME n] ++ spec_toks th ne nep ++ s :: rest))
     (DOk (EFn n (wrap (TBase b c v) ls) ps va (tail_of th ne EndDecl), false, s :: rest)).
Proof.
  intros Hleg Hok Hk (Hth & Hne) Hs.
  destruct (sep_facts s Hs) as (A1 & A2 & A3 & A4 & A5 & A6 & A7 & A8 & A9 & A10 & A11).
  assert (Hnl : nolb (spec_toks th ne nep ++ s :: rest) = true).
  { destruct (spec_head_nolb th ne nep (s :: rest)) as [H|H]; [exact H|]. rewrite H. cbn [app nolb]. now rewrite A2. }
  destruct (fn_layers b c v ls ps va n _ Hleg Hok Hk Hnl) as [f1 H1].
  assert (Hl : layer_ok (LFn ps va)).
  { apply Forall_app in Hok. destruct Hok as [_ H]. now inversion H. }
  destruct Hl as [_ Hprm]. destruct (Hprm (spec_toks th ne nep ++ s :: rest)) as [f2 H2].
  assert (Hnf : is_fn (wrap (TBase b c v) ls) = false).
  { apply not_fn_of_kind. rewrite kind_wrap. cbn [kind_of]. destruct Hk as [E|E]; rewrite E; discriminate. }
  assert (Htl : fn_tail (spec_toks th ne nep ++ s :: rest) = DOk (tail_of th ne EndDecl, s :: rest)).
  { apply (fn_tail_roundtrip th ne nep EndDecl (s :: rest)). repeat split; try assumption.
    cbn [decl_follow]. now rewrite A8, A7, A6, A1, A9, A10, A11. }
  exists (Nat.max f1 f2). intros f Hge. unfold one_decl.
  specialize (H1 f ltac:(lia)).
  destruct (cvptr f (TBase b c v) (P (ls ++ [LFn ps va]) [mkTk T_NAME n] ++ spec_toks th ne nep ++ s :: rest)) as [[d r1]|e];
    [|discriminate H1].
  injection H1 as -> ->. rewrite Hnf. rewrite strip_group_id by reflexivity. isc. cbn [kval].
  change (is LP (ktok LP)) with true. cbn iota. unfold fn_part. rewrite H2 by lia. rewrite Htl.
  destruct td; [|reflexivity]. unfold tail_of. cbn [t_body]. reflexivity.
Qed.

(* a function declarator that ends the statement with a body or continues to `= delete ;` *)
Lemma one_decl_fn_end b c v ls ps va n th ne nep en rest :
  legalL KB (ls ++ [LFn ps va]) = true -> Forall layer_ok (ls ++ [LFn ps va]) ->
  (kind_end KB ls = KB \/ kind_end KB ls = KRef) -> spec_ok th ne nep ->
  (match en with EndBody soup => bal tk kty LBRACE RBRACE soup | EndDelete => True | EndDecl => False end) ->
  ev (fun f => one_decl f false false (TBase b c v)
                 (P (ls ++ [LFn ps va]) [mkTk T_NAME n] ++ spec_toks th ne nep ++ ending_toks en ++ rest))
     (DOk (EFn n (wrap (TBase b c v) ls) ps va (tail_of th ne en), match en with EndBody _ => true | _ => false end, rest)).
Proof.
  intros Hleg Hok Hk (Hth & Hne) Hen.
  assert (Hnl : nolb (spec_toks th ne nep ++ ending_toks en ++ rest) = true).
  { destruct (spec_head_nolb th ne nep (ending_toks en ++ rest)) as [H|H]; [exact H|]. rewrite H.
    destruct en; [contradiction|reflexivity|reflexivity]. }
  destruct (fn_layers b c v ls ps va n _ Hleg Hok Hk Hnl) as [f1 H1].
  assert (Hl : layer_ok (LFn ps va)).
  { apply Forall_app in Hok. destruct Hok as [_ H]. now inversion H. }
  destruct Hl as [_ Hprm]. destruct (Hprm (spec_toks th ne nep ++ ending_toks en ++ rest)) as [f2 H2].
  assert (Hnf : is_fn (wrap (TBase b c v) ls) = false).
  { apply not_fn_of_kind. rewrite kind_wrap. cbn [kind_of]. destruct Hk as [E|E]; rewrite E; discriminate. }
  assert (Htl : fn_tail (spec_toks th ne nep ++ ending_toks en ++ rest) = DOk (tail_of th ne en, rest)).
  { apply (fn_tail_roundtrip th ne nep en rest). repeat split; try assumption.
    destruct en; [contradiction|exact Hen|exact I]. }
  exists (Nat.max f1 f2). intros f Hge. unfold one_decl.
  specialize (H1 f ltac:(lia)).
  destruct (cvptr f (TBase b c v) (P (ls ++ [LFn ps va]) [mkTk T_NAME n] ++ spec_toks th ne nep ++ ending_toks en ++ rest)) as [[d r1]|e];
    [|discriminate H1].
  injection H1 as -> ->. rewrite Hnf. rewrite strip_group_id by reflexivity. isc. cbn [kval].
  change (is LP (ktok LP)) with true. cbn iota. unfold fn_part. rewrite H2 by lia. rewrite Htl.
  unfold tail_of. cbn [t_body]. destruct en; [contradiction|reflexivity|reflexivity].
Qed.

(* one declarator followed by a separator *)
Lemma one_decl_item b c v it s rest :
  ditem_ok it -> sep_ok s ->
  ev (fun f => one_decl f false false (TBase b c v) (ditem_toks it ++ s :: rest))
     (DOk (ditem_entry (TBase b c v) it, false, s :: rest)).
Proof.
  intros Hok Hs. destruct it as [ls n i|ls ps va n th ne nep]; cbn [ditem_toks ditem_entry ditem_ok] in *.
  - destruct Hok as (H1 & H2 & H3 & H4). rewrite <- app_assoc. apply one_decl_var; try assumption. discriminate.
  - destruct Hok as (H1 & H2 & H3 & H4). rewrite <- app_assoc. now apply one_decl_fn_decl.
Qed.

Lemma last_rt b c v it le rest :
  ditem_ok it -> last_ok it le ->
  ev (fun f => decl_items 1 f false false (TBase b c v) (ditem_toks it ++ last_toks le ++ rest))
     (DOk ([last_entry (TBase b c v) it le], rest)).
Proof.
  intros Hok Hle. destruct le as [|soup|].
  - destruct (one_decl_item b c v it (ktok SEMI) rest Hok (or_intror eq_refl)) as [f1 H1].
    exists f1. intros f Hge. cbn [decl_items last_toks app]. rewrite H1 by exact Hge. isc.
    destruct it; reflexivity.
  - destruct Hle as [Hfn Hbal]. destruct it as [|ls ps va n th ne nep]; [discriminate Hfn|].
    cbn [ditem_ok] in Hok. destruct Hok as (H1 & H2 & H3 & H4).
    destruct (one_decl_fn_end b c v ls ps va n th ne nep (EndBody soup) rest H1 H2 H3 H4 Hbal) as [f1 F1].
    exists f1. intros f Hge. cbn [decl_items last_toks ditem_toks]. rewrite <- app_assoc.
    cbn [ending_toks] in F1. rewrite F1 by exact Hge. cbn iota. reflexivity.
  - destruct it as [|ls ps va n th ne nep]; [discriminate Hle|].
    cbn [ditem_ok] in Hok. destruct Hok as (H1 & H2 & H3 & H4).
    destruct (one_decl_fn_end b c v ls ps va n th ne nep EndDelete (ktok SEMI :: rest) H1 H2 H3 H4 I) as [f1 F1].
    exists f1. intros f Hge. cbn [decl_items last_toks ditem_toks]. rewrite <- app_assoc.
    cbn [ending_toks app] in F1. cbn [app]. rewrite F1 by exact Hge. cbn iota. isc. reflexivity.
Qed.

Lemma decl_items_rt b c v : forall items last le rest,
  Forall ditem_ok items -> ditem_ok last -> last_ok last le ->
  ev (fun f => decl_items (S (length items)) f false false (TBase b c v) (items_toks items last le ++ rest))
     (DOk (map (ditem_entry (TBase b c v)) items ++ [last_entry (TBase b c v) last le], rest)).
Proof.
  induction items as [|it q IH]; intros last le rest Hall Hlast Hle.
  - cbn [items_toks length map app]. rewrite <- app_assoc. now apply last_rt.
  - inversion Hall as [|? ? Hit Hq]; subst.
    cbn [items_toks]. rewrite <- app_assoc. cbn [app].
    destruct (one_decl_item b c v it (ktok COMMA) (items_toks q last le ++ rest) Hit (or_introl eq_refl)) as [f1 H1].
    destruct (IH last le rest Hq Hlast Hle) as [f2 H2].
    exists (Nat.max f1 f2). intros f Hge.
    change (length (it :: q)) with (S (length q)).
    change (decl_items (S (S (length q))) f false false (TBase b c v) (ditem_toks it ++ ktok COMMA :: items_toks q last le ++ rest))
      with (match one_decl f false false (TBase b c v) (ditem_toks it ++ ktok COMMA :: items_toks q last le ++ rest) with
            | DErr e => DErr e
            | DOk (e, ended, r) =>
                if ended then DOk ([e], r)
                else match r with
                     | s :: r' =>
                         if is COMMA s then
                           match decl_items (S (length q)) f false false (TBase b c v) r' with
                           | DOk (l, r'') => DOk (e :: l, r'')
                           | DErr e' => DErr e'
                           end
                         else if is SEMI s then DOk ([e], r') else DErr 1
                     | [] => DErr 2
                     end
            end).
    rewrite H1 by lia. cbn iota. isc. rewrite H2 by lia. reflexivity.
Qed.

Lemma ditem_head_stop it X : spec_stop (ditem_toks it ++ X) = true.
Proof.
  destruct it as [ls n i|ls ps va n th ne nep]; cbn [ditem_toks]; rewrite <- app_assoc; apply P_head_stop.
Qed.

Lemma items_head_stop items last le rest : spec_stop (items_toks items last le ++ rest) = true.
Proof.
  destruct items as [|it q]; cbn [items_toks]; rewrite <- app_assoc; apply ditem_head_stop.
Qed.

Lemma ditem_head_noauto it X : match ditem_toks it ++ X with a :: _ => is T_auto a = false | [] => True end.
Proof.
  assert (HP : forall ls n Y, match P ls [mkTk T_NAME n] ++ Y with a :: _ => is T_auto a = false | [] => True end).
  { induction ls as [|l r IH]; intros n Y; [reflexivity|].
    destruct l as [c v| | |s|ps va]; try reflexivity; cbn [P].
    - destruct (starts_pfx r); [reflexivity|]. cbn [paren]. rewrite <- app_assoc. apply IH.
    - destruct (starts_pfx r); [reflexivity|]. cbn [paren]. rewrite <- app_assoc. apply IH. }
  destruct it as [ls n i|ls ps va n th ne nep]; cbn [ditem_toks]; rewrite <- app_assoc; apply HP.
Qed.

Lemma auto_gate {A} (X : list tk) (e k : A) :
  match X with a :: _ => is T_auto a = false | [] => True end ->
  match X with a :: _ => if is T_auto a then e else k | [] => k end = k.
Proof. destruct X as [|a r]; [reflexivity|]. intros H. now rewrite H. Qed.

(* `spec* T spec* d1, ..., dn <end>` where every d is a variable declarator with an optional initialiser or a function
   declarator with an optional exception specification, in any mixture and order: one entry per declarator, in order,
   each of its own kind, with the base type and the flags of the statement; a body or `= delete` on the last
   function ends the statement *)
Theorem decl_stmt_roundtrip pre post b items last le rest :
  forallb spec_kw pre = true -> forallb spec_kw post = true ->
  has T_explicit (pre ++ post) = false -> has T_virtual (pre ++ post) = false -> has T_mutable (pre ++ post) = false ->
  Forall ditem_ok items -> ditem_ok last -> last_ok last le ->
  let m := apply_kws (pre ++ post) mods0 in
  let bt := TBase b (m_const m) (m_volatile m) in
  ev (fun f => decl_stmt (S (length items)) f
                 (kw_toks pre ++ nm_tok b :: kw_toks post ++ items_toks items last le ++ rest))
     (DOk (m, map (ditem_entry bt) items ++ [last_entry bt last le], rest)).
Proof.
  intros Hpre Hpost Hex Hvi Hmu Hall Hlast Hle m bt.
  destruct (decl_items_rt b (m_const m) (m_volatile m) items last le rest Hall Hlast Hle) as [f1 H1].
  assert (Hk : forallb spec_kw (pre ++ post) = true) by (rewrite forallb_app; now rewrite Hpre, Hpost).
  assert (Hval : validate true false m && negb (m_mutable m) = true) by (apply validate_ns_ok; assumption).
  apply andb_prop in Hval as [Hv1 Hv2]. apply negb_true_iff in Hv2.
  exists f1. intros f Hge. unfold decl_stmt.
  rewrite (specs_decode_lemma pre post b _ Hpre Hpost (items_head_stop items last le rest)). rewrite apply_kws_app. fold m.
  rewrite Hv1, Hv2. fold bt.
  assert (Hna : match items_toks items last le ++ rest with a :: _ => is T_auto a = false | [] => True end).
  { destruct items as [|it q]; cbn [items_toks]; rewrite <- app_assoc; apply ditem_head_noauto. }
  rewrite (auto_gate _ _ _ Hna). rewrite H1 by exact Hge. reflexivity.
Qed.

(* the kinds are never confused: a declarator with a parameter list behind its name is reported as a function and
   nothing else is *)
Definition is_fn_entry (e : entry) : bool := match e with EFn _ _ _ _ _ => true | _ => false end.

Corollary kinds_follow_declarators b items last le :
  map is_fn_entry (map (ditem_entry b) items ++ [last_entry b last le]) = map last_is_fn (items ++ [last]).
Proof.
  rewrite !map_app, map_map. f_equal.
  - apply map_ext. intros [|]; reflexivity.
  - cbn [map]. destruct last, le; reflexivity.
Qed.

(* ------------------------------------------------------------------ *)
(* typedef statements: `typedef cv* T cv* d1, ..., dn ;` -- every d an object declarator (no initialiser) or a function
   declarator (optional exception specification): one Typedef per declarator, in order, of the object type or of the
   function type *)

Definition td_item_ok (it : ditem) : Prop :=
  ditem_ok it /\ match it with IVar _ _ i => i = NoInit | IFn _ _ _ _ _ _ _ => True end.

Lemma one_decl_item_td b c v it s rest :
  td_item_ok it -> sep_ok s ->
  ev (fun f => one_decl f true false (TBase b c v) (ditem_toks it ++ s :: rest))
     (DOk (ditem_entry (TBase b c v) it, false, s :: rest)).
Proof.
  intros [Hok Hni] Hs. destruct it as [ls n i|ls ps va n th ne nep]; cbn [ditem_toks ditem_entry ditem_ok] in *.
  - destruct Hok as (H1 & H2 & H3 & H4). rewrite <- app_assoc. apply one_decl_var; try assumption. intros _. exact Hni.
  - destruct Hok as (H1 & H2 & H3 & H4). rewrite <- app_assoc. now apply one_decl_fn_decl.
Qed.

Lemma decl_items_td_rt b c v : forall items last rest,
  Forall td_item_ok items -> td_item_ok last ->
  ev (fun f => decl_items (S (length items)) f true false (TBase b c v) (items_toks items last LSemi ++ rest))
     (DOk (map (ditem_entry (TBase b c v)) items ++ [ditem_entry (TBase b c v) last], rest)).
Proof.
  induction items as [|it q IH]; intros last rest Hall Hlast.
  - cbn [items_toks length map app last_toks]. rewrite <- app_assoc. cbn [app].
    destruct (one_decl_item_td b c v last (ktok SEMI) rest Hlast (or_intror eq_refl)) as [f1 H1].
    exists f1. intros f Hge. cbn [decl_items]. rewrite H1 by exact Hge. isc. reflexivity.
  - inversion Hall as [|? ? Hit Hq]; subst.
    cbn [items_toks]. rewrite <- app_assoc. cbn [app].
    destruct (one_decl_item_td b c v it (ktok COMMA) (items_toks q last LSemi ++ rest) Hit (or_introl eq_refl)) as [f1 H1].
    destruct (IH last rest Hq Hlast) as [f2 H2].
    exists (Nat.max f1 f2). intros f Hge.
    change (length (it :: q)) with (S (length q)).
    change (decl_items (S (S (length q))) f true false (TBase b c v) (ditem_toks it ++ ktok COMMA :: items_toks q last LSemi ++ rest))
      with (match one_decl f true false (TBase b c v) (ditem_toks it ++ ktok COMMA :: items_toks q last LSemi ++ rest) with
            | DErr e => DErr e
            | DOk (e, ended, r) =>
                if ended then DOk ([e], r)
                else match r with
                     | s :: r' =>
                         if is COMMA s then
                           match decl_items (S (length q)) f true false (TBase b c v) r' with
                           | DOk (l, r'') => DOk (e :: l, r'')
                           | DErr e' => DErr e'
                           end
                         else if is SEMI s then DOk ([e], r') else DErr 1
                     | [] => DErr 2
                     end
            end).
    rewrite H1 by lia. cbn iota. isc. rewrite H2 by lia. reflexivity.
Qed.

Theorem typedef_decl_stmt_roundtrip pre post b items last rest :
  forallb (fun k => (k =? T_const) || (k =? T_volatile)) (pre ++ post) = true ->
  Forall td_item_ok items -> td_item_ok last ->
  let m := apply_kws (pre ++ post) mods0 in
  let bt := TBase b (m_const m) (m_volatile m) in
  ev (fun f => typedef_decl_stmt (S (length items)) f
                 (kw_toks pre ++ nm_tok b :: kw_toks post ++ items_toks items last LSemi ++ rest))
     (DOk (map (ditem_entry bt) items ++ [ditem_entry bt last], rest)).
Proof.
  intros Hcv Hall Hlast m bt.
  assert (Hkw : forall l, forallb (fun k => (k =? T_const) || (k =? T_volatile)) l = true -> forallb spec_kw l = true).
  { intros l H. rewrite forallb_forall in *. intros x Hx. specialize (H x Hx).
    apply orb_prop in H as [H|H]; apply N.eqb_eq in H; subst x; reflexivity. }
  assert (Hk : forallb spec_kw (pre ++ post) = true) by (now apply Hkw).
  assert (Hpre : forallb spec_kw pre = true) by (rewrite forallb_app in Hk; now apply andb_prop in Hk as [? _]).
  assert (Hpost : forallb spec_kw post = true) by (rewrite forallb_app in Hk; now apply andb_prop in Hk as [_ ?]).
  assert (Hno : forall k, k <> T_const -> k <> T_volatile -> has k (pre ++ post) = false).
  { intros k H1 H2. unfold has. apply not_true_is_false. intros E. apply existsb_exists in E as (x & Hx & Ex).
    apply N.eqb_eq in Ex. subst x. rewrite forallb_forall in Hcv. specialize (Hcv k Hx).
    apply orb_prop in Hcv as [H|H]; apply N.eqb_eq in H; contradiction. }
  assert (Hval : validate false false m = true).
  { rewrite validate_spec. destruct (apply_kws_fields (pre ++ post) mods0 Hk) as (_ & _ & A3 & A4 & A5 & A6 & A7 & A8 & A9).
    unfold m. rewrite A3, A4, A5, A6, A7, A8, A9.
    rewrite !Hno by discriminate. reflexivity. }
  destruct (decl_items_td_rt b (m_const m) (m_volatile m) items last rest Hall Hlast) as [f1 H1].
  exists f1. intros f Hge. unfold typedef_decl_stmt.
  rewrite (specs_decode_lemma pre post b _ Hpre Hpost (items_head_stop items last LSemi rest)). rewrite apply_kws_app. fold m.
  rewrite Hval. fold bt. now apply H1.
Qed.

(* Theorems about Parse/Balanced.v (C13, C14, C07-cost). *)
From Coq Require Import NArith List Bool Lia.
Import ListNotations.
From CXV Require Import Gen.TokTy Gen.ParserTables Parse.Balanced.
Open Scope N_scope.

(* ------------------------------------------------------------------ *)
(* facts about the regenerated tables (fail when the tables change shape) *)

Definition tables_ok : bool :=
  forallb (fun kv => memN (snd kv) end_balanced_tokens) balanced_token_map
  && memN GT end_balanced_tokens
  && forallb (fun kv => negb (memN (fst kv) end_balanced_tokens)) balanced_token_map.

Lemma tables_ok_true : tables_ok = true.
Proof. vm_compute. reflexivity. Qed.

Lemma assoc_in x l c : assocN x l = Some c -> In (x, c) l.
Proof.
  induction l as [|[k v] l IH]; simpl; [discriminate|].
  destruct (N.eqb_spec x k) as [->|Hne]; intros H.
  - inversion H; subst. now left.
  - right. now apply IH.
Qed.

Lemma closer_of_opener x c :
  assocN x balanced_token_map = Some c -> memN c end_balanced_tokens = true.
Proof.
  intros H. apply assoc_in in H.
  pose proof tables_ok_true as Hok. unfold tables_ok in Hok.
  apply andb_prop in Hok as [Hok _]. apply andb_prop in Hok as [Hok _].
  rewrite forallb_forall in Hok. exact (Hok _ H).
Qed.

Lemma opener_not_closer x c :
  assocN x balanced_token_map = Some c -> memN x end_balanced_tokens = false.
Proof.
  intros H. apply assoc_in in H.
  pose proof tables_ok_true as Hok. unfold tables_ok in Hok.
  apply andb_prop in Hok as [_ Hok].
  rewrite forallb_forall in Hok. specialize (Hok _ H). simpl in Hok.
  now apply negb_true_iff in Hok.
Qed.

Lemma GT_closer : memN GT end_balanced_tokens = true.
Proof.
  pose proof tables_ok_true as Hok. unfold tables_ok in Hok.
  apply andb_prop in Hok as [Hok _]. apply andb_prop in Hok as [_ Hok]. exact Hok.
Qed.

Section Thms.
  Variable T : Type.
  Variable ty : T -> N.

  Notation is_closer x := (memN x end_balanced_tokens).
  Notation opener_of x := (assocN x balanced_token_map).

  (* ---------------------------------------------------------------- *)
  (* _discard_contents *)

  (* soups in which the two counted token types are properly nested;
     every other token (brackets of other kinds, keywords, ...) is free *)
  Inductive bal (s e : N) : list T -> Prop :=
  | bal_nil : bal s e []
  | bal_other t l : ty t <> s -> ty t <> e -> bal s e l -> bal s e (t :: l)
  | bal_group a b l1 l2 : ty a = s -> ty b = e ->
      bal s e l1 -> bal s e l2 -> bal s e (a :: l1 ++ b :: l2).

  Lemma discard_bal s e soup :
    s <> e -> bal s e soup ->
    forall n rest, discard ty s e (S n) (soup ++ rest) = discard ty s e (S n) rest.
  Proof.
    intros Hse Hb. induction Hb as [|t l Hs He Hb IH|a b l1 l2 Ha Hb0 H1 IH1 H2 IH2];
      intros n rest.
    - reflexivity.
    - simpl. destruct (N.eqb_spec (ty t) s); [contradiction|].
      destruct (N.eqb_spec (ty t) e); [contradiction|]. apply IH.
    - simpl. rewrite Ha, N.eqb_refl. rewrite <- app_assoc. rewrite IH1.
      simpl. rewrite Hb0. destruct (N.eqb_spec e s) as [E|_]; [congruence|].
      rewrite N.eqb_refl. apply IH2.
  Qed.

  Theorem discard_exact s e soup b rest :
    s <> e -> bal s e soup -> ty b = e ->
    discard ty s e 1 (soup ++ b :: rest) = Ok rest.
  Proof.
    intros Hse Hb Hty. rewrite (discard_bal s e soup Hse Hb 0 (b :: rest)).
    simpl. rewrite Hty. destruct (N.eqb_spec e s) as [E|_]; [congruence|].
    now rewrite N.eqb_refl.
  Qed.

  (* frame: whatever discard returns is a suffix of its input *)
  Lemma discard_suffix s e : forall toks n r,
    discard ty s e n toks = Ok r -> exists p, toks = p ++ r.
  Proof.
    induction toks as [|t l IH]; simpl; intros n r H; [discriminate|].
    destruct (ty t =? s).
    - apply IH in H as [p ->]. now exists (t :: p).
    - destruct (ty t =? e).
      + destruct n as [|[|n]]; [discriminate| |].
        * inversion H; subst. now exists [t].
        * apply IH in H as [p ->]. now exists (t :: p).
      + apply IH in H as [p ->]. now exists (t :: p).
  Qed.

  (* ---------------------------------------------------------------- *)
  (* _consume_balanced_tokens *)

  (* strict-nested soups: ( ) [ ] { } [[ ]] properly nested, '<' and '>'
     anywhere (after the F5 fix) *)
  Inductive SN : list T -> Prop :=
  | SN_nil : SN []
  | SN_plain t l : is_closer (ty t) = false -> opener_of (ty t) = None ->
      SN l -> SN (t :: l)
  | SN_lt t l : opener_of (ty t) = Some GT -> SN l -> SN (t :: l)
  | SN_gt t l : ty t = GT -> SN l -> SN (t :: l)
  | SN_group a b c l1 l2 : opener_of (ty a) = Some c -> c <> GT -> ty b = c ->
      SN l1 -> SN l2 -> SN (a :: l1 ++ b :: l2).

  Fixpoint strip (st : list N) : list N :=
    match st with
    | [] => []
    | x :: r => if x =? GT then strip r else st
    end.

  Lemma pop_through_strip c : c <> GT -> forall st s,
    strip st = c :: s -> pop_through c st = Some s.
  Proof.
    intros Hc. induction st as [|x r IH]; simpl; intros s H; [discriminate|].
    destruct (N.eqb_spec x GT) as [->|Hx].
    - destruct (N.eqb_spec c GT); [contradiction|]. now apply IH.
    - inversion H; subst. now rewrite N.eqb_refl.
  Qed.

  Lemma strip_nonnil st : strip st <> [] -> st <> [].
  Proof. destruct st; simpl; congruence. Qed.

  Lemma strip_closer_in c st s : strip st = c :: s -> In c st.
  Proof.
    induction st as [|x r IH]; simpl; [discriminate|].
    destruct (N.eqb_spec x GT); intros H.
    - right. now apply IH.
    - inversion H; subst. now left.
  Qed.

  (* one closing step of a strict group: closer [b] of type [c], stack whose
     first non-'>' entry is [c] *)
  Lemma consume_close c b st acc rest s :
    c <> GT -> is_closer c = true -> ty b = c -> strip st = c :: s ->
    consume ty st acc (b :: rest) =
      match s with [] => Ok (rev (b :: acc), rest) | _ => consume ty s (b :: acc) rest end.
  Proof.
    intros Hc Hcl Hb Hst. cbn [consume]. rewrite Hb, Hcl.
    destruct st as [|x r]; [discriminate|]. cbn [strip] in Hst.
    destruct (N.eqb_spec x GT) as [->|Hx].
    - destruct (N.eqb_spec c GT); [contradiction|]. cbn [negb andb].
      rewrite (pop_through_strip c Hc r s Hst). reflexivity.
    - inversion Hst; subst. rewrite N.eqb_refl. reflexivity.
  Qed.

  Lemma consume_SN soup : SN soup ->
    forall stack acc rest, strip stack <> [] ->
    exists stack', strip stack' = strip stack /\
      consume ty stack acc (soup ++ rest) = consume ty stack' (rev soup ++ acc) rest.
  Proof.
    induction 1 as [|t l Hcl Hop Hl IH|t l Hop Hl IH|t l Hgt Hl IH
                    |a b c l1 l2 Hop Hc Hb H1 IH1 H2 IH2];
      intros stack acc rest Hst.
    - exists stack. split; reflexivity.
    - destruct (IH stack (t :: acc) rest Hst) as [st' [E1 E2]].
      exists st'. split; [exact E1|].
      cbn [app consume]. rewrite Hcl, Hop, E2. cbn [rev]. now rewrite <- app_assoc.
    - assert (Hst' : strip (GT :: stack) <> []) by (cbn [strip]; now rewrite N.eqb_refl).
      destruct (IH (GT :: stack) (t :: acc) rest Hst') as [st' [E1 E2]].
      exists st'. split.
      + rewrite E1. cbn [strip]. now rewrite N.eqb_refl.
      + cbn [app consume]. rewrite (opener_not_closer _ _ Hop), Hop, E2.
        cbn [rev]. now rewrite <- app_assoc.
    - (* '>' *)
      destruct stack as [|x st]; [now elim Hst|].
      destruct (N.eqb_spec x GT) as [->|Hx].
      + (* closes a pending '<' *)
        assert (Hst' : strip st <> []) by (cbn [strip] in Hst; now rewrite N.eqb_refl in Hst).
        destruct (IH st (t :: acc) rest Hst') as [st' [E1 E2]].
        exists st'. split.
        * rewrite E1. cbn [strip]. now rewrite N.eqb_refl.
        * cbn [app consume]. rewrite Hgt, GT_closer, N.eqb_refl.
          destruct st as [|y st0]; [now elim Hst'|].
          rewrite E2. cbn [rev]. now rewrite <- app_assoc.
      + (* stray '>' : ignored *)
        destruct (IH (x :: st) (t :: acc) rest Hst) as [st' [E1 E2]].
        exists st'. split; [exact E1|].
        cbn [app consume]. rewrite Hgt, GT_closer.
        destruct (N.eqb_spec GT x) as [E|_]; [congruence|].
        rewrite N.eqb_refl. cbn [negb andb]. rewrite E2.
        cbn [rev]. now rewrite <- app_assoc.
    - (* strict group *)
      assert (Hst1 : strip (c :: stack) <> []).
      { cbn [strip]. destruct (N.eqb_spec c GT); [contradiction|discriminate]. }
      destruct (IH1 (c :: stack) (a :: acc) (b :: l2 ++ rest) Hst1) as [st1 [E1 E1']].
      assert (Es1 : strip st1 = c :: stack).
      { rewrite E1. cbn [strip]. destruct (N.eqb_spec c GT); [contradiction|reflexivity]. }
      destruct (IH2 stack (b :: rev l1 ++ a :: acc) rest Hst) as [st2 [E2 E2']].
      exists st2. split; [exact E2|].
      cbn [app consume]. rewrite (opener_not_closer _ _ Hop), Hop.
      rewrite <- app_assoc. cbn [app]. rewrite E1'.
      rewrite (consume_close c b st1 _ _ stack Hc (closer_of_opener _ _ Hop) Hb Es1).
      destruct stack as [|y st0]; [now elim Hst|].
      rewrite E2'. f_equal.
      cbn [rev]. rewrite rev_app_distr. cbn [rev]. rewrite <- !app_assoc. reflexivity.
  Qed.

  (* C13/C14 core: started after an opener of a strict kind, the function
     returns exactly at the matching closer, for every strict-nested soup *)
  Theorem consume_balanced_exact a b c soup rest :
    opener_of (ty a) = Some c -> c <> GT -> ty b = c -> SN soup ->
    consume_balanced ty [a] (soup ++ b :: rest) = Ok (a :: soup ++ [b], rest).
  Proof.
    intros Hop Hc Hb Hs. unfold consume_balanced. cbn [map rev app]. rewrite Hop.
    assert (Hst : strip [c] <> []).
    { cbn [strip]. destruct (N.eqb_spec c GT); [contradiction|discriminate]. }
    destruct (consume_SN soup Hs [c] [a] (b :: rest) Hst) as [st' [E1 E2]].
    rewrite E2.
    assert (Es : strip st' = [c]).
    { rewrite E1. cbn [strip]. destruct (N.eqb_spec c GT); [contradiction|reflexivity]. }
    rewrite (consume_close c b st' _ _ [] Hc (closer_of_opener _ _ Hop) Hb Es).
    f_equal. f_equal. cbn [rev]. rewrite rev_app_distr, rev_involutive. cbn [rev app].
    reflexivity.
  Qed.

  (* frame / contiguity: whatever is returned is a split of the input *)
  Lemma consume_contiguous : forall toks stack acc c r,
    consume ty stack acc toks = Ok (c, r) -> rev acc ++ toks = c ++ r.
  Proof.
    induction toks as [|t l IH]; intros stack acc c r; cbn [consume]; [discriminate|].
    assert (Hstep : forall st, consume ty st (t :: acc) l = Ok (c, r) -> rev acc ++ t :: l = c ++ r).
    { intros st H. apply IH in H. cbn [rev] in H. now rewrite <- app_assoc in H. }
    assert (Hret : Ok (rev (t :: acc), l) = Ok (c, r) -> rev acc ++ t :: l = c ++ r).
    { intros H. inversion H; subst. cbn [rev]. now rewrite <- app_assoc. }
    destruct (is_closer (ty t)).
    - destruct stack as [|e st]; [discriminate|].
      destruct (ty t =? e).
      + destruct st; [exact Hret|apply Hstep].
      + destruct (negb (ty t =? GT) && negb (e =? GT)); [discriminate|].
        destruct (ty t =? GT); [apply Hstep|].
        destruct (pop_through (ty t) st) as [st'|]; [|apply Hstep].
        destruct st'; [exact Hret|apply Hstep].
    - destruct (opener_of (ty t)); apply Hstep.
  Qed.

  (* ---------------------------------------------------------------- *)
  (* _consume_value_until *)

  Lemma value_until_contiguous : forall fuel terms acc toks v r,
    value_until ty fuel terms acc toks = Ok (v, r) -> rev acc ++ toks = v ++ r.
  Proof.
    induction fuel as [|f IH]; intros terms acc toks v r; cbn [value_until].
    - destruct toks; [|discriminate]. intros H; inversion H; subst. reflexivity.
    - destruct toks as [|t l]; [intros H; inversion H; subst; reflexivity|].
      destruct (memN (ty t) terms); [intros H; inversion H; subst; reflexivity|].
      destruct (opener_of (ty t)) as [c|].
      + destruct (consume ty [c] [t] l) as [[grp r']| | |] eqn:Hc; try discriminate.
        intros H. apply IH in H. apply consume_contiguous in Hc. cbn [rev app] in Hc.
        rewrite rev_app_distr, rev_involutive in H. rewrite <- app_assoc in H.
        rewrite <- H. now rewrite Hc.
      + destruct (is_closer (ty t) && negb (ty t =? GT)); [discriminate|].
        intros H. apply IH in H. cbn [rev] in H. now rewrite <- app_assoc in H.
  Qed.

  (* C14: nothing dropped, duplicated, reordered or taken from outside *)
  Theorem value_is_contiguous terms toks v r :
    consume_value_until ty terms toks = Ok (v, r) -> toks = v ++ r.
  Proof. intros H. apply value_until_contiguous in H. exact H. Qed.

  Lemma value_until_stops : forall fuel terms acc toks v r,
    value_until ty fuel terms acc toks = Ok (v, r) ->
    r = [] \/ exists t r', r = t :: r' /\ memN (ty t) terms = true.
  Proof.
    induction fuel as [|f IH]; intros terms acc toks v r; cbn [value_until].
    - destruct toks; [|discriminate]. intros H; inversion H; subst. now left.
    - destruct toks as [|t l]; [intros H; inversion H; subst; now left|].
      destruct (memN (ty t) terms) eqn:Hm.
      + intros H; inversion H; subst. right. now exists t, l.
      + destruct (opener_of (ty t)) as [c|].
        * destruct (consume ty [c] [t] l) as [[grp r']| | |]; try discriminate. apply IH.
        * destruct (is_closer (ty t) && negb (ty t =? GT)); [discriminate|]. apply IH.
  Qed.

  (* token-level expressions: plain tokens, strict groups over SN, angle
     groups whose content is again angle-nested *)
  Inductive AN : list T -> Prop :=
  | AN_nil : AN []
  | AN_plain t l : is_closer (ty t) = false -> opener_of (ty t) = None -> AN l -> AN (t :: l)
  | AN_group a b c l1 l2 : opener_of (ty a) = Some c -> c <> GT -> ty b = c ->
      SN l1 -> AN l2 -> AN (a :: l1 ++ b :: l2)
  | AN_angle a b l1 l2 : opener_of (ty a) = Some GT -> ty b = GT ->
      AN l1 -> AN l2 -> AN (a :: l1 ++ b :: l2).

  Lemma consume_AN soup : AN soup ->
    forall stack acc rest, stack <> [] ->
      consume ty stack acc (soup ++ rest) = consume ty stack (rev soup ++ acc) rest.
  Proof.
    induction 1 as [|t l Hcl Hop Hl IH|a b c l1 l2 Hop Hc Hb H1 H2 IH2
                    |a b l1 l2 Hop Hb H1 IH1 H2 IH2];
      intros stack acc rest Hst.
    - reflexivity.
    - cbn [app consume]. rewrite Hcl, Hop, IH by exact Hst. cbn [rev]. now rewrite <- app_assoc.
    - cbn [app consume]. rewrite (opener_not_closer _ _ Hop), Hop.
      rewrite <- app_assoc. cbn [app].
      assert (Hst1 : strip (c :: stack) <> []).
      { cbn [strip]. destruct (N.eqb_spec c GT); [contradiction|discriminate]. }
      destruct (consume_SN l1 H1 (c :: stack) (a :: acc) (b :: l2 ++ rest) Hst1) as [st1 [E1 E1']].
      rewrite E1'.
      assert (Es1 : strip st1 = c :: stack).
      { rewrite E1. cbn [strip]. destruct (N.eqb_spec c GT); [contradiction|reflexivity]. }
      rewrite (consume_close c b st1 _ _ stack Hc (closer_of_opener _ _ Hop) Hb Es1).
      destruct stack as [|y st0]; [now elim Hst|].
      rewrite IH2 by discriminate. f_equal.
      cbn [rev]. rewrite rev_app_distr. cbn [rev]. rewrite <- !app_assoc. reflexivity.
    - cbn [app consume]. rewrite (opener_not_closer _ _ Hop), Hop.
      rewrite <- app_assoc. cbn [app].
      rewrite IH1 by discriminate.
      cbn [consume]. rewrite Hb, GT_closer, N.eqb_refl.
      destruct stack as [|y st0]; [now elim Hst|].
      rewrite IH2 by discriminate. f_equal.
      cbn [rev]. rewrite rev_app_distr. cbn [rev]. rewrite <- !app_assoc. reflexivity.
  Qed.

  Inductive Expr (terms : list N) : list T -> Prop :=
  | Ex_nil : Expr terms []
  | Ex_plain t l : memN (ty t) terms = false -> opener_of (ty t) = None ->
      is_closer (ty t) && negb (ty t =? GT) = false ->      (* no stray closing bracket; a '>' may be an operator *)
      Expr terms l -> Expr terms (t :: l)
  | Ex_group a b c l1 l2 : memN (ty a) terms = false ->
      opener_of (ty a) = Some c -> c <> GT -> ty b = c ->
      SN l1 -> Expr terms l2 -> Expr terms (a :: l1 ++ b :: l2)
  | Ex_angle a b l1 l2 : memN (ty a) terms = false ->
      opener_of (ty a) = Some GT -> ty b = GT ->
      AN l1 -> Expr terms l2 -> Expr terms (a :: l1 ++ b :: l2).

  Definition stops_at (terms : list N) (rest : list T) : Prop :=
    match rest with [] => True | t :: _ => memN (ty t) terms = true end.

  Lemma value_until_Expr terms e : Expr terms e ->
    forall fuel acc rest, stops_at terms rest -> (length (e ++ rest) <= fuel)%nat ->
      value_until ty fuel terms acc (e ++ rest) = Ok (rev acc ++ e, rest).
  Proof.
    induction 1 as [|t l Hm Hop Hnc Hl IH|a b c l1 l2 Hm Hop Hc Hb H1 H2 IH2
                    |a b l1 l2 Hm Hop Hb H1 H2 IH2];
      intros fuel acc rest Hstop Hf.
    - cbn [app]. rewrite app_nil_r. destruct rest as [|t r].
      + destruct fuel; reflexivity.
      + destruct fuel as [|f]; [cbn in Hf; lia|]. cbn [value_until].
        cbn [stops_at] in Hstop. now rewrite Hstop.
    - destruct fuel as [|f]; [cbn in Hf; lia|]. cbn [app value_until].
      rewrite Hm, Hop, Hnc. rewrite IH; [|exact Hstop|cbn in Hf; lia].
      cbn [rev]. now rewrite <- app_assoc.
    - destruct fuel as [|f]; [cbn in Hf; lia|]. cbn [app value_until].
      rewrite Hm, Hop. rewrite <- app_assoc. cbn [app].
      assert (Hst1 : strip [c] <> []).
      { cbn [strip]. destruct (N.eqb_spec c GT); [contradiction|discriminate]. }
      destruct (consume_SN l1 H1 [c] [a] (b :: l2 ++ rest) Hst1) as [st1 [E1 E1']].
      rewrite E1'.
      assert (Es1 : strip st1 = [c]).
      { rewrite E1. cbn [strip]. destruct (N.eqb_spec c GT); [contradiction|reflexivity]. }
      rewrite (consume_close c b st1 _ _ [] Hc (closer_of_opener _ _ Hop) Hb Es1).
      rewrite IH2; [|exact Hstop|].
      + f_equal. f_equal. rewrite rev_app_distr, !rev_involutive.
        cbn [rev]. rewrite ?rev_app_distr, ?rev_involutive. cbn [rev app].
        rewrite <- ?app_assoc. cbn [app]. rewrite <- ?app_assoc. reflexivity.
      + cbn [app] in Hf. repeat (rewrite ?app_length in Hf; cbn [length app] in Hf).
        rewrite app_length. lia.
    - destruct fuel as [|f]; [cbn in Hf; lia|]. cbn [app value_until].
      rewrite Hm, Hop. rewrite <- app_assoc. cbn [app].
      rewrite (consume_AN l1 H1 [GT] [a] (b :: l2 ++ rest)) by discriminate.
      cbn [consume]. rewrite Hb, GT_closer, N.eqb_refl.
      rewrite IH2; [|exact Hstop|].
      + f_equal. f_equal. rewrite rev_app_distr, !rev_involutive.
        cbn [rev]. rewrite ?rev_app_distr, ?rev_involutive. cbn [rev app].
        rewrite <- ?app_assoc. cbn [app]. rewrite <- ?app_assoc. reflexivity.
      + cbn [app] in Hf. repeat (rewrite ?app_length in Hf; cbn [length app] in Hf).
        rewrite app_length. lia.
  Qed.

  (* C14: for every expression of the token-level grammar followed by a
     terminator (or end of input) the value is the whole expression *)
  Theorem value_is_whole terms e rest :
    Expr terms e -> stops_at terms rest ->
    consume_value_until ty terms (e ++ rest) = Ok (e, rest).
  Proof.
    intros He Hs. unfold consume_value_until.
    rewrite (value_until_Expr terms e He _ [] rest Hs (le_n _)). reflexivity.
  Qed.

  (* C06: a closing bracket at depth 0 of a value that is neither a terminator
     nor the tolerant '>' is rejected (fix F30) *)
  Theorem stray_closer_in_value_rejected_lemma terms f acc t r :
    memN (ty t) terms = false -> is_closer (ty t) = true -> ty t <> GT -> opener_of (ty t) = None ->
    value_until ty (S f) terms acc (t :: r) = ErrUnexpected (ty t).
  Proof.
    intros Hm Hc Hg Ho. cbn [value_until]. rewrite Hm, Ho, Hc.
    destruct (N.eqb_spec (ty t) GT); [contradiction|reflexivity].
  Qed.

  (* C13 corollary: what follows a skipped region is independent of the region *)
  Corollary region_independence a b c soup1 soup2 rest :
    opener_of (ty a) = Some c -> c <> GT -> ty b = c -> SN soup1 -> SN soup2 ->
    option_map snd (match consume_balanced ty [a] (soup1 ++ b :: rest) with Ok x => Some x | _ => None end)
    = option_map snd (match consume_balanced ty [a] (soup2 ++ b :: rest) with Ok x => Some x | _ => None end).
  Proof.
    intros. rewrite !(consume_balanced_exact a b c) by assumption. reflexivity.
  Qed.

End Thms.

(* C06: a closer that does not match the innermost open bracket is rejected,
   unless one of the two is the tolerant '>' *)
Lemma mismatch_rejected (T : Type) (ty : T -> N) t r expected st acc :
  memN (ty t) end_balanced_tokens = true -> ty t <> expected -> ty t <> GT -> expected <> GT ->
  consume ty (expected :: st) acc (t :: r) = ErrUnexpected (ty t).
Proof.
  intros Hc H1 H2 H3. cbn [consume]. rewrite Hc.
  destruct (N.eqb_spec (ty t) expected); [contradiction|].
  destruct (N.eqb_spec (ty t) GT); [contradiction|].
  destruct (N.eqb_spec expected GT); [contradiction|]. reflexivity.
Qed.

(* ... and running out of input inside a group is an error, never a value *)
Lemma consume_eof (T : Type) (ty : T -> N) stack acc : consume ty stack acc [] = ErrEOF.
Proof. reflexivity. Qed.

(* Hand-written mirror of CxxParser._parse_method_end and
   _discard_ctor_initializer: what may follow the ')' of a method's parameter
   list inside a class -- cv / ref qualifiers, override / final, throw /
   noexcept, `= 0 | delete | default`, a constructor initialiser list, a body.
   The implementation compares token VALUES here: `override` is a NAME whose
   text is "override" and the pure-specifier is an octal literal whose text is
   "0"; the harness gives these two texts the fixed value ids below.
   Trailing return types and requires-clauses are outside this model (code 4).
   Tied to the code by the differential run of harness/props/c03.py. *)
From Coq Require Import NArith List Bool Lia.
Import ListNotations.
From CXV Require Import Gen.TokTy Gen.ParserTables Parse.Balanced Parse.BalancedThms Parse.Declarator Parse.DeclSpec Parse.DeclThms Parse.EnumList
  Parse.FnTail Parse.Members.
Open Scope N_scope.

Definition VAL_override : N := 1.
Definition VAL_zero : N := 2.

Record mtail := mkMT {
  q_const : bool; q_volatile : bool; q_override : bool; q_final : bool;
  q_ref : N;                                   (* 0 none, 1 '&', 2 '&&' *)
  q_throw : option (list tk); q_noexcept : option (list tk);
  q_pure : bool; q_deleted : bool; q_default : bool; q_body : bool
}.
Definition mt0 := mkMT false false false false 0 None None false false false false.

Definition res_to_dres {A} (r : res A) (k : A -> dres (mtail * list tk)) : dres (mtail * list tk) :=
  match r with Ok a => k a | ErrEOF => DErr 2 | ErrUnexpected _ => DErr 1 | ErrInternal => DErr 3 end.

(* _discard_ctor_initializer, entered after the ':' ; returns what follows the function body *)
Fixpoint skip_to_group (n : nat) (toks : list tk) : dres (list tk) :=
  (* `if tok.type not in ("{", "("): tok = get_token(); continue` then discard the group *)
  match n with
  | O => DErr 9
  | S n' =>
      match toks with
      | t :: r =>
          if is LBRACE t then match discard kty LBRACE RBRACE 1 r with Ok r' => DOk r' | ErrEOF => DErr 2 | _ => DErr 3 end
          else if is LP t then match discard kty LP RP 1 r with Ok r' => DOk r' | ErrEOF => DErr 2 | _ => DErr 3 end
          else skip_to_group n' r
      | [] => DErr 2
      end
  end.

Fixpoint ctor_init (n : nat) (toks : list tk) : dres (list tk) :=
  match n with
  | O => DErr 9
  | S n' =>
      (* tok = get_token(); a leading '::' is skipped; decltype(...) is outside this model *)
      match toks with
      | t :: r =>
          let toks1 := if is T_DBL_COLON t then r else toks in
          match toks1 with
          | t1 :: _ =>
              if is T_decltype t1 then DErr 4
              else
                match skip_to_group (length toks1) toks1 with
                | DErr e => DErr e
                | DOk r2 =>
                    (* tok = get_token(); an ellipsis may follow *)
                    match r2 with
                    | e :: r3 =>
                        let r4 := if is T_ELLIPSIS e then r3 else r2 in
                        match r4 with
                        | s :: r5 =>
                            if is COMMA s then ctor_init n' r5
                            else if is LBRACE s then
                              match discard kty LBRACE RBRACE 1 r5 with Ok r' => DOk r' | ErrEOF => DErr 2 | _ => DErr 3 end
                            else DErr 1
                        | [] => DErr 2
                        end
                    | [] => DErr 2
                    end
                end
          | [] => DErr 2
          end
      | [] => DErr 2
      end
  end.

Fixpoint method_end (n : nat) (q : mtail) (toks : list tk) : dres (mtail * list tk) :=
  match n with
  | O => DErr 9
  | S n' =>
      match toks with
      | t :: r =>
          let '(mkMT c v o f rf th ne pu de df bo) := q in
          if is COLON t then
            match ctor_init (length r) r with DOk r' => DOk (mkMT c v o f rf th ne pu de df true, r') | DErr e => DErr e end
          else if is LBRACE t then
            match discard kty LBRACE RBRACE 1 r with
            | Ok r' => DOk (mkMT c v o f rf th ne pu de df true, r') | ErrEOF => DErr 2 | _ => DErr 3
            end
          else if is EQ t then
            match r with
            | x :: r' =>
                if is T_INT_CONST_OCT x && (kval x =? VAL_zero) then DOk (mkMT c v o f rf th ne true de df bo, r')
                else if is T_delete x then DOk (mkMT c v o f rf th ne pu true df bo, r')
                else if is T_default x then DOk (mkMT c v o f rf th ne pu de true bo, r')
                else DErr 1
            | [] => DErr 2
            end
          else if is T_const t then method_end n' (mkMT true v o f rf th ne pu de df bo) r
          else if is T_volatile t then method_end n' (mkMT c true o f rf th ne pu de df bo) r
          else if is T_NAME t && (kval t =? VAL_override) then method_end n' (mkMT c v true f rf th ne pu de df bo) r
          else if is T_final t then method_end n' (mkMT c v o true rf th ne pu de df bo) r
          else if is AMP t then method_end n' (mkMT c v o f 1 th ne pu de df bo) r
          else if is T_DBL_AMP t then method_end n' (mkMT c v o f 2 th ne pu de df bo) r
          else if is T_ARROW t then DErr 4
          else if is T_throw t then
            match r with
            | lp :: r1 =>
                if is LP lp then
                  match consume kty [RP] [lp] r1 with
                  | Ok (grp, r2) => method_end n' (mkMT c v o f rf (Some (middle grp)) ne pu de df bo) r2
                  | ErrEOF => DErr 2 | ErrUnexpected _ => DErr 1 | ErrInternal => DErr 3
                  end
                else DErr 1
            | [] => DErr 2
            end
          else if is T_noexcept t then
            match r with
            | lp :: r1 =>
                if is LP lp then
                  match consume kty [RP] [lp] r1 with
                  | Ok (grp, r2) => method_end n' (mkMT c v o f rf th (Some (middle grp)) pu de df bo) r2
                  | ErrEOF => DErr 2 | ErrUnexpected _ => DErr 1 | ErrInternal => DErr 3
                  end
                else method_end n' (mkMT c v o f rf th (Some []) pu de df bo) r
            | [] => DErr 2          (* get_token() at end of input *)
            end
          else if is T_requires t then DErr 4
          else DOk (q, toks)
      | [] => DErr 2
      end
  end.

Definition parse_method_end (toks : list tk) : dres (mtail * list tk) := method_end (S (length toks)) mt0 toks.

(* ------------------------------------------------------------------ *)
(* specification *)

Inductive mq :=
| MqConst | MqVolatile | MqOverride | MqFinal
| MqRef (rvalue : bool)
| MqThrow (e : list tk)
| MqNoexcept (e : option (list tk)).        (* None: bare noexcept *)

Definition mq_toks (i : mq) : list tk :=
  match i with
  | MqConst => [ktok T_const] | MqVolatile => [ktok T_volatile]
  | MqOverride => [mkTk T_NAME VAL_override] | MqFinal => [ktok T_final]
  | MqRef rv => [ktok (if rv then T_DBL_AMP else AMP)]
  | MqThrow e => ktok T_throw :: ktok LP :: e ++ [ktok RP]
  | MqNoexcept (Some e) => ktok T_noexcept :: ktok LP :: e ++ [ktok RP]
  | MqNoexcept None => [ktok T_noexcept]
  end.

Definition apply_mq (i : mq) (q : mtail) : mtail :=
  let '(mkMT c v o f rf th ne pu de df bo) := q in
  match i with
  | MqConst => mkMT true v o f rf th ne pu de df bo
  | MqVolatile => mkMT c true o f rf th ne pu de df bo
  | MqOverride => mkMT c v true f rf th ne pu de df bo
  | MqFinal => mkMT c v o true rf th ne pu de df bo
  | MqRef rv => mkMT c v o f (if rv then 2 else 1) th ne pu de df bo
  | MqThrow e => mkMT c v o f rf (Some e) ne pu de df bo
  | MqNoexcept (Some e) => mkMT c v o f rf th (Some e) pu de df bo
  | MqNoexcept None => mkMT c v o f rf th (Some []) pu de df bo
  end.

Definition mq_ok (i : mq) : Prop :=
  match i with MqThrow e => SNk e | MqNoexcept (Some e) => SNk e | _ => True end.

(* the first token of what follows a bare noexcept must not be '(' *)
Definition not_lp_head (X : list tk) : Prop := match X with t :: _ => is LP t = false | [] => False end.

Lemma mq_step i q X n :
  mq_ok i -> (i = MqNoexcept None -> not_lp_head X) ->
  method_end (S n) q (mq_toks i ++ X) = method_end n (apply_mq i q) X.
Proof.
  intros Hok Hn. destruct q as [c v o f rf th ne pu de df bo].
  destruct i as [| | | |rv|e|[e|]]; cbn [mq_toks app method_end apply_mq]; try reflexivity.
  - destruct rv; reflexivity.
  - change (is COLON (ktok T_throw)) with false. change (is LBRACE (ktok T_throw)) with false. change (is EQ (ktok T_throw)) with false.
    change (is T_const (ktok T_throw)) with false. change (is T_volatile (ktok T_throw)) with false.
    change (is T_NAME (ktok T_throw)) with false. change (is T_final (ktok T_throw)) with false.
    change (is AMP (ktok T_throw)) with false. change (is T_DBL_AMP (ktok T_throw)) with false.
    change (is T_ARROW (ktok T_throw)) with false. change (is T_throw (ktok T_throw)) with true. cbn [andb]. cbn iota.
    change (is LP (ktok LP)) with true. cbn iota. rewrite <- app_assoc. cbn [app].
    rewrite (consume_paren (ktok LP) e X eq_refl Hok). now rewrite middle_group.
  - change (is COLON (ktok T_noexcept)) with false. change (is LBRACE (ktok T_noexcept)) with false. change (is EQ (ktok T_noexcept)) with false.
    change (is T_const (ktok T_noexcept)) with false. change (is T_volatile (ktok T_noexcept)) with false.
    change (is T_NAME (ktok T_noexcept)) with false. change (is T_final (ktok T_noexcept)) with false.
    change (is AMP (ktok T_noexcept)) with false. change (is T_DBL_AMP (ktok T_noexcept)) with false.
    change (is T_ARROW (ktok T_noexcept)) with false. change (is T_throw (ktok T_noexcept)) with false.
    change (is T_noexcept (ktok T_noexcept)) with true. cbn [andb]. cbn iota.
    change (is LP (ktok LP)) with true. cbn iota. rewrite <- app_assoc. cbn [app].
    rewrite (consume_paren (ktok LP) e X eq_refl Hok). now rewrite middle_group.
  - specialize (Hn eq_refl). destruct X as [|t r]; [contradiction|]. cbn [not_lp_head] in Hn.
    change (is COLON (ktok T_noexcept)) with false. change (is LBRACE (ktok T_noexcept)) with false. change (is EQ (ktok T_noexcept)) with false.
    change (is T_const (ktok T_noexcept)) with false. change (is T_volatile (ktok T_noexcept)) with false.
    change (is T_NAME (ktok T_noexcept)) with false. change (is T_final (ktok T_noexcept)) with false.
    change (is AMP (ktok T_noexcept)) with false. change (is T_DBL_AMP (ktok T_noexcept)) with false.
    change (is T_ARROW (ktok T_noexcept)) with false. change (is T_throw (ktok T_noexcept)) with false.
    change (is T_noexcept (ktok T_noexcept)) with true. cbn [andb]. cbn iota. now rewrite Hn.
Qed.

(* constructor initialiser lists *)
Record cinit := mkCI { ci_name : list tk; ci_brace : bool; ci_args : list tk; ci_pack : bool }.

Definition cinit_toks (c : cinit) : list tk :=
  ci_name c ++ (if ci_brace c then ktok LBRACE :: ci_args c ++ [ktok RBRACE] else ktok LP :: ci_args c ++ [ktok RP])
  ++ (if ci_pack c then [ktok T_ELLIPSIS] else []).

Definition no_opener (t : tk) : bool := negb (is LBRACE t || is LP t).

Definition cinit_ok (c : cinit) : Prop :=
  forallb no_opener (ci_name c) = true /\
  (match ci_name c with
   | t :: r => is T_decltype t = false /\ (is T_DBL_COLON t = true -> match r with t1 :: _ => is T_decltype t1 = false | [] => True end)
   | [] => True
   end) /\
  (if ci_brace c then bal tk kty LBRACE RBRACE (ci_args c) else bal tk kty LP RP (ci_args c)).

Lemma skip_to_group_rt : forall name n (brace : bool) args X,
  forallb no_opener name = true -> (length name < n)%nat ->
  (if brace then bal tk kty LBRACE RBRACE args else bal tk kty LP RP args) ->
  skip_to_group n (name ++ (if brace then ktok LBRACE :: args ++ [ktok RBRACE] else ktok LP :: args ++ [ktok RP]) ++ X) = DOk X.
Proof.
  induction name as [|t r IH]; intros n brace args X Hn Hlen Hbal.
  - destruct n as [|n]; [cbn in Hlen; lia|]. destruct brace; cbn [app skip_to_group].
    + change (is LBRACE (ktok LBRACE)) with true. cbn iota. rewrite <- app_assoc. cbn [app].
      now rewrite (discard_exact tk kty LBRACE RBRACE args (ktok RBRACE) X ltac:(discriminate) Hbal eq_refl).
    + change (is LBRACE (ktok LP)) with false. change (is LP (ktok LP)) with true. cbn iota. rewrite <- app_assoc. cbn [app].
      now rewrite (discard_exact tk kty LP RP args (ktok RP) X ltac:(discriminate) Hbal eq_refl).
  - destruct n as [|n]; [cbn in Hlen; lia|]. cbn [forallb] in Hn. apply andb_prop in Hn as [Ht Hr].
    unfold no_opener in Ht. apply negb_true_iff in Ht. apply orb_false_elim in Ht as [T1 T2].
    cbn [app skip_to_group]. rewrite T1, T2. apply IH; [exact Hr|cbn [length] in Hlen; lia|exact Hbal].
Qed.

Lemma one_init c (comma : bool) r5 n :
  cinit_ok c ->
  ctor_init (S n) (cinit_toks c ++ ktok (if comma then COMMA else LBRACE) :: r5) =
    if comma then ctor_init n r5
    else match discard kty LBRACE RBRACE 1 r5 with Ok r' => DOk r' | ErrEOF => DErr 2 | _ => DErr 3 end.
Proof.
  intros (Hname & Hfirst & Hargs). unfold cinit_toks.
  destruct c as [name brace args pack]. cbn [ci_name ci_brace ci_args ci_pack] in *.
  set (s := ktok (if comma then COMMA else LBRACE)).
  set (G := if brace then ktok LBRACE :: args ++ [ktok RBRACE] else ktok LP :: args ++ [ktok RP]).
  set (E := if pack then [ktok T_ELLIPSIS] else []).
  assert (Hskip : forall nm, forallb no_opener nm = true ->
            skip_to_group (length (nm ++ G ++ E ++ s :: r5)) (nm ++ G ++ E ++ s :: r5) = DOk (E ++ s :: r5)).
  { intros nm Hnm. unfold G. apply (skip_to_group_rt nm _ brace args (E ++ s :: r5)); [exact Hnm| |exact Hargs].
    rewrite !app_length. destruct brace; cbn [length]; lia. }
  assert (Hend : match E ++ s :: r5 with
                 | e :: r3 =>
                     match (if is T_ELLIPSIS e then r3 else E ++ s :: r5) with
                     | s0 :: r6 =>
                         if is COMMA s0 then ctor_init n r6
                         else if is LBRACE s0 then
                           match discard kty LBRACE RBRACE 1 r6 with Ok r' => DOk r' | ErrEOF => DErr 2 | _ => DErr 3 end
                         else DErr 1
                     | [] => DErr 2
                     end
                 | [] => DErr 2
                 end = if comma then ctor_init n r5
                       else match discard kty LBRACE RBRACE 1 r5 with Ok r' => DOk r' | ErrEOF => DErr 2 | _ => DErr 3 end).
  { unfold E, s. destruct pack, comma; reflexivity. }
  assert (HG : exists g0 gr, G = g0 :: gr /\ is T_DBL_COLON g0 = false /\ is T_decltype g0 = false).
  { unfold G. destruct brace; eexists; eexists; (split; [reflexivity|split; reflexivity]). }
  rewrite <- !app_assoc.
  destruct name as [|t r].
  - destruct HG as (g0 & gr & EG & G1 & G2). cbn [app]. rewrite EG. cbn [app ctor_init]. rewrite G1, G2.
    change (g0 :: gr ++ E ++ s :: r5) with ((g0 :: gr) ++ E ++ s :: r5). rewrite <- EG.
    pose proof (Hskip [] eq_refl) as Hs. cbn [app] in Hs. rewrite Hs. exact Hend.
  - cbn [forallb] in Hname. apply andb_prop in Hname as [Ht Hr]. destruct Hfirst as [Hd Hd2].
    cbn [app ctor_init].
    destruct (is T_DBL_COLON t) eqn:Edc.
    + (* a leading '::' is skipped *)
      specialize (Hd2 eq_refl).
      destruct r as [|t1 r1].
      * destruct HG as (g0 & gr & EG & G1 & G2). cbn [app]. rewrite EG. cbn [app]. rewrite G2.
        change (g0 :: gr ++ E ++ s :: r5) with ((g0 :: gr) ++ E ++ s :: r5). rewrite <- EG.
        pose proof (Hskip [] eq_refl) as Hs. cbn [app] in Hs. rewrite Hs. exact Hend.
      * cbn [app]. rewrite Hd2.
        change (t1 :: r1 ++ G ++ E ++ s :: r5) with ((t1 :: r1) ++ G ++ E ++ s :: r5).
        rewrite (Hskip (t1 :: r1) Hr). exact Hend.
    + rewrite Hd.
      change (t :: r ++ G ++ E ++ s :: r5) with ((t :: r) ++ G ++ E ++ s :: r5).
      rewrite (Hskip (t :: r)); [exact Hend|]. cbn [forallb]. now rewrite Ht, Hr.
Qed.

Lemma ctor_init_rt : forall inits n soup rest,
  inits <> [] -> Forall cinit_ok inits -> (length inits <= n)%nat -> bal tk kty LBRACE RBRACE soup ->
  ctor_init n (join_comma (map cinit_toks inits) ++ ktok LBRACE :: soup ++ ktok RBRACE :: rest) = DOk rest.
Proof.
  induction inits as [|c q IH]; intros n soup rest Hne Hall Hn Hbal; [contradiction|].
  inversion Hall as [|? ? Hc Hq]; subst.
  destruct n as [|n]; [cbn in Hn; lia|].
  destruct q as [|c2 q'].
  - cbn [map join_comma].
    rewrite (one_init c false _ n Hc).
    now rewrite (discard_exact tk kty LBRACE RBRACE soup (ktok RBRACE) rest ltac:(discriminate) Hbal eq_refl).
  - change (map cinit_toks (c :: c2 :: q')) with (cinit_toks c :: cinit_toks c2 :: map cinit_toks q').
    assert (Ej : forall x y l, join_comma (x :: y :: l) = x ++ ktok COMMA :: join_comma (y :: l)) by reflexivity.
    rewrite Ej. rewrite <- app_assoc. cbn [app].
    rewrite (one_init c true _ n Hc).
    change (cinit_toks c2 :: map cinit_toks q') with (map cinit_toks (c2 :: q')).
    apply IH; [discriminate|exact Hq|cbn [length] in *; lia|exact Hbal].
Qed.

(* endings *)
Inductive mend :=
| MeDecl | MePure | MeDelete | MeDefault
| MeBody (soup : list tk)
| MeCtor (inits : list cinit) (soup : list tk).

Definition mend_toks (e : mend) : list tk :=
  match e with
  | MeDecl => []
  | MePure => [ktok EQ; mkTk T_INT_CONST_OCT VAL_zero]
  | MeDelete => [ktok EQ; ktok T_delete]
  | MeDefault => [ktok EQ; ktok T_default]
  | MeBody soup => ktok LBRACE :: soup ++ [ktok RBRACE]
  | MeCtor inits soup => ktok COLON :: join_comma (map cinit_toks inits) ++ ktok LBRACE :: soup ++ [ktok RBRACE]
  end.

Definition apply_end (e : mend) (q : mtail) : mtail :=
  let '(mkMT c v o f rf th ne pu de df bo) := q in
  match e with
  | MeDecl => q
  | MePure => mkMT c v o f rf th ne true de df bo
  | MeDelete => mkMT c v o f rf th ne pu true df bo
  | MeDefault => mkMT c v o f rf th ne pu de true bo
  | MeBody _ | MeCtor _ _ => mkMT c v o f rf th ne pu de df true
  end.

(* a token at which the loop stops and hands back *)
Definition mstop_tok (t : tk) : bool :=
  negb (is COLON t || is LBRACE t || is EQ t || is T_const t || is T_volatile t || (is T_NAME t && (kval t =? VAL_override))
        || is T_final t || is AMP t || is T_DBL_AMP t || is T_ARROW t || is T_throw t || is T_noexcept t || is T_requires t || is LP t).

Definition mend_ok (e : mend) (rest : list tk) : Prop :=
  match e with
  | MeDecl => match rest with t :: _ => mstop_tok t = true | [] => False end
  | MeBody soup => bal tk kty LBRACE RBRACE soup
  | MeCtor inits soup => inits <> [] /\ Forall cinit_ok inits /\ bal tk kty LBRACE RBRACE soup
  | _ => True
  end.

Lemma ctor_toks_eq inits soup rest :
  mend_toks (MeCtor inits soup) ++ rest
  = ktok COLON :: (join_comma (map cinit_toks inits) ++ ktok LBRACE :: soup ++ ktok RBRACE :: rest).
Proof.
  cbn [mend_toks app]. f_equal. rewrite <- app_assoc. f_equal. cbn [app]. f_equal. now rewrite <- app_assoc.
Qed.

Lemma mend_rt e q rest n :
  mend_ok e rest ->
  method_end (S n) q (mend_toks e ++ rest) = DOk (apply_end e q, rest).
Proof.
  intros Hok. destruct q as [c v o f rf th ne pu de df bo].
  destruct e as [| | | |soup|inits soup]; cbn [mend_toks app apply_end].
  - destruct rest as [|t r]; [contradiction|]. cbn [mend_ok] in Hok. unfold mstop_tok in Hok.
    apply negb_true_iff in Hok.
    repeat (apply orb_false_elim in Hok as [Hok ?]).
    cbn [method_end].
    repeat match goal with H : _ = false |- _ => rewrite H; clear H end. reflexivity.
  - reflexivity.
  - reflexivity.
  - reflexivity.
  - cbn [method_end]. change (is COLON (ktok LBRACE)) with false. change (is LBRACE (ktok LBRACE)) with true. cbn iota.
    rewrite <- app_assoc. cbn [app].
    now rewrite (discard_exact tk kty LBRACE RBRACE soup (ktok RBRACE) rest ltac:(discriminate) Hok eq_refl).
  - destruct Hok as (Hne & Hall & Hbal).
    replace ((join_comma (map cinit_toks inits) ++ ktok LBRACE :: soup ++ [ktok RBRACE]) ++ rest)
      with (join_comma (map cinit_toks inits) ++ ktok LBRACE :: soup ++ ktok RBRACE :: rest)
      by (rewrite <- app_assoc; cbn [app]; now rewrite <- app_assoc).
    cbn [method_end]. change (is COLON (ktok COLON)) with true. cbn iota.
    rewrite ctor_init_rt; [reflexivity|exact Hne|exact Hall| |exact Hbal].
    (* the budget: every initialiser has at least its group's two tokens *)
    rewrite app_length. clear. induction inits as [|c0 q IH]; [cbn; lia|].
    destruct q as [|c2 q']; [cbn [map join_comma length]; unfold cinit_toks; rewrite !app_length; destruct (ci_brace c0); cbn [length]; lia|].
    change (map cinit_toks (c0 :: c2 :: q')) with (cinit_toks c0 :: map cinit_toks (c2 :: q')).
    change (join_comma (cinit_toks c0 :: map cinit_toks (c2 :: q'))) with (cinit_toks c0 ++ ktok COMMA :: join_comma (map cinit_toks (c2 :: q'))).
    rewrite app_length. cbn [length] in *. lia.
Qed.

Definition head_not_lp (X : list tk) : Prop := match X with t :: _ => is LP t = false | [] => False end.

(* the qualifiers in any order and number, then one ending *)
Theorem method_end_roundtrip : forall items e rest q n,
  Forall mq_ok items -> mend_ok e rest -> (length items < n)%nat ->
  method_end n q (flat_map mq_toks items ++ mend_toks e ++ rest)
  = DOk (apply_end e (fold_left (fun q i => apply_mq i q) items q), rest).
Proof.
  induction items as [|i r IH]; intros e rest q n Hall Hend Hn.
  - cbn [flat_map app fold_left]. destruct n as [|n]; [cbn [length] in Hn; lia|]. now apply mend_rt.
  - inversion Hall as [|? ? Hi Hr]; subst. destruct n as [|n]; [cbn in Hn; lia|].
    cbn [flat_map fold_left]. rewrite <- app_assoc.
    rewrite mq_step; [apply IH; [exact Hr|exact Hend|cbn [length] in Hn; lia]|exact Hi|].
    intros ->.
    (* after a bare noexcept: the next qualifier, or the ending, or the stop token *)
    destruct r as [|i2 r2].
    + cbn [flat_map app]. destruct e as [| | | |soup|inits soup]; cbn [mend_toks app]; try reflexivity.
      cbn [mend_ok] in Hend. destruct rest as [|t r']; [contradiction|]. cbn [not_lp_head].
      unfold mstop_tok in Hend. apply negb_true_iff in Hend. apply orb_false_elim in Hend as [_ H]. exact H.
    + cbn [flat_map app]. destruct i2 as [| | | |rv|e0|[e0|]]; cbn [mq_toks app]; try reflexivity. destruct rv; reflexivity.
Qed.

Theorem parse_method_end_roundtrip items e rest :
  Forall mq_ok items -> mend_ok e rest ->
  parse_method_end (flat_map mq_toks items ++ mend_toks e ++ rest)
  = DOk (apply_end e (fold_left (fun q i => apply_mq i q) items mt0), rest).
Proof.
  intros H1 H2. unfold parse_method_end. apply method_end_roundtrip; [exact H1|exact H2|].
  rewrite app_length.
  assert (L : (length items <= length (flat_map mq_toks items))%nat).
  { clear. induction items as [|i r IH]; [cbn; lia|]. cbn [flat_map]. rewrite app_length. cbn [length].
    destruct i as [| | | |rv|e|[e|]]; cbn [mq_toks length]; lia. }
  lia.
Qed.

(* Placement: in the fold model of SimpleCxxVisitor every item lands in the
   namespace scope in which it was written, in source order, and nothing else
   lands there (C01). *)
From Coq Require Import NArith List Bool.
Import ListNotations.
From CXV Require Import Parse.Fold Parse.FoldThms.
Open Scope N_scope.

Fixpoint assocS (n : N) (l : list (N * nscope)) : option nscope :=
  match l with [] => None | (k, s) :: r => if k =? n then Some s else assocS n r end.

Definition items_of (s : nscope) : list (N * N) := match s with NS i _ _ => i end.
Definition children_of (s : nscope) : list (N * nscope) := match s with NS _ _ ch => ch end.

(* the scope reached by a path of namespace names (an empty scope if absent) *)
Fixpoint lookup (path : list N) (s : nscope) : nscope :=
  match path with
  | [] => s
  | n :: r => match assocS n (children_of s) with Some c => lookup r c | None => empty_ns end
  end.

Fixpoint strip_prefix (p path : list N) : option (list N) :=
  match p, path with
  | [], _ => Some path
  | a :: p', b :: path' => if a =? b then strip_prefix p' path' else None
  | _ :: _, [] => None
  end.

(* the items written directly in the namespace [path], in source order:
   items at the current level when the path is exhausted, the contents of
   extern blocks transparently, the contents of `namespace a::b { }` when its
   names are a prefix of the path; class bodies keep their own items *)
Fixpoint written (path : list N) (e : elem) {struct e} : list (N * N) :=
  match e with
  | EItem k p => match path with [] => [(k, p)] | _ => [] end
  | EClass _ _ => []
  | EExtern b => flat_map (written path) b
  | ENs names b =>
      match strip_prefix (ns_names names) path with
      | Some rest => flat_map (written rest) b
      | None => []
      end
  end.

Lemma lookup_empty q : lookup q empty_ns = empty_ns.
Proof. destruct q; reflexivity. Qed.

Lemma assoc_update_same n F : forall ch,
  assocS n (child_update n F ch) = Some (F (match assocS n ch with Some c => c | None => empty_ns end)).
Proof.
  induction ch as [|[k s] r IH]; cbn [child_update assocS].
  - now rewrite N.eqb_refl.
  - destruct (k =? n) eqn:E; cbn [assocS]; rewrite E; [reflexivity|exact IH].
Qed.

Lemma assoc_update_other n m F : m <> n -> forall ch, assocS m (child_update n F ch) = assocS m ch.
Proof.
  intros Hne. induction ch as [|[k s] r IH]; cbn [child_update assocS].
  - destruct (N.eqb_spec n m); [congruence|reflexivity].
  - destruct (k =? n) eqn:E; cbn [assocS].
    + apply N.eqb_eq in E. subst k. destruct (N.eqb_spec n m); [congruence|reflexivity].
    + destruct (k =? m); [reflexivity|exact IH].
Qed.

Lemma lookup_app p : forall r s, lookup (p ++ r) s = lookup r (lookup p s).
Proof.
  induction p as [|n p IH]; intros r s; [reflexivity|]. cbn [app lookup].
  destruct (assocS n (children_of s)); [apply IH|now rewrite lookup_empty].
Qed.

Lemma strip_prefix_app p : forall path rest, strip_prefix p path = Some rest -> path = p ++ rest.
Proof.
  induction p as [|a p IH]; intros path rest H; cbn [strip_prefix] in H.
  - now inversion H.
  - destruct path as [|b path']; [discriminate|]. destruct (N.eqb_spec a b) as [->|]; [|discriminate].
    cbn [app]. f_equal. now apply IH.
Qed.

Lemma lookup_at_path U : forall p s path,
  items_of (lookup path (at_path p U s)) =
    match strip_prefix p path with
    | Some rest => items_of (lookup rest (U (lookup p s)))
    | None => items_of (lookup path s)
    end.
Proof.
  induction p as [|n p IH]; intros s path; [reflexivity|].
  destruct s as [i c ch]. cbn [at_path].
  destruct path as [|m path']; [reflexivity|].
  cbn [strip_prefix lookup children_of].
  destruct (N.eqb_spec n m) as [->|Hne].
  - rewrite assoc_update_same.
    destruct (assocS m ch) as [c0|].
    + apply IH.
    + rewrite IH. rewrite lookup_empty. destruct (strip_prefix p path'); [reflexivity|now rewrite lookup_empty].
  - rewrite (assoc_update_other n m _ (not_eq_sym Hne)). reflexivity.
Qed.

Lemma absorb_place : forall e s path,
  items_of (lookup path (absorb s e)) = items_of (lookup path s) ++ written path e.
Proof.
  induction e as [k p|names b IHb|b IHb|d b] using elem_ind'; intros s path.
  - destruct s as [i c ch]. cbn [absorb written]. destruct path as [|n r]; cbn [lookup items_of children_of].
    + reflexivity.
    + now rewrite app_nil_r.
  - cbn [absorb written]. rewrite lookup_at_path.
    destruct (strip_prefix (ns_names names) path) as [rest|] eqn:E; [|now rewrite app_nil_r].
    rewrite (strip_prefix_app _ _ _ E), lookup_app.
    generalize (lookup (ns_names names) s). clear E.
    induction IHb as [|e r He _ IH]; intros s0; cbn [fold_left flat_map]; [now rewrite app_nil_r|].
    rewrite IH, He. now rewrite app_assoc.
  - cbn [absorb written]. revert s.
    induction IHb as [|e r He _ IH]; intros s; cbn [fold_left flat_map]; [now rewrite app_nil_r|].
    rewrite IH, He. now rewrite app_assoc.
  - destruct s as [i c ch]. cbn [absorb written]. destruct path; cbn [lookup items_of children_of]; now rewrite app_nil_r.
Qed.

Lemma fold_place : forall body s path,
  items_of (lookup path (fold_from s body)) = items_of (lookup path s) ++ flat_map (written path) body.
Proof.
  unfold fold_from. induction body as [|e r IH]; intros s path; cbn [fold_left flat_map]; [now rewrite app_nil_r|].
  rewrite IH, absorb_place. now rewrite app_assoc.
Qed.

Theorem items_land_where_written_lemma body path :
  items_of (lookup path (fold_ns body)) = flat_map (written path) body.
Proof. unfold fold_ns. rewrite fold_place, lookup_empty. reflexivity. Qed.

(* Hand-written mirror of how a method DEFINITION OUTSIDE ITS CLASS is read at
   namespace scope: specifiers and return type (_parse_type, validate(var_ok,
   meth_ok = false)), the pointer / reference part, the qualified name
   `A::B::m` (_parse_pqname, Parse/PQName.v pq_loop: names without template
   arguments), '(' and then _parse_function on its method path (a name of several
   segments): parameters, _parse_method_end, and -- outside a class, without a
   template header -- the body is mandatory.  The statement ends with the body.
   Constructors / destructors (`S::S()`, the qualified name is then read as the
   TYPE) are outside this model.
   Tied to the code by the differential run of harness/props/c01.py. *)
From Coq Require Import NArith List Bool Lia.
Import ListNotations.
From CXV Require Import Gen.TokTy Gen.ParserTables Parse.Balanced Parse.BalancedThms Parse.Declarator Parse.DeclSpec Parse.DeclThms
  Parse.EnumList Parse.Specs Parse.VarStmt Parse.FnTail Parse.Init Parse.Members Parse.MethodTail Parse.DeclStmt Parse.MemberStmt Parse.PQName
  Parse.ConvOp.
Open Scope N_scope.

Record mimpl := mkMI { mi_mods : mods; mi_segs : list seg; mi_ret : ty; mi_params : list (ty * option N); mi_vararg : bool; mi_tail : mtail }.

Definition method_impl_stmt (fuel : nat) (toks : list tk) : dres (mimpl * list tk) :=
  match parse_specs toks with
  | DErr e => DErr e
  | DOk (m, b, r) =>
      if auto_next r then DErr 4
      else if negb (validate true false m) then DErr 3
      else
        match cvptr fuel (TBase b (m_const m) (m_volatile m)) r with
        | DErr e => DErr e
        | DOk (d, r1) =>
            if is_fn d then DErr 3
            else
              match r1 with
              | t :: r2 =>
                  if is T_NAME t then
                    match pq_loop (S (length r2)) [] t r2 with
                    | DErr e => DErr e
                    | DOk (segs, r3) =>
                        if Nat.ltb (length segs) 2 then DErr 4          (* a plain function: Parse/DeclStmt.v *)
                        else
                          match r3 with
                          | lp :: r4 =>
                              if is LP lp then
                                match params fuel r4 with
                                | DErr e => DErr e
                                | DOk (ps, va, r5) =>
                                    match parse_method_end r5 with
                                    | DErr e => DErr e
                                    | DOk (q, r6) =>
                                        if q_body q then DOk (mkMI m segs d ps va q, r6)
                                        else DErr 1                      (* expected: Method body *)
                                    end
                                end
                              else DErr 4                                (* a variable with a qualified name *)
                          | [] => DErr 4
                          end
                    end
                  else DErr 4
              | [] => DErr 4
              end
        end
  end.

(* ------------------------------------------------------------------ *)

Definition qual_toks (n : N) (q : list N) : list tk := mkTk T_NAME n :: flat_map (fun m => [ktok T_DBL_COLON; mkTk T_NAME m]) q.

Theorem method_impl_roundtrip pre post b ls n q ps va quals soup rest :
  forallb spec_kw pre = true -> forallb spec_kw post = true ->
  has T_explicit (pre ++ post) = false -> has T_virtual (pre ++ post) = false -> has T_mutable (pre ++ post) = false ->
  all_pfx ls = true -> legalL KB ls = true -> q <> [] ->
  layer_ok (LFn ps va) -> Forall mq_ok quals -> bal tk kty LBRACE RBRACE soup ->
  let m := apply_kws (pre ++ post) mods0 in
  let t := wrap (TBase b (m_const m) (m_volatile m)) ls in
  ev (fun f => method_impl_stmt f (kw_toks pre ++ nm_tok b :: kw_toks post ++ P ls [] ++ qual_toks n q ++
                                   ktok LP :: params_toks ps va ++ ktok RP :: flat_map mq_toks quals ++ mend_toks (MeBody soup) ++ rest))
     (DOk (mkMI m (SName n :: map SName q) t ps va (apply_end (MeBody soup) (quals_of quals)), rest)).
Proof.
  intros Hpre Hpost Hex Hvi Hmu Hpf Hleg Hq [_ Hprm] Hqs Hbal m t.
  set (Y := flat_map mq_toks quals ++ mend_toks (MeBody soup) ++ rest).
  set (Z := ktok LP :: params_toks ps va ++ ktok RP :: Y).
  set (X := qual_toks n q ++ Z).
  assert (Hst : stops X = true) by reflexivity.
  destruct (all_pfx_main ls Hpf) as [Em Et].
  assert (Hcore : SNk []) by constructor.
  assert (Hok : Forall layer_ok ls).
  { apply Forall_forall. intros l Hl. unfold all_pfx in Hpf. rewrite forallb_forall in Hpf. specialize (Hpf l Hl).
    destruct l; try exact I; discriminate Hpf. }
  pose proof (cvptr_P _ ls (le_n _) (TBase b (m_const m) (m_volatile m)) [] X Hleg Hok Hcore) as Hcv'.
  rewrite Et, Em in Hcv'. cbn [P app] in Hcv'. specialize (Hcv' Hst eq_refl). destruct Hcv' as [f1 H1].
  destruct (Hprm Y) as [f2 H2].
  pose proof (parse_method_end_roundtrip quals (MeBody soup) rest Hqs Hbal) as Htl. fold Y in Htl.
  assert (Hnf : is_fn t = false).
  { unfold t. clear - Hpf. destruct ls as [|l r] using rev_ind; [reflexivity|].
    unfold wrap. rewrite fold_left_app. cbn [fold_left]. unfold all_pfx in Hpf. rewrite forallb_app in Hpf.
    apply andb_prop in Hpf as [_ Hl]. cbn [forallb] in Hl. destruct l; try reflexivity; discriminate Hl. }
  assert (Hstop : spec_stop (P ls [] ++ X) = true).
  { destruct ls as [|l r]; [reflexivity|]. cbn [all_pfx forallb] in Hpf. apply andb_prop in Hpf as [Hl _].
    destruct l; try discriminate Hl; reflexivity. }
  assert (Hna : auto_next (P ls [] ++ X) = false).
  { destruct ls as [|l r]; [reflexivity|]. cbn [all_pfx forallb] in Hpf. apply andb_prop in Hpf as [Hl _].
    destruct l; try discriminate Hl; reflexivity. }
  assert (Hk : forallb spec_kw (pre ++ post) = true) by (rewrite forallb_app; now rewrite Hpre, Hpost).
  assert (Hval : validate true false m && negb (m_mutable m) = true) by (apply validate_ns_ok; assumption).
  apply andb_prop in Hval as [Hv1 _].
  assert (Hpq : forall fuel, (length q < fuel)%nat ->
            pq_loop fuel [] (mkTk T_NAME n) (flat_map (fun m0 => [ktok T_DBL_COLON; mkTk T_NAME m0]) q ++ Z) = DOk (SName n :: map SName q, Z)).
  { intros fuel Hf. rewrite (pq_loop_names q n [] Z fuel Hf); [reflexivity|]. unfold Z, name_stop. split; reflexivity. }
  assert (Hlen : Nat.ltb (length (SName n :: map SName q)) 2 = false).
  { destruct q as [|x q']; [contradiction|]. reflexivity. }
  exists (Nat.max f1 f2). intros f Hge. unfold method_impl_stmt.
  replace (kw_toks pre ++ nm_tok b :: kw_toks post ++ P ls [] ++ qual_toks n q ++ ktok LP :: params_toks ps va ++ ktok RP :: flat_map mq_toks quals ++ mend_toks (MeBody soup) ++ rest)
    with (kw_toks pre ++ nm_tok b :: kw_toks post ++ (P ls [] ++ X)) by reflexivity.
  rewrite (specs_decode_lemma pre post b _ Hpre Hpost Hstop). rewrite apply_kws_app. fold m.
  rewrite Hna. rewrite Hv1. cbn [negb]. rewrite H1 by lia. fold t. rewrite Hnf.
  unfold X at 1. unfold qual_toks. cbn [app]. change (is T_NAME (mkTk T_NAME n)) with true. cbn iota.
  rewrite Hpq.
  2:{ rewrite app_length. assert (L : (length q <= length (flat_map (fun m0 => [ktok T_DBL_COLON; mkTk T_NAME m0]) q))%nat).
      { clear. induction q as [|x r IH]; [cbn; lia|]. cbn [flat_map app length]. lia. } lia. }
  rewrite Hlen. unfold Z at 1. change (is LP (ktok LP)) with true. cbn iota.
  rewrite H2 by lia. rewrite Htl.
  fold (quals_of quals). rewrite (q_body_apply_end (MeBody soup) _ (quals_no_body quals)). reflexivity.
Qed.

(* Theorems about the block skeleton (C05 prune, C04 well-formedness,
   C03 access in force). All statements are about [sem]/[sfinal] of
   BlocksSpec.v, which run_is_sem ties to the interpreted atoms. *)
From Coq Require Import NArith List Bool Lia PeanoNat.
Import ListNotations.
From CXV Require Import Gen.Blocks Parse.BlocksSM Parse.BlocksSpec.
Open Scope N_scope.

(* ------------------------------------------------------------------ *)
(* C05: skip = prune *)

(* remove, from a callback stream, the inside and the end callback of every
   block whose start callback returned False *)
Fixpoint prune (skip : N -> bool) (depth : nat) (s : list cb) : list cb :=
  match s with
  | [] => []
  | e :: r =>
      match depth with
      | O =>
          match e with
          | CbStart _ id _ => e :: prune skip (if skip id then 1%nat else O) r
          | _ => e :: prune skip O r
          end
      | S d =>
          match e with
          | CbStart _ _ _ => prune skip (S depth) r
          | CbEnd _ _ => prune skip d r
          | _ => prune skip depth r
          end
      end
  end.

Definition noskip : N -> bool := fun _ => false.

Definition same_frame (a b : frame) : Prop :=
  fid a = fid b /\ fkind a = fkind b /\ faccess a = faccess b.

(* visitors in force, innermost first: inside the current block, then inside
   each enclosing one *)
Definition visseq (s : Sp) : list bool := svis s :: map fprior (scur s).

Definition Rel (d : nat) (a b : Sp) : Prop :=
  Forall2 same_frame (scur a) (scur b) /\ snext a = snext b /\ sst a = sst b /\
  Forall (fun x => x = true) (visseq b) /\
  exists k, visseq a = repeat false d ++ repeat true (S k).

Lemma mkRel d a b k :
  Forall2 same_frame (scur a) (scur b) -> snext a = snext b -> sst a = sst b ->
  svis b = true -> Forall (fun x => x = true) (map fprior (scur b)) ->
  svis a :: map fprior (scur a) = repeat false d ++ repeat true (S k) -> Rel d a b.
Proof.
  intros H1 H2 H3 H4 H5 H6. repeat split; auto.
  - unfold visseq. rewrite H4. constructor; auto.
  - exists k. exact H6.
Qed.

Ltac rel_side :=
  repeat match goal with H : same_frame _ _ |- _ => destruct H as (? & ? & ?) end;
  cbn [scur svis snext sst map fprior andb negb repeat app fst snd] in *;
  try reflexivity; try assumption;
  try (constructor; [repeat split; cbn [fid fkind faccess]; try reflexivity; try assumption | try assumption; try constructor]);
  try congruence; try (now constructor).

Lemma rel_step skip d a b e :
  Rel d a b ->
  exists d', Rel d' (fst (sstep skip a e)) (fst (sstep noskip b e)) /\
    forall tail, prune skip d (snd (sstep noskip b e) ++ tail)
                 = snd (sstep skip a e) ++ prune skip d' tail.
Proof.
  intros (Hfr & Hn & Hst & Hall & k & Hseq).
  destruct a as [ca va na sa], b as [cb0 vb nb sb].
  unfold visseq in *. cbn [scur svis snext sst] in *. subst nb sb.
  inversion Hall as [|x l Hvb Hpb]; subst. clear Hall.
  unfold sstep. cbn [sst scur svis snext].
  destruct sa;
    [|exists d; split; [apply (mkRel _ _ _ k); rel_side|intros; reflexivity]..].
  destruct e as [kd a0| |ci|ac].
  - (* open *)
    cbn [fst snd]. unfold noskip. cbn [negb andb].
    assert (Htop : top_id ca = top_id cb0).
    { destruct Hfr as [|x y l l' [H1 _] _]; [reflexivity|exact H1]. }
    destruct d as [|d]; cbn [repeat app] in Hseq; inversion Hseq as [[Hva Hpa]]; subst va.
    + destruct (skip na) eqn:Hsk.
      * exists 1%nat. split.
        -- apply (mkRel _ _ _ k); rel_side.
        -- intros tail. cbn [app prune]. rewrite Hsk, Htop. reflexivity.
      * exists O. split.
        -- apply (mkRel _ _ _ (S k)); rel_side.
        -- intros tail. cbn [app prune]. rewrite Hsk, Htop. reflexivity.
    + exists (S (S d)). split.
      * apply (mkRel _ _ _ k); rel_side.
      * intros tail. cbn [app prune]. reflexivity.
  - (* close *)
    destruct Hfr as [|fa fb ra rb Hsf Hrest].
    { exists d. split; [apply (mkRel _ _ _ k); rel_side|intros; reflexivity]. }
    cbn [map fprior] in Hpb, Hseq.
    inversion Hpb as [|x l Hfb Hpb']; subst. clear Hpb.
    destruct Hsf as (Hid & Hkd & Hac).
    destruct d as [|d]; cbn [repeat app] in Hseq; inversion Hseq as [[Hva Hpa]]; subst va.
    + destruct k as [|k]; [discriminate|].
      cbn [repeat] in Hpa. injection Hpa as Hfa Hra.
      exists O. destruct Hrest as [|fa2 fb2 ra2 rb2 Hsf2 Hrest2].
      * split; [|intros; cbn [fst snd app prune]; now rewrite Hid, Hkd].
        apply (mkRel _ _ _ (S k)); rel_side.
      * split; [|intros; cbn [fst snd app prune]; now rewrite Hid, Hkd].
        apply (mkRel _ _ _ k); rel_side.
    + exists d. destruct Hrest as [|fa2 fb2 ra2 rb2 Hsf2 Hrest2].
      * split; [|intros; cbn [fst snd app prune]; reflexivity].
        cbn [map fprior] in Hpa.
        destruct d as [|d]; cbn [repeat app] in Hpa.
        -- injection Hpa as Hfa Hk. apply (mkRel _ _ _ (S k)); rel_side.
        -- injection Hpa as _ Hk. destruct d; discriminate.
      * split; [|intros; cbn [fst snd app prune]; reflexivity].
        apply (mkRel _ _ _ k); rel_side.
  - (* item *)
    destruct Hfr as [|fa fb ra rb Hsf Hrest].
    { exists d. split; [apply (mkRel _ _ _ k); rel_side|intros; reflexivity]. }
    destruct Hsf as (Hid & Hkd & Hac).
    exists d. split.
    + apply (mkRel _ _ _ k); rel_side.
    + intros tail. cbn [snd app].
      destruct d as [|d]; cbn [repeat app] in Hseq; inversion Hseq as [[Hva Hpa]]; subst va;
        cbn [prune app]; [now rewrite Hid, Hac|reflexivity].
  - (* access specifier *)
    destruct Hfr as [|fa fb ra rb Hsf Hrest].
    { exists d. split; [apply (mkRel _ _ _ k); rel_side|intros; reflexivity]. }
    destruct Hsf as (Hid & Hkd & Hac). rewrite Hkd.
    exists d. destruct (kind_eqb (fkind fb) KClass).
    + split; [|intros; reflexivity]. apply (mkRel _ _ _ k); rel_side.
    + split; [|intros; reflexivity]. apply (mkRel _ _ _ k); rel_side.
Qed.

Lemma rel_sem skip : forall evs d a b, Rel d a b ->
  sem skip a evs = prune skip d (sem noskip b evs).
Proof.
  induction evs as [|e r IH]; intros d a b HR; cbn [sem]; [reflexivity|].
  destruct (rel_step skip d a b e HR) as [d' [HR' Hp]].
  destruct (sstep skip a e) as [a' oa] eqn:Ea. destruct (sstep noskip b e) as [b' ob] eqn:Eb.
  cbn [fst snd] in *. rewrite Hp. f_equal. now apply IH.
Qed.

Theorem skip_is_prune_sem skip evs :
  sem skip sinit evs = prune skip 0 (sem noskip sinit evs).
Proof.
  apply (rel_sem skip evs 0 sinit sinit). apply (mkRel _ _ _ 1%nat); cbn; auto.
  - constructor; [repeat split|constructor].
Qed.

(* stated on the interpreted machine *)
Theorem skip_is_prune_run skip evs :
  stream (run skip evs) = prune skip 0 (stream (run noskip evs)).
Proof.
  destruct (run_is_sem skip evs) as [E1 _]. destruct (run_is_sem noskip evs) as [E2 _].
  rewrite E1, E2. cbn [prune]. f_equal. apply skip_is_prune_sem.
Qed.

(* ------------------------------------------------------------------ *)
(* C04: the callback stream of a non-skipping visitor is a well-formed
   traversal; its open blocks are exactly the source's open blocks *)

Definition fk (f : frame) : N * kind := (fid f, fkind f).

Fixpoint wf (open : list (N * kind)) (s : list cb) : option (list (N * kind)) :=
  match s with
  | [] => Some open
  | CbParseStart _ :: _ => None
  | CbStart k id par :: r =>
      match open with
      | (p, _) :: _ => if par =? p then wf ((id, k) :: open) r else None
      | [] => None
      end
  | CbEnd k id :: r =>
      match open with
      | (i, k') :: o' => if (i =? id) && kind_eqb k k' then wf o' r else None
      | [] => None
      end
  | CbItem c id _ :: r =>
      match open with
      | (i, _) :: _ => if i =? id then wf open r else None
      | [] => None
      end
  end.

Lemma sstep_stuck skip s e : sst s <> Running -> sstep skip s e = (s, []).
Proof. unfold sstep. destruct (sst s); congruence. Qed.

Lemma sfinal_stuck skip : forall evs s, sst s <> Running -> sfinal skip s evs = s.
Proof.
  induction evs as [|e r IH]; intros s H; cbn [sfinal]; [reflexivity|].
  rewrite (sstep_stuck skip s e H). cbn [fst]. now apply IH.
Qed.

Lemma sfinal_running_head skip e r s :
  sst (sfinal skip s (e :: r)) = Running -> sst (fst (sstep skip s e)) = Running.
Proof.
  cbn [sfinal]. intros H.
  destruct (sst (fst (sstep skip s e))) eqn:E; [reflexivity| | |];
    rewrite sfinal_stuck in H by (rewrite E; discriminate); congruence.
Qed.

Lemma kind_eqb_refl k : kind_eqb k k = true. Proof. destruct k; reflexivity. Qed.

Definition allvis (s : Sp) : Prop :=
  svis s = true /\ Forall (fun f => fprior f = true) (scur s) /\ scur s <> [].

Lemma wf_sem : forall evs s, allvis s -> sst (sfinal noskip s evs) = Running ->
  wf (map fk (scur s)) (sem noskip s evs) = Some (map fk (scur (sfinal noskip s evs)))
  /\ allvis (sfinal noskip s evs).
Proof.
  induction evs as [|e r IH]; intros s Hv Hrun; cbn [sem sfinal]; [split; [reflexivity|exact Hv]|].
  pose proof (sfinal_running_head noskip e r s Hrun) as Hhd.
  cbn [sfinal] in Hrun.
  destruct Hv as (Hvis & Hpr & Hne). destruct s as [c v n stt]. cbn [svis scur] in *. subst v.
  destruct c as [|f c']; [congruence|]. clear Hne.
  unfold sstep in *. cbn [sst scur svis snext] in *.
  destruct stt; try (cbn [fst sst] in Hhd; discriminate).
  destruct e as [k a0| |ci|a]; cbn [fst snd app] in *.
  - (* open *)
    unfold noskip in *. cbn [negb andb] in *.
    destruct (IH (mkSp (mkFrame n k true a0 :: f :: c') true (n + 1) Running)) as [I1 I2].
    { split; [reflexivity|]. split; [constructor; [reflexivity|exact Hpr]|discriminate]. }
    { exact Hrun. }
    split; [|exact I2].
    cbn [wf map top_id]. unfold fk at 1. cbn [fst snd]. rewrite N.eqb_refl. exact I1.
  - (* close *)
    inversion Hpr as [|x l Hf Hpr']; subst.
    destruct c' as [|p c'']; [cbn [fst sst] in Hhd; discriminate|].
    cbn [fst snd app] in *. rewrite Hf in *.
    destruct (IH (mkSp (p :: c'') true n Running)) as [I1 I2].
    { split; [reflexivity|]. split; [exact Hpr'|discriminate]. }
    { exact Hrun. }
    split; [|exact I2].
    cbn [wf map]. unfold fk at 1. rewrite N.eqb_refl, kind_eqb_refl. cbn [andb]. exact I1.
  - (* item *)
    destruct (IH (mkSp (f :: c') true n Running)) as [I1 I2].
    { split; [reflexivity|]. split; [exact Hpr|discriminate]. }
    { exact Hrun. }
    split; [|exact I2].
    cbn [wf map]. unfold fk at 1. rewrite N.eqb_refl. exact I1.
  - (* access *)
    destruct (kind_eqb (fkind f) KClass) eqn:Ek; [|cbn [fst sst] in Hhd; discriminate].
    cbn [fst snd app] in *.
    inversion Hpr as [|x l Hf Hpr']; subst.
    destruct (IH (mkSp (mkFrame (fid f) (fkind f) (fprior f) a :: c') true n Running)) as [I1 I2].
    { split; [reflexivity|]. split; [constructor; [exact Hf|exact Hpr']|discriminate]. }
    { exact Hrun. }
    split; [|exact I2]. exact I1.
Qed.

(* C04: nesting, parents, innermost-state of every item; and the blocks still
   open in the stream are exactly the blocks still open in the source *)
Theorem stream_wellformed_sem evs :
  sst (sfinal noskip sinit evs) = Running ->
  wf [(0, KNs)] (sem noskip sinit evs) = Some (map fk (scur (sfinal noskip sinit evs))).
Proof.
  intros H. apply (wf_sem evs sinit); [|exact H].
  split; [reflexivity|]. split; [constructor; [reflexivity|constructor]|discriminate].
Qed.

Theorem stream_wellformed_run evs :
  st (run noskip evs) = Running ->
  exists tail, stream (run noskip evs) = CbParseStart 0 :: tail /\
    wf [(0, KNs)] tail = Some (map fk (cur (run noskip evs))).
Proof.
  intros H. destruct (run_is_sem noskip evs) as [E1 E2].
  exists (sem noskip sinit evs). split; [exact E1|].
  assert (E3 : sst (sfinal noskip sinit evs) = Running) by (rewrite <- E2; exact H).
  rewrite (stream_wellformed_sem evs E3). rewrite <- E2. reflexivity.
Qed.

(* ------------------------------------------------------------------ *)
(* C03: access in force.  Independent specification: scan the events before
   the member BACKWARDS, skipping closed nested blocks; the first access
   specifier met at nesting depth 0 decides, and if the opening of the
   member's own class body is met first, the class-key default does. *)

Fixpoint bs (d : nat) (l : list ev) : N :=
  match l with
  | [] => 0
  | EvClose :: r => bs (S d) r
  | EvOpen _ a0 :: r => match d with O => a0 | S d' => bs d' r end
  | EvAccess a :: r => match d with O => a | S _ => bs d r end
  | EvItem _ :: r => bs d r
  end.

(* the events before the opening of the enclosing block *)
Fixpoint cut (d : nat) (l : list ev) : list ev :=
  match l with
  | [] => []
  | EvClose :: r => cut (S d) r
  | EvOpen _ _ :: r => match d with O => r | S d' => cut d' r end
  | _ :: r => cut d r
  end.

Fixpoint accs (n : nat) (l : list ev) : list N :=
  match n with O => [] | S n' => bs 0 l :: accs n' (cut 0 l) end.

Lemma bs_cut : forall l d e, bs (S d + e) l = bs d (cut e l).
Proof.
  induction l as [|x r IH]; intros d e; [destruct d; reflexivity|].
  destruct x as [k a0| |c|a]; cbn [bs cut].
  - destruct e as [|e']; [rewrite Nat.add_0_r; reflexivity|].
    rewrite Nat.add_succ_r. cbn [Nat.add]. apply IH.
  - rewrite <- (IH d (S e)). f_equal. lia.
  - apply IH.
  - cbn [Nat.add]. apply IH.
Qed.

Lemma cut_cut : forall l d e, cut (S d + e) l = cut d (cut e l).
Proof.
  induction l as [|x r IH]; intros d e; [reflexivity|].
  destruct x as [k a0| |c|a]; cbn [cut].
  - destruct e as [|e']; [rewrite Nat.add_0_r; reflexivity|].
    rewrite Nat.add_succ_r. cbn [Nat.add]. apply IH.
  - rewrite <- (IH d (S e)). f_equal. lia.
  - apply IH.
  - apply IH.
Qed.

Lemma sfinal_app skip : forall p q s, sfinal skip s (p ++ q) = sfinal skip (sfinal skip s p) q.
Proof. induction p as [|e r IH]; intros q s; cbn [app sfinal]; [reflexivity|apply IH]. Qed.

Lemma sfinal_running_prefix skip p q s :
  sst (sfinal skip s (p ++ q)) = Running -> sst (sfinal skip s p) = Running.
Proof.
  rewrite sfinal_app. intros H.
  destruct (sst (sfinal skip s p)) eqn:E; [reflexivity| | |];
    rewrite sfinal_stuck in H by (rewrite E; discriminate); congruence.
Qed.

Lemma access_inv skip : forall p,
  sst (sfinal skip sinit p) = Running ->
  map faccess (scur (sfinal skip sinit p)) = accs (length (scur (sfinal skip sinit p))) (rev p).
Proof.
  induction p as [|e p IH] using rev_ind; intros Hrun; [reflexivity|].
  pose proof (sfinal_running_prefix skip p [e] sinit Hrun) as Hp.
  specialize (IH Hp). rewrite sfinal_app in *. cbn [sfinal] in *.
  rewrite rev_app_distr. cbn [rev app].
  destruct (sfinal skip sinit p) as [c v n stt]. cbn [scur sst] in *. subst stt.
  unfold sstep in *. cbn [sst scur svis snext] in *.
  destruct e as [k a0| |ci|a]; cbn [fst scur] in *.
  - cbn [map faccess length accs bs cut]. f_equal. exact IH.
  - destruct c as [|f [|p' c']]; cbn [fst scur sst] in *; try discriminate.
    cbn [map length accs] in IH |- *. injection IH as _ I2 I3.
    cbn [bs cut]. pose proof (bs_cut (rev p) 0 0) as B. pose proof (cut_cut (rev p) 0 0) as C.
    cbn [Nat.add] in B, C. rewrite B, C. f_equal; assumption.
  - destruct c as [|f c']; cbn [fst scur sst] in *; try discriminate.
    cbn [map length accs bs cut] in *. exact IH.
  - destruct c as [|f c']; cbn [fst scur sst] in *; try discriminate.
    destruct (kind_eqb (fkind f) KClass); cbn [fst scur sst] in *; try discriminate.
    cbn [map length accs bs cut faccess] in *. injection IH as _ I2. f_equal. exact I2.
Qed.

Theorem access_in_force_sem skip p c id acc :
  sst (sfinal skip sinit p) = Running ->
  svis (sfinal skip sinit p) = true ->
  sem skip (sfinal skip sinit p) [EvItem c] = [CbItem c id acc] ->
  acc = bs 0 (rev p).
Proof.
  intros Hrun Hvis Hsem. pose proof (access_inv skip p Hrun) as Hinv.
  destruct (sfinal skip sinit p) as [cc v n stt]. cbn [scur sst svis] in *. subst stt v.
  cbn [sem] in Hsem. unfold sstep in Hsem. cbn [sst scur svis] in Hsem.
  destruct cc as [|f c']; [discriminate|].
  cbn [app] in Hsem. injection Hsem as _ Hacc.
  cbn [map length accs] in Hinv. injection Hinv as H1 _. congruence.
Qed.

(* C06: structural rejections of the block machine *)
Lemma stray_close_rejected skip s f :
  sst s = Running -> scur s = [f] -> sst (fst (sstep skip s EvClose)) = ErrRootPop.
Proof. intros H1 H2. unfold sstep. rewrite H1, H2. reflexivity. Qed.

Lemma access_outside_class_rejected skip s f rest a :
  sst s = Running -> scur s = f :: rest -> fkind f <> KClass ->
  sst (fst (sstep skip s (EvAccess a))) = ErrAccessOutsideClass.
Proof.
  intros H1 H2 H3. unfold sstep. rewrite H1, H2.
  destruct (fkind f); cbn; try reflexivity. congruence.
Qed.

Lemma error_is_final skip s evs : sst s <> Running -> sfinal skip s evs = s /\ sem skip s evs = [].
Proof.
  intros H. split; [now apply sfinal_stuck|].
  induction evs as [|e r IH]; [reflexivity|]. cbn [sem]. rewrite (sstep_stuck skip s e H). exact IH.
Qed.

(* Theorems about Parse/ClassDef.v: class definitions nested to any depth read back
   as the tree that was written, every member under the access in force IN ITS OWN
   class at its position -- a nested class before or around a member does not
   change it. *)
From Coq Require Import NArith List Bool Lia.
Import ListNotations.
From CXV Require Import Gen.TokTy Gen.ParserTables Gen.TopLoop Parse.Balanced Parse.BalancedThms Parse.Declarator Parse.DeclSpec Parse.DeclThms
  Parse.EnumList Parse.Specs Parse.VarStmt Parse.FnTail Parse.Init Parse.Members Parse.MethodTail Parse.DeclStmt Parse.MemberStmt
  Parse.ConvOp Parse.OperatorMember Parse.OperatorFn Parse.MethodImpl Parse.FriendStmt Parse.BaseClause Parse.ClassEnum Parse.FinishClass
  Parse.Bodies Parse.ClassDef.
Open Scope N_scope.

(* what is written *)
Inductive welem :=
| WAccess (kw : tk)                         (* public: / private: / protected: *)
| WEmpty
| WStmt (toks : list tk) (it : citem)       (* a member statement of the statement models *)
| WFwd (key name : N)                       (* class-key Name ; *)
| WOne (toks : list tk) (mk : N -> item)    (* any statement the loop reads in one step: using, enum, ... (abstract, see one_step) *)
| WClass (w : wclass)
with wclass :=
| mkWC (key name : N) (vs : list bool) (ws : list wbase) (elems : list welem).   (* class-key Name [final..] [: bases] { elems } ; *)

Definition bases_toks (ws : list wbase) : list tk :=
  match ws with [] => [] | _ => ktok T_LIT_58 :: join_comma (map wbase_toks ws) end.

Fixpoint welem_toks (e : welem) : list tk :=
  match e with
  | WAccess kw => [kw; ktok COLONb]
  | WEmpty => [ktok SEMI]
  | WStmt toks _ => toks
  | WFwd key name => [ktok key; mkTk T_NAME name; ktok SEMI]
  | WOne toks _ => toks
  | WClass (mkWC key name vs ws es) =>
      ktok key :: mkTk T_NAME name :: vs_toks vs ++ bases_toks ws ++ ktok LBRACE :: flat_map welem_toks es ++ [ktok RBRACE; ktok SEMI]
  end.

(* the specification: the tree, each member under the access in force in its own class *)
Fixpoint wclass_spec (acc : N) (w : wclass) : item :=
  match w with
  | mkWC key name vs ws es =>
      IClass acc (mkCD mods0 [key] name false false (existsb (fun f => f) vs) (existsb negb vs) (map (resolve (default_access [key])) ws)
                   ((fix go (a : N) (l : list welem) : list item :=
                       match l with
                       | [] => []
                       | WAccess kw :: r => go (kty kw) r
                       | WEmpty :: r => go a r
                       | WStmt _ it :: r => IC a it :: go a r
                       | WFwd k nm :: r => IFwd a [k] nm :: go a r
                       | WOne _ mk :: r => mk a :: go a r
                       | WClass w' :: r => wclass_spec a w' :: go a r
                       end) (default_access [key]) es)
                   FinNone)
  end.

Fixpoint welems_spec (a : N) (l : list welem) : list item :=
  match l with
  | [] => []
  | WAccess kw :: r => welems_spec (kty kw) r
  | WEmpty :: r => welems_spec a r
  | WStmt _ it :: r => IC a it :: welems_spec a r
  | WFwd k nm :: r => IFwd a [k] nm :: welems_spec a r
  | WOne _ mk :: r => mk a :: welems_spec a r
  | WClass w' :: r => wclass_spec a w' :: welems_spec a r
  end.

Lemma wclass_spec_eq acc key name vs ws es :
  wclass_spec acc (mkWC key name vs ws es)
  = IClass acc (mkCD mods0 [key] name false false (existsb (fun f => f) vs) (existsb negb vs) (map (resolve (default_access [key])) ws)
                  (welems_spec (default_access [key]) es) FinNone).
Proof. reflexivity. Qed.

Definition class_key (k : N) : Prop := k = T_class \/ k = T_struct \/ k = T_union.

(* a statement the loop reads in one step, in a class body: whatever the budget, the access in force, the counter and the
   continuation, the loop delivers [mk acc] and goes on behind the statement *)
Definition one_step (n : nat) (dt : list (N * N)) (cls dcls : N) (toks : list tk) (mk : N -> item) : Prop :=
  forall rest, exists f0, forall f, (f0 <= f)%nat -> forall k' acc aid,
    body (S k') n f dt (Some (cls, dcls)) acc aid (toks ++ rest)
    = match body k' n f dt (Some (cls, dcls)) acc aid rest with
      | DOk (l, a, rr) => DOk (mk acc :: l, a, rr)
      | DErr e => DErr e
      end.

Fixpoint welem_ok (n : nat) (dt : list (N * N)) (cls dcls : N) (e : welem) {struct e} : Prop :=
  match e with
  | WAccess kw => assocN (kty kw) tu_table = Some H_process_access_specifier
  | WEmpty => True
  | WStmt toks it =>
      (exists t r, toks = t :: r /\ is_decl_head t) /\
      (forall rest, class_stmt_head false false (toks ++ rest) = CHNot) /\
      forall rest, ev (fun f => member_decl n f cls dcls (toks ++ rest)) (DOk (it, rest))
  | WFwd key _ => class_key key
  | WOne toks mk => one_step n dt cls dcls toks mk
  | WClass (mkWC key name vs ws es) =>
      class_key key /\ forallb access_ok ws = true /\ (match vs with f :: _ => f = true | [] => True end) /\
      (fix all (l : list welem) : Prop :=
         match l with [] => True | x :: r => welem_ok n dt name (dtor_of dt name) x /\ all r end) es
  end.

Fixpoint welems_ok (n : nat) (dt : list (N * N)) (cls dcls : N) (l : list welem) : Prop :=
  match l with [] => True | x :: r => welem_ok n dt cls dcls x /\ welems_ok n dt cls dcls r end.

Fixpoint esize (e : welem) : nat :=
  match e with
  | WClass (mkWC _ _ _ _ es) => S (S ((fix sum (l : list welem) : nat := match l with [] => O | x :: r => (esize x + sum r)%nat end) es))
  | _ => 1%nat
  end.
Fixpoint ssize (l : list welem) : nat := match l with [] => O | x :: r => (esize x + ssize r)%nat end.

(* ------------------------------------------------------------------ *)
(* the head of a written class statement *)

Lemma class_head_written_g (tmpl : bool) key name vs ws X :
  class_key key -> forallb access_ok ws = true -> (match vs with f :: _ => f = true | [] => True end) ->
  class_stmt_head false tmpl (ktok key :: mkTk T_NAME name :: vs_toks vs ++ bases_toks ws ++ ktok LBRACE :: X)
  = CHDef mods0 [key] (Some name) (existsb (fun f => f) vs) (existsb negb vs) (map (resolve (default_access [key])) ws) X.
Proof.
  intros Hk Hws Hvs.
  pose proof (class_head_roundtrip (default_access [key]) vs ws X Hws Hvs) as Hh. fold (bases_toks ws) in Hh.
  set (Y := vs_toks vs ++ bases_toks ws ++ ktok LBRACE :: X) in *.
  assert (Hy : exists s r, Y = s :: r /\ (is T_DBL_COLON s || is T_LIT_60 s) = false /\ is_name_start s = false /\
                           is_ptr_ref_paren s = false /\ set_mod (kty s) mods0 = None /\ is SEMI s = false /\
                           memN (kty s) class_enum_stage2 = true /\ memN (kty s) attribute_start_tokens = false).
  { unfold Y. destruct vs as [|f q].
    - destruct ws as [|w q]; cbn [vs_toks map app bases_toks]; eexists; eexists; (split; [reflexivity|]); repeat split; reflexivity.
    - subst f. cbn [vs_toks map app]. eexists; eexists; (split; [reflexivity|]); repeat split; reflexivity. }
  destruct Hy as (s & r & EY & H1 & H2 & H3 & H4 & H5 & H6 & HAT).
  unfold class_stmt_head.
  assert (Hck : ckey_loop mods0 (ktok key :: mkTk T_NAME name :: Y) = Some (DOk (mods0, [key], Some name, Y))).
  { rewrite EY. destruct Hk as [E|[E|E]]; rewrite E; cbn [ckey_loop]; unfold key_name, name_part; cbv beta; change (memN (kty (mkTk T_NAME name)) attribute_start_tokens) with false; cbv iota; change (is T_DBL_COLON (mkTk T_NAME name)) with false; change (is T_NAME (mkTk T_NAME name)) with true; cbv iota; rewrite H1; reflexivity. }
  rewrite Hck.
  assert (Hsl : spec_loop mods0 (Some 0) Y = DOk (mods0, 0, Y)).
  { rewrite EY. cbn [spec_loop]. rewrite H2, H3, H4, HAT. reflexivity. }
  rewrite Hsl.
  assert (Hce : class_enum [key] mods0 tmpl false false Y = DOk (CEClass s, r)).
  { rewrite EY. unfold class_enum. rewrite H5, H6. destruct Hk as [E|[E|E]]; rewrite E; reflexivity. }
  rewrite Hce. rewrite <- EY. rewrite Hh. reflexivity.
Qed.

Lemma class_head_written key name vs ws X :
  class_key key -> forallb access_ok ws = true -> (match vs with f :: _ => f = true | [] => True end) ->
  class_stmt_head false false (ktok key :: mkTk T_NAME name :: vs_toks vs ++ bases_toks ws ++ ktok LBRACE :: X)
  = CHDef mods0 [key] (Some name) (existsb (fun f => f) vs) (existsb negb vs) (map (resolve (default_access [key])) ws) X.
Proof. exact (class_head_written_g false key name vs ws X). Qed.

Lemma class_fwd_written key name X :
  class_key key ->
  class_stmt_head false false (ktok key :: mkTk T_NAME name :: ktok SEMI :: X) = CHFwd mods0 [key] name X.
Proof. intros [E|[E|E]]; subst key; reflexivity. Qed.

Lemma class_key_decl_head key : class_key key -> is_decl_head (ktok key).
Proof. intros [E|[E|E]]; subst key; reflexivity. Qed.

(* ------------------------------------------------------------------ *)
(* one step of the loop at a token that goes to _parse_declarations, in a class body: by what the class-statement head says *)

Lemma body_step_stmt k' n f dt cls dcls acc aid t r :
  is_decl_head t -> class_stmt_head false false (t :: r) = CHNot ->
  body (S k') n f dt (Some (cls, dcls)) acc aid (t :: r)
  = match member_decl n f cls dcls (t :: r) with
    | DErr e => DErr e
    | DOk (it, r') =>
        match body k' n f dt (Some (cls, dcls)) acc aid r' with
        | DOk (l, a, rr) => DOk (IC acc it :: l, a, rr)
        | DErr e => DErr e
        end
    end.
Proof. intros Hh Hc. unfold is_decl_head in Hh. cbn [body]. rewrite Hh, Hc. reflexivity. Qed.

Lemma body_step_fwd k' n f dt cls dcls acc aid t r m key nm r1 :
  is_decl_head t -> class_stmt_head false false (t :: r) = CHFwd m key nm r1 ->
  body (S k') n f dt (Some (cls, dcls)) acc aid (t :: r)
  = match body k' n f dt (Some (cls, dcls)) acc aid r1 with
    | DOk (l, a, rr) => DOk (IFwd acc key nm :: l, a, rr)
    | DErr e => DErr e
    end.
Proof. intros Hh Hc. unfold is_decl_head in Hh. cbn [body]. rewrite Hh, Hc. reflexivity. Qed.

Lemma body_step_class k' n f dt cls dcls acc aid t r m key name fi ex bs r1 :
  is_decl_head t -> class_stmt_head false false (t :: r) = CHDef m key (Some name) fi ex bs r1 ->
  body (S k') n f dt (Some (cls, dcls)) acc aid (t :: r)
  = match body k' n f dt (Some (name, dtor_of dt name)) (default_access key) aid r1 with
    | DErr e => DErr e
    | DOk (members, aid2, r2) =>
        match r2 with
        | cb :: r3 =>
            if is RBRACE cb then
              match finish_class n f true false false (negb (key_is T_class key)) m cls dcls name (m_const m) (m_volatile m) r3 with
              | DErr e => DErr e
              | DOk (fin, r4) =>
                  match body k' n f dt (Some (cls, dcls)) acc aid2 r4 with
                  | DOk (l, a, rr) => DOk (IClass acc (mkCD m key name false false fi ex bs members fin) :: l, a, rr)
                  | DErr e => DErr e
                  end
              end
            else DErr 3
        | [] => DErr 4
        end
    end.
Proof. intros Hh Hc. unfold is_decl_head in Hh. cbn [body]. rewrite Hh, Hc. reflexivity. Qed.

Lemma body_nil k n f dt ctx acc aid : body (S k) n f dt ctx acc aid [] = DOk ([], aid, []).
Proof. reflexivity. Qed.

Lemma body_stop k n f dt ctx acc aid t r : stop_tok t -> body (S k) n f dt ctx acc aid (t :: r) = DOk ([], aid, t :: r).
Proof. intros H. unfold stop_tok in H. cbn [body]. rewrite H. rewrite N.eqb_refl. reflexivity. Qed.

(* ... and at namespace scope, for a class definition *)
Lemma body_class_step_ns k' n f dt aid t r m key name fi ex bs r1 :
  is_decl_head t -> class_stmt_head false false (t :: r) = CHDef m key (Some name) fi ex bs r1 ->
  body (S k') n f dt None 0 aid (t :: r)
  = match body k' n f dt (Some (name, dtor_of dt name)) (default_access key) aid r1 with
    | DErr e => DErr e
    | DOk (members, aid2, r2) =>
        match r2 with
        | cb :: r3 =>
            if is RBRACE cb then
              match finish_class n f false false false (negb (key_is T_class key)) m anon_base anon_base name (m_const m) (m_volatile m) r3 with
              | DErr e => DErr e
              | DOk (fin, r4) =>
                  match body k' n f dt None 0 aid2 r4 with
                  | DOk (l, a, rr) => DOk (IClass 0 (mkCD m key name false false fi ex bs members fin) :: l, a, rr)
                  | DErr e => DErr e
                  end
              end
            else DErr 3
        | [] => DErr 4
        end
    end.
Proof. intros Hh Hc. unfold is_decl_head in Hh. cbn [body]. rewrite Hh, Hc. reflexivity. Qed.

(* ------------------------------------------------------------------ *)

Lemma body_elems : forall k n dt (es : list welem) cls dcls acc aid stop rest,
  (ssize es < k)%nat -> welems_ok n dt cls dcls es -> stop_tok stop ->
  ev (fun f => body k n f dt (Some (cls, dcls)) acc aid (flat_map welem_toks es ++ stop :: rest))
     (DOk (welems_spec acc es, aid, stop :: rest)).
Proof.
  induction k as [|k' IH]; intros n dt es cls dcls acc aid stop rest Hk Hok Hstop; [lia|].
  destruct es as [|e q].
  - exists 0%nat. intros f _. cbn [flat_map app welems_spec body]. unfold stop_tok in Hstop. rewrite Hstop.
    rewrite N.eqb_refl. reflexivity.
  - cbn [welems_ok] in Hok. destruct Hok as [He Hq]. cbn [ssize] in Hk.
    assert (He1 : (1 <= esize e)%nat) by (destruct e as [| | | | |[? ? ? ? ?]]; cbn [esize]; lia).
    assert (Hk' : (ssize q < k')%nat) by lia.
    cbn [flat_map]. rewrite <- app_assoc.
    remember (flat_map welem_toks q ++ stop :: rest) as TAIL.
    destruct e as [kw| |toks it|key name|toks mk|[key name vs ws es']]; cbn [welem_toks welem_ok welems_spec] in *.
    + destruct (IH n dt q cls dcls (kty kw) aid stop rest Hk' Hq Hstop) as [f2 H2]. rewrite <- HeqTAIL in H2.
      exists f2. intros f Hge. cbn [app body]. rewrite He.
      change (H_process_access_specifier =? H_on_block_end) with false.
      change (H_process_access_specifier =? 0) with false.
      change (H_process_access_specifier =? H_consume_static_assert) with false.
      rewrite N.eqb_refl. cbn iota.
      change (is COLONb (ktok COLONb)) with true. cbn iota. now apply H2.
    + destruct (IH n dt q cls dcls acc aid stop rest Hk' Hq Hstop) as [f2 H2]. rewrite <- HeqTAIL in H2.
      exists f2. intros f Hge. cbn [app body].
      change (assocN (kty (ktok SEMI)) tu_table) with (Some 0). cbn iota.
      change (0 =? H_on_block_end) with false. rewrite N.eqb_refl. cbn iota. now apply H2.
    + destruct He as [(t & r & E & Hh) [Hnot Hdec]]. subst toks.
      destruct (Hdec TAIL) as [f1 H1].
      destruct (IH n dt q cls dcls acc aid stop rest Hk' Hq Hstop) as [f2 H2]. rewrite <- HeqTAIL in H2.
      exists (Nat.max f1 f2). intros f Hge.
      change ((t :: r) ++ TAIL) with (t :: r ++ TAIL). rewrite (body_step_stmt k' n f dt cls dcls acc aid t (r ++ TAIL) Hh (Hnot TAIL)).
      change (t :: r ++ TAIL) with ((t :: r) ++ TAIL). rewrite H1 by lia. rewrite H2 by lia. reflexivity.
    + destruct (IH n dt q cls dcls acc aid stop rest Hk' Hq Hstop) as [f2 H2]. rewrite <- HeqTAIL in H2.
      exists f2. intros f Hge. cbn [app].
      rewrite (body_step_fwd k' n f dt cls dcls acc aid _ _ _ _ _ _ (class_key_decl_head key He) (class_fwd_written key name TAIL He)).
      rewrite H2 by lia. reflexivity.
    + destruct (He TAIL) as [f1 H1].
      destruct (IH n dt q cls dcls acc aid stop rest Hk' Hq Hstop) as [f2 H2]. rewrite <- HeqTAIL in H2.
      exists (Nat.max f1 f2). intros f Hge. rewrite (H1 f ltac:(lia)). rewrite H2 by lia. reflexivity.
    + destruct He as (Hkey & Hws & Hvs & Hin).
      assert (Hin' : welems_ok n dt name (dtor_of dt name) es').
      { clear - Hin. induction es' as [|x r IHr]; [exact I|]. destruct Hin as [A B]. split; [exact A|now apply IHr]. }
      assert (Hsz : (ssize es' < k')%nat).
      { assert (E : (fix sum (l : list welem) : nat := match l with [] => O | x :: r => (esize x + sum r)%nat end) es' = ssize es').
        { clear. induction es' as [|x r IHr]; [reflexivity|]. cbn [ssize]. now rewrite <- IHr. }
        cbn [esize] in Hk. rewrite E in Hk. lia. }
      assert (Hrb : stop_tok (ktok RBRACE)) by reflexivity.
      destruct (IH n dt es' name (dtor_of dt name) (default_access [key]) aid (ktok RBRACE) (ktok SEMI :: TAIL) Hsz Hin' Hrb) as [f1 H1].
      destruct (IH n dt q cls dcls acc aid stop rest Hk' Hq Hstop) as [f2 H2]. rewrite <- HeqTAIL in H2.
      exists (Nat.max f1 f2). intros f Hge.
      replace ((ktok key :: mkTk T_NAME name :: vs_toks vs ++ bases_toks ws ++ ktok LBRACE :: flat_map welem_toks es' ++ [ktok RBRACE; ktok SEMI]) ++ TAIL)
        with (ktok key :: mkTk T_NAME name :: vs_toks vs ++ bases_toks ws ++ ktok LBRACE :: (flat_map welem_toks es' ++ ktok RBRACE :: ktok SEMI :: TAIL)).
      2:{ cbn [app]. rewrite <- !app_assoc. cbn [app]. rewrite <- !app_assoc. reflexivity. }
      rewrite (body_step_class k' n f dt cls dcls acc aid _ _ _ _ _ _ _ _ _ (class_key_decl_head key Hkey) (class_head_written key name vs ws _ Hkey Hws Hvs)).
      rewrite H1 by lia. change (is RBRACE (ktok RBRACE)) with true. cbn iota.
      change (m_const mods0) with false. change (m_volatile mods0) with false.
      rewrite (finish_semicolon n f true false (negb (key_is T_class [key])) mods0 cls dcls name false false (ktok SEMI) TAIL eq_refl).
      cbn [andb]. rewrite H2 by lia. rewrite wclass_spec_eq. reflexivity.
Qed.

(* a class definition at namespace scope, nested to any depth *)
Theorem class_def_tree n dt (w : wclass) rest :
  welem_ok n dt anon_base anon_base (WClass w) -> (match rest with [] => True | t :: _ => stop_tok t end) ->
  ev (fun f => body (S (S (esize (WClass w)))) n f dt None 0 0 (welem_toks (WClass w) ++ rest))
     (match wclass_spec 0 w with IClass a c => DOk ([IClass a c], 0, rest) | _ => DErr 3 end).
Proof.
  destruct w as [key name vs ws es]. intros Hok Hrest. cbn [welem_ok] in Hok. destruct Hok as (Hkey & Hws & Hvs & Hin).
  assert (Hin' : welems_ok n dt name (dtor_of dt name) es).
  { clear - Hin. induction es as [|x r IHr]; [exact I|]. destruct Hin as [A B]. split; [exact A|now apply IHr]. }
  assert (E : (fix sum (l : list welem) : nat := match l with [] => O | x :: r => (esize x + sum r)%nat end) es = ssize es).
  { clear. induction es as [|x r IHr]; [reflexivity|]. cbn [ssize]. now rewrite <- IHr. }
  assert (Hrb : stop_tok (ktok RBRACE)) by reflexivity.
  destruct (body_elems (S (S (S (ssize es)))) n dt es name (dtor_of dt name) (default_access [key]) 0 (ktok RBRACE) (ktok SEMI :: rest)
              ltac:(lia) Hin' Hrb) as [f1 H1].
  exists f1. intros f Hge. rewrite wclass_spec_eq.
  cbn [welem_toks esize]. rewrite E.
  replace ((ktok key :: mkTk T_NAME name :: vs_toks vs ++ bases_toks ws ++ ktok LBRACE :: flat_map welem_toks es ++ [ktok RBRACE; ktok SEMI]) ++ rest)
    with (ktok key :: mkTk T_NAME name :: vs_toks vs ++ bases_toks ws ++ ktok LBRACE :: (flat_map welem_toks es ++ ktok RBRACE :: ktok SEMI :: rest)).
  2:{ cbn [app]. rewrite <- !app_assoc. cbn [app]. rewrite <- !app_assoc. reflexivity. }
  change (S (S (S (S (ssize es))))) with (S (S (S (S (ssize es))))).
  rewrite (body_class_step_ns _ n f dt 0 _ _ mods0 [key] name _ _ _ _ (class_key_decl_head key Hkey) (class_head_written key name vs ws _ Hkey Hws Hvs)).
  rewrite H1 by lia. change (is RBRACE (ktok RBRACE)) with true. cbn iota.
  change (m_const mods0) with false. change (m_volatile mods0) with false.
  rewrite (finish_semicolon n f false false (negb (key_is T_class [key])) mods0 anon_base anon_base name false false (ktok SEMI) rest eq_refl).
  cbn [andb].
  destruct rest as [|t r]; [rewrite body_nil; reflexivity|].
  rewrite (body_stop _ n f dt None 0 0 t r Hrest). reflexivity.
Qed.

(* ------------------------------------------------------------------ *)
(* the written member statements of the statement theorems are such elements *)

Lemma ckey_loop_specs_name : forall ks m b X,
  forallb spec_kw ks = true ->
  ckey_loop m (kw_toks ks ++ nm_tok b :: X) = None.
Proof.
  induction ks as [|k q IH]; intros m b X Hk.
  - cbn [kw_toks map app ckey_loop]. unfold nm_tok. destruct (b =? 0); reflexivity.
  - cbn [forallb] in Hk. apply andb_prop in Hk as [Hk1 Hk2].
    destruct (set_mod_some k m Hk1) as [m' Em].
    destruct (spec_kw_not_name k Hk1) as (N1 & N2 & _).
    assert (Hck : is_class_key (ktok k) = false).
    { apply spec_kw_in in Hk1. unfold spec_kws in Hk1. cbn [In] in Hk1.
      repeat (destruct Hk1 as [<-|Hk1]; [reflexivity|]). contradiction. }
    assert (Hen : is T_enum (ktok k) = false).
    { apply spec_kw_in in Hk1. unfold spec_kws in Hk1. cbn [In] in Hk1.
      repeat (destruct Hk1 as [<-|Hk1]; [reflexivity|]). contradiction. }
    cbn [kw_toks map app ckey_loop]. rewrite Hck, Hen, N1, N2. cbn [kty ktok]. rewrite Em.
    change (map ktok q ++ nm_tok b :: X) with (kw_toks q ++ nm_tok b :: X).
    assert (Hnext : match kw_toks q ++ nm_tok b :: X with s :: _ => is T_STRING_LITERAL s = false | [] => True end).
    { destruct q as [|k2 q']; cbn [kw_toks map app].
      - unfold nm_tok. destruct (b =? 0); reflexivity.
      - cbn [forallb] in Hk2. apply andb_prop in Hk2 as [Hk2a _]. now destruct (spec_kw_not_name k2 Hk2a) as (_ & _ & N3). }
    destruct (is T_extern (ktok k)); [|now apply IH].
    destruct (kw_toks q ++ nm_tok b :: X) as [|s r'] eqn:E; [destruct q; discriminate|].
    rewrite Hnext. rewrite <- E. now apply IH.
Qed.

Lemma member_stmt_is_welem dt cls dcls pre post b items last e :
  forallb spec_kw pre = true -> forallb spec_kw post = true -> has T_extern (pre ++ post) = false ->
  Forall mditem_ok items -> mditem_ok last -> mlast_ok last e ->
  is_decl_head (hd (nm_tok b) (kw_toks pre)) ->
  let m := apply_kws (pre ++ post) mods0 in
  let bt := TBase b (m_const m) (m_volatile m) in
  welem_ok (S (length items)) dt cls dcls
    (WStmt (kw_toks pre ++ nm_tok b :: kw_toks post ++ mitems_toks items last e)
           (CMembers m (map (mditem_entry bt) items ++ [mlast_entry bt last e]))).
Proof.
  intros Hpre Hpost Hex Hall Hlast Hle Hh m bt.
  destruct (member_stmt_is_elem cls dcls pre post b items last e Hpre Hpost Hex Hall Hlast Hle Hh) as [A B].
  cbn [welem_ok]. split; [exact A|]. split; [|exact B].
  intros rest. unfold class_stmt_head. rewrite <- app_assoc. cbn [app].
  now rewrite (ckey_loop_specs_name pre mods0 b _ Hpre).
Qed.

(* `struct Out { int a ; private : class In : Base { Foo b ; public : Foo c ; } ; int d ; struct Fw ; } ;`
   (ids: Out 5, In 6, Base 7, int 8, Foo 9, a 1, b 2, c 3, d 4, Fw 10): `d` is private -- the access of Out at that point, not the
   public of In's last specifier, nor In's default *)
Example nested_run :
  body 12 3 80 [] None 0 0
    ([ktok T_struct; mkTk T_NAME 5; ktok LBRACE; mkTk T_NAME 8; mkTk T_NAME 1; ktok SEMI; ktok T_private; ktok COLONb;
      ktok T_class; mkTk T_NAME 6; ktok T_LIT_58; mkTk T_NAME 7; ktok LBRACE; mkTk T_NAME 9; mkTk T_NAME 2; ktok SEMI;
      ktok T_public; ktok COLONb; mkTk T_NAME 9; mkTk T_NAME 3; ktok SEMI; ktok RBRACE; ktok SEMI;
      mkTk T_NAME 8; mkTk T_NAME 4; ktok SEMI; ktok T_struct; mkTk T_NAME 10; ktok SEMI; ktok RBRACE; ktok SEMI])
  = DOk ([IClass 0 (mkCD mods0 [T_struct] 5 false false false false []
            [IC T_public (CMembers mods0 [MField (Some 1) (TBase 8 false false) None None]);
             IClass T_private (mkCD mods0 [T_class] 6 false false false false [mkBase T_private 7 false false]
               [IC T_private (CMembers mods0 [MField (Some 2) (TBase 9 false false) None None]);
                IC T_public (CMembers mods0 [MField (Some 3) (TBase 9 false false) None None])] FinNone);
             IC T_private (CMembers mods0 [MField (Some 4) (TBase 8 false false) None None]);
             IFwd T_private [T_struct] 10] FinNone)], 0, []).
Proof. vm_compute. reflexivity. Qed.

(* ------------------------------------------------------------------ *)
(* translation units: namespaces (any names, any depth), linkage blocks, class definitions (trees as above), forward
   declarations and declaration statements at namespace scope *)
From CXV Require Import Parse.NsHeader.
From CXV Require Parse.DispatchLang Gen.Dispatch Parse.DispatchExternThms.

Inductive nelem :=
| NEmpty
| NStmt (toks : list tk) (it : nitem)          (* a declaration statement of the statement models *)
| NClassE (w : wclass)
| NFwdE (key name : N)
| NOne (toks : list tk) (it : item)            (* any statement the loop reads in one step at namespace scope (abstract) *)
| NNs (names : list N) (elems : list nelem)    (* namespace a::b { elems }   (no names: the anonymous namespace) *)
| NExternB (l : tk) (elems : list nelem).      (* extern "C" { elems } *)

Fixpoint nelem_toks (e : nelem) : list tk :=
  match e with
  | NEmpty => [ktok SEMI]
  | NStmt toks _ => toks
  | NClassE w => welem_toks (WClass w)
  | NFwdE key name => [ktok key; mkTk T_NAME name; ktok SEMI]
  | NOne toks _ => toks
  | NNs names es => ktok T_namespace :: path_toks names ++ ktok LBRACE :: flat_map nelem_toks es ++ [ktok RBRACE]
  | NExternB l es => ktok T_extern :: l :: ktok LBRACE :: flat_map nelem_toks es ++ [ktok RBRACE]
  end.

Fixpoint nelem_spec (e : nelem) : list item :=
  match e with
  | NEmpty => []
  | NStmt _ it => [INs it]
  | NClassE w => [wclass_spec 0 w]
  | NFwdE key name => [IFwd 0 [key] name]
  | NOne _ it => [it]
  | NNs names es => [INamespace false names (flat_map nelem_spec es)]
  | NExternB l es => [IExtern (kval l) (flat_map nelem_spec es)]
  end.

Definition one_step_ns (n : nat) (dt : list (N * N)) (toks : list tk) (it : item) : Prop :=
  forall rest, exists f0, forall f, (f0 <= f)%nat -> forall k' aid,
    body (S k') n f dt None 0 aid (toks ++ rest)
    = match body k' n f dt None 0 aid rest with
      | DOk (l, a, rr) => DOk (it :: l, a, rr)
      | DErr e => DErr e
      end.

Fixpoint nelem_ok (n : nat) (dt : list (N * N)) (e : nelem) {struct e} : Prop :=
  match e with
  | NEmpty => True
  | NStmt toks it => ns_stmt_ok n toks it /\ (forall rest, class_stmt_head false false (toks ++ rest) = CHNot)
  | NClassE w => welem_ok n dt anon_base anon_base (WClass w)
  | NFwdE key _ => class_key key
  | NOne toks it => one_step_ns n dt toks it
  | NNs _ es => (fix all (l : list nelem) : Prop := match l with [] => True | x :: r => nelem_ok n dt x /\ all r end) es
  | NExternB l es => kty l = T_STRING_LITERAL /\
                     (fix all (l : list nelem) : Prop := match l with [] => True | x :: r => nelem_ok n dt x /\ all r end) es
  end.
Fixpoint nelems_ok (n : nat) (dt : list (N * N)) (l : list nelem) : Prop :=
  match l with [] => True | x :: r => nelem_ok n dt x /\ nelems_ok n dt r end.

Fixpoint nsize (e : nelem) : nat :=
  match e with
  | NClassE w => S (S (esize (WClass w)))
  | NNs _ es | NExternB _ es => S (S ((fix sum (l : list nelem) : nat := match l with [] => O | x :: r => (nsize x + sum r)%nat end) es))
  | _ => 1%nat
  end.
Fixpoint nssize (l : list nelem) : nat := match l with [] => O | x :: r => (nsize x + nssize r)%nat end.

Definition tail_ok (T : list tk) : Prop := match T with [] => True | t :: _ => stop_tok t end.

Lemma body_tail k n f dt ctx acc aid T : tail_ok T -> body (S k) n f dt ctx acc aid T = DOk ([], aid, T).
Proof. destruct T as [|t r]; intros H; [apply body_nil|now apply body_stop]. Qed.

(* one step at namespace scope, at a token that goes to _parse_declarations *)
Lemma body_step_stmt_ns k' n f dt aid t r :
  is_decl_head t -> class_stmt_head false false (t :: r) = CHNot ->
  body (S k') n f dt None 0 aid (t :: r)
  = match ns_decl n f (t :: r) with
    | DErr e => DErr e
    | DOk (it, r') =>
        match body k' n f dt None 0 aid r' with
        | DOk (l, a, rr) => DOk (INs it :: l, a, rr)
        | DErr e => DErr e
        end
    end.
Proof. intros Hh Hc. unfold is_decl_head in Hh. cbn [body]. rewrite Hh, Hc. reflexivity. Qed.

Lemma body_step_fwd_ns k' n f dt aid t r m key nm r1 :
  is_decl_head t -> class_stmt_head false false (t :: r) = CHFwd m key nm r1 ->
  body (S k') n f dt None 0 aid (t :: r)
  = match body k' n f dt None 0 aid r1 with
    | DOk (l, a, rr) => DOk (IFwd 0 key nm :: l, a, rr)
    | DErr e => DErr e
    end.
Proof. intros Hh Hc. unfold is_decl_head in Hh. cbn [body]. rewrite Hh, Hc. reflexivity. Qed.

(* a block opened at namespace scope *)
Lemma body_ns_step k' n f dt aid names X :
  body (S k') n f dt None 0 aid (ktok T_namespace :: path_toks names ++ ktok LBRACE :: X)
  = match body k' n f dt None 0 aid X with
    | DErr e => DErr e
    | DOk (members, aid2, r1) =>
        match r1 with
        | cb :: r2 =>
            if is RBRACE cb then
              match body k' n f dt None 0 aid2 r2 with
              | DOk (l, a, rr) => DOk (INamespace false names members :: l, a, rr)
              | DErr e => DErr e
              end
            else DErr 3
        | [] => DErr 4
        end
    end.
Proof.
  cbn [body]. change (assocN (kty (ktok T_namespace)) tu_table) with (Some H_parse_namespace). cbn iota.
  change (H_parse_namespace =? H_on_block_end) with false. change (H_parse_namespace =? 0) with false.
  rewrite N.eqb_refl. cbn iota. rewrite ns_definition_roundtrip. reflexivity.
Qed.

Lemma body_extern_step k' n f dt aid l X :
  kty l = T_STRING_LITERAL ->
  body (S k') n f dt None 0 aid (ktok T_extern :: l :: ktok LBRACE :: X)
  = match body k' n f dt None 0 aid X with
    | DErr e => DErr e
    | DOk (members, aid2, r1) =>
        match r1 with
        | cb :: r2 =>
            if is RBRACE cb then
              match body k' n f dt None 0 aid2 r2 with
              | DOk (l', a, rr) => DOk (IExtern (kval l) members :: l', a, rr)
              | DErr e => DErr e
              end
            else DErr 3
        | [] => DErr 4
        end
    end.
Proof.
  intros Hl. cbn [body]. change (assocN (kty (ktok T_extern)) tu_table) with (Some H_parse_extern). cbn iota.
  change (H_parse_extern =? H_on_block_end) with false. change (H_parse_extern =? 0) with false.
  change (H_parse_extern =? H_parse_namespace) with false. change (H_parse_extern =? H_parse_inline) with false.
  rewrite N.eqb_refl. cbn iota.
  rewrite (DispatchExternThms.extern_block_opens (ktok T_extern) l (ktok LBRACE) X Hl eq_refl). reflexivity.
Qed.

Lemma nall_ok n dt es :
  (fix all (l : list nelem) : Prop := match l with [] => True | x :: r => nelem_ok n dt x /\ all r end) es -> nelems_ok n dt es.
Proof. induction es as [|x r IH]; [intros; exact I|]. intros [A B]. split; [exact A|now apply IH]. Qed.
Lemma nsum_eq es :
  (fix sum (l : list nelem) : nat := match l with [] => O | x :: r => (nsize x + sum r)%nat end) es = nssize es.
Proof. induction es as [|x r IH]; [reflexivity|]. cbn [nssize]. now rewrite <- IH. Qed.

Lemma body_nelems : forall k n dt (es : list nelem) aid T,
  (nssize es < k)%nat -> nelems_ok n dt es -> tail_ok T ->
  ev (fun f => body k n f dt None 0 aid (flat_map nelem_toks es ++ T)) (DOk (flat_map nelem_spec es, aid, T)).
Proof.
  induction k as [|k' IH]; intros n dt es aid T Hk Hok HT; [lia|].
  destruct es as [|e q].
  - exists 0%nat. intros f _. cbn [flat_map app]. now apply body_tail.
  - cbn [nelems_ok] in Hok. destruct Hok as [He Hq]. cbn [nssize] in Hk.
    assert (He1 : (1 <= nsize e)%nat) by (destruct e; cbn [nsize]; lia).
    assert (Hk' : (nssize q < k')%nat) by lia.
    cbn [flat_map]. rewrite <- app_assoc.
    destruct (IH n dt q aid T Hk' Hq HT) as [f2 H2].
    remember (flat_map nelem_toks q ++ T) as TAIL.
    destruct e as [|toks it|w|key name|toks it|names es'|l es']; cbn [nelem_toks nelem_ok nelem_spec] in *.
    + exists f2. intros f Hge. cbn [app body].
      change (assocN (kty (ktok SEMI)) tu_table) with (Some 0). cbn iota.
      change (0 =? H_on_block_end) with false. rewrite N.eqb_refl. cbn iota. now apply H2.
    + destruct He as [[(t & r & E & Hh) Hdec] Hnot]. subst toks.
      destruct (Hdec TAIL) as [f1 H1].
      exists (Nat.max f1 f2). intros f Hge.
      change ((t :: r) ++ TAIL) with (t :: r ++ TAIL). rewrite (body_step_stmt_ns k' n f dt aid t (r ++ TAIL) Hh (Hnot TAIL)).
      change (t :: r ++ TAIL) with ((t :: r) ++ TAIL). rewrite H1 by lia. rewrite H2 by lia. reflexivity.
    + destruct w as [key name vs ws es']. cbn [welem_ok] in He. destruct He as (Hkey & Hws & Hvs & Hin).
      assert (Hin' : welems_ok n dt name (dtor_of dt name) es').
      { clear - Hin. induction es' as [|x r IHr]; [exact I|]. destruct Hin as [A B]. split; [exact A|now apply IHr]. }
      assert (E : (fix sum (l : list welem) : nat := match l with [] => O | x :: r => (esize x + sum r)%nat end) es' = ssize es').
      { clear. induction es' as [|x r IHr]; [reflexivity|]. cbn [ssize]. now rewrite <- IHr. }
      assert (Hsz : (ssize es' < k')%nat) by (cbn [nsize esize] in Hk; rewrite E in Hk; lia).
      assert (Hrb : stop_tok (ktok RBRACE)) by reflexivity.
      destruct (body_elems k' n dt es' name (dtor_of dt name) (default_access [key]) aid (ktok RBRACE) (ktok SEMI :: TAIL) Hsz Hin' Hrb) as [f1 H1].
      exists (Nat.max f1 f2). intros f Hge. cbn [welem_toks].
      replace ((ktok key :: mkTk T_NAME name :: vs_toks vs ++ bases_toks ws ++ ktok LBRACE :: flat_map welem_toks es' ++ [ktok RBRACE; ktok SEMI]) ++ TAIL)
        with (ktok key :: mkTk T_NAME name :: vs_toks vs ++ bases_toks ws ++ ktok LBRACE :: (flat_map welem_toks es' ++ ktok RBRACE :: ktok SEMI :: TAIL)).
      2:{ cbn [app]. rewrite <- !app_assoc. cbn [app]. rewrite <- !app_assoc. reflexivity. }
      rewrite (body_class_step_ns k' n f dt aid _ _ _ _ _ _ _ _ _ (class_key_decl_head key Hkey) (class_head_written key name vs ws _ Hkey Hws Hvs)).
      rewrite H1 by lia. change (is RBRACE (ktok RBRACE)) with true. cbn iota.
      change (m_const mods0) with false. change (m_volatile mods0) with false.
      rewrite (finish_semicolon n f false false (negb (key_is T_class [key])) mods0 anon_base anon_base name false false (ktok SEMI) TAIL eq_refl).
      cbn [andb]. rewrite H2 by lia. rewrite wclass_spec_eq. reflexivity.
    + exists f2. intros f Hge. cbn [app].
      rewrite (body_step_fwd_ns k' n f dt aid _ _ _ _ _ _ (class_key_decl_head key He) (class_fwd_written key name TAIL He)).
      rewrite H2 by lia. reflexivity.
    + destruct (He TAIL) as [f1 H1].
      exists (Nat.max f1 f2). intros f Hge. rewrite (H1 f ltac:(lia)). rewrite H2 by lia. reflexivity.
    + apply nall_ok in He. cbn [nsize] in Hk. rewrite nsum_eq in Hk.
      assert (Hrb : tail_ok (ktok RBRACE :: TAIL)) by reflexivity.
      destruct (IH n dt es' aid (ktok RBRACE :: TAIL) ltac:(lia) He Hrb) as [f1 H1].
      exists (Nat.max f1 f2). intros f Hge.
      replace ((ktok T_namespace :: path_toks names ++ ktok LBRACE :: flat_map nelem_toks es' ++ [ktok RBRACE]) ++ TAIL)
        with (ktok T_namespace :: path_toks names ++ ktok LBRACE :: (flat_map nelem_toks es' ++ ktok RBRACE :: TAIL)).
      2:{ cbn [app]. rewrite <- !app_assoc. cbn [app]. rewrite <- !app_assoc. reflexivity. }
      rewrite body_ns_step. rewrite H1 by lia. change (is RBRACE (ktok RBRACE)) with true. cbn iota.
      rewrite H2 by lia. reflexivity.
    + destruct He as [Hl He]. apply nall_ok in He. cbn [nsize] in Hk. rewrite nsum_eq in Hk.
      assert (Hrb : tail_ok (ktok RBRACE :: TAIL)) by reflexivity.
      destruct (IH n dt es' aid (ktok RBRACE :: TAIL) ltac:(lia) He Hrb) as [f1 H1].
      exists (Nat.max f1 f2). intros f Hge.
      replace ((ktok T_extern :: l :: ktok LBRACE :: flat_map nelem_toks es' ++ [ktok RBRACE]) ++ TAIL)
        with (ktok T_extern :: l :: ktok LBRACE :: (flat_map nelem_toks es' ++ ktok RBRACE :: TAIL)).
      2:{ cbn [app]. rewrite <- !app_assoc. reflexivity. }
      rewrite (body_extern_step k' n f dt aid l _ Hl). rewrite H1 by lia. change (is RBRACE (ktok RBRACE)) with true. cbn iota.
      rewrite H2 by lia. reflexivity.
Qed.

(* a whole translation unit: every statement is reported once, in order, in the scope it is written in *)
Theorem unit_tree n dt (es : list nelem) :
  nelems_ok n dt es ->
  ev (fun f => body (S (nssize es)) n f dt None 0 0 (flat_map nelem_toks es)) (DOk (flat_map nelem_spec es, 0, [])).
Proof.
  intros Hok. destruct (body_nelems (S (nssize es)) n dt es 0 [] ltac:(lia) Hok I) as [f1 H1].
  exists f1. intros f Hge. specialize (H1 f Hge). now rewrite app_nil_r in H1.
Qed.

(* parser-side compositionality: the unit A B reads as the items of A followed by the items of B *)
Corollary unit_concatenation n dt (A B : list nelem) :
  nelems_ok n dt A -> nelems_ok n dt B ->
  ev (fun f => body (S (nssize (A ++ B))) n f dt None 0 0 (flat_map nelem_toks A ++ flat_map nelem_toks B))
     (DOk (flat_map nelem_spec A ++ flat_map nelem_spec B, 0, [])).
Proof.
  intros HA HB.
  assert (Hab : nelems_ok n dt (A ++ B)).
  { clear - HA HB. induction A as [|x r IH]; [exact HB|]. destruct HA as [H1 H2]. split; [exact H1|now apply IH]. }
  pose proof (unit_tree n dt (A ++ B) Hab) as H. now rewrite !flat_map_app in H.
Qed.

(* a declaration statement of the statement theorems is such an element *)
Lemma decl_stmt_is_nelem dt pre post b items last le :
  forallb spec_kw pre = true -> forallb spec_kw post = true ->
  has T_explicit (pre ++ post) = false -> has T_virtual (pre ++ post) = false -> has T_mutable (pre ++ post) = false ->
  Forall ditem_ok items -> ditem_ok last -> last_ok last le ->
  is_decl_head (hd (nm_tok b) (kw_toks pre)) ->
  let m := apply_kws (pre ++ post) mods0 in
  let bt := TBase b (m_const m) (m_volatile m) in
  nelem_ok (S (length items)) dt
    (NStmt (kw_toks pre ++ nm_tok b :: kw_toks post ++ items_toks items last le)
           (NDecls m (map (ditem_entry bt) items ++ [last_entry bt last le]))).
Proof.
  intros Hpre Hpost Hex Hvi Hmu Hall Hlast Hle Hh m bt. cbn [nelem_ok]. split.
  - exact (decl_stmt_is_stmt pre post b items last le Hpre Hpost Hex Hvi Hmu Hall Hlast Hle Hh).
  - intros rest. unfold class_stmt_head. rewrite <- app_assoc. cbn [app].
    now rewrite (ckey_loop_specs_name pre mods0 b _ Hpre).
Qed.

(* `namespace a::b { int x ; extern "C" { struct S { int y ; } ; } } int z ;`   (ids: a 1, b 2, int 8, x 3, "C" 4, S 5, y 6, z 7) *)
Example unit_run :
  body 12 3 80 [] None 0 0
    ([ktok T_namespace; mkTk T_NAME 1; ktok T_DBL_COLON; mkTk T_NAME 2; ktok LBRACE; mkTk T_NAME 8; mkTk T_NAME 3; ktok SEMI;
      ktok T_extern; mkTk T_STRING_LITERAL 4; ktok LBRACE; ktok T_struct; mkTk T_NAME 5; ktok LBRACE; mkTk T_NAME 8; mkTk T_NAME 6; ktok SEMI;
      ktok RBRACE; ktok SEMI; ktok RBRACE; ktok RBRACE; mkTk T_NAME 8; mkTk T_NAME 7; ktok SEMI])
  = DOk ([INamespace false [1; 2]
            [INs (NDecls mods0 [EVar 3 (TBase 8 false false) None]);
             IExtern 4 [IClass 0 (mkCD mods0 [T_struct] 5 false false false false []
                                    [IC T_public (CMembers mods0 [MField (Some 6) (TBase 8 false false) None None])] FinNone)]];
          INs (NDecls mods0 [EVar 7 (TBase 8 false false) None])], 0, []).
Proof. vm_compute. reflexivity. Qed.
